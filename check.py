#!/usr/bin/env python3
"""Driver:  ./check.py <Cxx> [--tier quick|thorough] [--replay <file>] [--rebaseline] [--keep]

exit 0  every obligation of the property verified on the current /repo working tree
exit 1  VIOLATION property=<id> replay=<path>   (a baseline obligation fails for a semantic reason)
exit 2  UNDECIDED (lost anchor, unsupported construct, resource limit, tool failure) – never an alarm
"""
import argparse
import concurrent.futures as cf
import hashlib
import json
import os
import re
import shutil
import subprocess
import sys
import time

VERIF = os.path.dirname(os.path.abspath(__file__))
sys.path.insert(0, os.path.join(VERIF, "tools"))
import extract  # noqa: E402
import verus_run  # noqa: E402
import kani_run  # noqa: E402
from props import PROPS  # noqa: E402

BUILD = os.path.join(VERIF, "build")
BASELINE = os.path.join(VERIF, "baseline", "obligations.json")
KNOWN = os.path.join(VERIF, "known_findings.json")


def load_json(p, default):
    try:
        return json.load(open(p))
    except Exception:
        return default


def short(fn):
    """obligation name: Verus function path without the crate (= unit file) prefix"""
    return fn.split("::", 1)[1] if "::" in fn else fn


def make_canary(unit, meta, text):
    """second copy of the unit in which every extracted exec fn starts with `assert(false)`:
    each of them MUST fail – a function whose `requires` is contradictory (or which is never
    checked) would verify, and the run is then reported as vacuous."""
    b = text.encode("utf-8")
    out, last, names = [], 0, []
    INS = b" proof { assert(false); } "
    shift = 0
    cmeta = {"items": []}
    for it in meta["items"]:
        it2 = dict(it)
        it2["emit_bytes"] = [it["emit_bytes"][0] + shift, it["emit_bytes"][1] + shift]
        cmeta["items"].append(it2)
        if it["kind"] != "fn":
            continue
        seg = b[it["emit_bytes"][0]:it["emit_bytes"][1]].decode("utf-8")
        # mask the inserted (sentinel bracketed) regions: contracts may contain braces
        masked, pos0 = [], 0
        while True:
            a = seg.find(extract.S_OPEN, pos0)
            if a < 0:
                masked.append(seg[pos0:]); break
            e = seg.find(extract.S_CLOSE, a) + len(extract.S_CLOSE)
            masked.append(seg[pos0:a]); masked.append("".join(ch if ch == "\n" else " " * len(ch.encode("utf-8")) for ch in seg[a:e]))
            pos0 = e
        mseg = "".join(masked)
        toks = extract.lex(mseg)
        try:
            he = extract.fn_header_end(toks)
        except Exception:
            continue
        if toks[he].text != "{":
            continue
        pos = it["emit_bytes"][0] + len("".join(t.text for t in toks[:he + 1]).encode("utf-8"))
        out.append(b[last:pos])
        out.append(INS)
        last = pos
        shift += len(INS)
        it2["emit_bytes"][1] += len(INS)
        names.append(it["name"])
    out.append(b[last:])
    path = os.path.join(BUILD, unit + "__canary.rs")
    open(path, "wb").write(b"".join(out))
    return path, names, cmeta


def scan_assumptions(text):
    pats = {"assume(": r"\bassume\s*\(", "admit(": r"\badmit\s*\(", "external_body": r"external_body",
            "assume_specification": r"assume_specification", "verifier::external": r"verifier::external\b(?!_body)",
            "uninterp spec fn": r"\buninterp\s+spec\s+fn", "axiom fn": r"\baxiom\s+fn",
            "exec_allows_no_decreases_clause": r"exec_allows_no_decreases_clause"}
    # strip comments first
    code = re.sub(r"//[^\n]*", "", text)
    return {k: len(re.findall(p, code)) for k, p in pats.items()}


def run_unit(unit, conf):
    """returns dict with status: ok | violation | undecided and details"""
    r = {"unit": unit, "status": "ok", "reason": "", "obligations": {}, "functions_under_contract": [],
         "assumption_scan": {}, "wall_s": 0, "failed": {}, "canary": {}}
    t0 = time.time()
    try:
        meta = extract.build_unit(unit, BUILD)
    except extract.ExtractError as e:
        r.update(status="undecided", reason=f"extraction: {e}")
        return r
    path = meta["file"]
    text = open(path, encoding="utf-8").read()
    r["assumption_scan"] = scan_assumptions(text)
    r["functions_under_contract"] = [
        {"file": it["file"], "item": (it["in"] + " :: " if it["in"] else "") + it["kind"] + " " + it["orig_name"],
         "sha256": it["sha256"][:16], "src_bytes": it["src_bytes"], "rules": it["rules"],
         "contract": it["contract"][:600]}
        for it in meta["items"]]
    canary_path, canary_names, cmeta = make_canary(unit, meta, text)
    with cf.ThreadPoolExecutor(2) as ex:
        # rlimit 50: a few index-heavy loops sit close to Verus' default of 10 and would flip with unrelated edits
        f1 = ex.submit(verus_run.run_verus, path, conf.get("rlimit", 50))
        f2 = ex.submit(verus_run.run_verus, canary_path, conf.get("rlimit", 50))
        res, cres = f1.result(), f2.result()
    r["checker_cmd"] = res["cmd"]
    r["verus_wall_s"] = res["wall_s"]
    r["smt_total_ms"] = res.get("smt_total_ms", 0)
    failed = verus_run.attribute(res, meta, text)
    r["failed"] = failed
    r["raw_err"] = res["raw_err"]
    axiom_canaries = {}
    for fn, ent in res["functions"].items():
        if short(fn).split("::")[-1].startswith("canary_"):
            axiom_canaries[short(fn)] = ent      # hand-written `ensures false` lemmas over the prelude axioms: must FAIL
        else:
            r["obligations"][short(fn)] = ent
    # canary evaluation: every canary'd fn must have an 'assertion failed'
    cfailed = verus_run.attribute(cres, cmeta, open(canary_path, encoding="utf-8").read())
    vac = [n for n in canary_names if not any(d["message"].startswith("assertion failed") for d in cfailed.get(n, []))]
    vac += [n for n, e in axiom_canaries.items() if e["success"]]
    r["canary"] = {"functions": len(canary_names), "failed_as_required": len(canary_names) - len([v for v in vac if v in canary_names]),
                   "axiom_canaries": {n: (not e["success"]) for n, e in axiom_canaries.items()}, "vacuous": vac,
                   "compile_error": cres["compile_error"]}
    r["wall_s"] = round(time.time() - t0, 2)
    # classification
    if res["compile_error"] or res["vir_error"] or (res["verified"] == 0 and res["errors"] == 0):
        msgs = "; ".join(d["message"] for d in res["diagnostics"][:3]) or res["raw_err"][-400:]
        r.update(status="undecided", reason="verifier rejected the emitted unit (type error / unsupported construct): " + msgs[:600])
        return r
    return r


def decide_unit(r, baseline):
    """compare a unit result with the committed baseline"""
    if r["status"] == "undecided":
        return
    base = baseline.get(r["unit"], [])
    now = r["obligations"]
    lost = [b for b in base if b not in now]
    bad = [b for b in base if b in now and not now[b]["success"]]
    newbad = [n for n in now if n not in base and not now[n]["success"]]
    r["baseline_n"] = len(base)
    r["violations"] = []
    if bad:
        for b in bad:
            leaf = b.split("::")[-1]
            diags = r["failed"].get(leaf) or r["failed"].get("hw:" + leaf) or []
            if not diags:
                # fall back: any diagnostics at all
                diags = [d for v in r["failed"].values() for d in v]
            sem = [d for d in diags if d["class"] == "semantic"]
            if sem:
                r["violations"].append({"obligation": r["unit"] + "::" + b, "diagnostics": sem})
            else:
                r["status"] = "undecided"
                r["reason"] += f" obligation {b} failed without a semantic verifier error (resource limit?);"
        if r["violations"]:
            r["status"] = "violation"
    if r["status"] == "ok" and lost:
        r.update(status="undecided", reason=f"obligations lost w.r.t. baseline: {lost[:5]}")
    if r["status"] == "ok" and newbad:
        r.update(status="undecided", reason=f"obligations not in baseline fail: {newbad[:5]}")
    if r["status"] == "ok" and (r["canary"]["vacuous"] or r["canary"]["compile_error"]):
        r.update(status="undecided", reason=f"vacuity guard: canary did not fail for {r['canary']['vacuous'][:5]}")


def write_replay(pid, r, v, kani_cex=None):
    rdir = os.environ.get("VERIF_REPLAY_DIR") or os.path.join(VERIF, "replay")
    os.makedirs(rdir, exist_ok=True)
    name = re.sub(r"[^\w.-]+", "_", v["obligation"])
    path = os.path.join(rdir, f"{pid}-{name}.txt")
    with open(path, "w") as f:
        f.write(f"property: {pid}\nfailed obligation: {v['obligation']}\nengine: Verus (z3)\ncommand: {r.get('checker_cmd')}\n")
        f.write("verifier output:\n")
        for d in v["diagnostics"]:
            f.write(d["rendered"] + "\n")
        if kani_cex:
            f.write("\n---- concrete counterexample (Kani/CBMC), replayed on the real code ----\n" + kani_cex + "\n")
        else:
            f.write("\nno-failing-input-found: Verus gives no counterexample; no Kani harness produced one for this obligation\n")
    return path


def main():
    ap = argparse.ArgumentParser()
    ap.add_argument("prop")
    ap.add_argument("--tier", default=os.environ.get("VERIF_TIER", "quick"))
    ap.add_argument("--replay")
    ap.add_argument("--rebaseline", action="store_true")
    ap.add_argument("--no-kani", action="store_true")
    a = ap.parse_args()
    pid = a.prop
    seed = int(os.environ.get("VERIF_SEED", "0") or 0)
    if a.replay:
        print(open(a.replay).read())
        print("re-running the check that produced it:")
    if pid == "ALL":
        rc = 0
        for p in PROPS:
            rc = max(rc, subprocess.call([sys.executable, os.path.abspath(__file__), p, "--tier", a.tier]
                                         + (["--rebaseline"] if a.rebaseline else []) + (["--no-kani"] if a.no_kani else [])))
        sys.exit(rc)
    conf = PROPS[pid]
    t0 = time.time()
    global BUILD
    BUILD = os.path.join(BUILD, pid + os.environ.get("VERIF_BUILD_TAG", ""))   # per-property build directory: checks may run concurrently
    shutil.rmtree(BUILD, ignore_errors=True)
    os.makedirs(BUILD, exist_ok=True)
    baseline = load_json(BASELINE, {})
    known = load_json(KNOWN, {"findings": []})
    units = conf["units"]
    with cf.ThreadPoolExecutor(max_workers=min(8, max(1, len(units)))) as ex:
        results = list(ex.map(lambda u: run_unit(u, conf.get("unit_conf", {}).get(u, {})), units))
    if a.rebaseline:
        for r in results:
            if r["status"] == "undecided":
                print(f"cannot baseline unit {r['unit']}: {r['reason']}")
                continue
            baseline[r["unit"]] = sorted(n for n, e in r["obligations"].items() if e["success"])
            bad = [n for n, e in r["obligations"].items() if not e["success"]]
            if bad:
                print(f"unit {r['unit']}: NOT in baseline (failing now): {bad}")
        os.makedirs(os.path.dirname(BASELINE), exist_ok=True)
        json.dump(baseline, open(BASELINE, "w"), indent=1, sort_keys=True)
    for r in results:
        decide_unit(r, baseline)

    # ---- Kani harnesses
    kres = []
    harnesses = [h for h in conf.get("kani", []) if (a.tier == "thorough" or h.get("quick"))]
    if harnesses and not a.no_kani:
        kres = kani_run.run_harnesses(pid, harnesses, jobs=conf.get("kani_jobs", 4))

    # ---- verdict
    violations, undecided, known_lines = [], [], []
    for r in results:
        if r["status"] == "violation":
            for v in r["violations"]:
                violations.append((r, v))
        elif r["status"] == "undecided":
            undecided.append(f"unit={r['unit']} reason={r['reason']}")
    kviol = []
    for k in kres:
        if k["status"] == "failed":
            kf = [f for f in known["findings"] if f.get("status") == "known" and f.get("property") == pid
                  and f.get("obligation") == "kani::" + k["harness"]]
            if kf:
                known_lines.append(f"KNOWN-FINDING: property={pid} {kf[0]['text']}")
            else:
                kviol.append(k)
        elif k["status"] == "undecided" and not k.get("environmental"):
            undecided.append(f"kani harness={k['harness']} reason={k['reason']}")
    rc = 0
    out_lines = []
    vcount = 0
    for (r, v) in violations:
        kf = [f for f in known["findings"] if f.get("status") == "known" and f.get("property") == pid
              and f.get("obligation") == v["obligation"]]
        if kf:
            known_lines.append(f"KNOWN-FINDING: property={pid} {kf[0]['text']}")
            continue
        cex = kani_run.counterexample_for(pid, v["obligation"], conf) if not a.no_kani else None
        path = write_replay(pid, r, v, cex)
        vcount += 1
        tail = "" if cex else " no-failing-input-found"
        out_lines.append(f"VIOLATION property={pid} replay={path} obligation={v['obligation']}{tail}")
        rc = 1
    for k in kviol:
        path = kani_run.write_replay(pid, k)
        vcount += 1
        tail = "" if k.get("cex") else " no-failing-input-found"
        out_lines.append(f"VIOLATION property={pid} replay={path} obligation=kani::{k['harness']}{tail}")
        rc = 1
    if rc == 0 and undecided:
        rc = 2
    # ---- evidence
    obligations = sum(len(r["obligations"]) for r in results)
    discharged = sum(1 for r in results for e in r["obligations"].values() if e["success"])
    k_complete = [k for k in kres if k.get("complete") and not k.get("probe")]
    k_bounded = [k for k in kres if not k.get("complete") and not k.get("probe")]
    k_probes = [k for k in kres if k.get("probe")]   # known-finding probes: never counted as obligations
    obligations += len(k_complete)
    discharged += sum(1 for k in k_complete if k["status"] == "ok")
    samples = []
    for r in results:
        for fu in r["functions_under_contract"][:40]:
            if fu["contract"]:
                samples.append({"unit": r["unit"], "function": fu["item"], "file": fu["file"], "contract": fu["contract"][:300]})
    assumptions = list(conf.get("assumptions", []))
    for r in results:
        sc = r.get("assumption_scan", {})
        if sc:
            assumptions.append(f"unit {r['unit']}: mechanical scan of the emitted file: " + ", ".join(f"{k}×{v}" for k, v in sc.items() if v))
    ev = {
        "property_id": pid, "tier": a.tier, "seed": seed, "level": "proof",
        "coverage": {
            "obligations": obligations, "discharged": discharged,
            "checker_cmd": "; ".join(sorted({r.get("checker_cmd", "") for r in results if r.get("checker_cmd")})) or "verus <unit>.rs --output-json",
            "trusted_base": conf.get("trusted_base", []) + ["Verus 0.2026.09.13 + z3", "tools/extract.py rewrite rules (DESIGN §2.2)", "rustc front end"],
            "backend": "z3 via Verus (unbounded); CaDiCaL via CBMC for Kani harnesses",
            "units": [{"unit": r["unit"], "status": r["status"], "reason": r["reason"], "wall_s": r["wall_s"],
                       "smt_ms": r.get("smt_total_ms"), "obligations": {n: {"ok": e["success"], "ms": round(e["time_ms"], 1), "rlimit": e["rlimit"]}
                                                                         for n, e in r["obligations"].items()},
                       "canary": r["canary"], "functions_under_contract": r["functions_under_contract"]} for r in results],
            "kani_complete": [{k2: k[k2] for k2 in ("harness", "status", "wall_s", "bound", "what")} for k in k_complete],
            "bounded_obligations": [{k2: k[k2] for k2 in ("harness", "status", "wall_s", "bound", "what")} for k in k_bounded],
            "known_finding_probes": [{k2: k[k2] for k2 in ("harness", "status", "wall_s", "what")} for k in k_probes],
            "undecided": undecided,
            "samples": samples[:25] or [{"note": "no extracted function with a contract"}],
            "not_covered": conf.get("not_covered", []),
            "extraction_drops": conf.get("drops", []) + ["doc comments and non-cfg attributes", "bodies of callees outside the unit (assumed contracts, see assumptions)"],
            "explanation": conf.get("scope", ""),
        },
        "assumptions": assumptions,
        "wall_s": round(time.time() - t0, 2),
        "violations": vcount,
    }
    evdir = os.environ.get("VERIF_EVIDENCE_DIR") or os.path.join(VERIF, "evidence")   # redirected only by tools/seed_eval.py
    os.makedirs(evdir, exist_ok=True)
    if a.no_kani and harnesses:
        # a development run without the Kani part: never overwrite the evidence of a property that has Kani harnesses
        print(f"{pid}: --no-kani: evidence file left untouched (property has Kani harnesses)")
    else:
        json.dump(ev, open(os.path.join(evdir, pid + ".json"), "w"), indent=1)
    for l in known_lines:
        print(l)
    for l in out_lines:
        print(l)
    for u in undecided:
        print(f"UNDECIDED property={pid} {u}")
    nfn = sum(len([f for f in r["functions_under_contract"]]) for r in results)
    print(f"{pid} tier={a.tier}: {discharged}/{obligations} obligations discharged over {len(results)} units "
          f"({nfn} extracted items), {len(k_bounded)} bounded Kani harnesses, {round(time.time() - t0, 1)} s, exit {rc}")
    sys.exit(rc)


if __name__ == "__main__":
    main()
