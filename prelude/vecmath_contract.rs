// ===== prelude/vecmath_contract.rs (hand written: the contracts of algebra/vecmath.rs) =====
// Element-wise operations are specified exactly (entry by entry, in terms of the float symbols).
// Reductions are specified as the left folds the code performs, in the float symbols (no arithmetic assumption);
// the definitions are opaque: a unit that only passes the values around never unfolds them.
// Unit `vecmath` verifies the real bodies against this trait; every other unit uses the same trait with assumed bodies
// (prelude/vecmath_assumed.rs), i.e. relies on contracts discharged elsewhere, not on unchecked ones.
pub open spec fn vm_len2(a: Seq<F>, b: Seq<F>) -> int { if a.len() <= b.len() { a.len() as int } else { b.len() as int } }
pub open spec fn fold_dot(a: Seq<F>, b: Seq<F>, k: int) -> F decreases k { if k <= 0 { f_zero() } else { f_add(fold_dot(a, b, k - 1), f_mul(a[k - 1], b[k - 1])) } }
pub open spec fn fold_sum(a: Seq<F>, k: int) -> F decreases k { if k <= 0 { f_zero() } else { f_add(fold_sum(a, k - 1), a[k - 1]) } }
pub open spec fn fold_ss(a: Seq<F>, b: Seq<F>, k: int) -> F decreases k {
    if k <= 0 { f_zero() } else { f_add(fold_ss(a, b, k - 1), f_mul(f_mul(a[k - 1], b[k - 1]), f_mul(a[k - 1], b[k - 1]))) } }
pub open spec fn fold_maxabs(a: Seq<F>, k: int) -> F decreases k { if k <= 0 { f_zero() } else { f_max(fold_maxabs(a, k - 1), f_abs(a[k - 1])) } }
pub open spec fn fold_maxabs2(a: Seq<F>, b: Seq<F>, k: int) -> F decreases k { if k <= 0 { f_zero() } else { f_max(fold_maxabs2(a, b, k - 1), f_abs(f_mul(a[k - 1], b[k - 1]))) } }
pub open spec fn fold_min(a: Seq<F>, k: int) -> F decreases k { if k <= 0 { f_inf() } else { f_min(fold_min(a, k - 1), a[k - 1]) } }
pub open spec fn fold_max(a: Seq<F>, k: int) -> F decreases k { if k <= 0 { f_neg(f_inf()) } else { f_max(fold_max(a, k - 1), a[k - 1]) } }
#[verifier::opaque] pub open spec fn vm_dot(a: Seq<F>, b: Seq<F>) -> F { fold_dot(a, b, vm_len2(a, b)) }
#[verifier::opaque] pub open spec fn vm_sumsq(a: Seq<F>) -> F { fold_dot(a, a, a.len() as int) }
#[verifier::opaque] pub open spec fn vm_norm(a: Seq<F>) -> F { f_sqrt(fold_dot(a, a, a.len() as int)) }
// norm_inf: NaN as soon as an element is NaN, else the running max of the absolute values
#[verifier::opaque] pub open spec fn vm_norm_inf(a: Seq<F>) -> F {
    if exists|i: int| 0 <= i < a.len() && f_is_nan(#[trigger] a[i]) { f_nan() } else { fold_maxabs(a, a.len() as int) } }
#[verifier::opaque] pub open spec fn vm_norm_scaled(a: Seq<F>, b: Seq<F>) -> F { f_sqrt(fold_ss(a, b, vm_len2(a, b))) }
#[verifier::opaque] pub open spec fn vm_norm_inf_scaled(a: Seq<F>, b: Seq<F>) -> F { fold_maxabs2(a, b, vm_len2(a, b)) }
#[verifier::opaque] pub open spec fn vm_minimum(a: Seq<F>) -> F { fold_min(a, a.len() as int) }
#[verifier::opaque] pub open spec fn vm_maximum(a: Seq<F>) -> F { fold_max(a, a.len() as int) }
#[verifier::opaque] pub open spec fn vm_mean(a: Seq<F>) -> F { if a.len() == 0 { f_zero() } else { f_div(fold_sum(a, a.len() as int), f_from_usize(a.len() as usize)) } }
#[verifier::opaque] pub open spec fn vm_is_finite(a: Seq<F>) -> bool { forall|i: int| 0 <= i < a.len() ==> f_is_finite(#[trigger] a[i]) }

pub trait VectorMath {
    spec fn vw(&self) -> Seq<F>;
    // copy_from_slice: panics on a length mismatch
    fn copy_from(&mut self, src: &Self) -> (r: &mut Self)
        requires old(self).vw().len() == src.vw().len(),
        ensures r.vw() == src.vw(), final(self).vw() == final(r).vw();
    fn set(&mut self, c: F) -> (r: &mut Self)
        ensures r.vw().len() == old(self).vw().len(),
            forall|i: int| 0 <= i < old(self).vw().len() ==> #[trigger] r.vw()[i] == c,
            final(self).vw() == final(r).vw();
    fn scale(&mut self, c: F) -> (r: &mut Self)
        ensures r.vw().len() == old(self).vw().len(),
            forall|i: int| 0 <= i < old(self).vw().len() ==> #[trigger] r.vw()[i] == f_mul(old(self).vw()[i], c),
            final(self).vw() == final(r).vw();
    fn negate(&mut self) -> (r: &mut Self)
        ensures r.vw().len() == old(self).vw().len(),
            forall|i: int| 0 <= i < old(self).vw().len() ==> #[trigger] r.vw()[i] == f_neg(old(self).vw()[i]),
            final(self).vw() == final(r).vw();
    fn recip(&mut self) -> (r: &mut Self)
        ensures r.vw().len() == old(self).vw().len(),
            forall|i: int| 0 <= i < old(self).vw().len() ==> #[trigger] r.vw()[i] == f_recip(old(self).vw()[i]),
            final(self).vw() == final(r).vw();
    fn translate(&mut self, c: F) -> (r: &mut Self)
        ensures r.vw().len() == old(self).vw().len(),
            forall|i: int| 0 <= i < old(self).vw().len() ==> #[trigger] r.vw()[i] == f_add(old(self).vw()[i], c),
            final(self).vw() == final(r).vw();
    // applies op to every element in place
    fn scalarop<OP: Fn(F) -> F>(&mut self, op: OP) -> (r: &mut Self)
        requires forall|x: F| #![trigger op.requires((x,))] op.requires((x,)),
        ensures r.vw().len() == old(self).vw().len(),
            forall|i: int| 0 <= i < old(self).vw().len() ==> op.ensures((old(self).vw()[i],), #[trigger] r.vw()[i]),
            final(self).vw() == final(r).vw();
    // zip: silently stops at the shorter operand
    fn scalarop_from<OP: Fn(F) -> F>(&mut self, op: OP, v: &Self) -> (r: &mut Self)
        requires forall|x: F| #![trigger op.requires((x,))] op.requires((x,)),
        ensures r.vw().len() == old(self).vw().len(),
            forall|i: int| 0 <= i < old(self).vw().len() ==>
                (if i < v.vw().len() { op.ensures((v.vw()[i],), #[trigger] r.vw()[i]) } else { r.vw()[i] == old(self).vw()[i] }),
            final(self).vw() == final(r).vw();
    fn rsqrt(&mut self) -> (r: &mut Self)
        ensures r.vw().len() == old(self).vw().len(),
            forall|i: int| 0 <= i < old(self).vw().len() ==> #[trigger] r.vw()[i] == f_recip(f_sqrt(old(self).vw()[i])),
            final(self).vw() == final(r).vw();
    // zip: silently stops at the shorter operand
    fn hadamard(&mut self, y: &Self) -> (r: &mut Self)
        ensures r.vw().len() == old(self).vw().len(),
            forall|i: int| 0 <= i < old(self).vw().len() ==> #[trigger] r.vw()[i] ==
                (if i < y.vw().len() { f_mul(old(self).vw()[i], y.vw()[i]) } else { old(self).vw()[i] }),
            final(self).vw() == final(r).vw();
    // assert_eq! on the lengths
    fn axpby(&mut self, a: F, x: &Self, b: F) -> (r: &mut Self)
        requires old(self).vw().len() == x.vw().len(),
        ensures r.vw().len() == old(self).vw().len(),
            forall|i: int| 0 <= i < old(self).vw().len() ==> #[trigger] r.vw()[i] ==
                f_add(f_mul(a, x.vw()[i]), f_mul(b, old(self).vw()[i])),
            final(self).vw() == final(r).vw();
    fn waxpby(&mut self, a: F, x: &Self, b: F, y: &Self) -> (r: &mut Self)
        requires old(self).vw().len() == x.vw().len(), old(self).vw().len() == y.vw().len(),
        ensures r.vw().len() == old(self).vw().len(),
            forall|i: int| 0 <= i < old(self).vw().len() ==> #[trigger] r.vw()[i] ==
                f_add(f_mul(a, x.vw()[i]), f_mul(b, y.vw()[i])),
            final(self).vw() == final(r).vw();
    fn dot(&self, y: &Self) -> (r: F) ensures r == vm_dot(self.vw(), y.vw());
    fn sum(&self) -> (r: F) ensures r == fold_sum(self.vw(), self.vw().len() as int);
    fn sumsq(&self) -> (r: F) ensures r == vm_sumsq(self.vw());
    fn norm(&self) -> (r: F) ensures r == vm_norm(self.vw());
    fn norm_inf(&self) -> (r: F) ensures r == vm_norm_inf(self.vw());
    // assert_eq! on the lengths
    fn norm_scaled(&self, v: &Self) -> (r: F)
        requires self.vw().len() == v.vw().len(),
        ensures r == vm_norm_scaled(self.vw(), v.vw());
    // assert_eq! on the lengths
    fn norm_inf_scaled(&self, v: &Self) -> (r: F)
        requires self.vw().len() == v.vw().len(),
        ensures r == vm_norm_inf_scaled(self.vw(), v.vw());
    fn minimum(&self) -> (r: F) ensures r == vm_minimum(self.vw());
    fn maximum(&self) -> (r: F) ensures r == vm_maximum(self.vw());
    fn mean(&self) -> (r: F) ensures r == vm_mean(self.vw());
    fn is_finite(&self) -> (r: bool) ensures r == vm_is_finite(self.vw());
}
// ===== end prelude/vecmath_contract.rs =====
