// ===== prelude/float_real_axioms.rs (hand written => ASSUMED): the F-real model =====
// Adds to float_opaque.rs a real-valued view v() and ADMITTED axioms that read every float operation as the exact
// real operation.  "machine arithmetic treated as mathematical; NaN / inf / rounding not modelled".  Used only where
// the property is an algebraic identity or inequality.  Every axiom is listed; canary_real_axioms must FAIL.
impl F { pub uninterp spec fn v(self) -> real; }
pub open spec fn rmax(a: real, b: real) -> real { if a >= b { a } else { b } }
pub open spec fn rmin(a: real, b: real) -> real { if a <= b { a } else { b } }
pub open spec fn rabs(a: real) -> real { if a >= 0real { a } else { -a } }
pub mod real_ax {
    use super::*;
    pub broadcast proof fn ax_add(a: F, b: F) ensures #[trigger] f_add(a, b).v() == a.v() + b.v() { admit(); }
    pub broadcast proof fn ax_sub(a: F, b: F) ensures #[trigger] f_sub(a, b).v() == a.v() - b.v() { admit(); }
    pub broadcast proof fn ax_mul(a: F, b: F) ensures #[trigger] f_mul(a, b).v() == a.v() * b.v() { admit(); }
    pub broadcast proof fn ax_div(a: F, b: F) requires b.v() != 0real ensures #[trigger] f_div(a, b).v() == a.v() / b.v() { admit(); }
    pub broadcast proof fn ax_neg(a: F) ensures #[trigger] f_neg(a).v() == -a.v() { admit(); }
    pub broadcast proof fn ax_recip(a: F) requires a.v() != 0real ensures #[trigger] f_recip(a).v() == 1real / a.v() { admit(); }
    pub broadcast proof fn ax_abs(a: F) ensures #[trigger] f_abs(a).v() == rabs(a.v()) { admit(); }
    pub broadcast proof fn ax_max(a: F, b: F) ensures #[trigger] f_max(a, b).v() == rmax(a.v(), b.v()) { admit(); }
    pub broadcast proof fn ax_min(a: F, b: F) ensures #[trigger] f_min(a, b).v() == rmin(a.v(), b.v()) { admit(); }
    pub broadcast proof fn ax_lt(a: F, b: F) ensures #[trigger] f_lt(a, b) == (a.v() < b.v()) { admit(); }
    pub broadcast proof fn ax_le(a: F, b: F) ensures #[trigger] f_le(a, b) == (a.v() <= b.v()) { admit(); }
    pub broadcast proof fn ax_eq(a: F, b: F) ensures #[trigger] f_eq(a, b) == (a.v() == b.v()) { admit(); }
    pub broadcast proof fn ax_zero() ensures #[trigger] f_zero().v() == 0real { admit(); }
    pub broadcast proof fn ax_one() ensures #[trigger] f_one().v() == 1real { admit(); }
    pub broadcast proof fn ax_eps() ensures 0real < #[trigger] f_eps().v() < 1real / 100real { admit(); }
    pub broadcast proof fn ax_lit2() ensures #[trigger] f_lit(2.0f64).v() == 2real { admit(); }
    pub broadcast proof fn ax_lit10() ensures #[trigger] f_lit(10.0f64).v() == 10real { admit(); }
    pub broadcast group real_arith { ax_add, ax_sub, ax_mul, ax_div, ax_neg, ax_recip, ax_abs, ax_max, ax_min, ax_lt, ax_le, ax_eq,
                                     ax_zero, ax_one, ax_eps, ax_lit2, ax_lit10 }
}
pub use real_ax::*;
// vacuity guard for the axiom group: this lemma MUST FAIL (check.py: every fn named canary_* has to be rejected)
pub proof fn canary_real_axioms() ensures false { broadcast use real_arith; }
// ===== end prelude/float_real_axioms.rs =====
