// ===== prelude/vecmath_assumed.rs (hand written => ASSUMED contracts for algebra/vecmath.rs) =====
// The bodies in src/algebra/vecmath.rs are closure / fold / zip based and outside the Verus subset.
// Their contracts are ASSUMED here (listed in the evidence); bounded Kani harnesses cross-check
// instances of them on the real code (C16, thorough tier).
// Element-wise operations are specified exactly (entry by entry, in terms of the float symbols);
// reductions are uninterpreted functions of the operand sequences.
pub uninterp spec fn vm_dot(a: Seq<F>, b: Seq<F>) -> F;
pub uninterp spec fn vm_norm(a: Seq<F>) -> F;
pub uninterp spec fn vm_norm_inf(a: Seq<F>) -> F;
pub uninterp spec fn vm_norm_scaled(a: Seq<F>, b: Seq<F>) -> F;
pub uninterp spec fn vm_sumsq(a: Seq<F>) -> F;
pub uninterp spec fn vm_norm_inf_scaled(a: Seq<F>, b: Seq<F>) -> F;
pub uninterp spec fn vm_minimum(a: Seq<F>) -> F;
pub uninterp spec fn vm_maximum(a: Seq<F>) -> F;
pub uninterp spec fn vm_mean(a: Seq<F>) -> F;
pub uninterp spec fn vm_is_finite(a: Seq<F>) -> bool;

pub trait VectorMath {
    spec fn vw(&self) -> Seq<F>;
    // copy_from_slice: panics on a length mismatch
    fn copy_from(&mut self, src: &Self) -> (r: &mut Self)
        requires old(self).vw().len() == src.vw().len(),
        ensures r.vw() == src.vw(), final(self).vw() == final(r).vw();
    fn set(&mut self, c: F) -> (r: &mut Self)
        ensures r.vw().len() == old(self).vw().len(),
            forall|i: int| 0 <= i < old(self).vw().len() ==> #[trigger] r.vw()[i] == c,
            final(self).vw() == final(r).vw();
    fn scale(&mut self, c: F) -> (r: &mut Self)
        ensures r.vw().len() == old(self).vw().len(),
            forall|i: int| 0 <= i < old(self).vw().len() ==> #[trigger] r.vw()[i] == f_mul(old(self).vw()[i], c),
            final(self).vw() == final(r).vw();
    fn negate(&mut self) -> (r: &mut Self)
        ensures r.vw().len() == old(self).vw().len(),
            forall|i: int| 0 <= i < old(self).vw().len() ==> #[trigger] r.vw()[i] == f_neg(old(self).vw()[i]),
            final(self).vw() == final(r).vw();
    fn recip(&mut self) -> (r: &mut Self)
        ensures r.vw().len() == old(self).vw().len(),
            forall|i: int| 0 <= i < old(self).vw().len() ==> #[trigger] r.vw()[i] == f_recip(old(self).vw()[i]),
            final(self).vw() == final(r).vw();
    fn translate(&mut self, c: F) -> (r: &mut Self)
        ensures r.vw().len() == old(self).vw().len(),
            forall|i: int| 0 <= i < old(self).vw().len() ==> #[trigger] r.vw()[i] == f_add(old(self).vw()[i], c),
            final(self).vw() == final(r).vw();
    // applies op to every element in place
    fn scalarop<OP: Fn(F) -> F>(&mut self, op: OP) -> (r: &mut Self)
        requires forall|x: F| #![trigger op.requires((x,))] op.requires((x,)),
        ensures r.vw().len() == old(self).vw().len(),
            forall|i: int| 0 <= i < old(self).vw().len() ==> op.ensures((old(self).vw()[i],), #[trigger] r.vw()[i]),
            final(self).vw() == final(r).vw();
    // zip: silently stops at the shorter operand
    fn scalarop_from<OP: Fn(F) -> F>(&mut self, op: OP, v: &Self) -> (r: &mut Self)
        requires forall|x: F| #![trigger op.requires((x,))] op.requires((x,)),
        ensures r.vw().len() == old(self).vw().len(),
            forall|i: int| 0 <= i < old(self).vw().len() ==>
                (if i < v.vw().len() { op.ensures((v.vw()[i],), #[trigger] r.vw()[i]) } else { r.vw()[i] == old(self).vw()[i] }),
            final(self).vw() == final(r).vw();
    fn rsqrt(&mut self) -> (r: &mut Self)
        ensures r.vw().len() == old(self).vw().len(),
            forall|i: int| 0 <= i < old(self).vw().len() ==> #[trigger] r.vw()[i] == f_recip(f_sqrt(old(self).vw()[i])),
            final(self).vw() == final(r).vw();
    // zip: silently stops at the shorter operand
    fn hadamard(&mut self, y: &Self) -> (r: &mut Self)
        ensures r.vw().len() == old(self).vw().len(),
            forall|i: int| 0 <= i < old(self).vw().len() ==> #[trigger] r.vw()[i] ==
                (if i < y.vw().len() { f_mul(old(self).vw()[i], y.vw()[i]) } else { old(self).vw()[i] }),
            final(self).vw() == final(r).vw();
    // assert_eq! on the lengths
    fn axpby(&mut self, a: F, x: &Self, b: F) -> (r: &mut Self)
        requires old(self).vw().len() == x.vw().len(),
        ensures r.vw().len() == old(self).vw().len(),
            forall|i: int| 0 <= i < old(self).vw().len() ==> #[trigger] r.vw()[i] ==
                f_add(f_mul(a, x.vw()[i]), f_mul(b, old(self).vw()[i])),
            final(self).vw() == final(r).vw();
    fn waxpby(&mut self, a: F, x: &Self, b: F, y: &Self) -> (r: &mut Self)
        requires old(self).vw().len() == x.vw().len(), old(self).vw().len() == y.vw().len(),
        ensures r.vw().len() == old(self).vw().len(),
            forall|i: int| 0 <= i < old(self).vw().len() ==> #[trigger] r.vw()[i] ==
                f_add(f_mul(a, x.vw()[i]), f_mul(b, y.vw()[i])),
            final(self).vw() == final(r).vw();
    fn dot(&self, y: &Self) -> (r: F) ensures r == vm_dot(self.vw(), y.vw());
    fn sumsq(&self) -> (r: F) ensures r == vm_sumsq(self.vw());
    fn norm(&self) -> (r: F) ensures r == vm_norm(self.vw());
    fn norm_inf(&self) -> (r: F) ensures r == vm_norm_inf(self.vw());
    // assert_eq! on the lengths
    fn norm_scaled(&self, v: &Self) -> (r: F)
        requires self.vw().len() == v.vw().len(),
        ensures r == vm_norm_scaled(self.vw(), v.vw());
    // assert_eq! on the lengths
    fn norm_inf_scaled(&self, v: &Self) -> (r: F)
        requires self.vw().len() == v.vw().len(),
        ensures r == vm_norm_inf_scaled(self.vw(), v.vw());
    fn minimum(&self) -> (r: F) ensures r == vm_minimum(self.vw());
    fn maximum(&self) -> (r: F) ensures r == vm_maximum(self.vw());
    fn mean(&self) -> (r: F) ensures r == vm_mean(self.vw());
    fn is_finite(&self) -> (r: bool) ensures r == vm_is_finite(self.vw());
}
impl VectorMath for [F] {
    open spec fn vw(&self) -> Seq<F> { self@ }
    #[verifier::external_body] fn copy_from(&mut self, src: &[F]) -> (r: &mut Self) { unimplemented!() }
    #[verifier::external_body] fn set(&mut self, c: F) -> (r: &mut Self) { unimplemented!() }
    #[verifier::external_body] fn scale(&mut self, c: F) -> (r: &mut Self) { unimplemented!() }
    #[verifier::external_body] fn negate(&mut self) -> (r: &mut Self) { unimplemented!() }
    #[verifier::external_body] fn recip(&mut self) -> (r: &mut Self) { unimplemented!() }
    #[verifier::external_body] fn translate(&mut self, c: F) -> (r: &mut Self) { unimplemented!() }
    #[verifier::external_body] fn scalarop<OP: Fn(F) -> F>(&mut self, op: OP) -> (r: &mut Self) { unimplemented!() }
    #[verifier::external_body] fn scalarop_from<OP: Fn(F) -> F>(&mut self, op: OP, v: &[F]) -> (r: &mut Self) { unimplemented!() }
    #[verifier::external_body] fn rsqrt(&mut self) -> (r: &mut Self) { unimplemented!() }
    #[verifier::external_body] fn hadamard(&mut self, y: &[F]) -> (r: &mut Self) { unimplemented!() }
    #[verifier::external_body] fn axpby(&mut self, a: F, x: &[F], b: F) -> (r: &mut Self) { unimplemented!() }
    #[verifier::external_body] fn waxpby(&mut self, a: F, x: &[F], b: F, y: &[F]) -> (r: &mut Self) { unimplemented!() }
    #[verifier::external_body] fn dot(&self, y: &[F]) -> (r: F) { unimplemented!() }
    #[verifier::external_body] fn sumsq(&self) -> (r: F) { unimplemented!() }
    #[verifier::external_body] fn norm(&self) -> (r: F) { unimplemented!() }
    #[verifier::external_body] fn norm_inf(&self) -> (r: F) { unimplemented!() }
    #[verifier::external_body] fn norm_scaled(&self, v: &[F]) -> (r: F) { unimplemented!() }
    #[verifier::external_body] fn norm_inf_scaled(&self, v: &[F]) -> (r: F) { unimplemented!() }
    #[verifier::external_body] fn minimum(&self) -> (r: F) { unimplemented!() }
    #[verifier::external_body] fn maximum(&self) -> (r: F) { unimplemented!() }
    #[verifier::external_body] fn mean(&self) -> (r: F) { unimplemented!() }
    #[verifier::external_body] fn is_finite(&self) -> (r: bool) { unimplemented!() }
}
// ===== end prelude/vecmath_assumed.rs =====
