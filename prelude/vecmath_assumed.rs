// ===== prelude/vecmath_assumed.rs : the VectorMath contracts (prelude/vecmath_contract.rs) with bodies left out =====
// The bodies are verified against the same trait in unit `vecmath` (those the unit covers; the evidence lists the rest).
//@include prelude/vecmath_contract.rs
impl VectorMath for [F] {
    open spec fn vw(&self) -> Seq<F> { self@ }
    #[verifier::external_body] fn copy_from(&mut self, src: &[F]) -> (r: &mut Self) { unimplemented!() }
    #[verifier::external_body] fn set(&mut self, c: F) -> (r: &mut Self) { unimplemented!() }
    #[verifier::external_body] fn scale(&mut self, c: F) -> (r: &mut Self) { unimplemented!() }
    #[verifier::external_body] fn negate(&mut self) -> (r: &mut Self) { unimplemented!() }
    #[verifier::external_body] fn recip(&mut self) -> (r: &mut Self) { unimplemented!() }
    #[verifier::external_body] fn translate(&mut self, c: F) -> (r: &mut Self) { unimplemented!() }
    #[verifier::external_body] fn scalarop<OP: Fn(F) -> F>(&mut self, op: OP) -> (r: &mut Self) { unimplemented!() }
    #[verifier::external_body] fn scalarop_from<OP: Fn(F) -> F>(&mut self, op: OP, v: &[F]) -> (r: &mut Self) { unimplemented!() }
    #[verifier::external_body] fn rsqrt(&mut self) -> (r: &mut Self) { unimplemented!() }
    #[verifier::external_body] fn hadamard(&mut self, y: &[F]) -> (r: &mut Self) { unimplemented!() }
    #[verifier::external_body] fn axpby(&mut self, a: F, x: &[F], b: F) -> (r: &mut Self) { unimplemented!() }
    #[verifier::external_body] fn waxpby(&mut self, a: F, x: &[F], b: F, y: &[F]) -> (r: &mut Self) { unimplemented!() }
    #[verifier::external_body] fn dot(&self, y: &[F]) -> (r: F) { unimplemented!() }
    #[verifier::external_body] fn sum(&self) -> (r: F) { unimplemented!() }
    #[verifier::external_body] fn sumsq(&self) -> (r: F) { unimplemented!() }
    #[verifier::external_body] fn norm(&self) -> (r: F) { unimplemented!() }
    #[verifier::external_body] fn norm_inf(&self) -> (r: F) { unimplemented!() }
    #[verifier::external_body] fn norm_scaled(&self, v: &[F]) -> (r: F) { unimplemented!() }
    #[verifier::external_body] fn norm_inf_scaled(&self, v: &[F]) -> (r: F) { unimplemented!() }
    #[verifier::external_body] fn minimum(&self) -> (r: F) { unimplemented!() }
    #[verifier::external_body] fn maximum(&self) -> (r: F) { unimplemented!() }
    #[verifier::external_body] fn mean(&self) -> (r: F) { unimplemented!() }
    #[verifier::external_body] fn is_finite(&self) -> (r: bool) { unimplemented!() }
}
// ===== end prelude/vecmath_assumed.rs =====
