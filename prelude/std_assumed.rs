// ===== prelude/std_assumed.rs (hand written => ASSUMED specifications of std functions vstd lacks) =====
pub assume_specification<T: Clone> [<[T]>::fill] (s: &mut [T], v: T)
    ensures final(s)@.len() == old(s)@.len(), forall|i: int| 0 <= i < old(s)@.len() ==> final(s)@[i] == v;
// rule R16: Vec<T> == Vec<T> for T = usize (std: element-wise comparison)
#[verifier::external_body]
pub fn vec_eq(a: &Vec<usize>, b: &Vec<usize>) -> (r: bool) ensures r == (a@ == b@) { a == b }
// rule R18: core::cmp::max / min at type usize
#[verifier::external_body]
pub fn usize_max(a: usize, b: usize) -> (r: usize) ensures r == (if a >= b { a } else { b }) { core::cmp::max(a, b) }
#[verifier::external_body]
pub fn usize_min(a: usize, b: usize) -> (r: usize) ensures r == (if a <= b { a } else { b }) { core::cmp::min(a, b) }
pub assume_specification<T> [<[T]>::rotate_right] (s: &mut [T], k: usize)
    requires k <= old(s)@.len(),
    ensures final(s)@.len() == old(s)@.len(),
        forall|i: int| 0 <= i < old(s)@.len() ==> #[trigger] final(s)@[i] == old(s)@[(i + old(s)@.len() - k) % (old(s)@.len() as int)];
// ===== end prelude/std_assumed.rs =====
