// ===== prelude/std_assumed.rs (hand written => ASSUMED specifications of std functions vstd lacks) =====
pub assume_specification<T: Clone> [<[T]>::fill] (s: &mut [T], v: T)
    ensures final(s)@.len() == old(s)@.len(), forall|i: int| 0 <= i < old(s)@.len() ==> final(s)@[i] == v;
// ===== end prelude/std_assumed.rs =====
