// ===== prelude/std_assumed.rs (hand written => ASSUMED specifications of std functions vstd lacks) =====
pub assume_specification<T: Clone> [<[T]>::fill] (s: &mut [T], v: T)
    ensures final(s)@.len() == old(s)@.len(), forall|i: int| 0 <= i < old(s)@.len() ==> final(s)@[i] == v;
// rule R16: Vec<T> == Vec<T> for T = usize (std: element-wise comparison)
#[verifier::external_body]
pub fn vec_eq(a: &Vec<usize>, b: &Vec<usize>) -> (r: bool) ensures r == (a@ == b@) { a == b }
// rule R18: core::cmp::max / min at type usize
#[verifier::external_body]
pub fn usize_max(a: usize, b: usize) -> (r: usize) ensures r == (if a >= b { a } else { b }) { core::cmp::max(a, b) }
#[verifier::external_body]
pub fn usize_min(a: usize, b: usize) -> (r: usize) ensures r == (if a <= b { a } else { b }) { core::cmp::min(a, b) }
pub assume_specification<T> [<[T]>::rotate_right] (s: &mut [T], k: usize)
    requires k <= old(s)@.len(),
    ensures final(s)@.len() == old(s)@.len(),
        forall|i: int| 0 <= i < old(s)@.len() ==> #[trigger] final(s)@[i] == old(s)@[(i + old(s)@.len() - k) % (old(s)@.len() as int)];
// rule R23: <[usize]>::binary_search / partition_point (std documentation: for a sorted slice Ok(i) is the position of an
// equal element, Err(i) the insertion point that keeps the order; partition_point returns the length of the prefix on
// which the predicate holds, for a slice partitioned by it)
pub open spec fn nondecreasing(s: Seq<usize>) -> bool { forall|i: int, j: int| 0 <= i <= j < s.len() ==> s[i] <= s[j] }
#[verifier::external_body]
pub fn usize_binary_search(s: &[usize], x: &usize) -> (r: Result<usize, usize>)
    ensures nondecreasing(s@) ==> (match r {
        Ok(i) => i < s@.len() && s@[i as int] == *x,
        Err(i) => i <= s@.len() && (forall|k: int| 0 <= k < i ==> s@[k] < *x) && (forall|k: int| i <= k < s@.len() ==> s@[k] > *x) })
{ s.binary_search(x) }
#[verifier::external_body]
pub fn usize_partition_point_lt(s: &[usize], bound: usize) -> (r: usize)
    ensures nondecreasing(s@) ==> r <= s@.len() && (forall|k: int| 0 <= k < r ==> s@[k] < bound) && (forall|k: int| r <= k < s@.len() ==> s@[k] >= bound)
{ s.partition_point(|&v| v < bound) }
pub assume_specification [i8::signum] (x: i8) -> (r: i8)
    ensures r == (if x > 0 { 1i8 } else if x < 0 { -1i8 } else { 0i8 });
// rule R26: a panic, seen from the caller: control does not come back
#[verifier::external_body]
pub fn diverge() ensures false { panic!() }
// ===== end prelude/std_assumed.rs =====
