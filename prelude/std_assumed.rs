// ===== prelude/std_assumed.rs (hand written => ASSUMED specifications of std functions vstd lacks) =====
pub assume_specification<T: Clone> [<[T]>::fill] (s: &mut [T], v: T)
    ensures final(s)@.len() == old(s)@.len(), forall|i: int| 0 <= i < old(s)@.len() ==> final(s)@[i] == v;
// rule R16: Vec<T> == Vec<T> for T = usize (std: element-wise comparison)
#[verifier::external_body]
pub fn vec_eq(a: &Vec<usize>, b: &Vec<usize>) -> (r: bool) ensures r == (a@ == b@) { a == b }
// ===== end prelude/std_assumed.rs =====
