// ===== prelude/sort_assumed.rs (hand written => ASSUMED specifications of std functions, rules R40 / R41) =====
// p is a permutation of 0..n, q its inverse
// (opaque only because the two clauses feed each other's triggers; read through lemma_perm, established through lemma_perm_intro)
#[verifier::opaque]
pub open spec fn perm_pair(p: Seq<int>, q: Seq<int>, n: int) -> bool {
    &&& p.len() == n && q.len() == n
    &&& forall|k: int| 0 <= k < n ==> 0 <= #[trigger] p[k] < n && q[p[k]] == k
    &&& forall|j: int| 0 <= j < n ==> 0 <= #[trigger] q[j] < n && p[q[j]] == j
}
pub proof fn lemma_perm(p: Seq<int>, q: Seq<int>, n: int, k: int)
    requires perm_pair(p, q, n), 0 <= k < n,
    ensures p.len() == n, q.len() == n, 0 <= p[k] < n, q[p[k]] == k, 0 <= q[k] < n, p[q[k]] == k,
{ reveal(perm_pair); }
pub proof fn lemma_perm_len(p: Seq<int>, q: Seq<int>, n: int)
    requires perm_pair(p, q, n),
    ensures p.len() == n, q.len() == n,
{ reveal(perm_pair); }
pub proof fn lemma_perm_intro(p: Seq<int>, q: Seq<int>, n: int)
    requires
        p.len() == n, q.len() == n,
        forall|k: int| 0 <= k < n ==> 0 <= #[trigger] p[k] < n && q[p[k]] == k,
        forall|j: int| 0 <= j < n ==> 0 <= #[trigger] q[j] < n && p[q[j]] == j,
    ensures perm_pair(p, q, n),
{ reveal(perm_pair); }
// the first components of b do not decrease, and elements with equal first components come in the order of their old positions p[.]
// (opaque: a two-index quantifier; read through lemma_keys_stable)
#[verifier::opaque]
pub open spec fn keys_stable<T>(b: Seq<(usize, T)>, p: Seq<int>) -> bool {
    forall|k1: int, k2: int| 0 <= k1 < k2 < b.len() ==> (#[trigger] b[k1]).0 <= (#[trigger] b[k2]).0 && (b[k1].0 == b[k2].0 ==> p[k1] < p[k2])
}
pub proof fn lemma_keys_stable<T>(b: Seq<(usize, T)>, p: Seq<int>, k1: int, k2: int)
    requires keys_stable(b, p), 0 <= k1 < k2 < b.len(),
    ensures b[k1].0 <= b[k2].0, b[k1].0 == b[k2].0 ==> p[k1] < p[k2],
{ reveal(keys_stable); }
// b = a rearranged by the permutation p (b[k] = a[p[k]]), stably sorted by the first component
pub open spec fn pairs_stably_sorted<T>(a: Seq<(usize, T)>, b: Seq<(usize, T)>, p: Seq<int>, q: Seq<int>) -> bool {
    &&& b.len() == a.len() && perm_pair(p, q, a.len() as int) && keys_stable(b, p)
    &&& forall|k: int| 0 <= k < b.len() ==> #[trigger] b[k] == a[p[k]]
}
// rule R40: Vec<(usize, T)>::sort_by_key(|&(k, _)| k)  (std documentation of slice::sort_by_key: "This sort is stable (i.e., does
// not reorder equal elements)"; the result is a permutation of the input, sorted by the key)
#[verifier::external_body]
pub fn sort_pairs_by_key0<T: Copy>(v: &mut Vec<(usize, T)>)
    ensures exists|p: Seq<int>, q: Seq<int>| pairs_stably_sorted(old(v)@, final(v)@, p, q)
{ v.sort_by_key(|&(r, _)| r) }
// rule R41: Vec::extend(repeat(x).take(n)) appends n copies of x
#[verifier::external_body]
pub fn vec_extend_repeat<T: Copy>(v: &mut Vec<T>, x: T, n: usize)
    ensures final(v)@ == old(v)@ + Seq::new(n as nat, |i: int| x)
{ v.extend(std::iter::repeat(x).take(n)) }
// ===== end prelude/sort_assumed.rs =====
