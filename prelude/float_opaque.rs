// ===== prelude/float_opaque.rs  (hand written => ASSUMED, listed in every evidence file) =====
// F stands for the crate's generic float parameter T (instantiated at f64 in the real build).
// Every arithmetic operation and comparison is an UNINTERPRETED function: a postcondition
// proved here holds for every interpretation of these symbols, in particular IEEE-754 with NaN.
pub struct F { pub bits: u64 }
impl Copy for F {}
impl Clone for F { #[verifier::external_body] fn clone(&self) -> (r: F) ensures r == *self { *self } }
pub uninterp spec fn f_lt(a: F, b: F) -> bool;
pub uninterp spec fn f_le(a: F, b: F) -> bool;
pub uninterp spec fn f_eq(a: F, b: F) -> bool;
pub uninterp spec fn f_add(a: F, b: F) -> F;
pub uninterp spec fn f_sub(a: F, b: F) -> F;
pub uninterp spec fn f_mul(a: F, b: F) -> F;
pub uninterp spec fn f_div(a: F, b: F) -> F;
pub uninterp spec fn f_neg(a: F) -> F;
pub uninterp spec fn f_recip(a: F) -> F;
pub uninterp spec fn f_sqrt(a: F) -> F;
pub uninterp spec fn f_abs(a: F) -> F;
pub uninterp spec fn f_max(a: F, b: F) -> F;
pub uninterp spec fn f_min(a: F, b: F) -> F;
pub uninterp spec fn f_powi(a: F, n: i32) -> F;
pub uninterp spec fn f_is_nan(a: F) -> bool;
pub uninterp spec fn f_is_finite(a: F) -> bool;
pub uninterp spec fn f_lit(x: f64) -> F;
pub uninterp spec fn f_from_usize(x: usize) -> F;
pub uninterp spec fn f_zero() -> F;
pub uninterp spec fn f_one() -> F;
pub uninterp spec fn f_eps() -> F;
pub uninterp spec fn f_nan() -> F;
pub uninterp spec fn f_inf() -> F;
pub uninterp spec fn f_maxval() -> F;
pub uninterp spec fn f_minval() -> F;
pub uninterp spec fn f_frac_1_sqrt_2() -> F;
impl vstd::std_specs::ops::AddSpecImpl<F> for F {
    open spec fn obeys_add_spec() -> bool { true }
    open spec fn add_req(self, rhs: F) -> bool { true }
    open spec fn add_spec(self, rhs: F) -> F { f_add(self, rhs) }
}
impl core::ops::Add for F { type Output = F; #[verifier::external_body] fn add(self, rhs: F) -> F { unimplemented!() } }
impl vstd::std_specs::ops::SubSpecImpl<F> for F {
    open spec fn obeys_sub_spec() -> bool { true }
    open spec fn sub_req(self, rhs: F) -> bool { true }
    open spec fn sub_spec(self, rhs: F) -> F { f_sub(self, rhs) }
}
impl core::ops::Sub for F { type Output = F; #[verifier::external_body] fn sub(self, rhs: F) -> F { unimplemented!() } }
impl vstd::std_specs::ops::MulSpecImpl<F> for F {
    open spec fn obeys_mul_spec() -> bool { true }
    open spec fn mul_req(self, rhs: F) -> bool { true }
    open spec fn mul_spec(self, rhs: F) -> F { f_mul(self, rhs) }
}
impl core::ops::Mul for F { type Output = F; #[verifier::external_body] fn mul(self, rhs: F) -> F { unimplemented!() } }
impl vstd::std_specs::ops::DivSpecImpl<F> for F {
    open spec fn obeys_div_spec() -> bool { true }
    open spec fn div_req(self, rhs: F) -> bool { true }
    open spec fn div_spec(self, rhs: F) -> F { f_div(self, rhs) }
}
impl core::ops::Div for F { type Output = F; #[verifier::external_body] fn div(self, rhs: F) -> F { unimplemented!() } }
impl vstd::std_specs::ops::AddAssignSpecImpl<F> for F {
    open spec fn obeys_add_assign_spec() -> bool { true }
    open spec fn add_assign_req(&self, rhs: F) -> bool { true }
    open spec fn add_assign_spec(&self, rhs: F) -> &F { &f_add(*self, rhs) }
}
impl core::ops::AddAssign for F { #[verifier::external_body] fn add_assign(&mut self, rhs: F) { unimplemented!() } }
impl vstd::std_specs::ops::SubAssignSpecImpl<F> for F {
    open spec fn obeys_sub_assign_spec() -> bool { true }
    open spec fn sub_assign_req(&self, rhs: F) -> bool { true }
    open spec fn sub_assign_spec(&self, rhs: F) -> &F { &f_sub(*self, rhs) }
}
impl core::ops::SubAssign for F { #[verifier::external_body] fn sub_assign(&mut self, rhs: F) { unimplemented!() } }
impl vstd::std_specs::ops::MulAssignSpecImpl<F> for F {
    open spec fn obeys_mul_assign_spec() -> bool { true }
    open spec fn mul_assign_req(&self, rhs: F) -> bool { true }
    open spec fn mul_assign_spec(&self, rhs: F) -> &F { &f_mul(*self, rhs) }
}
impl core::ops::MulAssign for F { #[verifier::external_body] fn mul_assign(&mut self, rhs: F) { unimplemented!() } }
impl vstd::std_specs::ops::DivAssignSpecImpl<F> for F {
    open spec fn obeys_div_assign_spec() -> bool { true }
    open spec fn div_assign_req(&self, rhs: F) -> bool { true }
    open spec fn div_assign_spec(&self, rhs: F) -> &F { &f_div(*self, rhs) }
}
impl core::ops::DivAssign for F { #[verifier::external_body] fn div_assign(&mut self, rhs: F) { unimplemented!() } }
impl vstd::std_specs::ops::NegSpecImpl for F {
    open spec fn obeys_neg_spec() -> bool { true }
    open spec fn neg_req(self) -> bool { true }
    open spec fn neg_spec(self) -> F { f_neg(self) }
}
impl core::ops::Neg for F { type Output = F; #[verifier::external_body] fn neg(self) -> F { unimplemented!() } }
impl vstd::std_specs::cmp::PartialEqSpecImpl for F {
    open spec fn obeys_eq_spec() -> bool { true }
    open spec fn eq_spec(&self, o: &F) -> bool { f_eq(*self, *o) }
}
impl PartialEq for F { #[verifier::external_body] fn eq(&self, o: &F) -> bool { unimplemented!() } }
impl vstd::std_specs::cmp::PartialOrdSpecImpl for F {
    open spec fn obeys_partial_cmp_spec() -> bool { false }
    open spec fn partial_cmp_spec(&self, o: &F) -> Option<core::cmp::Ordering> { None }
}
impl PartialOrd for F {
    #[verifier::external_body] fn partial_cmp(&self, o: &F) -> Option<core::cmp::Ordering> { unimplemented!() }
    #[verifier::external_body] fn lt(&self, o: &F) -> (r: bool) ensures r == f_lt(*self, *o) { unimplemented!() }
    #[verifier::external_body] fn le(&self, o: &F) -> (r: bool) ensures r == f_le(*self, *o) { unimplemented!() }
    #[verifier::external_body] fn gt(&self, o: &F) -> (r: bool) ensures r == f_lt(*o, *self) { unimplemented!() }
    #[verifier::external_body] fn ge(&self, o: &F) -> (r: bool) ensures r == f_le(*o, *self) { unimplemented!() }
}
impl F {
    #[verifier::external_body] pub fn zero() -> (r: F) ensures r == f_zero(), f_eq(r, r) /* IEEE: 0.0 == 0.0 */ { unimplemented!() }
    #[verifier::external_body] pub fn one() -> (r: F) ensures r == f_one() { unimplemented!() }
    #[verifier::external_body] pub fn epsilon() -> (r: F) ensures r == f_eps() { unimplemented!() }
    #[verifier::external_body] pub fn nan() -> (r: F) ensures r == f_nan() { unimplemented!() }
    #[verifier::external_body] pub fn infinity() -> (r: F) ensures r == f_inf() { unimplemented!() }
    #[verifier::external_body] pub fn max_value() -> (r: F) ensures r == f_maxval() { unimplemented!() }
    #[verifier::external_body] pub fn min_value() -> (r: F) ensures r == f_minval() { unimplemented!() }
    #[verifier::external_body] pub fn FRAC_1_SQRT_2() -> (r: F) ensures r == f_frac_1_sqrt_2() { unimplemented!() }
    #[verifier::external_body] pub fn recip(self) -> (r: F) ensures r == f_recip(self) { unimplemented!() }
    #[verifier::external_body] pub fn sqrt(self) -> (r: F) ensures r == f_sqrt(self) { unimplemented!() }
    #[verifier::external_body] pub fn abs(self) -> (r: F) ensures r == f_abs(self) { unimplemented!() }
    #[verifier::external_body] pub fn max(self, o: F) -> (r: F) ensures r == f_max(self, o) { unimplemented!() }
    #[verifier::external_body] pub fn min(self, o: F) -> (r: F) ensures r == f_min(self, o) { unimplemented!() }
    #[verifier::external_body] pub fn powi(self, n: i32) -> (r: F) ensures r == f_powi(self, n) { unimplemented!() }
    #[verifier::external_body] pub fn is_nan(self) -> (r: bool) ensures r == f_is_nan(self) { unimplemented!() }
    #[verifier::external_body] pub fn is_finite(self) -> (r: bool) ensures r == f_is_finite(self) { unimplemented!() }
    #[verifier::external_body] pub fn from_usize(x: usize) -> (r: Option<F>) ensures r == Some(f_from_usize(x)) { unimplemented!() }
}
pub trait AsFloatT { fn as_T(&self) -> F; }
impl AsFloatT for f64 { #[verifier::external_body] fn as_T(&self) -> (r: F) ensures r == f_lit(*self) { unimplemented!() } }
// ===== end prelude/float_opaque.rs =====
