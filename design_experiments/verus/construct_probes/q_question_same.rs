use vstd::prelude::*;
verus! {
pub enum E1 { A } fn g() -> Result<(), E1> { Ok(()) } fn f() -> Result<(), E1> { g()?; Ok(()) }
}
fn main(){}
