use vstd::prelude::*;
verus! {
pub trait Tr { fn g(&self) -> usize; } pub struct A { pub x: usize } impl Tr for A { fn g(&self) -> usize { self.x } } fn f(a: &A) -> usize { a.g() }
}
fn main(){}
