use vstd::prelude::*;
verus! {
fn f(a: usize) -> usize requires a <= 3 { if a > 3 { unreachable!(); } a }
}
fn main(){}
