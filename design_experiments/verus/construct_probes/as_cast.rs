use vstd::prelude::*;
verus! {
fn f(v: usize) -> usize { (v as f64).sqrt() as usize }
}
fn main(){}
