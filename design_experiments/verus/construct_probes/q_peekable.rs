use vstd::prelude::*;
verus! {
fn f(c: &[usize]) -> usize { let mut it = c.iter().peekable(); let mut s = 0usize; while let Some(x) = it.next() { s = *x; } s }
}
fn main(){}
