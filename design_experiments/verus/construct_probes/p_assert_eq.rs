use vstd::prelude::*;
verus! {
fn f(a: &[usize], b: &[usize]) requires a.len() == b.len() { assert_eq!(a.len(), b.len()); }
}
fn main(){}
