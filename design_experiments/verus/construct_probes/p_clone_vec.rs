use vstd::prelude::*;
verus! {
fn f(v: &Vec<usize>) -> Vec<usize> { v.clone() }
}
fn main(){}
