use vstd::prelude::*;
verus! {
fn f(a: usize, b: usize) { assert!(a == b); }
}
fn main(){}
