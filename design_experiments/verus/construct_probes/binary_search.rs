use vstd::prelude::*;
verus! {
fn f(v: &[usize], i: usize) -> bool { v.binary_search(&i).is_ok() }
}
fn main(){}
