use vstd::prelude::*;
verus! {
fn f(v: &[usize], r: &core::ops::Range<usize>) -> usize requires r.start < r.end <= v.len() { let s = &v[r.clone()]; s[0] }
}
fn main(){}
