use vstd::prelude::*;
verus! {
pub struct S { pub r: Vec<core::ops::Range<usize>> } fn f(s: &S, v: &[usize]) -> usize requires s.r.len() > 0, s.r[0].start < s.r[0].end <= v.len() { let rng = &s.r[0]; let t = &v[rng.clone()]; t[0] }
}
fn main(){}
