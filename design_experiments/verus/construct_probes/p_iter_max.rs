use vstd::prelude::*;
verus! {
fn f(p: &[usize]) -> usize requires p.len() > 0 { *p.iter().max().unwrap() }
}
fn main(){}
