use vstd::prelude::*;
verus! {
fn f(a: usize) -> usize { let α = a; α }
}
fn main(){}
