use vstd::prelude::*;
verus! {
fn f(v: &[usize], a: usize, b: usize) -> usize requires a < b <= v.len() { let s = &v[a..b]; s[0] }
}
fn main(){}
