use vstd::prelude::*;
verus! {
pub enum E { A(usize), B } fn f(e: &E) -> bool { matches!(e, E::A(_)) }
}
fn main(){}
