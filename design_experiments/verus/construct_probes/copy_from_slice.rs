use vstd::prelude::*;
verus! {
fn f(v: &mut [usize], w: &[usize]) requires old(v).len() == w.len() { v.copy_from_slice(w); }
}
fn main(){}
