use vstd::prelude::*;
verus! {
fn f() -> f64 { f64::NAN }
}
fn main(){}
