use vstd::prelude::*;
verus! {
pub trait Tr { fn g(&self) -> usize; } fn f(b: &Box<dyn Tr>) -> usize { b.g() }
}
fn main(){}
