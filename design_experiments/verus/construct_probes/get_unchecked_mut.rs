use vstd::prelude::*;
verus! {
fn f(v: &mut [usize], i: usize) requires i < old(v).len() { unsafe { *v.get_unchecked_mut(i) = 3; } }
}
fn main(){}
