use vstd::prelude::*;
verus! {
fn f(v: &[usize]) -> usize { v.iter().filter(|&r| *r < 5).count() }
}
fn main(){}
