use vstd::prelude::*;
verus! {
pub struct M { pub c: Vec<usize> } impl M { fn f(&mut self, i: usize) requires i < old(self).c.len(), old(self).c[i as int] < 100 { self.c[i] += 1; } }
}
fn main(){}
