use vstd::prelude::*;
verus! {
fn f(v: &[usize]) -> usize { let mut s = 0usize; for x in v { s = *x; } s }
}
fn main(){}
