use vstd::prelude::*;
verus! {
pub struct P { pub a: usize } pub struct D { pub p: Option<P> } fn f(d: &D) -> usize { if let Some(ref p) = d.p { p.a } else { 0 } }
}
fn main(){}
