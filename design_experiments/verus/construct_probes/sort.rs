use vstd::prelude::*;
verus! {
fn f(v: &mut [usize]) { v.sort(); }
}
fn main(){}
