use vstd::prelude::*;
verus! {
fn f(n: usize) -> Vec<usize> { (0..n).collect() }
}
fn main(){}
