use vstd::prelude::*;
verus! {
fn f(p: &[usize]) -> usize { let mut s = 0usize; for (i, j) in p.iter().enumerate() { if *j == i { s = i; } } s }
}
fn main(){}
