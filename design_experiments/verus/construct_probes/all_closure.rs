use vstd::prelude::*;
verus! {
fn f(c: &[usize]) -> bool { c.iter().all(|x| *x < 5) }
}
fn main(){}
