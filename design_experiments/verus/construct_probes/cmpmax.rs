use vstd::prelude::*;
verus! {
fn f(a: usize, b: usize) -> usize { core::cmp::max(a, b) }
}
fn main(){}
