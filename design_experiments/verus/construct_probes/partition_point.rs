use vstd::prelude::*;
verus! {
fn f(v: &[usize], i: usize) -> usize { v.partition_point(|&c| i + 1 > c) }
}
fn main(){}
