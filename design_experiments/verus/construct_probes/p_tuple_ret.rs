use vstd::prelude::*;
verus! {
fn f(v: &[usize]) -> (usize, usize) requires v.len() > 1 { let row = v[0]; let col = v[1]; (row, col) }
}
fn main(){}
