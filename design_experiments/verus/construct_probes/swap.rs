use vstd::prelude::*;
verus! {
fn f(a: &mut Vec<usize>, b: &mut Vec<usize>) { core::mem::swap(a, b); }
}
fn main(){}
