use vstd::prelude::*;
verus! {
fn f(c: &[usize]) -> bool { c.iter().any(|x| *x > 3) }
}
fn main(){}
