use vstd::prelude::*;
verus! {
pub struct M<T> { pub v: Vec<T>, pub n: usize } pub struct F { pub b: u64 } fn f(m: &M<F>) -> usize { m.n }
}
fn main(){}
