use vstd::prelude::*;
verus! {
fn f(n: usize) -> Vec<usize> { Vec::with_capacity(n) }
}
fn main(){}
