use vstd::prelude::*;
verus! {
fn f(a: u32, b: u32) -> bool { a == b }
}
fn main(){}
