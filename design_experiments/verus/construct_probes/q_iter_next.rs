use vstd::prelude::*;
verus! {
#[verifier::exec_allows_no_decreases_clause] fn f(c: &[usize]) -> usize { let mut it = c.iter(); let mut s = 0usize; while let Some(x) = it.next() { s = *x; } s }
}
fn main(){}
