use vstd::prelude::*;
verus! {
fn f(v: &mut Vec<usize>) { for x in &mut *v { *x = 1; } }
}
fn main(){}
