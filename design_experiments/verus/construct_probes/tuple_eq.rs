use vstd::prelude::*;
verus! {
fn f(c: (usize, usize)) -> bool { c == (0, 0) }
}
fn main(){}
