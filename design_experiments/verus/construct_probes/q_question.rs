use vstd::prelude::*;
verus! {
pub enum E1 { A } pub enum E2 { B(E1) } impl From<E1> for E2 { fn from(e: E1) -> E2 { E2::B(e) } } fn g() -> Result<(), E1> { Ok(()) } fn f() -> Result<(), E2> { g()?; Ok(()) }
}
fn main(){}
