use vstd::prelude::*;
verus! {
fn f(a: usize) { debug_assert!(a > 0); }
}
fn main(){}
