use vstd::prelude::*;
verus! {
fn f(k: usize) -> usize requires k < 1000 { (k * (k + 3)) >> 1 }
}
fn main(){}
