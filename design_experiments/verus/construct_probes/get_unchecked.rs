use vstd::prelude::*;
verus! {
fn f(v: &[usize], i: usize) -> usize requires i < v.len() { unsafe { *v.get_unchecked(i) } }
}
fn main(){}
