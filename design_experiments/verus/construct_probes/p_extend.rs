use vstd::prelude::*;
verus! {
fn f(v: &mut Vec<usize>, w: &Vec<usize>) { v.extend(w.iter()); }
}
fn main(){}
