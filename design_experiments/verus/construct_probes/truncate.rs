use vstd::prelude::*;
verus! {
fn f(v: &mut Vec<usize>, n: usize) { v.truncate(n); }
}
fn main(){}
