use vstd::prelude::*;
verus! {
fn f(a: Option<usize>) -> usize { a.unwrap_or(0) }
}
fn main(){}
