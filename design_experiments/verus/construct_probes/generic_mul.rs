use vstd::prelude::*;
verus! {
fn f<T: core::ops::Mul<Output = T> + Copy>(a: T, b: T) -> T { a * b }
}
fn main(){}
