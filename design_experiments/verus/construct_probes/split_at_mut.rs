use vstd::prelude::*;
verus! {
fn f(v: &mut [usize], n: usize) requires 0 < n < old(v).len() { let (a, b) = v.split_at_mut(n); a[0] = b[0]; }
}
fn main(){}
