use vstd::prelude::*;
verus! {
fn f(a: &Vec<usize>) -> usize requires a.len() > 0 { *a.last().unwrap() }
}
fn main(){}
