use vstd::prelude::*;
verus! {
#[verifier::exec_allows_no_decreases_clause] fn f(n: usize) -> usize { let mut a = 0usize; loop { if a >= n { break; } a = a + 1; } a }
}
fn main(){}
