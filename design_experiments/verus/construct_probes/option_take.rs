use vstd::prelude::*;
verus! {
fn f(a: &mut Option<usize>) -> usize { a.take().unwrap() }
}
fn main(){}
