use vstd::prelude::*;
verus! {
fn f(a: usize) -> usize { #[cfg(feature = "sdp")] let a = a + 1; a }
}
fn main(){}
