use vstd::prelude::*;
verus! {
fn f(v: &[usize]) -> bool { v.is_empty() }
}
fn main(){}
