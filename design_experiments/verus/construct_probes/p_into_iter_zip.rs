use vstd::prelude::*;
verus! {
fn f(x: &mut [usize], y: &[usize]) { for (a, b) in x.iter_mut().zip(y.iter()) { *a = *b; } }
}
fn main(){}
