use vstd::prelude::*;
verus! {
fn f(a: f64, b: f64) -> f64 { a * b + 1.0 }
}
fn main(){}
