use vstd::prelude::*;
verus! {
fn f(v: &[bool], n: usize) -> usize { let mut it = v.iter(); let m = it.by_ref().take(n); m.filter(|&b| *b).count() }
}
fn main(){}
