use vstd::prelude::*;
verus! {
fn f(s: i8) -> i8 { s.signum() }
}
fn main(){}
