use vstd::prelude::*;
verus! {
pub struct P { pub a: usize } pub struct D { pub p: Option<P> } fn f(d: &D) -> usize requires d.p is Some { let m = d.p.as_ref().unwrap(); m.a }
}
fn main(){}
