use vstd::prelude::*;
verus! {
fn f(a: i8) -> i8 { -a }
}
fn main(){}
