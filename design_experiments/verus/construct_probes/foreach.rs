use vstd::prelude::*;
verus! {
fn f(v: &mut [usize]) { v.iter_mut().for_each(|x| *x += 1); }
}
fn main(){}
