use vstd::prelude::*;
verus! {
fn f(v: &[usize]) -> Vec<usize> { v.to_vec() }
}
fn main(){}
