use vstd::prelude::*;
verus! {
fn f(a: Option<usize>) -> usize requires a is Some { a.unwrap() }
}
fn main(){}
