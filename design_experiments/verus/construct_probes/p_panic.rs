use vstd::prelude::*;
verus! {
fn f(a: usize) -> usize { if a > 3 { panic!("bad"); } a }
}
fn main(){}
