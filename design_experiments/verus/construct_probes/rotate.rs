use vstd::prelude::*;
verus! {
fn f(v: &mut Vec<usize>) { v.rotate_right(1); }
}
fn main(){}
