use vstd::prelude::*;
verus! {
#[verifier::exec_allows_no_decreases_clause] fn f(v: &mut Vec<usize>) -> usize { let mut s = 0usize; while let Some(x) = v.pop() { s = x; } s }
}
fn main(){}
