use vstd::prelude::*;
verus! {
fn f(c: &[usize], m: usize) -> bool { c.iter().all(|r| *r < m) }
}
fn main(){}
