use vstd::prelude::*;
verus! {
fn f(v: &mut Vec<usize>, n: usize) { v.resize(n, 0); }
}
fn main(){}
