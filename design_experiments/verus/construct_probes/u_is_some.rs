use vstd::prelude::*;
verus! {
fn f(d: &Option<usize>) -> bool { d.is_some() }
}
fn main(){}
