use vstd::prelude::*;
verus! {
fn f(c: &[usize]) -> bool { c.windows(2).all(|c| c[0] < c[1]) }
}
fn main(){}
