use vstd::prelude::*;
verus! {
fn f(a: usize) -> u64 { a as u64 }
}
fn main(){}
