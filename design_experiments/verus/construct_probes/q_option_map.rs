use vstd::prelude::*;
verus! {
fn f(a: Option<usize>) -> Option<usize> { a.map(|x| x) }
}
fn main(){}
