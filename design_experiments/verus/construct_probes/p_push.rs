use vstd::prelude::*;
verus! {
fn f(v: &mut Vec<usize>) { v.push(1); }
}
fn main(){}
