use vstd::prelude::*;
verus! {
fn f(a: f64, b: f64) -> (r: bool) ensures r == (a.partial_cmp_spec(&b) == Some(core::cmp::Ordering::Less)) { a < b }
fn g(a: f64, b: f64) -> (r: bool) ensures r == a.lt_spec(&b) { a < b }
}
fn main(){}
