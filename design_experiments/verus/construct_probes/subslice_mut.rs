use vstd::prelude::*;
verus! {
fn f(v: &mut [usize], a: usize, b: usize) requires a < b <= old(v).len() { let s = &mut v[a..b]; s[0] = 1; }
}
fn main(){}
