use vstd::prelude::*;
verus! {
pub trait Settings { spec fn max_iter(&self) -> u32; }
pub trait ProblemData { type V; type SE; fn equilibrate(&mut self, settings: &Self::SE); }
pub trait Variables { type D; type SE; fn calc(&mut self, d: &Self::D) -> u32; }
pub struct Solver<D, V, SE> { pub data: D, pub variables: V, pub settings: SE }
impl<D, V, SE> Solver<D, V, SE> where D: ProblemData<V = V>, V: Variables<D = D, SE = SE>, SE: Settings {
    fn go(&mut self) -> u32 { self.variables.calc(&self.data) }
}
}
fn main(){}
