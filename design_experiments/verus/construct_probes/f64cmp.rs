use vstd::prelude::*;
verus! {
fn f(a: f64, b: f64) -> bool { a < b }
}
fn main(){}
