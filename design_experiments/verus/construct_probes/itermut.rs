use vstd::prelude::*;
verus! {
fn f(v: &mut [usize]) { for x in v.iter_mut() { *x = 1; } }
}
fn main(){}
