use vstd::prelude::*;
verus! {
fn f(x: &mut [usize], y: &[usize]) { for (a, b) in (&mut x[1..]).into_iter().zip(y) { *a = *b; } }
}
fn main(){}
