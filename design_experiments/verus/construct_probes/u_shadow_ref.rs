use vstd::prelude::*;
verus! {
fn f(v: &mut Vec<usize>, w: &Vec<usize>) requires old(v).len() == w.len() { let tmp = w; let variables = tmp; if v.len() > 0 { v[0] = variables.len(); } }
}
fn main(){}
