use vstd::prelude::*;
verus! {
fn f(v: &mut Vec<usize>) { v.insert(0, 1); }
}
fn main(){}
