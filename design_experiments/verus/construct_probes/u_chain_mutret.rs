use vstd::prelude::*;
verus! {
pub trait VM { fn hadamard(&mut self, y: &[usize]) -> &mut Self; } 
}
fn main(){}
