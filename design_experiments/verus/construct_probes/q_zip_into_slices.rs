use vstd::prelude::*;
verus! {
fn f(x: &[usize], y: &[usize], lo: usize, hi: usize) -> usize requires lo <= hi <= x.len(), hi <= y.len() { let mut s = 0usize; for (&a, &b) in (&x[lo..hi]).into_iter().zip(&y[lo..hi]) { if a == b { s = a; } } s }
}
fn main(){}
