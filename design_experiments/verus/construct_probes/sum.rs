use vstd::prelude::*;
verus! {
fn f(v: &[usize]) -> usize { v.iter().sum() }
}
fn main(){}
