use vstd::prelude::*;
verus! {
fn f(x: &[usize], y: &[usize]) -> usize { let mut s = 0usize; for (a, b) in x.iter().zip(y.iter()) { if *a == *b { s = *a; } } s }
}
fn main(){}
