use vstd::prelude::*;
verus! {
fn f(n: usize) -> usize { let mut s = 0usize; for i in (0..n).rev() { s = i; } s }
}
fn main(){}
