use vstd::prelude::*;
verus! {
fn f(n: usize) -> Vec<bool> { vec![true; n] }
}
fn main(){}
