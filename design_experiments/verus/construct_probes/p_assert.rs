use vstd::prelude::*;
verus! {
fn f(a: usize, b: usize) requires a == b { assert!(a == b); }
}
fn main(){}
