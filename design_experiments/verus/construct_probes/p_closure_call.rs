use vstd::prelude::*;
verus! {
fn f(v: &[usize], g: impl Fn(&[usize]) -> bool) -> bool requires g.requires((v,)) { g(v) }
}
fn main(){}
