use vstd::prelude::*;
verus! {
pub struct F { pub bits: u64 }
impl Copy for F {}
impl Clone for F { #[verifier::external_body] fn clone(&self) -> (r: F) ensures r == *self { *self } }
impl F { pub uninterp spec fn v(self) -> real; }
pub mod ax {
    use super::*;
    pub uninterp spec fn f_add(a: F, b: F) -> F;
    pub uninterp spec fn f_sub(a: F, b: F) -> F;
    pub uninterp spec fn f_mul(a: F, b: F) -> F;
    pub uninterp spec fn f_div(a: F, b: F) -> F;
    pub uninterp spec fn f_neg(a: F) -> F;
    pub broadcast proof fn ax_add(a: F, b: F) ensures #[trigger] f_add(a,b).v() == a.v() + b.v() { admit(); }
    pub broadcast proof fn ax_sub(a: F, b: F) ensures #[trigger] f_sub(a,b).v() == a.v() - b.v() { admit(); }
    pub broadcast proof fn ax_mul(a: F, b: F) ensures #[trigger] f_mul(a,b).v() == a.v() * b.v() { admit(); }
    pub broadcast proof fn ax_div(a: F, b: F) requires b.v() != 0real ensures #[trigger] f_div(a,b).v() == a.v() / b.v() { admit(); }
    pub broadcast proof fn ax_neg(a: F) ensures #[trigger] f_neg(a).v() == -a.v() { admit(); }
    pub broadcast group real_arith { ax_add, ax_sub, ax_mul, ax_div, ax_neg }
}
use ax::*;
impl vstd::std_specs::ops::AddSpecImpl<F> for F {
    open spec fn obeys_add_spec() -> bool { true }
    open spec fn add_req(self, rhs: F) -> bool { true }
    open spec fn add_spec(self, rhs: F) -> F { f_add(self, rhs) }
}
impl core::ops::Add for F { type Output = F; #[verifier::external_body] fn add(self, rhs: F) -> F { unimplemented!() } }
impl vstd::std_specs::ops::SubSpecImpl<F> for F {
    open spec fn obeys_sub_spec() -> bool { true }
    open spec fn sub_req(self, rhs: F) -> bool { true }
    open spec fn sub_spec(self, rhs: F) -> F { f_sub(self, rhs) }
}
impl core::ops::Sub for F { type Output = F; #[verifier::external_body] fn sub(self, rhs: F) -> F { unimplemented!() } }
impl vstd::std_specs::ops::MulSpecImpl<F> for F {
    open spec fn obeys_mul_spec() -> bool { true }
    open spec fn mul_req(self, rhs: F) -> bool { true }
    open spec fn mul_spec(self, rhs: F) -> F { f_mul(self, rhs) }
}
impl core::ops::Mul for F { type Output = F; #[verifier::external_body] fn mul(self, rhs: F) -> F { unimplemented!() } }
impl vstd::std_specs::ops::DivSpecImpl<F> for F {
    open spec fn obeys_div_spec() -> bool { true }
    open spec fn div_req(self, rhs: F) -> bool { true }
    open spec fn div_spec(self, rhs: F) -> F { f_div(self, rhs) }
}
impl core::ops::Div for F { type Output = F; #[verifier::external_body] fn div(self, rhs: F) -> F { unimplemented!() } }
impl vstd::std_specs::ops::NegSpecImpl for F {
    open spec fn obeys_neg_spec() -> bool { true }
    open spec fn neg_req(self) -> bool { true }
    open spec fn neg_spec(self) -> F { f_neg(self) }
}
impl core::ops::Neg for F { type Output = F; #[verifier::external_body] fn neg(self) -> F { unimplemented!() } }
impl vstd::std_specs::ops::MulAssignSpecImpl<F> for F {
    open spec fn obeys_mul_assign_spec() -> bool { true }
    open spec fn mul_assign_req(&self, rhs: F) -> bool { true }
    open spec fn mul_assign_spec(&self, rhs: F) -> &F { &f_mul(*self, rhs) }
}
impl core::ops::MulAssign for F { #[verifier::external_body] fn mul_assign(&mut self, rhs: F) { unimplemented!() } }
pub open spec fn rmax(a: real, b: real) -> real { if a >= b { a } else { b } }
pub open spec fn rmin(a: real, b: real) -> real { if a <= b { a } else { b } }
pub open spec fn rabs(a: real) -> real { if a >= 0real { a } else { -a } }
impl F {
    #[verifier::external_body] pub fn one() -> (r: F) ensures r.v() == 1real { unimplemented!() }
    #[verifier::external_body] pub fn recip(a: F) -> (r: F) requires a.v() != 0real ensures r.v() == 1real / a.v() { unimplemented!() }
    #[verifier::external_body] pub fn max(a: F, b: F) -> (r: F) ensures r.v() == rmax(a.v(), b.v()) { unimplemented!() }
    #[verifier::external_body] pub fn min(a: F, b: F) -> (r: F) ensures r.v() == rmin(a.v(), b.v()) { unimplemented!() }
    #[verifier::external_body] pub fn abs(a: F) -> (r: F) ensures r.v() == rabs(a.v()) { unimplemented!() }
}
pub uninterp spec fn lit(x: f64) -> real;
pub trait AsFloatT { fn as_T(&self) -> F; }
impl AsFloatT for f64 { #[verifier::external_body] fn as_T(&self) -> (r: F) ensures r.v() == lit(*self) { unimplemented!() } }
pub broadcast proof fn ax_lit2() ensures #[trigger] lit(2.0f64) == 2real { admit(); }

// spec-level linear algebra (assumed surface of VectorMath)
pub uninterp spec fn norm2_scaled(x: Seq<F>, w: Seq<F>) -> real;
pub trait VectorMath { fn norm_scaled(&self, v: &[F]) -> F; }
impl VectorMath for [F] {
    #[verifier::external_body]
    fn norm_scaled(&self, v: &[F]) -> (r: F) ensures r.v() == norm2_scaled(self@, v@), r.v() >= 0real { unimplemented!() }
}
pub struct Duration { pub x: u64 }
impl Duration { #[verifier::external_body] pub fn as_secs_f64(&self) -> f64 { unimplemented!() } }
pub struct Timers { pub x: u64 }
impl Timers { #[verifier::external_body] pub fn total_time(&self) -> Duration { unimplemented!() } }

pub struct DefaultEquilibrationData { pub d: Vec<F>, pub dinv: Vec<F>, pub e: Vec<F>, pub einv: Vec<F>, pub c: F }
pub struct DefaultProblemData { pub equilibration: DefaultEquilibrationData, pub nb: F, pub nq: F }
impl DefaultProblemData {
    #[verifier::external_body] pub fn get_normb(&mut self) -> (r: F) ensures r == old(self).nb, final(self).equilibration == old(self).equilibration, final(self).nq == old(self).nq, r.v() >= 0real { unimplemented!() }
    #[verifier::external_body] pub fn get_normq(&mut self) -> (r: F) ensures r == old(self).nq, final(self).equilibration == old(self).equilibration, r.v() >= 0real { unimplemented!() }
}
pub struct DefaultVariables { pub x: Vec<F>, pub s: Vec<F>, pub z: Vec<F>, pub tau: F, pub kappa: F }
pub struct DefaultResiduals { pub rx: Vec<F>, pub rz: Vec<F>, pub rx_inf: Vec<F>, pub rz_inf: Vec<F>, pub dot_qx: F, pub dot_bz: F, pub dot_sz: F, pub dot_xPx: F, pub Px: Vec<F> }
pub struct DefaultInfo { pub cost_primal: F, pub cost_dual: F, pub res_primal: F, pub res_dual: F, pub res_primal_inf: F, pub res_dual_inf: F, pub gap_abs: F, pub gap_rel: F, pub ktratio: F, pub solve_time: f64 }

impl DefaultInfo {
    fn update(
        &mut self,
        data: &mut DefaultProblemData,
        variables: &DefaultVariables,
        residuals: &DefaultResiduals,
        timers: &Timers,
    )
        requires variables.tau.v() > 0real, old(data).equilibration.c.v() > 0real,
        ensures
            final(self).cost_primal.v() == (residuals.dot_qx.v() / variables.tau.v() + residuals.dot_xPx.v() / (2real * variables.tau.v() * variables.tau.v())) / old(data).equilibration.c.v(),
            final(self).cost_dual.v() == (-residuals.dot_bz.v() / variables.tau.v() - residuals.dot_xPx.v() / (2real * variables.tau.v() * variables.tau.v())) / old(data).equilibration.c.v(),
            final(self).res_primal.v() == norm2_scaled(residuals.rz@, old(data).equilibration.einv@) / variables.tau.v() / rmax(1real, old(data).nb.v() + norm2_scaled(variables.x@, old(data).equilibration.d@) / variables.tau.v() + norm2_scaled(variables.s@, old(data).equilibration.einv@) / variables.tau.v()),
            final(self).res_dual.v() == norm2_scaled(residuals.rx@, old(data).equilibration.dinv@) / (variables.tau.v() * old(data).equilibration.c.v()) / rmax(1real, old(data).nq.v() + norm2_scaled(variables.x@, old(data).equilibration.d@) / variables.tau.v() + norm2_scaled(variables.z@, old(data).equilibration.e@) / (variables.tau.v() * old(data).equilibration.c.v())),
            final(self).res_primal_inf.v() == (norm2_scaled(residuals.rx_inf@, old(data).equilibration.dinv@) / old(data).equilibration.c.v()) / rmax(1real, norm2_scaled(variables.z@, old(data).equilibration.e@) / old(data).equilibration.c.v()),
            final(self).gap_abs.v() == rabs(final(self).cost_primal.v() - final(self).cost_dual.v()),
            final(self).gap_rel.v() == final(self).gap_abs.v() / rmax(1real, rmin(rabs(final(self).cost_primal.v()), rabs(final(self).cost_dual.v()))),
            final(self).ktratio.v() == variables.kappa.v() / variables.tau.v(),
    {
        broadcast use real_arith, ax_lit2;
        // optimality termination check should be computed w.r.t
        // the pre-homogenization x and z variables.
        let tauinv = F::recip(variables.tau);

        // unscaled linear term norms
        let normb = data.get_normb();
        let normq = data.get_normq();

        // shortcuts for the equilibration matrices
        let d = &data.equilibration.d;
        let e = &data.equilibration.e;
        let dinv = &data.equilibration.dinv;
        let einv = &data.equilibration.einv;
        let cinv = F::recip(data.equilibration.c);

        // primal and dual costs. dot products are invariant w.r.t
        // equilibration, but we still need to back out the overall
        // objective scaling term c

        let xPx_tauinvsq_over2 = residuals.dot_xPx * tauinv * tauinv / (2.).as_T();
        self.cost_primal = (residuals.dot_qx * tauinv + xPx_tauinvsq_over2) * cinv;
        self.cost_dual = (-residuals.dot_bz * tauinv - xPx_tauinvsq_over2) * cinv;

        // variables norms, undoing the equilibration.  Do not unscale
        // by tau yet because the infeasibility residuals are ratios of
        // terms that have no affine parts anyway
        let mut normx = variables.x.norm_scaled(d);
        let mut normz = variables.z.norm_scaled(e) * cinv;
        let mut norms = variables.s.norm_scaled(einv);

        // primal and dual infeasibility residuals.
        self.res_primal_inf = (residuals.rx_inf.norm_scaled(dinv) * cinv) / F::max(F::one(), normz);
        self.res_dual_inf = F::max(
            residuals.Px.norm_scaled(dinv) / F::max(F::one(), normx),
            residuals.rz_inf.norm_scaled(einv) / F::max(F::one(), normx + norms),
        );

        // now back out the tau scaling so we can normalize the unscaled primal / dual errors
        normx *= tauinv;
        normz *= tauinv;
        norms *= tauinv;

        // primal and dual relative residuals.
        self.res_primal =
            residuals.rz.norm_scaled(einv) * tauinv / F::max(F::one(), normb + normx + norms);
        self.res_dual =
            residuals.rx.norm_scaled(dinv) * tauinv * cinv / F::max(F::one(), normq + normx + normz);

        // absolute and relative gaps
        self.gap_abs = F::abs(self.cost_primal - self.cost_dual);
        self.gap_rel = self.gap_abs
            / F::max(
                F::one(),
                F::min(F::abs(self.cost_primal), F::abs(self.cost_dual)),
            );

        // kappa/tau ratio (scaled)
        self.ktratio = variables.kappa * tauinv;

        // solve time so far (includes setup)
        self.solve_time = timers.total_time().as_secs_f64();

        proof {
            let tau = variables.tau.v(); let c = old(data).equilibration.c.v();
            let ti = tauinv.v(); let ci = cinv.v();
            assert(ti == 1real / tau && ci == 1real / c);
            let qx = residuals.dot_qx.v(); let bz = residuals.dot_bz.v(); let xpx = residuals.dot_xPx.v();
            assert(xpx * ti * ti / 2real == xpx / (2real * tau * tau)) by(nonlinear_arith) requires ti == 1real / tau, tau > 0real;
            assert((qx * ti + xpx * ti * ti / 2real) * ci == (qx / tau + xpx / (2real * tau * tau)) / c) by(nonlinear_arith)
                requires ti == 1real / tau, ci == 1real / c, tau > 0real, c > 0real, xpx * ti * ti / 2real == xpx / (2real * tau * tau);
            assert(((-bz) * ti - xpx * ti * ti / 2real) * ci == ((-bz) / tau - xpx / (2real * tau * tau)) / c) by(nonlinear_arith)
                requires ti == 1real / tau, ci == 1real / c, tau > 0real, c > 0real, xpx * ti * ti / 2real == xpx / (2real * tau * tau);
            let e = old(data).equilibration;
            let nx = norm2_scaled(variables.x@, e.d@); let nz = norm2_scaled(variables.z@, e.e@); let ns = norm2_scaled(variables.s@, e.einv@);
            assert(nx * ti == nx / tau) by(nonlinear_arith) requires ti == 1real / tau, tau > 0real;
            assert(ns * ti == ns / tau) by(nonlinear_arith) requires ti == 1real / tau, tau > 0real;
            assert(nz * ci * ti == nz / (tau * c)) by(nonlinear_arith) requires ti == 1real / tau, ci == 1real / c, tau > 0real, c > 0real;
            assert(nz * ci == nz / c) by(nonlinear_arith) requires ci == 1real / c, c > 0real;
            let nrz = norm2_scaled(residuals.rz@, e.einv@); let nrx = norm2_scaled(residuals.rx@, e.dinv@); let nrxi = norm2_scaled(residuals.rx_inf@, e.dinv@);
            assert(nrz * ti == nrz / tau) by(nonlinear_arith) requires ti == 1real / tau, tau > 0real;
            assert(nrx * ti * ci == nrx / (tau * c)) by(nonlinear_arith) requires ti == 1real / tau, ci == 1real / c, tau > 0real, c > 0real;
            assert(nrxi * ci == nrxi / c) by(nonlinear_arith) requires ci == 1real / c, c > 0real;
            assert(variables.kappa.v() * ti == variables.kappa.v() / tau) by(nonlinear_arith) requires ti == 1real / tau, tau > 0real;
        }
    }
}
} // verus!
fn main() {}
