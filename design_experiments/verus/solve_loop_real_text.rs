use vstd::prelude::*;
verus! {

// ---------- prelude ----------
pub struct F { pub bits: u64 }
impl Copy for F {}
impl Clone for F { #[verifier::external_body] fn clone(&self) -> (r: F) ensures r == *self { *self } }
pub uninterp spec fn f_lt(a: F, b: F) -> bool;
pub uninterp spec fn f_le(a: F, b: F) -> bool;
pub uninterp spec fn f_mul(a: F, b: F) -> F;
pub uninterp spec fn f_neg(a: F) -> F;
pub uninterp spec fn f_recip(a: F) -> F;
pub uninterp spec fn f_lit(x: f64) -> F;
pub uninterp spec fn f_one() -> F;
pub uninterp spec fn f_eps() -> F;

impl vstd::std_specs::ops::MulSpecImpl<F> for F {
    open spec fn obeys_mul_spec() -> bool { true }
    open spec fn mul_req(self, rhs: F) -> bool { true }
    open spec fn mul_spec(self, rhs: F) -> F { f_mul(self, rhs) }
}
impl core::ops::Mul for F { type Output = F; #[verifier::external_body] fn mul(self, rhs: F) -> F { unimplemented!() } }
impl vstd::std_specs::ops::NegSpecImpl for F {
    open spec fn obeys_neg_spec() -> bool { true }
    open spec fn neg_req(self) -> bool { true }
    open spec fn neg_spec(self) -> F { f_neg(self) }
}
impl core::ops::Neg for F { type Output = F; #[verifier::external_body] fn neg(self) -> F { unimplemented!() } }

impl vstd::std_specs::cmp::PartialEqSpecImpl for F {
    open spec fn obeys_eq_spec() -> bool { false }
    open spec fn eq_spec(&self, o: &F) -> bool { true }
}
impl PartialEq for F { #[verifier::external_body] fn eq(&self, o: &F) -> bool { unimplemented!() } }
impl vstd::std_specs::cmp::PartialOrdSpecImpl for F {
    open spec fn obeys_partial_cmp_spec() -> bool { false }
    open spec fn partial_cmp_spec(&self, o: &F) -> Option<core::cmp::Ordering> { None }
}
impl PartialOrd for F {
    #[verifier::external_body] fn partial_cmp(&self, o: &F) -> Option<core::cmp::Ordering> { unimplemented!() }
    #[verifier::external_body] fn lt(&self, o: &F) -> (r: bool) ensures r == f_lt(*self, *o) { unimplemented!() }
    #[verifier::external_body] fn le(&self, o: &F) -> (r: bool) ensures r == f_le(*self, *o) { unimplemented!() }
    #[verifier::external_body] fn gt(&self, o: &F) -> (r: bool) ensures r == f_lt(*o, *self) { unimplemented!() }
    #[verifier::external_body] fn ge(&self, o: &F) -> (r: bool) ensures r == f_le(*o, *self) { unimplemented!() }
}
impl F {
    #[verifier::external_body] pub fn one() -> (r: F) ensures r == f_one() { unimplemented!() }
    #[verifier::external_body] pub fn epsilon() -> (r: F) ensures r == f_eps() { unimplemented!() }
    #[verifier::external_body] pub fn recip(self) -> (r: F) ensures r == f_recip(self) { unimplemented!() }
}
pub trait AsFloatT { fn as_T(&self) -> F; }
impl AsFloatT for f64 { #[verifier::external_body] fn as_T(&self) -> (r: F) ensures r == f_lit(*self) { unimplemented!() } }


pub uninterp spec fn f_sub(a: F, b: F) -> F;
impl vstd::std_specs::ops::SubSpecImpl<F> for F {
    open spec fn obeys_sub_spec() -> bool { true }
    open spec fn sub_req(self, rhs: F) -> bool { true }
    open spec fn sub_spec(self, rhs: F) -> F { f_sub(self, rhs) }
}
impl core::ops::Sub for F { type Output = F; #[verifier::external_body] fn sub(self, rhs: F) -> F { unimplemented!() } }
impl F {
    #[verifier::external_body] pub fn zero() -> (r: F) { unimplemented!() }
    #[verifier::external_body] pub fn powi(a: F, n: i32) -> (r: F) { unimplemented!() }
    #[verifier::external_body] pub fn max(a: F, b: F) -> (r: F) { unimplemented!() }
}
#[derive(PartialEq, Eq, Clone, Copy, Structural)]
pub enum SolverStatus { Unsolved, Solved, PrimalInfeasible, DualInfeasible, AlmostSolved, AlmostPrimalInfeasible, AlmostDualInfeasible, MaxIterations, MaxTime, NumericalError, InsufficientProgress }
#[derive(PartialEq, Eq, Clone, Copy, Structural)]
pub enum StepDirection { Affine, Combined }
#[derive(PartialEq, Eq, Clone, Copy, Structural)]
pub enum ScalingStrategy { PrimalDual, Dual }
#[derive(PartialEq, Eq, Clone, Copy, Structural)]
enum StrategyCheckpoint { Update(ScalingStrategy), NoUpdate, Fail }
pub assume_specification<T> [core::option::Option::<T>::replace] (o: &mut Option<T>, v: T) -> (r: Option<T>)
    ensures *final(o) == Some(v), r == *old(o);
pub struct Timers { pub x: u64 }
pub struct CoreSettings { pub linesearch_backtrack_step: F, pub min_switch_step_length: F, pub min_terminate_step_length: F }
#[verifier::external_type_specification]
#[verifier::external_body]
pub struct ExIoError(std::io::Error);

pub trait Settings { spec fn max_iter(&self) -> u32; fn core(&self) -> &CoreSettings; }
pub trait Cone { fn is_symmetric(&self) -> bool; fn allows_primal_dual_scaling(&self) -> bool; fn set_identity_scaling(&mut self); }
pub trait ProblemData { type V; type C; type SE; }
pub trait Variables { type D; type R; type C; type SE;
    fn calc_mu(&mut self, residuals: &Self::R, cones: &Self::C) -> F;
    fn affine_step_rhs(&mut self, residuals: &Self::R, variables: &Self, cones: &Self::C);
    fn combined_step_rhs(&mut self, residuals: &Self::R, variables: &Self, cones: &mut Self::C, step: &mut Self, sigma: F, mu: F, m: F);
    fn calc_step_length(&self, step_lhs: &Self, cones: &mut Self::C, settings: &Self::SE, step_direction: StepDirection) -> F;
    fn add_step(&mut self, step_lhs: &Self, alpha: F);
    fn symmetric_initialization(&mut self, cones: &mut Self::C);
    fn unit_initialization(&mut self, cones: &Self::C);
    fn scale_cones(&self, cones: &mut Self::C, mu: F, scaling_strategy: ScalingStrategy) -> bool;
    fn barrier(&self, step: &Self, alpha: F, cones: &mut Self::C) -> F;
}
pub trait Residuals { type D; type V; fn update(&mut self, variables: &Self::V, data: &Self::D); }
pub trait KKTSystem { type D; type V; type C; type SE;
    fn update(&mut self, data: &Self::D, cones: &Self::C, settings: &Self::SE) -> bool;
    fn solve(&mut self, step_lhs: &mut Self::V, step_rhs: &Self::V, data: &Self::D, variables: &Self::V, cones: &mut Self::C, step_direction: StepDirection, settings: &Self::SE) -> bool;
    fn solve_initial_point(&mut self, variables: &mut Self::V, data: &Self::D, settings: &Self::SE) -> bool;
}
pub trait InfoPrint { type D; type C; type SE;
    spec fn status(&self) -> SolverStatus;
    spec fn iterations(&self) -> u32;
    fn print_configuration(&mut self, settings: &Self::SE, data: &Self::D, cones: &Self::C) -> (r: std::io::Result<()>)
        ensures r is Ok, final(self).status() == old(self).status(), final(self).iterations() == old(self).iterations();
    fn print_status_header(&mut self, settings: &Self::SE) -> (r: std::io::Result<()>)
        ensures r is Ok, final(self).status() == old(self).status(), final(self).iterations() == old(self).iterations();
    fn print_status(&mut self, settings: &Self::SE) -> (r: std::io::Result<()>)
        ensures r is Ok, final(self).status() == old(self).status(), final(self).iterations() == old(self).iterations();
    fn print_footer(&mut self, settings: &Self::SE) -> (r: std::io::Result<()>)
        ensures r is Ok, final(self).status() == old(self).status(), final(self).iterations() == old(self).iterations();
}
pub trait Info: InfoPrint { type V; type R;
    fn reset(&mut self, timers: &mut Timers) ensures final(self).status() == SolverStatus::Unsolved;
    fn post_process(&mut self, residuals: &Self::R, settings: &Self::SE)
        ensures final(self).iterations() == old(self).iterations(), old(self).status() != SolverStatus::Unsolved ==> final(self).status() != SolverStatus::Unsolved;
    fn finalize(&mut self, timers: &mut Timers) ensures final(self).status() == old(self).status(), final(self).iterations() == old(self).iterations();
    fn update(&mut self, data: &mut Self::D, variables: &Self::V, residuals: &Self::R, timers: &Timers)
        ensures final(self).status() == old(self).status(), final(self).iterations() == old(self).iterations();
    fn check_termination(&mut self, residuals: &Self::R, settings: &Self::SE, iter: u32) -> (r: bool)
        where Self::SE: Settings
        requires old(self).status() == SolverStatus::Unsolved,
        ensures r == (final(self).status() != SolverStatus::Unsolved),
                final(self).iterations() == old(self).iterations(),
                old(self).iterations() == settings.max_iter() ==> r;
    fn save_prev_iterate(&mut self, variables: &Self::V, prev_variables: &mut Self::V)
        ensures final(self).status() == old(self).status(), final(self).iterations() == old(self).iterations();
    fn reset_to_prev_iterate(&mut self, variables: &mut Self::V, prev_variables: &Self::V)
        ensures final(self).status() == old(self).status(), final(self).iterations() == old(self).iterations();
    fn save_scalars(&mut self, mu: F, alpha: F, sigma: F, iter: u32)
        ensures final(self).iterations() == iter, final(self).status() == old(self).status();
    fn get_status(&self) -> (r: SolverStatus) ensures r == self.status();
    fn set_status(&mut self, status: SolverStatus) ensures final(self).status() == status, final(self).iterations() == old(self).iterations();
}
pub trait Solution { type D; type V; type I; type SE;
    fn post_process(&mut self, data: &Self::D, variables: &mut Self::V, info: &Self::I, settings: &Self::SE);
    fn finalize(&mut self, info: &Self::I);
}

pub struct Solver<D, V, R, K, C, I, SO, SE> {
    pub data: D, pub variables: V, pub residuals: R, pub kktsystem: K, pub cones: C,
    pub step_lhs: V, pub step_rhs: V, pub prev_vars: V, pub info: I, pub solution: SO, pub settings: SE,
    pub timers: Option<Timers>,
}

impl<D, V, R, K, C, I, SO, SE> Solver<D, V, R, K, C, I, SO, SE>
where
    D: ProblemData<V = V>,
    V: Variables<D = D, R = R, C = C, SE = SE>,
    R: Residuals<D = D, V = V>,
    K: KKTSystem<D = D, V = V, C = C, SE = SE>,
    C: Cone,
    I: Info<D = D, V = V, R = R, C = C, SE = SE>,
    SO: Solution<D = D, V = V, I = I, SE = SE>,
    SE: Settings,
{
    fn solve(&mut self)
        requires old(self).timers is Some,
        ensures final(self).info.status() != SolverStatus::Unsolved,
                final(self).info.iterations() <= final(self).settings.max_iter(),
    {
        // various initializations
        let mut iter: u32 = 0;
        let mut sigma = F::one();
        let mut alpha = F::zero();
        let mut mu;

        //timers is stored as an option so that
        //we can swap it out here and avoid
        //borrow conflicts with other fields.
        let mut timers = self.timers.take().unwrap();

        // solver release info, solver config
        // problem dimensions, cone types etc
        {
            self.info.print_configuration(&self.settings, &self.data, &self.cones).unwrap();
            self.info.print_status_header(&self.settings).unwrap();
        }

        self.info.reset(&mut timers);

        {

        // initialize variables to some reasonable starting point
        {
            self.default_start();
        }

        {

        // ----------
        // main loop
        // ----------

        let mut scaling = {
            if self.cones.allows_primal_dual_scaling() {ScalingStrategy::PrimalDual}
            else {ScalingStrategy::Dual}
        };

        let ghost max_iter = self.settings.max_iter();
        loop
            invariant_except_break
                self.info.status() == SolverStatus::Unsolved,
            invariant
                self.settings.max_iter() == max_iter,
                iter <= max_iter,
            ensures
                self.settings.max_iter() == max_iter,
                self.info.status() != SolverStatus::Unsolved,
                self.info.iterations() <= max_iter,
            decreases (if scaling == ScalingStrategy::PrimalDual { 1int } else { 0int }), max_iter - iter,
        {

            //update the residuals
            //--------------
            self.residuals.update(&self.variables, &self.data);

            //calculate duality gap (scaled)
            //--------------
            mu = self.variables.calc_mu(&self.residuals, &self.cones);

            // record scalar values from most recent iteration.
            // This captures mu at iteration zero.
            self.info.save_scalars(mu, alpha, sigma, iter);

            // convergence check and printing
            // --------------
            self.info.update(
                &mut self.data,
                &self.variables,
                &self.residuals,&timers);

            {
                self.info.print_status(&self.settings).unwrap();
            }

            let isdone = self.info.check_termination(&self.residuals, &self.settings, iter);

            // check for termination due to slow progress and update strategy
            if isdone{
                    match self.strategy_checkpoint_insufficient_progress(scaling){
                        StrategyCheckpoint::NoUpdate | StrategyCheckpoint::Fail => {break}
                        StrategyCheckpoint::Update(s) => {scaling = s; continue}
                    }
            }  // allows continuation if new strategy provided


            // update the scalings
            // --------------
            let is_scaling_success;
            {
                is_scaling_success = self.variables.scale_cones(&mut self.cones,mu,scaling);
            }
            // check whether variables are interior points
            match self.strategy_checkpoint_is_scaling_success(is_scaling_success,scaling){
                StrategyCheckpoint::Fail => {break}
                StrategyCheckpoint::NoUpdate => {} // we only expect NoUpdate or Fail here
                StrategyCheckpoint::Update(_) => {unreachable!()}
            }

            //increment counter here because we only count
            //iterations that produce a KKT update
            iter += 1;

            // Update the KKT system and the constant parts of its solution.
            // Keep track of the success of each step that calls KKT
            // --------------
            //PJG: This should be a Result in Rust, but needs changes down
            //into the KKT solvers to do that.
            let mut is_kkt_solve_success : bool;
            {
                is_kkt_solve_success = self.kktsystem.update(&self.data, &self.cones, &self.settings);
            } // end "kkt update" timer

            // calculate the affine step
            // --------------
            self.step_rhs
                .affine_step_rhs(&self.residuals, &self.variables, &self.cones);

            {
                is_kkt_solve_success = is_kkt_solve_success &&
                self.kktsystem.solve(
                    &mut self.step_lhs,
                    &self.step_rhs,
                    &self.data,
                    &self.variables,
                    &mut self.cones,
                    StepDirection::Affine,
                    &self.settings,
                );
            }  //end "kkt solve affine" timer

            // combined step only on affine step success
            if is_kkt_solve_success {

                //calculate step length and centering parameter
                // --------------
                alpha = self.get_step_length(StepDirection::Affine, scaling);
                sigma = self.centering_parameter(alpha);

                // make a reduced Mehrotra correction in the first iteration
                // to accommodate badly centred starting points
                let m = if iter > 1 {F::one()} else {alpha};

                // calculate the combined step and length
                // --------------
                self.step_rhs.combined_step_rhs(
                    &self.residuals,
                    &self.variables,
                    &mut self.cones,
                    &mut self.step_lhs,
                    sigma,
                    mu,
                    m
                );

                {
                    is_kkt_solve_success =
                    self.kktsystem.solve(
                        &mut self.step_lhs,
                        &self.step_rhs,
                        &self.data,
                        &self.variables,
                        &mut self.cones,
                        StepDirection::Combined,
                        &self.settings,
                    );
                } //end "kkt solve"
            }

            // check for numerical failure and update strategy
            match self.strategy_checkpoint_numerical_error(is_kkt_solve_success,scaling) {
                StrategyCheckpoint::NoUpdate => {}
                StrategyCheckpoint::Update(s) => {alpha = F::zero(); scaling = s; continue}
                StrategyCheckpoint::Fail => {alpha = F::zero(); break}
            }


            // compute final step length and update the current iterate
            // --------------
            alpha = self.get_step_length(StepDirection::Combined,scaling);

            // check for undersized step and update strategy
            match self.strategy_checkpoint_small_step(alpha, scaling) {
                StrategyCheckpoint::NoUpdate => {}
                StrategyCheckpoint::Update(s) => {alpha = F::zero(); scaling = s; continue}
                StrategyCheckpoint::Fail => {alpha = F::zero(); break}
            }

            // Copy previous iterate in case the next one is a dud
            self.info.save_prev_iterate(&self.variables,&mut self.prev_vars);

            self.variables.add_step(&self.step_lhs, alpha);

        } //end loop
        // ----------
        // ----------

        } //end "IP iteration" timer

        } // end "solve" timer

        // Check we if actually took a final step.  If not, we need
        // to recapture the scalars and print one last line
        if alpha == F::zero() {
            self.info.save_scalars(mu, alpha, sigma, iter);
            {self.info.print_status(&self.settings).unwrap();}
        }

        {
            //check for "almost" convergence case and then extract solution
            self.info.post_process(&self.residuals, &self.settings);
            self.solution
                .post_process(&self.data, &mut self.variables, &self.info, &self.settings);
        }

        //halt timers
        self.info.finalize(&mut timers);
        self.solution.finalize(&self.info);

        self.info.print_footer(&self.settings).unwrap();

        //stow the timers back into Option in the solver struct
        self.timers.replace(timers);
    }

    fn default_start(&mut self) 
        ensures final(self).info.status() == old(self).info.status(), final(self).info.iterations() == old(self).info.iterations(),
                final(self).settings.max_iter() == old(self).settings.max_iter(),
    {
            if self.cones.is_symmetric() {
                // set all scalings to identity (or zero for the zero cone)
                self.cones.set_identity_scaling();
                // Refactor
                self.kktsystem
                    .update(&self.data, &self.cones, &self.settings);
                // solve for primal/dual initial points via KKT
                self.kktsystem
                    .solve_initial_point(&mut self.variables, &self.data, &self.settings);
                // fix up (z,s) so that they are in the cone
                self.variables.symmetric_initialization(&mut self.cones);
            } else {
                // Assigns unit (z,s) and zeros the primal variables
                self.variables.unit_initialization(&self.cones);
            }
        }

    fn centering_parameter(&self, alpha: F) -> F {
            F::powi(F::one() - alpha, 3)
        }

    fn get_step_length(
            &mut self,
            step_direction: StepDirection,
            scaling: ScalingStrategy,
        ) -> F 
        ensures final(self).info.status() == old(self).info.status(), final(self).info.iterations() == old(self).info.iterations(),
                final(self).settings.max_iter() == old(self).settings.max_iter(),
    {
            //step length to stay within the cones
            let mut alpha = self.variables.calc_step_length(
                &self.step_lhs,
                &mut self.cones,
                &self.settings,
                step_direction,
            );

            // additional barrier function limits for asymmetric cones
            if !self.cones.is_symmetric()
                && step_direction == StepDirection::Combined
                && scaling == ScalingStrategy::Dual
            {
                let alphainit = alpha;
                alpha = self.backtrack_step_to_barrier(alphainit);
            }
            alpha
        }

    fn backtrack_step_to_barrier(&mut self, alphainit: F) -> F 
        ensures final(self).info.status() == old(self).info.status(), final(self).info.iterations() == old(self).info.iterations(),
                final(self).settings.max_iter() == old(self).settings.max_iter(),
    {
            let step = self.settings.core().linesearch_backtrack_step;
            let mut alpha = alphainit;

            for _ in 0..50 {
                let barrier = self.variables.barrier(&self.step_lhs, alpha, &mut self.cones);
                if barrier < F::one() {
                    return alpha;
                } else {
                    alpha = step * alpha;
                }
            }
            alpha
        }

    fn strategy_checkpoint_insufficient_progress(
            &mut self,
            scaling: ScalingStrategy,
        ) -> (output: StrategyCheckpoint)
        ensures
            output is Update ==> scaling == ScalingStrategy::PrimalDual && output == StrategyCheckpoint::Update(ScalingStrategy::Dual) && final(self).info.status() == SolverStatus::Unsolved,
            !(output is Update) ==> final(self).info.status() == old(self).info.status(),
            final(self).info.iterations() == old(self).info.iterations(),
            final(self).settings.max_iter() == old(self).settings.max_iter(),
            final(self).timers == old(self).timers,
    {
            let output;
            if self.info.get_status() != SolverStatus::InsufficientProgress {
                // there is no problem, so nothing to do
                output = StrategyCheckpoint::NoUpdate;
            } else {
                // recover old iterate since "insufficient progress" often
                // involves actual degradation of results
                self.info
                    .reset_to_prev_iterate(&mut self.variables, &self.prev_vars);

                // If problem is asymmetric, we can try to continue with the dual-only strategy
                if !self.cones.is_symmetric() && (scaling == ScalingStrategy::PrimalDual) {
                    self.info.set_status(SolverStatus::Unsolved);
                    output = StrategyCheckpoint::Update(ScalingStrategy::Dual);
                } else {
                    output = StrategyCheckpoint::Fail;
                }
            }
            output
        }

    fn strategy_checkpoint_numerical_error(
            &mut self,
            is_kkt_solve_success: bool,
            scaling: ScalingStrategy,
        ) -> (output: StrategyCheckpoint)
        ensures
            output is Update ==> scaling == ScalingStrategy::PrimalDual && output == StrategyCheckpoint::Update(ScalingStrategy::Dual) && final(self).info.status() == old(self).info.status(),
            output is NoUpdate ==> final(self).info.status() == old(self).info.status(),
            output is Fail ==> final(self).info.status() == SolverStatus::NumericalError,
            final(self).info.iterations() == old(self).info.iterations(),
            final(self).settings.max_iter() == old(self).settings.max_iter(),
    {
            let output;
            // No update if kkt updates successfully
            if is_kkt_solve_success {
                output = StrategyCheckpoint::NoUpdate;
            }
            // If problem is asymmetric, we can try to continue with the dual-only strategy
            else if !self.cones.is_symmetric() && (scaling == ScalingStrategy::PrimalDual) {
                output = StrategyCheckpoint::Update(ScalingStrategy::Dual);
            } else {
                // out of tricks.  Bail out with an error
                self.info.set_status(SolverStatus::NumericalError);
                output = StrategyCheckpoint::Fail;
            }
            output
        }

    fn strategy_checkpoint_small_step(
            &mut self,
            alpha: F,
            scaling: ScalingStrategy,
        ) -> (output: StrategyCheckpoint)
        ensures
            output is Update ==> scaling == ScalingStrategy::PrimalDual && output == StrategyCheckpoint::Update(ScalingStrategy::Dual) && final(self).info.status() == old(self).info.status(),
            output is NoUpdate ==> final(self).info.status() == old(self).info.status(),
            output is Fail ==> final(self).info.status() == SolverStatus::InsufficientProgress,
            final(self).info.iterations() == old(self).info.iterations(),
            final(self).settings.max_iter() == old(self).settings.max_iter(),
    {
            let output;

            if !self.cones.is_symmetric()
                && scaling == ScalingStrategy::PrimalDual
                && alpha < self.settings.core().min_switch_step_length
            {
                output = StrategyCheckpoint::Update(ScalingStrategy::Dual);
            } else if alpha <= F::max(F::zero(), self.settings.core().min_terminate_step_length) {
                self.info.set_status(SolverStatus::InsufficientProgress);
                output = StrategyCheckpoint::Fail;
            } else {
                output = StrategyCheckpoint::NoUpdate;
            }

            output
        }

    fn strategy_checkpoint_is_scaling_success(
            &mut self,
            is_scaling_success: bool,
            _scaling: ScalingStrategy,
        ) -> (output: StrategyCheckpoint)
        ensures
            !(output is Update),
            output is NoUpdate ==> final(self).info.status() == old(self).info.status(),
            output is Fail ==> final(self).info.status() == SolverStatus::NumericalError,
            final(self).info.iterations() == old(self).info.iterations(),
            final(self).settings.max_iter() == old(self).settings.max_iter(),
    {
            if is_scaling_success {
                StrategyCheckpoint::NoUpdate
            } else {
                self.info.set_status(SolverStatus::NumericalError);
                StrategyCheckpoint::Fail
            }
        }
}

} // verus!
fn main() {}
