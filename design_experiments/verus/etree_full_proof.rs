use vstd::prelude::*;
verus! {
pub assume_specification<T: Clone> [<[T]>::fill] (s: &mut [T], v: T)
    ensures final(s)@.len() == old(s)@.len(), forall|i:int| 0 <= i < old(s)@.len() ==> final(s)@[i] == v;
pub enum QDLDLError { ZeroPivot }
const QDLDL_UNKNOWN: usize = usize::MAX;

pub open spec fn triu_wf(n: usize, ap: Seq<usize>, ai: Seq<usize>) -> bool {
    &&& ap.len() == n + 1
    &&& ap[0] == 0
    &&& ap[n as int] == ai.len()
    &&& forall|c: int, d: int| 0 <= c <= d <= n ==> ap[c] <= ap[d]
    &&& forall|c: int, k: int| #![trigger ap[c], ai[k]] 0 <= c < n && ap[c] <= k < ap[c + 1] ==> ai[k] <= c
}

fn _etree(
    n: usize,
    Ap: &[usize],
    Ai: &[usize],
    work: &mut [usize],
    Lnz: &mut [usize],
    etree: &mut [usize],
) -> (r: Result<usize, QDLDLError>)
    requires
        triu_wf(n, Ap@, Ai@), n < usize::MAX,
        old(work).len() >= n, old(Lnz).len() == n, old(etree).len() == n,
    ensures
        r is Ok,
        final(work).len() == old(work).len(), final(Lnz).len() == n, final(etree).len() == n,
        forall|i: int| 0 <= i < n ==> final(etree)[i] == QDLDL_UNKNOWN || i < final(etree)[i] < n,
        forall|i: int| 0 <= i < n ==> final(Lnz)[i] <= n,
{
    // zero out Lnz and work.  Set all etree values to unknown
    work.fill(0);
    Lnz.fill(0);
    etree.fill(QDLDL_UNKNOWN);

    // compute the elimination tree
    for j in 0..n
        invariant
            triu_wf(n, Ap@, Ai@), n < usize::MAX,
            work.len() == old(work).len(), work.len() >= n, Lnz.len() == n, etree.len() == n,
            forall|i: int| 0 <= i < n ==> etree[i] == QDLDL_UNKNOWN || (i < etree[i] < n && etree[i] < j),
            forall|i: int| 0 <= i < n ==> Lnz[i] <= j,
            forall|i: int| 0 <= i < n ==> (j > 0 ==> #[trigger] work[i] < j),
            forall|i: int| 0 <= i < n ==> (j == 0 ==> #[trigger] work[i] == 0),
            forall|i: int| 0 <= i < n ==> (j == 0 ==> #[trigger] Lnz[i] == 0),
    {
        work[j] = j;
        for istart in it: Ai.iter().take(Ap[j + 1]).skip(Ap[j])
            invariant
                triu_wf(n, Ap@, Ai@), n < usize::MAX, j < n,
                work.len() == old(work).len(), work.len() >= n, Lnz.len() == n, etree.len() == n,
                it.seq().len() == Ap[j + 1] - Ap[j as int],
                forall|k: int| 0 <= k < it.seq().len() ==> *it.seq()[k] == Ai[Ap[j as int] + k],
                forall|i: int| 0 <= i < n ==> etree[i] == QDLDL_UNKNOWN || (i < etree[i] < n && etree[i] <= j),
                forall|i: int| 0 <= i < n ==> #[trigger] Lnz[i] <= j + 1,
                forall|i: int| 0 <= i < n ==> (work[i] != j ==> #[trigger] Lnz[i] <= j),
                forall|i: int| 0 <= i < n ==> work[i] <= j,
                work[j as int] == j,
        {
            let mut i = *istart;

            while work[i] != j
                invariant
                    n < usize::MAX, j < n, i <= j,
                    work.len() == old(work).len(), work.len() >= n, Lnz.len() == n, etree.len() == n,
                    forall|q: int| 0 <= q < n ==> etree[q] == QDLDL_UNKNOWN || (q < etree[q] < n && etree[q] <= j),
                    forall|q: int| 0 <= q < n ==> #[trigger] Lnz[q] <= j + 1,
                    forall|q: int| 0 <= q < n ==> (work[q] != j ==> #[trigger] Lnz[q] <= j),
                    forall|q: int| 0 <= q < n ==> work[q] <= j,
                    work[j as int] == j,
                decreases j - i,
            {
                if etree[i] == QDLDL_UNKNOWN {
                    etree[i] = j;
                }
                Lnz[i] += 1; // nonzeros in this column
                work[i] = j;
                i = etree[i];
            }
        }
    }

    Ok(0)
}
}
fn main(){}
