use vstd::prelude::*;
verus! {
pub struct F { pub bits: u64 }
impl Copy for F {}
impl Clone for F { #[verifier::external_body] fn clone(&self) -> (r: F) ensures r == *self { *self } }

pub struct CscMatrix { pub m: usize, pub n: usize, pub colptr: Vec<usize>, pub rowval: Vec<usize>, pub nzval: Vec<F> }
#[derive(PartialEq, Eq, Clone, Copy, Structural)]
pub enum MatrixShape { N, T }

impl CscMatrix {
    pub open spec fn wf(&self) -> bool {
        &&& self.colptr.len() == self.n + 1
        &&& self.rowval.len() == self.nzval.len()
        &&& self.colptr[0] == 0
        &&& self.colptr[self.n as int] == self.rowval.len()
        &&& forall|c: int, d: int| 0 <= c <= d <= self.n ==> self.colptr[c] <= self.colptr[d]
        &&& forall|k: int| 0 <= k < self.rowval.len() ==> #[trigger] self.rowval[k] < self.m
    }
    // destination column of source entry j
    pub open spec fn src_col(&self, j: int) -> int
        recommends self.wf(), 0 <= j < self.rowval.len()
    { choose|c: int| 0 <= c < self.n && self.colptr[c] <= j < self.colptr[c + 1] }

    // number of source entries with index < j whose destination column (in K) is kc
    pub open spec fn dest_col(&self, j: int, initcol: int, shape: MatrixShape) -> int {
        if shape == MatrixShape::T { self.rowval[j] + initcol } else { self.src_col(j) + initcol }
    }
    pub open spec fn placed_before(&self, j: int, kc: int, initcol: int, shape: MatrixShape) -> nat
        decreases j
    {
        if j <= 0 { 0 } else {
            self.placed_before(j - 1, kc, initcol, shape) + (if self.dest_col(j - 1, initcol, shape) == kc { 1nat } else { 0nat })
        }
    }

    // verbatim body of src/algebra/csc/utils.rs::fill_block (T -> F)
    #[allow(clippy::needless_range_loop)]
    pub(crate) fn fill_block(
        &mut self,
        M: &CscMatrix,
        MtoKKT: &mut [usize],
        initrow: usize,
        initcol: usize,
        shape: MatrixShape,
    )
        requires
            M.wf(),
            old(MtoKKT).len() == M.rowval.len(),
            old(self).rowval.len() == old(self).nzval.len(),
            initrow as int + (if shape == MatrixShape::T { M.n } else { M.m }) <= usize::MAX,
            initcol as int + (if shape == MatrixShape::T { M.m } else { M.n }) <= old(self).colptr.len(),
            // capacity: every cursor has room for what this call will place in its column
            forall|kc: int| 0 <= kc < old(self).colptr.len() ==>
                #[trigger] old(self).colptr[kc] + M.placed_before(M.rowval.len() as int, kc, initcol as int, shape) <= old(self).rowval.len(),
        ensures
            final(self).m == old(self).m, final(self).n == old(self).n,
            final(self).colptr.len() == old(self).colptr.len(),
            final(self).rowval.len() == old(self).rowval.len(), final(self).nzval.len() == old(self).nzval.len(),
            final(MtoKKT).len() == old(MtoKKT).len(),
            // cursors advanced by exactly the number of entries placed
            forall|kc: int| 0 <= kc < final(self).colptr.len() ==>
                #[trigger] final(self).colptr[kc] == old(self).colptr[kc] + M.placed_before(M.rowval.len() as int, kc, initcol as int, shape),
            // every source entry sits at its recorded slot with the right row and value
            forall|j: int| 0 <= j < M.rowval.len() ==> {
                let d = #[trigger] final(MtoKKT)[j];
                &&& d < final(self).rowval.len()
                &&& final(self).nzval[d as int] == M.nzval[j]
                &&& final(self).rowval[d as int] == (if shape == MatrixShape::T { M.src_col(j) + initrow } else { M.rowval[j] + initrow })
            },
    {
        for i in 0..M.n {
            let start = M.colptr[i];
            let stop = M.colptr[i + 1];

            for j in start..stop {
                let (col, row);

                match shape {
                    MatrixShape::T => {
                        col = M.rowval[j] + initcol;
                        row = i + initrow;
                    }
                    MatrixShape::N => {
                        col = i + initcol;
                        row = M.rowval[j] + initrow;
                    }
                };

                let dest = self.colptr[col];
                self.rowval[dest] = row;
                self.nzval[dest] = M.nzval[j];
                MtoKKT[j] = dest;
                self.colptr[col] += 1;
            }
        }
    }
}
}
fn main(){}
