use vstd::prelude::*;
verus! {

// ---------- prelude ----------
pub struct F { pub bits: u64 }
impl Copy for F {}
impl Clone for F { #[verifier::external_body] fn clone(&self) -> (r: F) ensures r == *self { *self } }
pub uninterp spec fn f_lt(a: F, b: F) -> bool;
pub uninterp spec fn f_le(a: F, b: F) -> bool;
pub uninterp spec fn f_mul(a: F, b: F) -> F;
pub uninterp spec fn f_neg(a: F) -> F;
pub uninterp spec fn f_recip(a: F) -> F;
pub uninterp spec fn f_lit(x: f64) -> F;
pub uninterp spec fn f_one() -> F;
pub uninterp spec fn f_eps() -> F;

impl vstd::std_specs::ops::MulSpecImpl<F> for F {
    open spec fn obeys_mul_spec() -> bool { true }
    open spec fn mul_req(self, rhs: F) -> bool { true }
    open spec fn mul_spec(self, rhs: F) -> F { f_mul(self, rhs) }
}
impl core::ops::Mul for F { type Output = F; #[verifier::external_body] fn mul(self, rhs: F) -> F { unimplemented!() } }
impl vstd::std_specs::ops::NegSpecImpl for F {
    open spec fn obeys_neg_spec() -> bool { true }
    open spec fn neg_req(self) -> bool { true }
    open spec fn neg_spec(self) -> F { f_neg(self) }
}
impl core::ops::Neg for F { type Output = F; #[verifier::external_body] fn neg(self) -> F { unimplemented!() } }

impl vstd::std_specs::cmp::PartialEqSpecImpl for F {
    open spec fn obeys_eq_spec() -> bool { false }
    open spec fn eq_spec(&self, o: &F) -> bool { true }
}
impl PartialEq for F { #[verifier::external_body] fn eq(&self, o: &F) -> bool { unimplemented!() } }
impl vstd::std_specs::cmp::PartialOrdSpecImpl for F {
    open spec fn obeys_partial_cmp_spec() -> bool { false }
    open spec fn partial_cmp_spec(&self, o: &F) -> Option<core::cmp::Ordering> { None }
}
impl PartialOrd for F {
    #[verifier::external_body] fn partial_cmp(&self, o: &F) -> Option<core::cmp::Ordering> { unimplemented!() }
    #[verifier::external_body] fn lt(&self, o: &F) -> (r: bool) ensures r == f_lt(*self, *o) { unimplemented!() }
    #[verifier::external_body] fn le(&self, o: &F) -> (r: bool) ensures r == f_le(*self, *o) { unimplemented!() }
    #[verifier::external_body] fn gt(&self, o: &F) -> (r: bool) ensures r == f_lt(*o, *self) { unimplemented!() }
    #[verifier::external_body] fn ge(&self, o: &F) -> (r: bool) ensures r == f_le(*o, *self) { unimplemented!() }
}
impl F {
    #[verifier::external_body] pub fn one() -> (r: F) ensures r == f_one() { unimplemented!() }
    #[verifier::external_body] pub fn epsilon() -> (r: F) ensures r == f_eps() { unimplemented!() }
    #[verifier::external_body] pub fn recip(self) -> (r: F) ensures r == f_recip(self) { unimplemented!() }
}
pub trait AsFloatT { fn as_T(&self) -> F; }
impl AsFloatT for f64 { #[verifier::external_body] fn as_T(&self) -> (r: F) ensures r == f_lit(*self) { unimplemented!() } }


pub uninterp spec fn f_sub(a: F, b: F) -> F;
impl vstd::std_specs::ops::SubSpecImpl<F> for F {
    open spec fn obeys_sub_spec() -> bool { true }
    open spec fn sub_req(self, rhs: F) -> bool { true }
    open spec fn sub_spec(self, rhs: F) -> F { f_sub(self, rhs) }
}
impl core::ops::Sub for F { type Output = F; #[verifier::external_body] fn sub(self, rhs: F) -> F { unimplemented!() } }
impl core::ops::SubAssign for F { #[verifier::external_body] fn sub_assign(&mut self, rhs: F) { unimplemented!() } }
impl core::ops::MulAssign for F { #[verifier::external_body] fn mul_assign(&mut self, rhs: F) { unimplemented!() } }
impl core::ops::AddAssign for F { #[verifier::external_body] fn add_assign(&mut self, rhs: F) { unimplemented!() } }
impl F {
    #[verifier::external_body] pub fn zero() -> (r: F) { unimplemented!() }
    #[verifier::external_body] pub fn from_i8(a: i8) -> (r: Option<F>) ensures r is Some { unimplemented!() }
}
pub assume_specification<T: Clone> [<[T]>::fill] (s: &mut [T], v: T)
    ensures final(s)@.len() == old(s)@.len(), forall|i:int| 0 <= i < old(s)@.len() ==> final(s)@[i] == v;
pub enum QDLDLError { IncompatibleDimension, EmptyColumn, NotUpperTriangular, ZeroPivot, InvalidPermutation }
const QDLDL_UNKNOWN: usize = usize::MAX;
const QDLDL_USED: bool = true;
const QDLDL_UNUSED: bool = false;

#[verifier::exec_allows_no_decreases_clause]
fn _etree(
    n: usize,
    Ap: &[usize],
    Ai: &[usize],
    work: &mut [usize],
    Lnz: &mut [usize],
    etree: &mut [usize],
) -> Result<usize, QDLDLError> {
    // zero out Lnz and work.  Set all etree values to unknown
    work.fill(0);
    Lnz.fill(0);
    etree.fill(QDLDL_UNKNOWN);

    // compute the elimination tree
    for j in 0..n {
        work[j] = j;
        for istart in Ai.iter().take(Ap[j + 1]).skip(Ap[j]) {
            let mut i = *istart;

            while work[i] != j {
                if etree[i] == QDLDL_UNKNOWN {
                    etree[i] = j;
                }
                Lnz[i] += 1; // nonzeros in this column
                work[i] = j;
                i = etree[i];
            }
        }
    }

    Ok(0)
}

#[verifier::exec_allows_no_decreases_clause]
fn _factor_inner(
    n: usize,
    Ap: &[usize],
    Ai: &[usize],
    Ax: &[F],
    Lp: &mut [usize],
    Li: &mut [usize],
    Lx: &mut [F],
    D: &mut [F],
    Dinv: &mut [F],
    Lnz: &[usize],
    etree: &[usize],
    bwork: &mut [bool],
    iwork: &mut [usize],
    fwork: &mut [F],
    logical_factor: bool,
    Dsigns: &[i8],
    regularize_enable: bool,
    regularize_eps: F,
    regularize_delta: F,
    regularize_count: &mut usize,
) -> Result<usize, QDLDLError> {
    *regularize_count = 0;
    let mut positiveValuesInD = 0;

    // partition working memory into pieces
    let y_markers = bwork;
    let (y_idx, iwork) = iwork.split_at_mut(n);
    let (elim_buffer, next_colspace) = iwork.split_at_mut(n);
    let y_vals = fwork;

    //set Lp to cumsum(Lnz), starting from zero
    Lp[0] = 0;
    let mut acc = 0;
    for (Lp, Lnz) in (&mut Lp[1..]).into_iter().zip(Lnz) {
        acc += Lnz;
        *Lp = acc;
    }

    //  set all y_idx to be 'unused' initially
    // in each column of L, the next available space
    // to start is just the first space in the column
    y_markers.fill(QDLDL_UNUSED);
    y_vals.fill(F::zero());
    D.fill(F::zero());
    next_colspace.copy_from_slice(&Lp[0..Lp.len() - 1]);

    if !logical_factor {
        // First element of the diagonal D.
        D[0] = Ax[0];
        if regularize_enable {
            let sign = F::from_i8(Dsigns[0]).unwrap();
            if D[0] * sign < regularize_eps {
                D[0] = regularize_delta * sign;
                *regularize_count += 1;
            }
        }

        if D[0] == F::zero() {
            return Err(QDLDLError::ZeroPivot);
        }
        if D[0] > F::zero() {
            positiveValuesInD += 1;
        }
        Dinv[0] = F::recip(D[0]);
    }

    // Start from second row (k=1) here. The upper LH corner is trivially 0
    // in L b/c we are only computing the subdiagonal elements
    for k in 1..n {
        // NB : For each k, we compute a solution to
        // y = L(0:(k-1),0:k-1))\b, where b is the kth
        // column of A that sits above the diagonal.
        // The solution y is then the kth row of L,
        // with an implied '1' at the diagonal entry.

        // number of nonzeros in this row of L
        let mut nnz_y = 0; // number of elements in this row

        // This loop determines where nonzeros
        // will go in the kth row of L, but doesn't
        // compute the actual values

        for i in Ap[k]..Ap[k + 1] {
            let bidx = Ai[i]; //we are working on this element of b

            // Initialize D[k] as the element of this column
            // corresponding to the diagonal place.  Don't use
            // this element as part of the elimination step
            // that computes the k^th row of L
            if bidx == k {
                D[k] = Ax[i];
                continue;
            }

            y_vals[bidx] = Ax[i]; // initialise y(bidx) = b(bidx)

            // use the forward elimination tree to figure
            // out which elements must be eliminated after
            // this element of b
            let next_idx = bidx;

            if y_markers[next_idx] == QDLDL_UNUSED {
                //this y term not already visited

                y_markers[next_idx] = QDLDL_USED; //I touched this one
                elim_buffer[0] = next_idx; // It goes at the start of the current list
                let mut nnz_e = 1; //length of unvisited elimination path from here

                let mut next_idx = etree[bidx];

                while next_idx != QDLDL_UNKNOWN && next_idx < k {
                    if y_markers[next_idx] == QDLDL_USED {
                        break;
                    }

                    y_markers[next_idx] = QDLDL_USED; // I touched this one
                    elim_buffer[nnz_e] = next_idx; // It goes in the current list
                    next_idx = etree[next_idx]; // one step further along tree
                    nnz_e += 1; // the list is one longer than before
                }

                // now put the buffered elimination list into
                // my current ordering in reverse order
                while nnz_e != 0 {
                    nnz_e -= 1;
                    y_idx[nnz_y] = elim_buffer[nnz_e];
                    nnz_y += 1;
                }
            }
        }

        // This for loop places nonzeros values in the k^th row
        for i in (0..nnz_y).rev() {
            // which column are we working on?
            let cidx = y_idx[i];

            // loop along the elements in this
            // column of L and subtract to solve to y
            let tmp_idx = next_colspace[cidx];

            // don't compute Lx for logical factorisation
            // this logic is not implemented in the C version
            if !logical_factor {
                let y_vals_cidx = y_vals[cidx];

                let (f, l) = (Lp[cidx], tmp_idx);
                unsafe {
                    //Safety : Here the Lij index comes from the rowval
                    //field of the sparse L factor matrix, and should
                    //always be bounded by the matrix dimension.
                    for (Lxj_r, Lij_r) in (&Lx[f..l]).into_iter().zip(&Li[f..l]) { let Lxj = *Lxj_r; let Lij = *Lij_r;
                        y_vals[Lij] -= Lxj * y_vals_cidx;
                    }

                    // Now I have the cidx^th element of y = L\b.
                    // so compute the corresponding element of
                    // this row of L and put it into the right place
                    let Lx_tmp_idx = y_vals_cidx * Dinv[cidx];
                    Lx[tmp_idx] = Lx_tmp_idx;
                    D[k] -= y_vals_cidx * Lx_tmp_idx;
                }
            }

            // record which row it went into
            Li[tmp_idx] = k;
            next_colspace[cidx] += 1;

            // reset the y_vals and indices back to zero and QDLDL_UNUSED
            // once I'm done with them
            y_vals[cidx] = F::zero();
            y_markers[cidx] = QDLDL_UNUSED;
        }

        if !logical_factor {
            // apply dynamic regularization
            if regularize_enable {
                let sign = F::from_i8(Dsigns[k]).unwrap();
                if D[k] * sign < regularize_eps {
                    D[k] = regularize_delta * sign;
                    *regularize_count += 1;
                }
            }

            // Maintain a count of the positive entries
            // in D.  If we hit a zero, we can't factor
            // this matrix, so abort
            if D[k] == F::zero() {
                return Err(QDLDLError::ZeroPivot);
            }
            if D[k] > F::zero() {
                positiveValuesInD += 1;
            }

            // compute the inverse of the diagonal
            Dinv[k] = F::recip(D[k]);
        }
    } //end for k

    Ok(positiveValuesInD)
}

#[verifier::exec_allows_no_decreases_clause]
fn _lsolve_unsafe(Lp: &[usize], Li: &[usize], Lx: &[F], x: &mut [F]) {
    unsafe {
        for i in 0..x.len() {
            let xi = x[i];
            let f = Lp[i];
            let l = Lp[i + 1];
            for (Lxj_r, Lij_r) in (&Lx[f..l]).into_iter().zip(&Li[f..l]) { let Lxj = *Lxj_r; let Lij = *Lij_r;
                x[Lij] -= Lxj * xi;
            }
        }
    }
}

#[verifier::exec_allows_no_decreases_clause]
fn _dltsolve_unsafe(Lp: &[usize], Li: &[usize], Lx: &[F], Dinv: &[F], x: &mut [F]) {
    unsafe {
        for i in (0..x.len()).rev() {
            let mut s = F::zero();
            let f = Lp[i];
            let l = Lp[i + 1];
            for (Lxj_r, Lij_r) in (&Lx[f..l]).into_iter().zip(&Li[f..l]) { let Lxj = *Lxj_r; let Lij = *Lij_r;
                s += Lxj * x[Lij];
            }

            let xi = &mut x[i];
            *xi *= Dinv[i];
            *xi -= s;
        }
    }
}
} // verus!
fn main() {}
