use vstd::prelude::*;
verus! {
// disjoint set union type for clique graph merge
// See: https://www.cs.princeton.edu/~wayne/kleinberg-tardos/pdf/UnionFind-2x2.pdf

pub(crate) struct DisjointSetUnion {
    parents: Vec<usize>,
    ranks: Vec<usize>,
}

impl DisjointSetUnion {
    pub closed spec fn wf(&self) -> bool {
        &&& self.parents.len() == self.ranks.len()
        &&& forall|i: int| 0 <= i < self.parents.len() ==> self.parents[i] < self.parents.len()
    }

    #[verifier::external]
    pub(crate) fn new(n: usize) -> Self {
        Self {
            parents: (0..n).collect(),
            ranks: vec![0; n],
        }
    }

    #[verifier::external]
    pub(crate) fn union(&mut self, x: usize, y: usize) {
        let r = self.root(x);
        let s = self.root(y);

        if r == s {
            return;
        }

        match self.ranks[r].cmp(&self.ranks[s]) {
            std::cmp::Ordering::Greater => {
                self.parents[s] = r;
            }
            std::cmp::Ordering::Less => {
                self.parents[r] = s;
            }
            std::cmp::Ordering::Equal => {
                self.parents[r] = s;
                self.ranks[s] += 1;
            }
        }
    }

    #[verifier::external]
    pub(crate) fn in_same_set(&mut self, x: usize, y: usize) -> bool {
        self.root(x) == self.root(y)
    }

    #[verifier::exec_allows_no_decreases_clause]
    fn root(&mut self, x: usize) -> (r: usize)
        requires old(self).wf(), x < old(self).parents.len(),
        ensures final(self).wf(), final(self).parents.len() == old(self).parents.len(),
                r < final(self).parents.len(), final(self).parents[r as int] == r,
    {
        let mut parent = x;
        while parent != self.parents[x]
            invariant self.wf(), x < self.parents.len(), parent < self.parents.len(), self.parents.len() == old(self).parents.len(),
        {
            self.parents[x] = self.parents[self.parents[x]]; //path compression
            parent = self.parents[x];
        }
        parent
    }
}


}
fn main(){}
