use vstd::prelude::*;
verus! {

// ---------- prelude ----------
pub struct F { pub bits: u64 }
impl Copy for F {}
impl Clone for F { #[verifier::external_body] fn clone(&self) -> (r: F) ensures r == *self { *self } }
pub uninterp spec fn f_lt(a: F, b: F) -> bool;
pub uninterp spec fn f_le(a: F, b: F) -> bool;
pub uninterp spec fn f_mul(a: F, b: F) -> F;
pub uninterp spec fn f_neg(a: F) -> F;
pub uninterp spec fn f_recip(a: F) -> F;
pub uninterp spec fn f_lit(x: f64) -> F;
pub uninterp spec fn f_one() -> F;
pub uninterp spec fn f_eps() -> F;

impl vstd::std_specs::ops::MulSpecImpl<F> for F {
    open spec fn obeys_mul_spec() -> bool { true }
    open spec fn mul_req(self, rhs: F) -> bool { true }
    open spec fn mul_spec(self, rhs: F) -> F { f_mul(self, rhs) }
}
impl core::ops::Mul for F { type Output = F; #[verifier::external_body] fn mul(self, rhs: F) -> F { unimplemented!() } }
impl vstd::std_specs::ops::NegSpecImpl for F {
    open spec fn obeys_neg_spec() -> bool { true }
    open spec fn neg_req(self) -> bool { true }
    open spec fn neg_spec(self) -> F { f_neg(self) }
}
impl core::ops::Neg for F { type Output = F; #[verifier::external_body] fn neg(self) -> F { unimplemented!() } }

impl vstd::std_specs::cmp::PartialEqSpecImpl for F {
    open spec fn obeys_eq_spec() -> bool { false }
    open spec fn eq_spec(&self, o: &F) -> bool { true }
}
impl PartialEq for F { #[verifier::external_body] fn eq(&self, o: &F) -> bool { unimplemented!() } }
impl vstd::std_specs::cmp::PartialOrdSpecImpl for F {
    open spec fn obeys_partial_cmp_spec() -> bool { false }
    open spec fn partial_cmp_spec(&self, o: &F) -> Option<core::cmp::Ordering> { None }
}
impl PartialOrd for F {
    #[verifier::external_body] fn partial_cmp(&self, o: &F) -> Option<core::cmp::Ordering> { unimplemented!() }
    #[verifier::external_body] fn lt(&self, o: &F) -> (r: bool) ensures r == f_lt(*self, *o) { unimplemented!() }
    #[verifier::external_body] fn le(&self, o: &F) -> (r: bool) ensures r == f_le(*self, *o) { unimplemented!() }
    #[verifier::external_body] fn gt(&self, o: &F) -> (r: bool) ensures r == f_lt(*o, *self) { unimplemented!() }
    #[verifier::external_body] fn ge(&self, o: &F) -> (r: bool) ensures r == f_le(*o, *self) { unimplemented!() }
}
impl F {
    #[verifier::external_body] pub fn one() -> (r: F) ensures r == f_one() { unimplemented!() }
    #[verifier::external_body] pub fn epsilon() -> (r: F) ensures r == f_eps() { unimplemented!() }
    #[verifier::external_body] pub fn recip(self) -> (r: F) ensures r == f_recip(self) { unimplemented!() }
}
pub trait AsFloatT { fn as_T(&self) -> F; }
impl AsFloatT for f64 { #[verifier::external_body] fn as_T(&self) -> (r: F) ensures r == f_lit(*self) { unimplemented!() } }

// ---------- extracted ----------
#[derive(PartialEq, Eq, Clone, Copy)]
pub enum SolverStatus { Unsolved, Solved, PrimalInfeasible, DualInfeasible, AlmostSolved, AlmostPrimalInfeasible, AlmostDualInfeasible, MaxIterations, MaxTime, NumericalError, InsufficientProgress }

pub struct DefaultResiduals { pub dot_qx: F, pub dot_bz: F }

pub struct DefaultInfo {
    pub iterations: u32,
    pub res_primal: F, pub res_dual: F, pub res_primal_inf: F, pub res_dual_inf: F,
    pub gap_abs: F, pub gap_rel: F, pub ktratio: F,
    pub status: SolverStatus,
}

impl DefaultInfo {
    fn check_convergence(
        &mut self,
        residuals: &DefaultResiduals,
        tol_gap_abs: F,
        tol_gap_rel: F,
        tol_feas: F,
        tol_infeas_abs: F,
        tol_infeas_rel: F,
        tol_ktratio: F,
        solved_status: SolverStatus,
        pinf_status: SolverStatus,
        dinf_status: SolverStatus,
    )
        requires solved_status != pinf_status, solved_status != dinf_status, pinf_status != dinf_status,
        ensures
            final(self).status == solved_status && old(self).status != solved_status ==> 
                f_le(old(self).ktratio, f_one()) && (f_lt(old(self).gap_abs, tol_gap_abs) || f_lt(old(self).gap_rel, tol_gap_rel))
                && f_lt(old(self).res_primal, tol_feas) && f_lt(old(self).res_dual, tol_feas),
            final(self).status == pinf_status && old(self).status != pinf_status && pinf_status != solved_status ==>
                f_lt(residuals.dot_bz, f_neg(tol_infeas_abs)) && f_lt(old(self).res_primal_inf, f_mul(f_neg(tol_infeas_rel), residuals.dot_bz)),
    {
        if self.ktratio <= F::one() && self.is_solved(tol_gap_abs, tol_gap_rel, tol_feas) {
            self.status = solved_status;
        //PJG hardcoded factor 1000 here should be fixed
        } else if self.ktratio > tol_ktratio.recip() * (1000.0).as_T() {
            if self.is_primal_infeasible(residuals, tol_infeas_abs, tol_infeas_rel) {
                self.status = pinf_status;
            } else if self.is_dual_infeasible(residuals, tol_infeas_abs, tol_infeas_rel) {
                self.status = dinf_status;
            }
        }
    }

    fn is_solved(&self, tol_gap_abs: F, tol_gap_rel: F, tol_feas: F) -> (r: bool)
        ensures r == ((f_lt(self.gap_abs, tol_gap_abs) || f_lt(self.gap_rel, tol_gap_rel)) && f_lt(self.res_primal, tol_feas) && f_lt(self.res_dual, tol_feas)),
    {
        ((self.gap_abs < tol_gap_abs) || (self.gap_rel < tol_gap_rel))
            && (self.res_primal < tol_feas)
            && (self.res_dual < tol_feas)
    }

    fn is_primal_infeasible(
        &self,
        residuals: &DefaultResiduals,
        tol_infeas_abs: F,
        tol_infeas_rel: F,
    ) -> (r: bool)
        ensures r == (f_lt(residuals.dot_bz, f_neg(tol_infeas_abs)) && f_lt(self.res_primal_inf, f_mul(f_neg(tol_infeas_rel), residuals.dot_bz))),
    {
        (residuals.dot_bz < -tol_infeas_abs)
            && (self.res_primal_inf < -tol_infeas_rel * residuals.dot_bz)
    }

    fn is_dual_infeasible(
        &self,
        residuals: &DefaultResiduals,
        tol_infeas_abs: F,
        tol_infeas_rel: F,
    ) -> bool {
        (residuals.dot_qx < -tol_infeas_abs)
            && (self.res_dual_inf < -tol_infeas_rel * residuals.dot_qx)
    }
}

} // verus!
fn main() {}
