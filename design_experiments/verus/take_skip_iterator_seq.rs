use vstd::prelude::*;
verus! {

fn sum_range(Ai: &[usize], lo: usize, hi: usize) -> (r: usize)
    requires lo <= hi <= Ai.len(), forall|k:int| 0 <= k < Ai.len() ==> Ai[k] < 100, hi < 1000,
    ensures r <= 100 * (hi - lo),
{
    let mut acc: usize = 0;
    for istart in it: Ai.iter().take(hi).skip(lo)
        invariant acc <= 100 * it.index@, 
           it.seq().len() == hi - lo,
           forall|k:int| 0 <= k < it.seq().len() ==> *it.seq()[k] == Ai[lo + k],
           forall|k:int| 0 <= k < Ai.len() ==> Ai[k] < 100, hi < 1000, lo <= hi <= Ai.len(),
    {
        acc = acc + *istart;
    }
    acc
}

} // verus!
fn main() {}
