use vstd::prelude::*;
verus! {

pub struct F { pub bits: u64 }
impl Copy for F {}
impl Clone for F { #[verifier::external_body] fn clone(&self) -> (r: F) ensures r == *self { *self } }
impl F {
    pub uninterp spec fn v(self) -> real;
    #[verifier::external_body] pub fn zero() -> (r: F) ensures r.v() == 0real { unimplemented!() }
    #[verifier::external_body] pub fn min(a: F, b: F) -> (r: F) ensures r.v() == (if a.v() <= b.v() { a.v() } else { b.v() }), r == a || r == b { unimplemented!() }
}
pub uninterp spec fn f_neg(a: F) -> F;
pub uninterp spec fn f_div(a: F, b: F) -> F;
pub broadcast proof fn ax_neg(a: F) ensures #[trigger] f_neg(a).v() == -a.v() { admit(); }
pub broadcast proof fn ax_div(a: F, b: F) requires b.v() != 0real ensures #[trigger] f_div(a, b).v() == a.v() / b.v() { admit(); }
impl vstd::std_specs::ops::NegSpecImpl for F {
    open spec fn obeys_neg_spec() -> bool { true }
    open spec fn neg_req(self) -> bool { true }
    open spec fn neg_spec(self) -> F { f_neg(self) }
}
impl core::ops::Neg for F { type Output = F; #[verifier::external_body] fn neg(self) -> F { unimplemented!() } }
impl vstd::std_specs::ops::DivSpecImpl<F> for F {
    open spec fn obeys_div_spec() -> bool { true }
    open spec fn div_req(self, rhs: F) -> bool { true }
    open spec fn div_spec(self, rhs: F) -> F { f_div(self, rhs) }
}
impl core::ops::Div for F { type Output = F; #[verifier::external_body] fn div(self, rhs: F) -> F { unimplemented!() } }
impl vstd::std_specs::cmp::PartialEqSpecImpl for F {
    open spec fn obeys_eq_spec() -> bool { false }
    open spec fn eq_spec(&self, o: &F) -> bool { true }
}
impl PartialEq for F { #[verifier::external_body] fn eq(&self, o: &F) -> bool { unimplemented!() } }
impl vstd::std_specs::cmp::PartialOrdSpecImpl for F {
    open spec fn obeys_partial_cmp_spec() -> bool { false }
    open spec fn partial_cmp_spec(&self, o: &F) -> Option<core::cmp::Ordering> { None }
}
impl PartialOrd for F {
    #[verifier::external_body] fn partial_cmp(&self, o: &F) -> Option<core::cmp::Ordering> { unimplemented!() }
    #[verifier::external_body] fn lt(&self, o: &F) -> (r: bool) ensures r == (self.v() < o.v()) { unimplemented!() }
}

// verbatim loop of NonnegativeCone::step_length (z component only), T -> F, α -> alpha
fn step_length_z(dz: &[F], z: &[F], alphamax: F) -> (alphaz: F)
    requires dz.len() == z.len(), alphamax.v() >= 0real,
             forall|i: int| 0 <= i < z.len() ==> z[i].v() >= 0real,
    ensures alphaz.v() <= alphamax.v(), alphaz.v() >= 0real,
            forall|i: int| 0 <= i < z.len() ==> z[i].v() + alphaz.v() * dz[i].v() >= 0real,
{
    let mut alphaz = alphamax;
    for i in 0..z.len()
        invariant dz.len() == z.len(), alphaz.v() <= alphamax.v(), alphaz.v() >= 0real,
            forall|k: int| 0 <= k < z.len() ==> z[k].v() >= 0real,
            forall|k: int| 0 <= k < i ==> z[k].v() + alphaz.v() * dz[k].v() >= 0real,
    {
        broadcast use {ax_neg, ax_div};
        let ghost prev = alphaz;
        if dz[i] < F::zero() {
            proof {
                let zi = z[i as int].v(); let di = dz[i as int].v();
                assert((-zi) / di >= 0real) by(nonlinear_arith) requires zi >= 0real, di < 0real;
            }
            alphaz = F::min(alphaz, -z[i] / dz[i]);
        }
        proof {
            assert forall|k: int| 0 <= k <= i implies z[k].v() + alphaz.v() * dz[k].v() >= 0real by {
                let a = alphaz.v(); let p = prev.v(); let zk = z[k].v(); let dk = dz[k].v();
                assert(0real <= a <= p);
                if k < i {
                    assert(zk + p * dk >= 0real);
                    assert(zk + a * dk >= 0real) by(nonlinear_arith)
                        requires 0real <= a <= p, zk >= 0real, zk + p * dk >= 0real;
                } else {
                    if dk < 0real {
                        assert(a <= (-zk) / dk);
                        assert(zk + a * dk >= 0real) by(nonlinear_arith)
                            requires a <= (-zk) / dk, dk < 0real;
                    } else {
                        assert(zk + a * dk >= 0real) by(nonlinear_arith)
                            requires a >= 0real, zk >= 0real, dk >= 0real;
                    }
                }
            }
        }
    }
    alphaz
}

} // verus!
fn main() {}
