// appended to /repo/src/qdldl/qdldl.rs in a scratch copy (design-time probe), with
//   #[cfg_attr(kani, kani::ensures(|r: &Result<Vec<usize>, QDLDLError>| r.is_ok() == verif_kani::is_perm(p)))]
// inserted above `fn _invperm`.
// Result: proof_for_contract FAILED after 604 s; plain harness FAILED after 60 s with p=[1,1] (finding F1).
#[cfg(kani)]
mod verif_kani {
    use super::*;
    pub fn is_perm(p: &[usize]) -> bool {
        let n = p.len();
        let mut i = 0;
        while i < n {
            if p[i] >= n { return false; }
            let mut j = 0;
            while j < i {
                if p[j] == p[i] { return false; }
                j += 1;
            }
            i += 1;
        }
        true
    }

    #[kani::proof]
    #[kani::unwind(5)]
    fn plain_invperm() {
        let a: [usize; 3] = kani::any();
        let n: usize = kani::any();
        kani::assume(n <= 3);
        let r = _invperm(&a[..n]);
        assert!(r.is_ok() == is_perm(&a[..n]));
    }

    #[kani::proof_for_contract(_invperm)]
    #[kani::unwind(5)]
    fn check_invperm() {
        let a: [usize; 3] = kani::any();
        let n: usize = kani::any();
        kani::assume(n <= 3);
        let _ = _invperm(&a[..n]);
    }
}
