// appended to /repo/src/solver/implementations/default/info.rs in a scratch copy (design-time probe).
// Results (cargo kani --no-overflow-checks): ct_a 5.5 s, ct_b 5.9 s, ct_d 8.1 s  -- comparison-only assertions;
// ct_c 597 s -- the only difference is that its assertion recomputes `-tol_infeas_rel * dot_bz`
// (equivalence of two symbolic f64 multipliers). z3 / kissat back ends: no better (600 s timeouts).
#[cfg(kani)]
mod verif_kani {
    use super::*;

    fn any_info() -> DefaultInfo<f64> {
        let mut info = DefaultInfo::<f64>::new();
        info.iterations = kani::any();
        info.cost_primal = kani::any();
        info.cost_dual = kani::any();
        info.res_primal = kani::any();
        info.res_dual = kani::any();
        info.res_primal_inf = kani::any();
        info.res_dual_inf = kani::any();
        info.gap_abs = kani::any();
        info.gap_rel = kani::any();
        info.ktratio = kani::any();
        info.prev_res_primal = kani::any();
        info.prev_res_dual = kani::any();
        info.prev_gap_abs = kani::any();
        info.prev_gap_rel = kani::any();
        info.solve_time = kani::any();
        info.status = SolverStatus::Unsolved;
        info
    }

    fn setup() -> (DefaultInfo<f64>, DefaultSettings<f64>, DefaultResiduals<f64>, u32) {
        let info = any_info();
        let mut settings = DefaultSettings::<f64>::default();
        settings.max_iter = kani::any();
        settings.time_limit = kani::any();
        settings.tol_gap_abs = kani::any();
        settings.tol_gap_rel = kani::any();
        settings.tol_feas = kani::any();
        settings.tol_infeas_abs = kani::any();
        settings.tol_infeas_rel = kani::any();
        settings.tol_ktratio = kani::any();
        let mut residuals = DefaultResiduals::<f64>::new(0, 0);
        residuals.dot_bz = kani::any();
        residuals.dot_qx = kani::any();
        (info, settings, residuals, kani::any())
    }
    #[kani::proof]
    fn ct_a() {
        let (mut info, settings, residuals, iter) = setup();
        let before = info.clone();
        let done = info.check_termination(&residuals, &settings, iter);
        assert!(done == (info.status != SolverStatus::Unsolved));
        if before.iterations == settings.max_iter { assert!(done); }
        assert!(!matches!(info.status, SolverStatus::AlmostSolved | SolverStatus::AlmostPrimalInfeasible | SolverStatus::AlmostDualInfeasible));
    }
    #[kani::proof]
    fn ct_b() {
        let (mut info, settings, residuals, iter) = setup();
        let before = info.clone();
        let _ = info.check_termination(&residuals, &settings, iter);
        if info.status == SolverStatus::Solved {
            assert!(before.ktratio <= 1.0);
            assert!(before.gap_abs < settings.tol_gap_abs || before.gap_rel < settings.tol_gap_rel);
            assert!(before.res_primal < settings.tol_feas);
            assert!(before.res_dual < settings.tol_feas);
        }
    }
    #[kani::proof]
    fn ct_c() {
        let (mut info, settings, residuals, iter) = setup();
        let before = info.clone();
        let _ = info.check_termination(&residuals, &settings, iter);
        if info.status == SolverStatus::PrimalInfeasible {
            assert!(residuals.dot_bz < -settings.tol_infeas_abs);
            assert!(before.res_primal_inf < -settings.tol_infeas_rel * residuals.dot_bz);
        }
    }
    #[kani::proof]
    fn ct_d() {
        let (mut info, settings, residuals, iter) = setup();
        let _ = info.check_termination(&residuals, &settings, iter);
        if info.status == SolverStatus::PrimalInfeasible {
            assert!(residuals.dot_bz < -settings.tol_infeas_abs);
        }
    }
}
