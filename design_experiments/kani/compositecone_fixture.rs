// appended to /repo/src/solver/core/cones/compositecone.rs in a scratch copy (design-time probe)
#[cfg(kani)]
pub(crate) fn kani_fixture(types: &[SupportedConeT<f64>]) -> CompositeCone<f64> {
    let mut cones: Vec<SupportedCone<f64>> = Vec::new();
    for t in types.iter() { cones.push(make_cone(t)); }
    let numel = cones.iter().map(|c| c.numel()).sum();
    let degree = cones.iter().map(|c| c.degree()).sum();
    let rng_cones = make_rng_cones(&cones);
    let rng_blocks = make_rng_blocks(&cones);
    CompositeCone { cones, type_counts: HashMap::new(), numel, degree, rng_cones, rng_blocks, _is_symmetric: true }
}
