// appended to /repo/src/solver/core/kktsolvers/direct/quasidef/kkt_assembly.rs in a scratch copy (design-time probe)
#[cfg(kani)]
mod verif_kani {
    use super::*;

    fn stub_random_state() -> std::collections::hash_map::RandomState {
        unsafe { core::mem::transmute::<[u64; 2], std::collections::hash_map::RandomState>([0u64, 0u64]) }
    }

    #[kani::proof]
    #[kani::unwind(10)]
    #[kani::stub(std::collections::hash_map::RandomState::new, stub_random_state)]
    fn kkt_assembly_fixture_nn2() {
        let pv: [f64; 3] = kani::any();
        let av: [f64; 4] = kani::any();
        let P = CscMatrix::new(2, 2, vec![0, 1, 3], vec![0, 0, 1], pv.to_vec());
        let A = CscMatrix::new(2, 2, vec![0, 2, 4], vec![0, 1, 0, 1], av.to_vec());
        let cones = crate::solver::core::cones::kani_fixture(&[SupportedConeT::NonnegativeConeT(2)]);
        let (K, map) = assemble_kkt_matrix(&P, &A, &cones, MatrixTriangle::Triu);
        assert!(K.n == 4 && K.m == 4);
        assert!(K.colptr[4] == K.rowval.len());
        // P entries
        assert!(K.rowval[map.P[0]] == 0 && K.rowval[map.P[1]] == 0 && K.rowval[map.P[2]] == 1);
        assert!(K.nzval[map.P[1]].to_bits() == pv[1].to_bits());
        // A entries transposed into columns n.. (col = n + row)
        assert!(K.rowval[map.A[0]] == 0 && K.rowval[map.A[1]] == 0 && K.rowval[map.A[2]] == 1 && K.rowval[map.A[3]] == 1);
        assert!(map.A[0] >= K.colptr[2] && map.A[0] < K.colptr[3]);
        assert!(map.A[1] >= K.colptr[3] && map.A[1] < K.colptr[4]);
        // full diagonal is last in each column
        for i in 0..4 { assert!(map.diag_full[i] + 1 == K.colptr[i + 1] && K.rowval[map.diag_full[i]] == i); }
    }
}
