// appended to /repo/src/qdldl/qdldl.rs in a scratch copy (design-time probe).
// Result: SUCCESSFUL in 137 s with unwind(11) (unwind(7): 1 s, unwinding assertion fails).
// By contrast QDLDLFactorisation::new + solve on one concrete 3x3 structure with symbolic
// values did not finish in 7 min, and with a symbolic permutation ran out of 62 GB.
#[cfg(kani)]
mod verif_kani {
    use super::*;
    // component harness: all 8 upper-triangular 3x3 patterns with full diagonal, logical factorisation only
    #[kani::proof]
    #[kani::unwind(11)]
    fn etree_factor_logical_n3_capacity() {
        let n = 3usize;
        let b01: bool = kani::any(); let b02: bool = kani::any(); let b12: bool = kani::any();
        let c1 = 1 + (b01 as usize);
        let c2 = 1 + (b02 as usize) + (b12 as usize);
        let ap = [0usize, 1, 1 + c1, 1 + c1 + c2];
        let mut ai = [0usize; 6];
        let mut k = 0;
        ai[k] = 0; k += 1;
        if b01 { ai[k] = 0; k += 1; } ai[k] = 1; k += 1;
        if b02 { ai[k] = 0; k += 1; } if b12 { ai[k] = 1; k += 1; } ai[k] = 2; k += 1;
        let nnz = k;
        let ax = [1.0f64; 6];
        let mut work = [0usize; 9];
        let mut lnz = [0usize; 3];
        let mut etree = [0usize; 3];
        _etree(n, &ap, &ai[..nnz], &mut work, &mut lnz, &mut etree).unwrap();
        let sum_lnz = lnz[0] + lnz[1] + lnz[2];
        assert!(sum_lnz <= 3);
        let mut lp = [0usize; 4];
        let mut li = [0usize; 3];
        let mut lx = [0.0f64; 3];
        let mut d = [0.0f64; 3];
        let mut dinv = [0.0f64; 3];
        let mut bwork = [false; 3];
        let mut fwork = [0.0f64; 3];
        let dsigns = [1i8; 3];
        let mut rc = 0usize;
        let r = _factor_inner(n, &ap, &ai[..nnz], &ax[..nnz], &mut lp, &mut li[..sum_lnz], &mut lx[..sum_lnz],
            &mut d, &mut dinv, &lnz, &etree, &mut bwork, &mut work, &mut fwork, true, &dsigns, true, 1e-12, 1e-7, &mut rc);
        assert!(r.is_ok());
        for c in 0..3 {
            assert!(lp[c + 1] - lp[c] == lnz[c]);
            for k in lp[c]..lp[c + 1] { assert!(li[k] > c && li[k] < 3); }
        }
    }
}
