//@target src/utils/infbounds.rs
#[cfg(kani)]
mod verif_kani_infbounds {
    use super::*;

    // C09 "the bound is the module-level value in force when the solver was built": the module-level bound starts at the
    // documented default, set_infinity(v) makes get_infinity() return exactly v (bit for bit), default_infinity() restores
    // the default.  Loop-free over the full f64 domain of v.
    #[kani::proof]
    #[kani::unwind(3)]
    fn infinity_bound_set_get_default() {
        let v: f64 = kani::any();
        kani::assume(!v.is_nan());
        assert!(get_infinity() == INFINITY_DEFAULT);
        set_infinity(v);
        assert!(get_infinity().to_bits() == v.to_bits());
        default_infinity();
        assert!(get_infinity() == INFINITY_DEFAULT);
        kani::cover!(v == 1e6);
    }
}
