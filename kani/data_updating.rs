//@target src/solver/implementations/default/data_updating.rs
#[cfg(kani)]
mod verif_kani_updates {
    use super::*;

    // C08 index-value (partial) update forms: "out-of-range index ... return an error" (never a panic), in-range entries
    // are written with the equilibration re-applied (value * scale of that entry [* c]), nothing else is.  bounded: vector of
    // length 3, two (index, value) pairs, arbitrary indices; scalings are distinct powers of two (products exact)
    #[kani::proof]
    #[kani::unwind(5)]
    fn partial_vector_update_index_checks() {
        let mut v = vec![10.0f64, 20.0, 30.0];
        let vscale = vec![2.0f64, 4.0, 8.0];
        let i0: usize = kani::any(); let i1: usize = kani::any();
        let idx = vec![i0, i1];
        let val = vec![1.5f64, 2.5];
        let c: Option<f64> = if kani::any() { Some(0.5) } else { None };
        let cs = match c { Some(x) => x, None => 1.0 };
        // through the owned (indices, values) tuple form, which forwards to the zip form: both impls are on the path
        let t = (idx, val);
        let r = t.update_vector(&mut v, &vscale, c);
        let (idx, val) = t;
        kani::cover!(r.is_ok());
        kani::cover!(r.is_err());
        // an error is returned exactly when some index is out of range (entries before it may already be written)
        assert!(r.is_err() == (i0 >= 3 || i1 >= 3));
        assert!(v.len() == 3);
        let mut k = 0;
        while k < 3 {
            if k != i0 && k != i1 { assert!(v[k] == [10.0, 20.0, 30.0][k]); }
            k += 1;
        }
        if r.is_ok() { assert!(v[i1] == 2.5 * vscale[i1] * cs && (i0 == i1 || v[i0] == 1.5 * vscale[i0] * cs)); }
        std::mem::forget(v); std::mem::forget(vscale); std::mem::forget(idx); std::mem::forget(val);
    }

    // same for the matrix form: 2x2 matrix with 3 stored entries at (0,0), (1,0), (0,1); entry (row, col) is written as
    // lscale[row] * rscale[col] [* c] * value (row and column scalings distinct powers of two, so every entry has its own factor)
    #[kani::proof]
    #[kani::unwind(6)]
    fn partial_matrix_update_index_checks() {
        let mut m = CscMatrix::new(2, 2, vec![0, 2, 3], vec![0, 1, 0], vec![10.0f64, 20.0, 30.0]);
        let l = vec![2.0f64, 4.0];
        let r_ = vec![8.0f64, 32.0];
        let i0: usize = kani::any(); let i1: usize = kani::any();
        let idx = vec![i0, i1];
        let val = vec![1.5f64, 2.5];
        let c: Option<f64> = if kani::any() { Some(0.5) } else { None };
        let cs = match c { Some(x) => x, None => 1.0 };
        let fac = [16.0f64, 32.0, 64.0];      // lscale[row] * rscale[col] of the three stored entries
        // through the owned (indices, values) tuple form, which forwards to the zip form: both impls are on the path
        let t = (idx, val);
        let r = t.update_matrix(&mut m, &l, &r_, c);
        let (idx, val) = t;
        assert!(r.is_err() == (i0 >= 3 || i1 >= 3));
        assert!(m.nzval.len() == 3 && m.colptr[0] == 0 && m.colptr[1] == 2 && m.colptr[2] == 3 && m.rowval[0] == 0 && m.rowval[1] == 1 && m.rowval[2] == 0);
        let mut k = 0;
        while k < 3 {
            if k != i0 && k != i1 { assert!(m.nzval[k] == [10.0, 20.0, 30.0][k]); }
            k += 1;
        }
        if r.is_ok() { assert!(m.nzval[i1] == 2.5 * fac[i1] * cs && (i0 == i1 || m.nzval[i0] == 1.5 * fac[i0] * cs)); }
        std::mem::forget(m); std::mem::forget(l); std::mem::forget(r_); std::mem::forget(idx); std::mem::forget(val);
    }
}
