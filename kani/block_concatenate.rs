//@target src/algebra/csc/block_concatenate.rs
#[cfg(kani)]
mod verif_kani_blockcat {
    use super::*;

    // C16 "horizontal / vertical / block concatenation ... equal to the result of the same operation on the equivalent dense
    // matrix".  Bounded: two concrete structures (a 1x2 block with 2 entries and a 2x1 block with 1 entry: both non-square,
    // so rows and columns cannot be mixed up unnoticed), symbolic non-NaN values.
    fn wide(v: [f64; 2]) -> CscMatrix<f64> { CscMatrix::<f64> { m: 1, n: 2, colptr: vec![0, 1, 2], rowval: vec![0, 0], nzval: v.to_vec() } }
    fn tall(v: [f64; 1]) -> CscMatrix<f64> { CscMatrix::<f64> { m: 2, n: 1, colptr: vec![0, 1], rowval: vec![1], nzval: v.to_vec() } }
    fn dense(a: &CscMatrix<f64>, r: usize, c: usize) -> Option<f64> {
        let mut k = a.colptr[c];
        while k < a.colptr[c + 1] { if a.rowval[k] == r { return Some(a.nzval[k]); } k += 1; }
        None
    }
    fn canonical(a: &CscMatrix<f64>) -> bool {
        if a.colptr.len() != a.n + 1 || a.colptr[0] != 0 || a.colptr[a.n] != a.rowval.len() || a.rowval.len() != a.nzval.len() { return false; }
        let mut c = 0;
        while c < a.n {
            if a.colptr[c] > a.colptr[c + 1] { return false; }
            let mut k = a.colptr[c];
            while k < a.colptr[c + 1] {
                if a.rowval[k] >= a.m { return false; }
                if k + 1 < a.colptr[c + 1] && a.rowval[k] >= a.rowval[k + 1] { return false; }
                k += 1;
            }
            c += 1;
        }
        true
    }
    fn vals() -> ([f64; 2], [f64; 1]) {
        let w: [f64; 2] = kani::any(); let t: [f64; 1] = kani::any();
        kani::assume(!w[0].is_nan() && !w[1].is_nan() && !t[0].is_nan());
        (w, t)
    }

    #[kani::proof]
    #[kani::unwind(8)]
    fn blockdiag_dense_wide_tall() {
        let (w, t) = vals();
        let a = wide(w); let b = tall(t);
        let m = CscMatrix::blockdiag(&[&a, &b]).unwrap();
        // [ w0 w1 .  ]
        // [ .  .  .  ]
        // [ .  .  t0 ]
        assert!(m.m == 3 && m.n == 3 && canonical(&m) && m.nzval.len() == 3);
        assert!(dense(&m, 0, 0) == Some(w[0]) && dense(&m, 0, 1) == Some(w[1]) && dense(&m, 2, 2) == Some(t[0]));
        core::mem::forget(m); core::mem::forget(a); core::mem::forget(b);
    }

    #[kani::proof]
    #[kani::unwind(8)]
    fn blockdiag_dense_tall_wide() {
        let (w, t) = vals();
        let a = wide(w); let b = tall(t);
        let m = CscMatrix::blockdiag(&[&b, &a]).unwrap();
        // [ .  .  . ]
        // [ t0 .  . ]
        // [ .  w0 w1]
        assert!(m.m == 3 && m.n == 3 && canonical(&m) && m.nzval.len() == 3);
        assert!(dense(&m, 1, 0) == Some(t[0]) && dense(&m, 2, 1) == Some(w[0]) && dense(&m, 2, 2) == Some(w[1]));
        core::mem::forget(m); core::mem::forget(a); core::mem::forget(b);
    }

    #[kani::proof]
    #[kani::unwind(8)]
    fn hcat_vcat_dense() {
        let (w, t) = vals();
        let w2: [f64; 2] = kani::any(); kani::assume(!w2[0].is_nan() && !w2[1].is_nan());
        let a = wide(w); let a2 = wide(w2);
        let h = CscMatrix::hcat(&a, &a2).unwrap();          // 1 x 4 : [w0 w1 w2_0 w2_1]
        assert!(h.m == 1 && h.n == 4 && canonical(&h) && h.nzval.len() == 4);
        assert!(dense(&h, 0, 0) == Some(w[0]) && dense(&h, 0, 1) == Some(w[1]) && dense(&h, 0, 2) == Some(w2[0]) && dense(&h, 0, 3) == Some(w2[1]));
        let v = CscMatrix::vcat(&a, &a2).unwrap();          // 2 x 2 : [w0 w1; w2_0 w2_1]
        assert!(v.m == 2 && v.n == 2 && canonical(&v) && v.nzval.len() == 4);
        assert!(dense(&v, 0, 0) == Some(w[0]) && dense(&v, 0, 1) == Some(w[1]) && dense(&v, 1, 0) == Some(w2[0]) && dense(&v, 1, 1) == Some(w2[1]));
        // incompatible shapes are rejected, not mis-assembled
        let b = tall(t);
        assert!(CscMatrix::hcat(&a, &b).is_err());
        assert!(CscMatrix::vcat(&a, &b).is_err());
        core::mem::forget(h); core::mem::forget(v); core::mem::forget(a); core::mem::forget(a2); core::mem::forget(b);
    }
}
