//@target src/algebra/scalarmath.rs
#[cfg(kani)]
mod verif_kani_scalarmath {
    use super::*;

    // C18: the Verus proofs of the packed-index maps ASSUME that isqrt ((v as f64).sqrt() as usize) is the exact floor square
    // root for v < 2^52 (CBMC does not finish on sqrt over a symbolic domain).  Stand-in, sampled: around perfect squares
    // r^2 - 1, r^2, r^2 + 2r (the last value with root r) for ten roots from 2 up to 2^26 - 1, concrete values only.
    // A sample, not a proof: it is listed under the bounded obligations and the assumption stays listed.  (Its first version
    // sampled r = 2^26 as well and failed there: isqrt(2^52 + 2^27) == 2^26 + 1.  The assumed bound was 2^53 then; it is 2^52 now.)
    fn at(r: usize) {
        assert!(isqrt(r * r) == r);
        assert!(isqrt(r * r - 1) == r - 1);
        assert!(isqrt(r * r + 2 * r) == r);
    }
    // quick-tier subset of the sample: two roots, one of them beyond what a single-precision square root can represent
    // (seed C18_A routed the computation through f32: wrong from v = 10 619 135 on)
    #[kani::proof]
    #[kani::unwind(2)]
    fn isqrt_exact_two_samples() {
        at(4097); at(16_777_217);
    }
    #[kani::proof]
    #[kani::unwind(2)]
    fn isqrt_exact_around_sampled_squares() {
        at(2); at(3); at(1000); at(4097); at(65_535); at(3_000_001); at(10_619_136); at(16_777_217); at(33_554_433); at(67_108_863);
    }
}
