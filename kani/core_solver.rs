//@target src/solver/core/solver.rs
#[cfg(kani)]
mod verif_kani_banner {
    use super::*;
    // C20: the banner is the fifth print entry point of a solve
    #[kani::proof]
    #[kani::unwind(4)]
    fn verbose_off_banner_prints_nothing() {
        let mut buf: Vec<u8> = Vec::new();
        let r = _print_banner(&mut buf, false);
        assert!(r.is_ok());
        assert!(buf.is_empty());
        std::mem::forget(buf);
    }
}
