//@target src/solver/implementations/default/variables.rs
#[cfg(kani)]
mod verif_kani_vars {
    use super::*;
    use crate::solver::core::cones::verif_kani_cc::{fixed_random_state, fixture};
    use crate::solver::core::cones::SupportedConeT;

    // C15 "Margins and unit shifts used for initialisation place any vector strictly inside the cone" - bit-precise (f64) for a
    // nonnegative cone: the unit proofs (steplen / variables / composite) are in real arithmetic, where shifting by (-min) and then
    // by target is the same as shifting once by (target - min).  In floats it is not: for |min| > 2^53 * target the single shift
    // is -min and the worst entry lands exactly on the boundary 0.0.  The two-stage shift of the real code keeps every entry >= 1.
    #[kani::proof]
    #[kani::stub(std::collections::hash_map::RandomState::new, fixed_random_state)]
    #[kani::unwind(4)]
    fn shift_to_cone_interior_nn_bit_precise() {
        let mut cones = fixture(&[SupportedConeT::NonnegativeConeT(2)]);
        let a: f64 = kani::any();
        let b: f64 = kani::any();
        kani::assume(a.is_finite() && b.is_finite() && a.abs() <= 1e300 && b.abs() <= 1e300);
        let mut z = vec![a, b];
        _shift_to_cone_interior(&mut z, &mut cones, PrimalOrDualCone::PrimalCone);
        assert!(z[0] > 0.0 && z[1] > 0.0);
        // an entry that started outside ends at margin >= 1
        if a <= 0.0 || b <= 0.0 { assert!(z[0] >= 1.0 && z[1] >= 1.0); }
        kani::cover!(a < -1e17);
        kani::cover!(a > 0.0 && b > 0.0);
        std::mem::forget(z); std::mem::forget(cones);
    }

    // PROBE for known finding F8 (C15, last clause): for a second-order cone the margin z0 - |z1..| is itself a float; with a hugely
    // negative scalar part it is rounded (-1e17 - 5 == -1e17), the first shift brings z0 to 0, the second to `target` = 1, and
    // (1, 3, 4) is outside the cone.  Single concrete input; fails on the current tree (listed in known_findings.json).
    #[kani::proof]
    #[kani::stub(std::collections::hash_map::RandomState::new, fixed_random_state)]
    #[kani::unwind(5)]
    fn shift_to_cone_interior_soc_probe() {
        let mut cones = fixture(&[SupportedConeT::SecondOrderConeT(3)]);
        let mut z = vec![-1e17f64, 3.0, 4.0];
        _shift_to_cone_interior(&mut z, &mut cones, PrimalOrDualCone::PrimalCone);
        assert!(z[0] > 0.0 && z[0] * z[0] > z[1] * z[1] + z[2] * z[2]);
        std::mem::forget(z); std::mem::forget(cones);
    }
}
