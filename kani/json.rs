//@target src/solver/implementations/default/json.rs
#[cfg(kani)]
mod verif_kani_json {
    use super::*;

    fn same_bits(a: f64, b: f64) -> bool { a.to_bits() == b.to_bits() }

    // C19 "the settings are identical (an infinite time_limit included)":
    // full f64 domain of time_limit except the single value f64::MAX; loop free => complete
    #[kani::proof]
    fn settings_roundtrip_all_but_max() {
        let t: f64 = kani::any();
        kani::assume(t != f64::MAX);
        let mut s = DefaultSettings::<f64>::default();
        let max_iter = s.max_iter;
        let tol = s.tol_feas;
        s.time_limit = t;
        sanitize_settings(&mut s);
        kani::cover!(t == f64::INFINITY);
        // what is written to the file is finite whenever the user's value was +inf (JSON has no infinity)
        assert!(!(t == f64::INFINITY) || s.time_limit.is_finite());
        desanitize_settings(&mut s);
        assert!(same_bits(s.time_limit, t));
        // no other field is touched
        assert!(s.max_iter == max_iter && same_bits(s.tol_feas, tol));
    }

    // probe for finding F4: the one remaining value
    #[kani::proof]
    fn settings_roundtrip_max_probe() {
        let mut s = DefaultSettings::<f64>::default();
        s.time_limit = f64::MAX;
        sanitize_settings(&mut s);
        desanitize_settings(&mut s);
        assert!(same_bits(s.time_limit, f64::MAX));
    }
}
