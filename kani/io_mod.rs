//@target src/io/mod.rs
#[cfg(kani)]
mod verif_kani_io {
    use super::*;

    // a stream that records what it is given (raw pointer: no Arc / Mutex in the model) and, like a pipe or a socket, may
    // accept only part of a buffer: at most `max` bytes per call
    struct Rec(*mut Vec<u8>, usize);
    unsafe impl Send for Rec {}
    unsafe impl Sync for Rec {}
    impl Write for Rec {
        fn write(&mut self, buf: &[u8]) -> Result<usize> {
            let n = if buf.len() < self.1 { buf.len() } else { self.1 };
            unsafe { (*self.0).extend_from_slice(&buf[..n]); }
            Ok(n)
        }
        fn flush(&mut self) -> Result<()> { Ok(()) }
    }

    fn buffer_of(t: &PrintTarget) -> Option<&Vec<u8>> {
        match t { PrintTarget::Buffer(b) => Some(b), _ => None }
    }

    // C20 "the bytes delivered to a buffer, a stream ... are identical": the Write impl of PrintTarget hands every byte string,
    // unchanged and in order, to the buffer and to a user stream alike; two successive writes are concatenated
    #[kani::proof]
    #[kani::unwind(6)]
    fn print_target_buffer_and_stream_get_the_same_bytes() {
        let a: [u8; 3] = kani::any();
        let b: [u8; 2] = kani::any();
        let la: usize = kani::any(); kani::assume(la <= 3);
        let lb: usize = kani::any(); kani::assume(lb <= 2);

        let mut tb = PrintTarget::Buffer(Vec::new());
        let mut sink: Vec<u8> = Vec::new();
        let mut ts = PrintTarget::Stream(Box::new(Rec(&mut sink as *mut Vec<u8>, usize::MAX)));

        let r1 = tb.write(&a[..la]); let r2 = tb.write(&b[..lb]);
        let s1 = ts.write(&a[..la]); let s2 = ts.write(&b[..lb]);
        assert!(matches!(r1, Ok(n) if n == la) && matches!(r2, Ok(n) if n == lb));
        assert!(matches!(s1, Ok(n) if n == la) && matches!(s2, Ok(n) if n == lb));
        assert!(tb.flush().is_ok() && ts.flush().is_ok());

        let got = buffer_of(&tb).unwrap();
        assert!(got.len() == la + lb && sink.len() == la + lb);
        let mut i = 0;
        while i < la + lb {
            let want = if i < la { a[i] } else { b[i - la] };
            assert!(got[i] == want);
            assert!(sink[i] == want);
            i += 1;
        }
        kani::cover!(la == 3 && lb == 2);
        kani::cover!(la == 0 && lb == 1);
        std::mem::forget(tb); std::mem::forget(ts); std::mem::forget(sink);
    }

    // a stream that accepts only part of a buffer: PrintTarget::write must hand back the stream's own count (so that write_all
    // re-sends the rest) - reporting the full length would silently truncate the output of a stream target (seed C20_L)
    #[kani::proof]
    #[kani::unwind(6)]
    fn print_target_stream_short_write_is_reported() {
        let a: [u8; 3] = kani::any();
        let la: usize = kani::any(); kani::assume(la <= 3);
        let max: usize = kani::any(); kani::assume(max <= 3);
        let mut sink: Vec<u8> = Vec::new();
        let mut ts = PrintTarget::Stream(Box::new(Rec(&mut sink as *mut Vec<u8>, max)));
        let r = ts.write(&a[..la]);
        let want = if la < max { la } else { max };
        assert!(matches!(r, Ok(n) if n == want));
        assert!(sink.len() == want);
        let mut i = 0;
        while i < want { assert!(sink[i] == a[i]); i += 1; }
        kani::cover!(want < la);
        kani::cover!(want == la && la > 0);
        std::mem::forget(ts); std::mem::forget(sink);
    }

    // target switching: print_to_buffer starts from an empty buffer (nothing of an earlier solve leaks into the next capture),
    // print_to_sink / a sink target swallow everything, the buffer is only readable when buffering is configured
    #[kani::proof]
    #[kani::unwind(5)]
    fn print_target_switching() {
        let a: [u8; 2] = kani::any();
        let mut t = PrintTarget::Buffer(Vec::new());
        let _ = t.write(&a);
        assert!(buffer_of(&t).unwrap().len() == 2);
        t.print_to_buffer();
        assert!(buffer_of(&t).unwrap().is_empty());
        let _ = t.write(&a[..1]);
        assert!(buffer_of(&t).unwrap().len() == 1 && buffer_of(&t).unwrap()[0] == a[0]);
        t.print_to_sink();
        assert!(matches!(t, PrintTarget::Sink(_)));
        assert!(matches!(t.write(&a), Ok(2)));
        assert!(buffer_of(&t).is_none());
        kani::cover!(true);
        std::mem::forget(t);
    }
}
