//@target src/io/mod.rs
#[cfg(kani)]
mod verif_kani_io {
    use super::*;

    // a stream that records what it is given (raw pointer: no Arc / Mutex in the model)
    struct Rec(*mut Vec<u8>);
    unsafe impl Send for Rec {}
    unsafe impl Sync for Rec {}
    impl Write for Rec {
        fn write(&mut self, buf: &[u8]) -> Result<usize> {
            unsafe { (*self.0).extend_from_slice(buf); }
            Ok(buf.len())
        }
        fn flush(&mut self) -> Result<()> { Ok(()) }
    }

    fn buffer_of(t: &PrintTarget) -> Option<&Vec<u8>> {
        match t { PrintTarget::Buffer(b) => Some(b), _ => None }
    }

    // C20 "the bytes delivered to a buffer, a stream ... are identical": the Write impl of PrintTarget hands every byte string,
    // unchanged and in order, to the buffer and to a user stream alike; two successive writes are concatenated
    #[kani::proof]
    #[kani::unwind(6)]
    fn print_target_buffer_and_stream_get_the_same_bytes() {
        let a: [u8; 3] = kani::any();
        let b: [u8; 2] = kani::any();
        let la: usize = kani::any(); kani::assume(la <= 3);
        let lb: usize = kani::any(); kani::assume(lb <= 2);

        let mut tb = PrintTarget::Buffer(Vec::new());
        let mut sink: Vec<u8> = Vec::new();
        let mut ts = PrintTarget::Stream(Box::new(Rec(&mut sink as *mut Vec<u8>)));

        let r1 = tb.write(&a[..la]); let r2 = tb.write(&b[..lb]);
        let s1 = ts.write(&a[..la]); let s2 = ts.write(&b[..lb]);
        assert!(matches!(r1, Ok(n) if n == la) && matches!(r2, Ok(n) if n == lb));
        assert!(matches!(s1, Ok(n) if n == la) && matches!(s2, Ok(n) if n == lb));
        assert!(tb.flush().is_ok() && ts.flush().is_ok());

        let got = buffer_of(&tb).unwrap();
        assert!(got.len() == la + lb && sink.len() == la + lb);
        let mut i = 0;
        while i < la + lb {
            let want = if i < la { a[i] } else { b[i - la] };
            assert!(got[i] == want);
            assert!(sink[i] == want);
            i += 1;
        }
        kani::cover!(la == 3 && lb == 2);
        kani::cover!(la == 0 && lb == 1);
        std::mem::forget(tb); std::mem::forget(ts); std::mem::forget(sink);
    }

    // target switching: print_to_buffer starts from an empty buffer (nothing of an earlier solve leaks into the next capture),
    // print_to_sink / a sink target swallow everything, the buffer is only readable when buffering is configured
    #[kani::proof]
    #[kani::unwind(5)]
    fn print_target_switching() {
        let a: [u8; 2] = kani::any();
        let mut t = PrintTarget::Buffer(Vec::new());
        let _ = t.write(&a);
        assert!(buffer_of(&t).unwrap().len() == 2);
        t.print_to_buffer();
        assert!(buffer_of(&t).unwrap().is_empty());
        let _ = t.write(&a[..1]);
        assert!(buffer_of(&t).unwrap().len() == 1 && buffer_of(&t).unwrap()[0] == a[0]);
        t.print_to_sink();
        assert!(matches!(t, PrintTarget::Sink(_)));
        assert!(matches!(t.write(&a), Ok(2)));
        assert!(buffer_of(&t).is_none());
        kani::cover!(true);
        std::mem::forget(t);
    }
}
