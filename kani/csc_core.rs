//@target src/algebra/csc/core.rs
#[cfg(kani)]
mod verif_kani_core {
    use super::*;

    // the specification: canonical compressed-sparse-column encoding (C16: "check_format accepts exactly the canonical encodings")
    pub(crate) fn wf(a: &CscMatrix<f64>) -> bool {
        if a.rowval.len() != a.nzval.len() { return false; }
        if a.colptr.len() != a.n + 1 { return false; }
        if a.colptr[0] != 0 { return false; }
        if a.colptr[a.n] != a.rowval.len() { return false; }
        let mut c = 0;
        while c < a.n {
            if a.colptr[c] > a.colptr[c + 1] { return false; }
            c += 1;
        }
        let mut c = 0;
        while c < a.n {
            let mut k = a.colptr[c];
            while k < a.colptr[c + 1] {
                if a.rowval[k] >= a.m { return false; }
                if k + 1 < a.colptr[c + 1] && a.rowval[k] >= a.rowval[k + 1] { return false; }
                k += 1;
            }
            c += 1;
        }
        true
    }

    // ---------- generators and the dense reading of a CSC matrix ----------
    // a canonical M x N matrix with NNZ stored entries: arbitrary structure (constrained by wf), arbitrary non-NaN values
    pub(crate) fn any_canonical<const N1: usize, const NNZ: usize>(m: usize, n: usize) -> CscMatrix<f64> {
        let colptr: [usize; N1] = kani::any();
        let rowval: [usize; NNZ] = kani::any();
        let nzval: [f64; NNZ] = kani::any();
        let mut k = 0;
        while k < NNZ { kani::assume(!nzval[k].is_nan()); k += 1; }
        let a = CscMatrix::<f64> { m, n, colptr: colptr.to_vec(), rowval: rowval.to_vec(), nzval: nzval.to_vec() };
        kani::assume(wf(&a));
        a
    }
    // dense meaning: entry (r,c) = sum of the stored values at (r,c) in storage order (0.0 if none)
    pub(crate) fn dense_at(a: &CscMatrix<f64>, r: usize, c: usize) -> f64 {
        let mut acc = 0.0;
        let mut seen = false;
        let mut k = a.colptr[c];
        while k < a.colptr[c + 1] {
            if a.rowval[k] == r {
                if seen { acc = acc + a.nzval[k]; } else { acc = a.nzval[k]; seen = true; }
            }
            k += 1;
        }
        acc
    }
    pub(crate) fn stored_at(a: &CscMatrix<f64>, r: usize, c: usize) -> bool {
        let mut k = a.colptr[c];
        while k < a.colptr[c + 1] { if a.rowval[k] == r { return true; } k += 1; }
        false
    }

    // bounded: 2x2, 2 stored entries, arbitrary colptr / rowval contents
    #[kani::proof]
    #[kani::unwind(5)]
    fn check_format_iff_wf_2x2_nnz2() {
        let colptr: [usize; 3] = kani::any();
        let rowval: [usize; 2] = kani::any();
        let a = CscMatrix::<f64> { m: 2, n: 2, colptr: colptr.to_vec(), rowval: rowval.to_vec(), nzval: vec![1.0, 2.0] };
        kani::assume(colptr[0] <= 3 && colptr[1] <= 3 && colptr[2] <= 3);
        let ok = a.check_format().is_ok();
        kani::cover!(ok);
        kani::cover!(!ok);
        assert!(ok == wf(&a));
    }

    // C16 get_entry / set_entry / index_to_coord (bounded: every canonical 2x2 matrix with 2 stored entries)
    #[kani::proof]
    #[kani::unwind(6)]
    fn get_set_entry_dense_2x2_nnz2() {
        let mut a = any_canonical::<3, 2>(2, 2);
        let r: usize = kani::any(); let c: usize = kani::any();
        kani::assume(r < 2 && c < 2);
        // get_entry is the dense lookup; Some exactly for stored positions
        let g = a.get_entry((r, c));
        assert!(g.is_some() == stored_at(&a, r, c));
        assert!(g.unwrap_or(0.0) == dense_at(&a, r, c));
        // index_to_coord inverts the storage position
        let idx: usize = kani::any();
        kani::assume(idx < 2);
        let (ri, ci) = a.index_to_coord(idx);
        assert!(ri == a.rowval[idx] && a.colptr[ci] <= idx && idx < a.colptr[ci + 1]);
        // set_entry changes exactly one cell of the dense matrix and keeps the encoding canonical
        let before = [[dense_at(&a, 0, 0), dense_at(&a, 0, 1)], [dense_at(&a, 1, 0), dense_at(&a, 1, 1)]];
        let v: f64 = kani::any();
        kani::assume(!v.is_nan());
        let was_stored = stored_at(&a, r, c);
        a.set_entry((r, c), v);
        kani::cover!(!was_stored && v != 0.0);
        kani::cover!(was_stored);
        assert!(wf(&a));
        let mut i = 0;
        while i < 2 {
            let mut j = 0;
            while j < 2 {
                if i == r && j == c { assert!(dense_at(&a, i, j) == v); } else { assert!(dense_at(&a, i, j) == before[i][j]); }
                j += 1;
            }
            i += 1;
        }
        assert!(a.nnz() == if was_stored || v == 0.0 { 2 } else { 3 });
        std::mem::forget(a);
    }

    fn dense2(a: &CscMatrix<f64>) -> [[f64; 2]; 2] {
        [[dense_at(a, 0, 0), dense_at(a, 0, 1)], [dense_at(a, 1, 0), dense_at(a, 1, 1)]]
    }
    // the p-th sparsity pattern of a 2x2 matrix (bit 0: (0,0), bit 1: (1,0), bit 2: (0,1), bit 3: (1,1)) with
    // symbolic non-NaN values: structures are enumerated concretely (symbolic structures exhaust CBMC), values are symbolic
    fn pattern_2x2(p: usize) -> CscMatrix<f64> {
        let mut colptr = vec![0usize; 3];
        let mut rowval: Vec<usize> = Vec::new();
        let mut nzval: Vec<f64> = Vec::new();
        let mut bit = 0;
        while bit < 4 {
            if (p >> bit) & 1 == 1 {
                let v: f64 = kani::any();
                kani::assume(!v.is_nan());
                rowval.push(bit % 2);
                nzval.push(v);
                let col = bit / 2;
                let mut cc = col + 1;
                while cc < 3 { colptr[cc] += 1; cc += 1; }
            }
            bit += 1;
        }
        CscMatrix::<f64> { m: 2, n: 2, colptr, rowval, nzval }
    }
    fn same_dense(a: &[[f64; 2]; 2], b: &[[f64; 2]; 2]) -> bool {
        a[0][0] == b[0][0] && a[0][1] == b[0][1] && a[1][0] == b[1][0] && a[1][1] == b[1][1]
    }

    // C16 is_triu / to_triu
    #[kani::proof]
    #[kani::unwind(18)]
    fn triu_dense_2x2_all_patterns() {
        let mut p = 0;
        while p < 16 {
            let a = pattern_2x2(p);
            let d = dense2(&a);
            assert!(a.is_triu() == !stored_at(&a, 1, 0));
            let t = a.to_triu();
            assert!(wf(&t) && t.is_triu());
            assert!(dense_at(&t, 0, 0) == d[0][0] && dense_at(&t, 0, 1) == d[0][1] && dense_at(&t, 1, 1) == d[1][1] && !stored_at(&t, 1, 0));
            assert!(stored_at(&t, 0, 1) == stored_at(&a, 0, 1) && stored_at(&t, 0, 0) == stored_at(&a, 0, 0) && stored_at(&t, 1, 1) == stored_at(&a, 1, 1));
            std::mem::forget(a); std::mem::forget(t);
            p += 1;
        }
    }
    // C16 transpose
    #[kani::proof]
    #[kani::unwind(18)]
    fn transpose_dense_2x2_all_patterns() {
        let mut p = 0;
        while p < 16 {
            let a = pattern_2x2(p);
            let d = dense2(&a);
            let at: CscMatrix<f64> = a.t().into();
            assert!(wf(&at) && at.m == 2 && at.n == 2);
            assert!(dense_at(&at, 0, 0) == d[0][0] && dense_at(&at, 1, 0) == d[0][1] && dense_at(&at, 0, 1) == d[1][0] && dense_at(&at, 1, 1) == d[1][1]);
            assert!(stored_at(&at, 1, 0) == stored_at(&a, 0, 1) && stored_at(&at, 0, 1) == stored_at(&a, 1, 0));
            std::mem::forget(a); std::mem::forget(at);
            p += 1;
        }
    }
    // C16 select_rows (bounded: 16 patterns x 4 row masks, all concrete; symbolic values)
    #[kani::proof]
    #[kani::unwind(18)]
    fn select_rows_dense_2x2_all_patterns() {
        let mut p = 0;
        while p < 16 {
            let mut mask = 0;
            while mask < 4 {
                let a = pattern_2x2(p);
                let d = dense2(&a);
                let keep0 = mask & 1 == 1; let keep1 = mask & 2 == 2;
                let sel = a.select_rows(&vec![keep0, keep1]);
                assert!(wf(&sel) && sel.n == 2 && sel.m == (keep0 as usize) + (keep1 as usize));
                if keep0 { assert!(dense_at(&sel, 0, 0) == d[0][0] && dense_at(&sel, 0, 1) == d[0][1]); }
                if keep1 { let rr = keep0 as usize; assert!(dense_at(&sel, rr, 0) == d[1][0] && dense_at(&sel, rr, 1) == d[1][1]); }
                std::mem::forget(a); std::mem::forget(sel);
                mask += 1;
            }
            p += 1;
        }
    }

    // C16 construction from unsorted, duplicated triplets: concrete positions (sorting symbolic keys exhausts CBMC),
    // symbolic finite values; duplicates are summed left to right in input order
    fn triplets_case(i: [usize; 4], j: [usize; 4]) {
        let v: [f64; 4] = kani::any();
        kani::assume(v[0].is_finite() && v[1].is_finite() && v[2].is_finite() && v[3].is_finite());
        let a = CscMatrix::new_from_triplets(2, 2, i.to_vec(), j.to_vec(), v.to_vec());
        assert!(wf(&a));
        let mut r = 0;
        while r < 2 {
            let mut c = 0;
            while c < 2 {
                let mut acc = 0.0; let mut seen = false; let mut k = 0;
                while k < 4 {
                    if i[k] == r && j[k] == c { if seen { acc = acc + v[k]; } else { acc = v[k]; seen = true; } }
                    k += 1;
                }
                assert!(stored_at(&a, r, c) == seen);
                let got = dense_at(&a, r, c);
                assert!(got == acc || (got.is_nan() && acc.is_nan()));
                c += 1;
            }
            r += 1;
        }
        std::mem::forget(a);
    }
    // the smallest case with a triple duplicate (1 x 1 target, three triplets): cheap enough for the quick tier
    #[kani::proof]
    #[kani::unwind(8)]
    fn new_from_triplets_three_duplicates_1x1() {
        let v: [f64; 3] = kani::any();
        kani::assume(v[0].is_finite() && v[1].is_finite() && v[2].is_finite());
        let a = CscMatrix::new_from_triplets(1, 1, vec![0, 0, 0], vec![0, 0, 0], v.to_vec());
        assert!(wf(&a) && a.m == 1 && a.n == 1);
        assert!(stored_at(&a, 0, 0));
        let acc = (v[0] + v[1]) + v[2];
        let got = dense_at(&a, 0, 0);
        assert!(got == acc || (got.is_nan() && acc.is_nan()));
        std::mem::forget(a);
    }
    #[kani::proof]
    #[kani::unwind(9)]
    fn new_from_triplets_four_duplicates() { triplets_case([1, 1, 1, 1], [0, 0, 0, 0]); }
    #[kani::proof]
    #[kani::unwind(9)]
    fn new_from_triplets_three_plus_one_unsorted() { triplets_case([0, 1, 0, 0], [1, 0, 1, 1]); }
    #[kani::proof]
    #[kani::unwind(9)]
    fn new_from_triplets_two_pairs_reversed() { triplets_case([1, 0, 1, 0], [1, 1, 1, 1]); }

    // The Verus units ASSUME contracts for the std functions they cannot see into (prelude/std_assumed.rs).  Sampled check of
    // those contracts on the real std functions: every nondecreasing usize slice of length 3 with values < 4, every probe < 5
    // (binary_search, partition_point); rotate_right(1) and fill on length-4 slices with symbolic contents.
    #[kani::proof]
    #[kani::unwind(6)]
    fn std_assumed_contracts_small() {
        let s: [usize; 3] = kani::any();
        kani::assume(s[0] <= s[1] && s[1] <= s[2] && s[2] < 4);
        let x: usize = kani::any();
        kani::assume(x < 5);
        match s.binary_search(&x) {
            Ok(i) => assert!(i < 3 && s[i] == x),
            Err(i) => {
                assert!(i <= 3);
                let mut k = 0;
                while k < 3 { if k < i { assert!(s[k] < x); } else { assert!(s[k] > x); } k += 1; }
            }
        }
        let r = s.partition_point(|&v| v < x);
        assert!(r <= 3);
        let mut k = 0;
        while k < 3 { if k < r { assert!(s[k] < x); } else { assert!(s[k] >= x); } k += 1; }
        let t0: [usize; 4] = kani::any();
        let mut t = t0;
        t.rotate_right(1);
        let mut i = 0;
        while i < 4 { assert!(t[i] == t0[(i + 4 - 1) % 4]); i += 1; }
        let v: usize = kani::any();
        t.fill(v);
        assert!(t[0] == v && t[1] == v && t[2] == v && t[3] == v);
        let a: i8 = kani::any();
        let sg = a.signum();
        assert!(sg == (if a > 0 { 1 } else if a < 0 { -1 } else { 0 }));
        assert!(core::cmp::max(x, v) == (if x >= v { x } else { v }) && core::cmp::min(x, v) == (if x <= v { x } else { v }));
    }
}
