//@target src/algebra/csc/core.rs
#[cfg(kani)]
mod verif_kani_core {
    use super::*;

    // the specification: canonical compressed-sparse-column encoding (C16: "check_format accepts exactly the canonical encodings")
    pub(crate) fn wf(a: &CscMatrix<f64>) -> bool {
        if a.rowval.len() != a.nzval.len() { return false; }
        if a.colptr.len() != a.n + 1 { return false; }
        if a.colptr[0] != 0 { return false; }
        if a.colptr[a.n] != a.rowval.len() { return false; }
        let mut c = 0;
        while c < a.n {
            if a.colptr[c] > a.colptr[c + 1] { return false; }
            c += 1;
        }
        let mut c = 0;
        while c < a.n {
            let mut k = a.colptr[c];
            while k < a.colptr[c + 1] {
                if a.rowval[k] >= a.m { return false; }
                if k + 1 < a.colptr[c + 1] && a.rowval[k] >= a.rowval[k + 1] { return false; }
                k += 1;
            }
            c += 1;
        }
        true
    }

    // bounded: 2x2, 2 stored entries, arbitrary colptr / rowval contents
    #[kani::proof]
    #[kani::unwind(5)]
    fn check_format_iff_wf_2x2_nnz2() {
        let colptr: [usize; 3] = kani::any();
        let rowval: [usize; 2] = kani::any();
        let a = CscMatrix::<f64> { m: 2, n: 2, colptr: colptr.to_vec(), rowval: rowval.to_vec(), nzval: vec![1.0, 2.0] };
        kani::assume(colptr[0] <= 3 && colptr[1] <= 3 && colptr[2] <= 3);
        let ok = a.check_format().is_ok();
        kani::cover!(ok);
        kani::cover!(!ok);
        assert!(ok == wf(&a));
    }
}
