//@target src/solver/core/cones/supportedcone.rs
#[cfg(kani)]
mod verif_kani_supportedcone {
    use super::*;
    use SupportedConeT::*;

    // one cone out of {ZeroConeT(d), NonnegativeConeT(d), SecondOrderConeT(d), ExponentialConeT()}, d in 0..=3
    fn any_cone() -> SupportedConeT<f64> {
        let tag: u8 = kani::any();
        kani::assume(tag < 4);
        cone_of(tag)
    }
    fn cone_of(tag: u8) -> SupportedConeT<f64> {
        let d: usize = kani::any();
        kani::assume(d <= 3);
        match tag {
            0 => NonnegativeConeT(d),
            1 => ZeroConeT(d),
            2 => SecondOrderConeT(d),
            _ => ExponentialConeT(),
        }
    }
    // structural equality on the variants in play (the derived PartialEq drags the Vec<T> comparison of GenPowerConeT into CBMC)
    fn same(a: &SupportedConeT<f64>, b: &SupportedConeT<f64>) -> bool {
        match (a, b) {
            (ZeroConeT(x), ZeroConeT(y)) => x == y,
            (NonnegativeConeT(x), NonnegativeConeT(y)) => x == y,
            (SecondOrderConeT(x), SecondOrderConeT(y)) => x == y,
            (ExponentialConeT(), ExponentialConeT()) => true,
            _ => false,
        }
    }
    // rows of this cone are plain nonnegative rows: a nonnegative cone, or a second-order cone of dimension 1
    fn nn_like(c: &SupportedConeT<f64>) -> bool {
        match c { NonnegativeConeT(_) => true, SecondOrderConeT(1) => true, _ => false }
    }

    // C04 "degenerate ... empty or singleton cones": new_collapsed against its specification, written with index loops
    // returns (some run merged two or more cones, an empty cone was skipped after a run had started)
    fn check_on<const N: usize>(cones: [SupportedConeT<f64>; N]) -> (bool, bool) {
        let out = SupportedConeT::<f64>::new_collapsed(&cones);

        // (1) shape of the result: no empty cone, no SOC(1), no two adjacent nonnegative cones; (2) rows preserved
        let mut total_in = 0;
        let mut i = 0;
        while i < N { total_in += cones[i].nvars(); i += 1; }
        let mut total_out = 0;
        let mut k = 0;
        while k < out.len() {
            assert!(out[k].nvars() != 0);
            assert!(!same(&out[k], &SecondOrderConeT(1)));
            if k > 0 {
                assert!(!(matches!(out[k], NonnegativeConeT(_)) && matches!(out[k - 1], NonnegativeConeT(_))));
            }
            total_out += out[k].nvars();
            k += 1;
        }
        assert!(total_out == total_in);
        assert!(out.len() <= N);

        // (3) un-collapsing semantics: rows keep their order and their kind.  Walking the input, every maximal run of
        // nonnegative-like cones (empty cones in between ignored) is ONE NonnegativeConeT of the summed dimension, every
        // other non-empty cone is passed through unchanged, in order
        let mut j = 0;
        let mut run = 0;
        let mut in_run = false;
        let mut merged = false;
        let mut skipped_in_run = false;
        let mut i = 0;
        while i < N {
            let nv = cones[i].nvars();
            if nv != 0 {
                if nn_like(&cones[i]) {
                    run += nv;
                    if in_run { merged = true; }
                    in_run = true;
                } else {
                    if in_run {
                        assert!(j < out.len());
                        assert!(same(&out[j], &NonnegativeConeT(run)));
                        j += 1; run = 0; in_run = false;
                    }
                    assert!(j < out.len());
                    assert!(same(&out[j], &cones[i]));
                    j += 1;
                }
            } else {
                if in_run { skipped_in_run = true; }
            }
            i += 1;
        }
        if in_run {
            assert!(j < out.len());
            assert!(same(&out[j], &NonnegativeConeT(run)));
            j += 1;
        }
        assert!(j == out.len());
        core::mem::forget(out); core::mem::forget(cones);
        (merged, skipped_in_run)
    }

    // Bounds (all measured; cap 10 min / 8 GB per harness).  Every list of length 1 and 2 over the four kinds with symbolic
    // dimensions 0..=3.  Three symbolic cones exhaust 28 GB whatever the unwinding (each `if nvars != 0` / collapsible-or-not
    // decision leaves the Peekable state and the length of `newcones` symbolic; every later `push` and the final
    // `shrink_to_fit` then explore their reallocation paths).  Length 3 and 4 are therefore covered only for lists with a
    // CONCRETE prefix (its control flow folds) followed by one cone of any kind and dimension; the prefix
    // [NN(1), Zero(0), SOC(1)] + any passes but needs 11 min / 41 GB and [any, NN(2), SOC(1)] more than 16 GB: not included.
    #[kani::proof]
    #[kani::unwind(2)]
    fn new_collapsed_matches_spec_len1() { check_on([any_cone()]); }
    #[kani::proof]
    #[kani::unwind(3)]
    fn new_collapsed_matches_spec_len2() {
        let (merged, _) = check_on([any_cone(), any_cone()]);
        kani::cover!(merged);
    }
    // length 3 and 4: a concrete prefix (control flow of the first cones concrete) followed by one cone of any kind and dimension
    #[kani::proof]
    #[kani::unwind(4)]
    fn new_collapsed_matches_spec_len3_run2_then_any() { check_on([NonnegativeConeT(2), SecondOrderConeT(1), any_cone()]); }
    #[kani::proof]
    #[kani::unwind(4)]
    fn new_collapsed_matches_spec_len3_nn_empty_then_any() { check_on([NonnegativeConeT(1), ZeroConeT(0), any_cone()]); }
    #[kani::proof]
    #[kani::unwind(4)]
    fn new_collapsed_matches_spec_len3_soc_soc1_then_any() { check_on([SecondOrderConeT(3), SecondOrderConeT(1), any_cone()]); }
    #[kani::proof]
    #[kani::unwind(5)]
    fn new_collapsed_matches_spec_len4_zero_soc1_empty_then_any() { check_on([ZeroConeT(2), SecondOrderConeT(1), NonnegativeConeT(0), any_cone()]); }
    #[kani::proof]
    #[kani::unwind(5)]
    fn new_collapsed_matches_spec_len4_exp_run2_then_any() { check_on([ExponentialConeT(), NonnegativeConeT(2), SecondOrderConeT(1), any_cone()]); }
    #[kani::proof]
    #[kani::unwind(5)]
    fn new_collapsed_matches_spec_len4_soc_zero_nn_then_any() { check_on([SecondOrderConeT(2), ZeroConeT(1), NonnegativeConeT(1), any_cone()]); }
}
