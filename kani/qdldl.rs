//@target src/qdldl/qdldl.rs
#[cfg(kani)]
mod verif_kani_qdldl {
    use super::*;

    // C12 "refactoring after value updates is bit-identical to factoring the updated matrix from scratch":
    // at component level this says that _factor_inner reads no workspace / output cell it has not written in the same
    // call.  Bounded: one 3x3 upper-triangular structure (column 1 has no structural diagonal entry), concrete values
    // (so the float work is constant-folded), every workspace and output array filled with symbolic garbage;
    // the outputs must equal those of a run on zeroed arrays.
    fn run(garbage: bool) -> ([f64; 3], [f64; 3], [f64; 3], [usize; 3], [usize; 4], usize, usize, bool) {
        let n = 3usize;
        // A = [4 1 2; . . 3; . . 5]  (upper triangle, CSC)
        let ap = [0usize, 1, 2, 5];
        let ai = [0usize, 0, 0, 1, 2];
        let ax = [4.0f64, 1.0, 2.0, 3.0, 5.0];
        let mut work = [0usize; 9];
        let mut lnz = [0usize; 3];
        let mut etree = [0usize; 3];
        let _ = _etree(n, &ap, &ai, &mut work, &mut lnz, &mut etree);
        let total = lnz[0] + lnz[1] + lnz[2];
        assert!(total == 3);
        let mut lp = [0usize; 4];
        let mut li = [0usize; 3];
        let mut lx = [0.0f64; 3];
        let mut d = [0.0f64; 3];
        let mut dinv = [0.0f64; 3];
        let mut bwork = [false; 3];
        let mut iwork = [0usize; 9];
        let mut fwork = [0.0f64; 3];
        let mut count = 0usize;
        if garbage {
            lp = kani::any(); li = kani::any(); iwork = kani::any(); bwork = kani::any(); count = kani::any();
            lx = kani::any(); d = kani::any(); dinv = kani::any(); fwork = kani::any();
            let mut k = 0;
            while k < 3 {
                kani::assume(lx[k].is_finite() && d[k].is_finite() && dinv[k].is_finite() && fwork[k].is_finite());
                k += 1;
            }
        }
        let dsigns = [1i8, -1, 1];
        let r = _factor_inner(n, &ap, &ai, &ax, &mut lp, &mut li, &mut lx, &mut d, &mut dinv, &lnz, &etree,
                              &mut bwork, &mut iwork, &mut fwork, false, &dsigns, true, 1e-12, 1e-7, &mut count);
        let ok = r.is_ok();
        let pos = match r { Ok(p) => p, Err(_) => usize::MAX };
        (d, dinv, lx, li, lp, count, pos, ok)
    }

    #[kani::proof]
    #[kani::unwind(12)]
    fn factor_inner_ignores_workspace_garbage() {
        let (d0, di0, lx0, li0, lp0, c0, p0, ok0) = run(false);
        let (d1, di1, lx1, li1, lp1, c1, p1, ok1) = run(true);
        assert!(ok0 && ok1);
        assert!(c0 == c1 && p0 == p1);
        let mut k = 0;
        while k < 3 {
            assert!(d0[k].to_bits() == d1[k].to_bits());
            assert!(di0[k].to_bits() == di1[k].to_bits());
            assert!(lx0[k].to_bits() == lx1[k].to_bits());
            assert!(li0[k] == li1[k]);
            k += 1;
        }
        let mut c = 0;
        while c < 4 { assert!(lp0[c] == lp1[c]); c += 1; }
    }

    // C04 / C12: the 0 x 0 matrix is a legal input of the engine (square, upper triangular, no empty column - check_structure
    // accepts it; it is what the KKT system of a problem with no variables and no constraints looks like): factoring it
    // must return, not panic.  Concrete, loop-free for n = 0 => complete.
    #[kani::proof]
    #[kani::unwind(3)]
    fn factor_inner_empty_matrix() {
        let ap = [0usize];
        let ai: [usize; 0] = [];
        let ax: [f64; 0] = [];
        let mut lp = [0usize; 1];
        let mut li: [usize; 0] = [];
        let mut lx: [f64; 0] = [];
        let mut d: [f64; 0] = [];
        let mut dinv: [f64; 0] = [];
        let lnz: [usize; 0] = [];
        let etree: [usize; 0] = [];
        let mut bwork: [bool; 0] = [];
        let mut iwork: [usize; 0] = [];
        let mut fwork: [f64; 0] = [];
        let dsigns: [i8; 0] = [];
        let mut count = 0usize;
        let r = _factor_inner(0, &ap, &ai, &ax, &mut lp, &mut li, &mut lx, &mut d, &mut dinv, &lnz, &etree,
                              &mut bwork, &mut iwork, &mut fwork, false, &dsigns, true, 1e-12, 1e-7, &mut count);
        assert!(r.is_ok());
        assert!(count == 0);
    }

    // C12 "zero pivots ... are reported as errors, never as a silently wrong solution" (finding F7): the permuted upper triangle
    // handed to _factor_inner can have an EMPTY first column (the ordering moved a column without a stored diagonal entry to the
    // front: check_structure only looks at the un-permuted input).  The first pivot is then an exact zero: with regularisation
    // off the factorisation must stop with ZeroPivot, with it on the pivot must be the signed perturbation - never the first
    // stored value of some other column.  Concrete 3 x 3 structure P A P' = [[0,a,b],[a,c,0],[b,0,d]], symbolic finite values.
    #[kani::proof]
    #[kani::unwind(12)]
    fn factor_inner_first_column_empty() {
        let ap = [0usize, 0, 2, 4];
        let ai = [0usize, 1, 0, 2];
        let ax: [f64; 4] = kani::any();
        let mut k = 0;
        while k < 4 { kani::assume(ax[k].is_finite() && ax[k] != 0.0); k += 1; }
        let mut work = [0usize; 9];
        let mut lnz = [0usize; 3];
        let mut etree = [0usize; 3];
        assert!(_etree(3, &ap, &ai, &mut work, &mut lnz, &mut etree).is_ok());
        let mut lp = [0usize; 4];
        let mut li = [0usize; 3];
        let mut lx = [0f64; 3];
        let mut d = [0f64; 3];
        let mut dinv = [0f64; 3];
        let mut bwork = [false; 3];
        let mut fwork = [0f64; 3];
        let dsigns = [1i8, 1, 1];
        let mut count = 0usize;
        let reg: bool = kani::any();
        assert!(lnz[0] + lnz[1] + lnz[2] <= 3);
        let r = _factor_inner(3, &ap, &ai, &ax, &mut lp, &mut li, &mut lx, &mut d, &mut dinv, &lnz, &etree,
                              &mut bwork, &mut work, &mut fwork, false, &dsigns, reg, 1e-12, 1e-7, &mut count);
        if !reg {
            assert!(matches!(r, Err(QDLDLError::ZeroPivot)));
        } else {
            assert!(d[0] == 1e-7 && count >= 1);
        }
        kani::cover!(reg);
        kani::cover!(!reg);
    }

    // C12 "non-square, non-upper-triangular or empty-column inputs are reported as errors": check_structure accepts a matrix
    // iff it is square, stores nothing below the diagonal and has no empty column.  Bounded: n = 3 columns, 4 stored
    // entries, symbolic m in {2, 3}, symbolic column pointers and row indices.  (Stand-in that does not depend on the loop
    // form: the unbounded Verus contract of check_structure is anchored to the loops of the current source.)
    #[kani::proof]
    #[kani::unwind(6)]
    fn check_structure_iff_3col_nnz4() {
        let m: usize = kani::any();
        kani::assume(m == 2 || m == 3);
        let cp: [usize; 4] = kani::any();
        kani::assume(cp[0] == 0 && cp[0] <= cp[1] && cp[1] <= cp[2] && cp[2] <= cp[3] && cp[3] == 4);
        let rv: [usize; 4] = kani::any();
        let mut k = 0;
        while k < 4 { kani::assume(rv[k] < m); k += 1; }
        let A = CscMatrix::<f64> { m, n: 3, colptr: cp.to_vec(), rowval: rv.to_vec(), nzval: vec![1.0; 4] };
        let mut triu = true;
        let mut nonempty = true;
        let mut c = 0;
        while c < 3 {
            if cp[c] == cp[c + 1] { nonempty = false; }
            let mut k = 0;
            while k < 4 { if cp[c] <= k && k < cp[c + 1] && rv[k] > c { triu = false; } k += 1; }
            c += 1;
        }
        let r = check_structure(&A);
        assert!(r.is_ok() == (m == 3 && triu && nonempty));
    }

    // C12 / C08: symmetric permutation of an upper-triangular matrix and its entry map (bounded: n = 3, all 8 off-diagonal
    // patterns with full diagonal x all 6 permutations, enumerated concretely; symbolic non-NaN values)
    fn perm3(k: usize) -> [usize; 3] {
        match k { 0 => [0, 1, 2], 1 => [0, 2, 1], 2 => [1, 0, 2], 3 => [1, 2, 0], 4 => [2, 0, 1], _ => [2, 1, 0] }
    }
    #[kani::proof]
    #[kani::unwind(50)]
    fn permute_symmetric_entry_map_3x3() {
        let mut pat = 0;
        while pat < 8 {
            // entries in column-major order: (0,0) | [(0,1)] (1,1) | [(0,2)] [(1,2)] (2,2)
            let mut colptr = vec![0usize; 4];
            let mut rowval: Vec<usize> = Vec::new();
            let mut nzval: Vec<f64> = Vec::new();
            let cells = [(0usize, 0usize, true), (0, 1, pat & 1 == 1), (1, 1, true), (0, 2, pat & 2 == 2), (1, 2, pat & 4 == 4), (2, 2, true)];
            let mut c = 0;
            while c < 6 {
                let (r, col, on) = cells[c];
                if on {
                    let v: f64 = kani::any(); kani::assume(!v.is_nan());
                    rowval.push(r); nzval.push(v);
                    let mut cc = col + 1;
                    while cc < 4 { colptr[cc] += 1; cc += 1; }
                }
                c += 1;
            }
            let a = CscMatrix::<f64> { m: 3, n: 3, colptr, rowval, nzval };
            let nnz = a.nzval.len();
            let mut pk = 0;
            while pk < 6 {
                let perm = perm3(pk);
                let iperm = _invperm(&perm).unwrap();
                let (p, map) = permute_symmetric(&a, &iperm);
                assert!(p.m == 3 && p.n == 3 && p.colptr[0] == 0 && p.colptr[3] == nnz && map.len() == nnz);
                assert!(p.colptr[0] <= p.colptr[1] && p.colptr[1] <= p.colptr[2] && p.colptr[2] <= p.colptr[3]);
                // every entry k of A at (r,c) sits in P at (min(ip r, ip c), max(ip r, ip c)), slot map[k], same value
                let mut col = 0;
                while col < 3 {
                    let mut k = a.colptr[col];
                    while k < a.colptr[col + 1] {
                        let r = a.rowval[k];
                        let (pr, pc) = if iperm[r] <= iperm[col] { (iperm[r], iperm[col]) } else { (iperm[col], iperm[r]) };
                        let slot = map[k];
                        assert!(slot < nnz);
                        assert!(p.colptr[pc] <= slot && slot < p.colptr[pc + 1]);
                        assert!(p.rowval[slot] == pr && pr <= pc);
                        assert!(p.nzval[slot] == a.nzval[k]);
                        // the map is injective
                        let mut k2 = 0;
                        while k2 < k { assert!(map[k2] != slot); k2 += 1; }
                        k += 1;
                    }
                    col += 1;
                }
                std::mem::forget(p); std::mem::forget(map); std::mem::forget(iperm);
                pk += 1;
            }
            std::mem::forget(a);
            pat += 1;
        }
    }
}
