//@target src/solver/implementations/default/info_print.rs
#[cfg(kani)]
mod verif_kani_print {
    use super::*;
    use crate::solver::core::cones::verif_kani_cc::{fixed_random_state, fixture};
    use crate::solver::core::kktsolvers::LinearSolverInfo;
    use crate::solver::core::SolverStatus;

    fn info_with_buffer() -> DefaultInfo<f64> {
        DefaultInfo::<f64> {
            μ: 1.0, sigma: 1.0, step_length: 0.5, iterations: kani::any(),
            cost_primal: kani::any(), cost_dual: kani::any(), res_primal: kani::any(), res_dual: kani::any(),
            res_primal_inf: 0.0, res_dual_inf: 0.0, gap_abs: kani::any(), gap_rel: kani::any(), ktratio: 1.0,
            prev_cost_primal: 0.0, prev_cost_dual: 0.0, prev_res_primal: 0.0, prev_res_dual: 0.0,
            prev_gap_abs: 0.0, prev_gap_rel: 0.0, solve_time: 0.0, status: SolverStatus::Solved,
            linsolver: LinearSolverInfo::default(),
            stream: PrintTarget::Buffer(Vec::new()),
        }
    }
    fn buffer_is_empty(info: &DefaultInfo<f64>) -> bool {
        match info.stream { PrintTarget::Buffer(ref b) => b.is_empty(), _ => false }
    }

    #[kani::proof]
    #[kani::unwind(4)]
    fn verbose_off_status_lines() {
        let mut st = DefaultSettings::<f64>::default();
        st.verbose = false;
        let mut info = info_with_buffer();
        assert!(info.print_status_header(&st).is_ok());
        assert!(buffer_is_empty(&info));
        assert!(info.print_status(&st).is_ok());
        assert!(buffer_is_empty(&info));
        assert!(info.print_footer(&st).is_ok());
        assert!(buffer_is_empty(&info));
        std::mem::forget(info);
        std::mem::forget(st);
    }

    // C20 "With verbose off nothing is written to any target": every print entry point of DefaultInfo, on a problem
    // whose presolver removed a row (so that the presolve notice would be due), arbitrary figures / iteration count
    #[kani::proof]
    #[kani::stub(std::collections::hash_map::RandomState::new, fixed_random_state)]
    #[kani::unwind(4)]
    fn verbose_off_prints_nothing() {
        let mut st = DefaultSettings::<f64>::default();
        st.verbose = false;
        let mut info = info_with_buffer();
        let cones = fixture(&[]);
        let data = crate::solver::implementations::default::verif_kani_problemdata::fixture_data(
            Some(Presolver { _init_cones: vec![], reduce_map: None, mfull: 2, mreduced: 1, infbound: 1e20 }));
        assert!(info.print_configuration(&st, &data, &cones).is_ok());
        assert!(buffer_is_empty(&info));
        assert!(info.print_status_header(&st).is_ok());
        assert!(buffer_is_empty(&info));
        assert!(info.print_status(&st).is_ok());
        assert!(buffer_is_empty(&info));
        assert!(info.print_footer(&st).is_ok());
        assert!(buffer_is_empty(&info));
        // no drop glue: dropping PrintTarget / Box<dyn Write> / File costs CBMC more than the functions under test
        std::mem::forget(info); std::mem::forget(st); std::mem::forget(data); std::mem::forget(cones);
    }

    // C04 "every solve terminates cleanly": the figure formatter of the verbose status lines must not panic on the values an
    // ill-posed problem produces (inf, -inf, NaN): `expformat!` sends only finite values through `_exp_str_reformat`, which
    // unwraps the position of the exponent marker.  Concrete, loop bounds from the format machinery only => complete for these inputs.
    // (the reformatting function is stubbed by one that fails when reached: what is checked is that the macro keeps non-finite
    //  values away from it; running the real string search on "inf" does not finish in CBMC)
    fn exp_reformat_must_not_be_reached(_s: String) -> String { panic!("_exp_str_reformat reached with a non-finite value") }
    #[kani::proof]
    #[kani::stub(_exp_str_reformat, exp_reformat_must_not_be_reached)]
    #[kani::unwind(12)]
    fn expformat_nonfinite_no_panic() {
        let a = expformat!("{:+8.4e}", f64::INFINITY);
        let b = expformat!("{:+8.4e}", f64::NEG_INFINITY);
        let c = expformat!("{:+8.4e}", f64::NAN);
        assert!(a.len() >= 3 && b.len() >= 3 && c.len() >= 3);
        std::mem::forget(a); std::mem::forget(b); std::mem::forget(c);
    }
}
