//@target src/solver/core/cones/compositecone.rs
// fixture: a CompositeCone built without CompositeCone::new (its HashMap inserts cost CBMC minutes of SipHash);
// real make_cone / make_rng_cones / make_rng_blocks, empty type_counts (no function under contract reads it)
#[cfg(kani)]
pub(crate) mod verif_kani_cc {
    use super::*;
    pub(crate) fn fixed_random_state() -> std::collections::hash_map::RandomState {
        // HashMap::new() calls RandomState::new() -> getrandom syscall (unsupported by Kani): harnesses stub it with this
        unsafe { std::mem::transmute::<[u64; 2], std::collections::hash_map::RandomState>([0u64, 0u64]) }
    }
    pub(crate) fn fixture(types: &[SupportedConeT<f64>]) -> CompositeCone<f64> {
        let mut cones: Vec<SupportedCone<f64>> = Vec::new();
        let mut sym = true;
        for t in types.iter() {
            let c = make_cone(t);
            sym = sym && c.is_symmetric();
            cones.push(c);
        }
        let mut numel = 0;
        let mut degree = 0;
        for c in cones.iter() { numel += c.numel(); degree += c.degree(); }
        let rng_cones = make_rng_cones(&cones);
        let rng_blocks = make_rng_blocks(&cones);
        CompositeCone { cones, type_counts: HashMap::new(), numel, degree, rng_cones, rng_blocks, _is_symmetric: sym }
    }
}
