//@target src/solver/implementations/default/presolver.rs
#[cfg(kani)]
mod verif_kani_presolver {
    use super::*;
    use crate::solver::core::cones::SupportedConeT::*;

    // one cone out of {NonnegativeConeT(d <= 3), ZeroConeT(d <= 2), SecondOrderConeT(d <= 3), ExponentialConeT()}
    fn any_cone() -> SupportedConeT<f64> {
        let tag: u8 = kani::any();
        kani::assume(tag < 4);
        cone_of(tag)
    }
    fn cone_of(tag: u8) -> SupportedConeT<f64> {
        let d: usize = kani::any();
        match tag {
            0 => { kani::assume(d <= 3); NonnegativeConeT(d) }
            1 => { kani::assume(d <= 2); ZeroConeT(d) }
            2 => { kani::assume(d <= 3); SecondOrderConeT(d) }
            _ => ExponentialConeT(),
        }
    }

    // structural equality on the variants in play (the derived PartialEq drags the Vec<T> comparison of GenPowerConeT into CBMC)
    fn same(a: &SupportedConeT<f64>, b: &SupportedConeT<f64>) -> bool {
        match (a, b) {
            (ZeroConeT(x), ZeroConeT(y)) => x == y,
            (NonnegativeConeT(x), NonnegativeConeT(y)) => x == y,
            (SecondOrderConeT(x), SecondOrderConeT(y)) => x == y,
            (ExponentialConeT(), ExponentialConeT()) => true,
            _ => false,
        }
    }

    // C09 "exactly those rows that sit in a nonnegative cone ... are dropped" at the level of the cone list:
    // reduce_cones against its specification, written with plain index loops (no iterator adaptors)
    // returns what was seen: (a nonnegative cone vanished, one shrank, another cone had a false marker, rows were dropped from nonnegative cones only)
    fn check_on<const N: usize>(cones: [SupportedConeT<f64>; N]) -> (bool, bool, bool, bool) {
        let mut total = 0;
        let mut i = 0;
        while i < N { total += cones[i].nvars(); i += 1; }
        // symbolic markers of exactly the matching total length (allocation size concrete, length cut back)
        let marks: [bool; 9] = [kani::any(), kani::any(), kani::any(), kani::any(), kani::any(), kani::any(), kani::any(), kani::any(), kani::any()];
        let mut keep_logical = marks.to_vec();
        keep_logical.truncate(total);
        let presolver = Presolver::<f64> {
            _init_cones: Vec::new(),
            reduce_map: Some(PresolverRowReductionIndex { keep_logical }),
            mfull: total,
            mreduced: total,
            infbound: 1e20,
        };

        let out = presolver.reduce_cones(&cones);

        // expected: walk the cones and the markers side by side
        let mut off = 0;          // first row of cone i
        let mut j = 0;            // next output cone
        let mut nkept = 0;        // markers set
        let mut only_nn_dropped = true;
        let (mut vanished, mut shrank, mut other_false) = (false, false, false);
        let mut i = 0;
        while i < N {
            let nv = cones[i].nvars();
            let mut cnt = 0;
            let mut r = 0;
            while r < nv { if marks[off + r] { cnt += 1; } r += 1; }
            nkept += cnt;
            if let NonnegativeConeT(_) = cones[i] {
                if cnt > 0 {
                    // a nonnegative cone shrinks to its kept rows ...
                    assert!(j < out.len());
                    assert!(same(&out[j], &NonnegativeConeT(cnt)));
                    j += 1;
                }
                // ... and disappears when none is kept
                if cnt == 0 && nv > 0 { vanished = true; }
                if cnt > 0 && cnt < nv { shrank = true; }
            } else {
                // every other cone passes through unchanged, whatever its markers say
                assert!(j < out.len());
                assert!(same(&out[j], &cones[i]));
                j += 1;
                if cnt < nv { only_nn_dropped = false; other_false = true; }
            }
            off += nv;
            i += 1;
        }
        assert!(j == out.len());
        // the reduced cone list describes exactly the kept rows (when only nonnegative rows are dropped, as make_reduction_map does)
        let mut sum = 0;
        let mut k = 0;
        while k < out.len() { sum += out[k].nvars(); k += 1; }
        if only_nn_dropped { assert!(sum == nkept); }
        core::mem::forget(presolver); core::mem::forget(out); core::mem::forget(cones);
        (vanished, shrank, other_false, only_nn_dropped && nkept < total)
    }

    // Bounds (all measured).  One list shape per harness: two checks in one harness share the heap and CBMC runs out of 60 GB.
    // A symbolic cone kind drags the Vec clone of GenPowerConeT (symbolic allocation size) into every `cone.clone()`, and a
    // conditional `push` leaves the length of `cones_new` symbolic, after which every later push explores its reallocation
    // path: either of these twice before the third cone exhausts 60 GB.  Hence: every list of length 1 and 2 over the four
    // kinds, and lists of length 3 whose first two cones are of a concrete kind other than nonnegative (each such kind once in
    // each position), the third cone of any kind.  All dimensions and all markers are symbolic throughout.
    fn covers_all(seen: (bool, bool, bool, bool)) {
        kani::cover!(seen.0); kani::cover!(seen.1); kani::cover!(seen.2); kani::cover!(seen.3);
    }
    #[kani::proof]
    #[kani::unwind(4)]
    fn reduce_cones_matches_spec_len1() { covers_all(check_on([any_cone()])); }
    #[kani::proof]
    #[kani::unwind(4)]
    fn reduce_cones_matches_spec_len2() { covers_all(check_on([any_cone(), any_cone()])); }
    #[kani::proof]
    #[kani::unwind(4)]
    fn reduce_cones_matches_spec_len3_soc_zero_any() { covers_all(check_on([cone_of(2), cone_of(1), any_cone()])); }
    #[kani::proof]
    #[kani::unwind(4)]
    fn reduce_cones_matches_spec_len3_exp_soc_any() { covers_all(check_on([cone_of(3), cone_of(2), any_cone()])); }
    #[kani::proof]
    #[kani::unwind(4)]
    fn reduce_cones_matches_spec_len3_zero_exp_any() { covers_all(check_on([cone_of(1), cone_of(3), any_cone()])); }
    // NOT within the 8 GB cap (measured: 7 min 15 s and 22 GB each, both pass): a nonnegative cone among the first two of three
    #[kani::proof]
    #[kani::unwind(4)]
    fn reduce_cones_matches_spec_len3_nn_nn_nn() {
        let seen = check_on([cone_of(0), cone_of(0), cone_of(0)]);
        kani::cover!(seen.0 && seen.1); kani::cover!(seen.3);
    }
    #[kani::proof]
    #[kani::unwind(4)]
    fn reduce_cones_matches_spec_len3_nn_soc_nn() {
        let seen = check_on([cone_of(0), cone_of(2), cone_of(0)]);
        kani::cover!(seen.0 && seen.1); kani::cover!(seen.3);
    }
}
