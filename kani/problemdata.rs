//@target src/solver/implementations/default/problemdata.rs
#[cfg(kani)]
pub(crate) mod verif_kani_problemdata {
    use super::*;
    use crate::solver::core::cones::SupportedConeT::*;

    // fixture for harnesses in sibling modules (normq / normb are private fields): a 1x1 problem record
    pub(crate) fn fixture_data(presolver: Option<Presolver<f64>>) -> DefaultProblemData<f64> {
        DefaultProblemData::<f64> {
            P: CscMatrix::zeros((1, 1)), q: vec![1.0], A: CscMatrix::zeros((1, 1)), b: vec![1.0], cones: vec![],
            n: 1, m: 1, equilibration: DefaultEquilibrationData::new(1, 1), normq: None, normb: None, presolver,
        }
    }

    fn settings(presolve: bool) -> DefaultSettings<f64> {
        // struct-literal construction through Default would run the builder (String formatting): keep it out of CBMC
        let mut s = DefaultSettings::<f64>::default();
        s.presolve_enable = presolve;
        s
    }

    // C09 (bounded: one NN row + one SOC(2) block, n = 1, symbolic right-hand sides):
    // every internal rhs entry is capped at the bound; with presolve on, the NN row above the bound is dropped,
    // the SOC rows never are; with presolve off nothing is dropped
    #[kani::proof]
    #[kani::unwind(8)]
    fn problemdata_new_caps_and_drops() {
        let b0: f64 = kani::any();
        let b1: f64 = kani::any();
        kani::assume(!b0.is_nan() && !b1.is_nan());
        let presolve: bool = kani::any();
        let bound = crate::get_infinity();
        let P = CscMatrix::<f64>::zeros((1, 1));
        let A = CscMatrix::new(3, 1, vec![0, 3], vec![0, 1, 2], vec![1.0, 1.0, 1.0]);
        let q = [1.0];
        let b = [b0, b1, 0.0];
        let cones = [NonnegativeConeT(1), SecondOrderConeT(2)];
        let st = settings(presolve);
        let data = DefaultProblemData::<f64>::new(&P, &q, &A, &b, &cones, &st);
        let dropped = presolve && b0 > (1.0 - f64::EPSILON * 10.0) * bound;
        kani::cover!(dropped);
        kani::cover!(!dropped && b1 > bound);
        assert!(data.m == if dropped { 2 } else { 3 });
        assert!(data.b.len() == data.m);
        assert!(data.presolver.is_some() == dropped);
        let mut i = 0;
        while i < data.b.len() {
            assert!(data.b[i] <= bound);
            i += 1;
        }
        // the SOC rows keep their (capped) values in order
        let off = if dropped { 0 } else { 1 };
        assert!(data.b[off] == if b1 < bound { b1 } else { bound });
    }
}
