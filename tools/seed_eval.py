#!/usr/bin/env python3
"""Confirm a seeded defect produced by a sub-agent and run the checks against it.

usage: seed_eval.py <worktree> <label A|B> <property> [extra properties ...]
  expects <worktree>/_out/<label>.diff, <label>_demo.rs, <label>_meta.md
  1. demo passes on the unchanged worktree, fails with the patch; the crate's test suite passes with the patch
  2. the checks of the properties are run with VERIF_REPO=<worktree> (patch applied); evidence/replay redirected
  3. /verif/seeded/<property>_<label>/ {patch.diff, demo.rs, meta.json} is written when 1. is confirmed
"""
import json, os, re, shutil, subprocess, sys, time

VERIF = os.path.dirname(os.path.dirname(os.path.abspath(__file__)))


def sh(cmd, cwd, env=None, timeout=3600):
    e = dict(os.environ, CARGO_NET_OFFLINE="true")
    if env: e.update(env)
    p = subprocess.run(cmd, cwd=cwd, shell=True, capture_output=True, text=True, env=e, timeout=timeout)
    return p.returncode, p.stdout + p.stderr


def main():
    wt, label, pid = sys.argv[1], sys.argv[2], sys.argv[3]
    props = [pid] + sys.argv[4:]
    out = os.path.join(wt, "_out")
    patch = os.path.join(out, f"{label}.diff")
    demo = os.path.join(out, f"{label}_demo.rs")
    tgt = {"CARGO_TARGET_DIR": os.path.join(wt, "target")}
    sh("git checkout -- . && git clean -fdq tests src", wt)
    demo_txt = open(demo).read()
    head = "\n".join(demo_txt.splitlines()[:25])
    m = re.search(r"(src/[\w/]+\.rs)", head)
    appended = None
    if m and re.search(r"^\s*//\s*APPEND\b|append(ed)? to `?src/|to be appended", head, re.I | re.M) and not re.search(r"WHERE IT GOES:\s*`?tests/|goes (in|to) `?tests/|^// *tests/\w+\.rs", head, re.I | re.M):
        appended = m.group(1)
        test_cmd = None
    name = f"seed_demo_{label.lower()}"

    def place_demo():
        if appended:
            with open(os.path.join(wt, appended), "a") as f:
                f.write("\n" + demo_txt)
        else:
            shutil.copy(demo, os.path.join(wt, "tests", name + ".rs"))

    def run_demo():
        if appended:
            mm = re.search(r"mod\s+(\w+)", demo_txt)
            filt = mm.group(1) if mm else "demo"
            return sh(f"cargo test --offline --lib {filt} 2>&1 | tail -15", wt, tgt)
        return sh(f"cargo test --offline --test {name} 2>&1 | tail -15", wt, tgt)

    res = {"property": pid, "label": label, "worktree": wt}
    place_demo()
    rc, o = run_demo()
    res["demo_without_change"] = "pass" if re.search(r"test result: ok\. [1-9]", o) else "FAIL"
    res["demo_without_change_tail"] = o[-600:]
    sh("git checkout -- . && git clean -fdq tests src", wt)
    rc, o = sh(f"git apply {patch}", wt)
    if rc != 0:
        print("patch does not apply:", o); sys.exit(1)
    place_demo()
    rc, o = run_demo()
    res["demo_with_change"] = "fail" if ("FAILED" in o or "panicked" in o or "error" in o.lower()) and not re.search(r"test result: ok\. [1-9]", o) else "PASS(!)"
    res["demo_with_change_tail"] = o[-800:]
    # suite with the change, without the demo
    if appended:
        sh(f"git checkout -- {appended}", wt); sh(f"git apply {patch}", wt)
    else:
        os.remove(os.path.join(wt, "tests", name + ".rs"))
    rc, o = sh("cargo test --workspace --no-fail-fast --offline 2>&1 | grep -E '^test result|FAILED|failed' | sort | uniq -c", wt, tgt)
    res["suite_with_change"] = "pass" if ("FAILED" not in o and "failed;" in o and not re.search(r"[1-9]\d* failed", o)) else "FAIL"
    res["suite_tail"] = o[-600:]
    confirmed = res["demo_without_change"] == "pass" and res["demo_with_change"] == "fail" and res["suite_with_change"] == "pass"
    res["confirmed"] = confirmed
    # run the checks against the changed tree
    res["checks"] = {}
    tier = os.environ.get("SEED_TIER", "quick")
    for p in props:
        t0 = time.time()
        rc, o = sh(f"./check.py {p} --tier {tier}", VERIF,
                   {"VERIF_REPO": wt, "VERIF_EVIDENCE_DIR": "/tmp/seed_ev", "VERIF_REPLAY_DIR": "/tmp/seed_replay",
                    "VERIF_BUILD_TAG": "_seed_" + pid + label}, timeout=7200)
        lines = [l for l in o.splitlines() if l.startswith(("VIOLATION", "UNDECIDED", "KNOWN")) or " tier=" in l]
        res["checks"][p] = {"exit": rc, "lines": [re.sub(r"replay=\S+", "replay=…", l) for l in lines][:8], "wall_s": round(time.time() - t0, 1)}
    sh("git checkout -- . && git clean -fdq tests src", wt)
    res["detected_by"] = [p for p, c in res["checks"].items() if c["exit"] == 1 and any(l.startswith("VIOLATION") for l in c["lines"])]
    res["what_it_needs"] = open(os.path.join(out, f"{label}_meta.md")).read()[:3000]
    print(json.dumps({k: v for k, v in res.items() if k not in ("what_it_needs",)}, indent=1))
    if confirmed:
        d = os.path.join(VERIF, "seeded", f"{pid}_{label}")
        os.makedirs(d, exist_ok=True)
        shutil.copy(patch, os.path.join(d, "patch.diff"))
        shutil.copy(demo, os.path.join(d, "demo.rs"))
        res["ran"] = [f"cargo test --offline (demo, without and with the change) in a scratch worktree",
                      "cargo test --workspace --no-fail-fast --offline with the change",
                      f"./check.py <prop> --tier {tier} with VERIF_REPO=<worktree with the change applied>"]
        json.dump(res, open(os.path.join(d, "meta.json"), "w"), indent=1)


if __name__ == "__main__":
    main()
