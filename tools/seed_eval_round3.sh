#!/bin/bash
# evaluate the round-3 seeded changes (worktrees /tmp/mut3_<id> at /repo HEAD, labels C/D; prompts: property text only)
cd /verif
mkdir -p /tmp/seed_logs3
run() { w=$1; l=$2; shift; shift; python3 tools/seed_eval.py /tmp/mut3_$w $l "$@" > /tmp/seed_logs3/${w}_$l.log 2>&1; }
run C02 C C02; run C02 D C02 C10
run C04 C C04 C03; run C04 D C04 C20
run C07 C C07 C15; run C07 D C07 C04
run C09 C C09; SEED_TIER=thorough run C09 D C09
run C15 C C15; run C15 D C15
run C20 C C20; run C20 D C20
echo done > /tmp/seed_logs3/all.done
