#!/usr/bin/env python3
"""Development aid (not evidence):  tools/dev_kani.py [--timeout S] [--unwind N] [--jobs J] <harness> [<harness> ...]

Runs the named Kani harnesses of the overlays in kani/*.rs through tools/kani_run.run_harnesses (scratch copy of the
/repo working tree, VERIF_REPO overrides) and prints status / wall time / reason.  Exit 0 iff every harness is `ok`."""
import argparse, os, sys
sys.path.insert(0, os.path.dirname(os.path.abspath(__file__)))
import kani_run

ap = argparse.ArgumentParser()
ap.add_argument("harness", nargs="+")
ap.add_argument("--timeout", type=int, default=600)
ap.add_argument("--jobs", type=int, default=2)
ap.add_argument("--tail", type=int, default=0, help="print the last N characters of the verifier output")
a = ap.parse_args()
res = kani_run.run_harnesses("dev_" + str(os.getpid()), [{"harness": h, "timeout": a.timeout} for h in a.harness], jobs=a.jobs)
for r in res:
    print(f"{r['status']:10s} {r.get('wall_s', 0):7.1f} s  {r['harness']}  {r.get('reason', '')}")
    if a.tail:
        print(r.get("output", "")[-a.tail:])
    if r.get("cex"):
        print(r["cex"][:3000])
sys.exit(0 if all(r["status"] == "ok" for r in res) else 1)
