#!/usr/bin/env python3
"""Development aid: run every emitted unit (build/*.rs) under several Z3 random seeds and report the
obligations that flip.  A proof that depends on the seed is the kind that later fails for no semantic
reason (a false alarm), so each one found is reworked (smaller query, named trigger, lemma)."""
import glob, json, os, subprocess, sys
from concurrent.futures import ThreadPoolExecutor
HERE = os.path.dirname(os.path.abspath(__file__)); ROOT = os.path.dirname(HERE)
seeds = [int(x) for x in (sys.argv[1].split(",") if len(sys.argv) > 1 else "1,2,3".split(","))]
units = sorted(glob.glob(os.path.join(ROOT, "build", "*.rs")))
units = [u for u in units if "__canary" not in os.path.basename(u)]
if len(sys.argv) > 2: units = [u for u in units if os.path.basename(u)[:-3] in sys.argv[2].split(",")]
def run(a):
    u, s = a
    try:
        p = subprocess.run(["verus", os.path.basename(u), "--rlimit", "50", "--smt-option", f"smt.random_seed={s}",
                            "--multiple-errors", "3"], cwd=os.path.dirname(u), capture_output=True, text=True, timeout=600)
    except subprocess.TimeoutExpired:
        # a query the resource limit does not stop (seen with one degree-4 nonlinear identity): as bad as a flip
        subprocess.run("pkill -f 'rust_verify " + os.path.basename(u) + "'", shell=True)
        return os.path.basename(u), s, -2, ["HANG (600 s)"]
    tail = [l for l in (p.stdout + p.stderr).splitlines() if "verification results" in l or l.startswith("error")]
    import re
    m = re.search(r"(\d+) verified, (\d+) errors", p.stdout + p.stderr)
    return os.path.basename(u), s, (int(m.group(2)) if m else -1), tail[:6]
# the units that include the real-arithmetic axioms carry one obligation that must fail (canary_real_axioms): the
# baseline (default seed) error count is what every other seed is compared with
with ThreadPoolExecutor(8) as ex:
    base = {name: n for name, _, n, _ in ex.map(run, [(u, 0) for u in units])}
    for name, s, n, tail in ex.map(run, [(u, s) for u in units for s in seeds]):
        print(("ok  " if n == base[name] else "FLIP"), name, "seed", s, "| base errors", base[name], "|", " ; ".join(tail), flush=True)
