#!/bin/bash
# evaluate the round-4 seeded changes (worktrees /tmp/mut4_<id> at /repo HEAD, labels F/G/H; prompts: property text only)
cd /verif
mkdir -p /tmp/seed_logs4
run() { w=$1; l=$2; shift; shift; python3 tools/seed_eval.py /tmp/mut4_$w $l "$@" > /tmp/seed_logs4/${w}_$l.log 2>&1; }
for w in "$@"; do
case $w in
C08) run C08 F C08; run C08 G C08 C16; run C08 H C08 C02;;
C10) run C10 F C10; run C10 G C10; run C10 H C10 C02;;
C11) run C11 F C11; run C11 G C11 C08; run C11 H C11;;
C12) run C12 F C12; run C12 G C12; run C12 H C12 C08;;
C01) run C01 F C01; run C01 G C01 C02; run C01 H C01 C02;;
C16) run C16 F C16; run C16 G C16; run C16 H C16;;
esac
done
echo done > /tmp/seed_logs4/$(echo "$@" | tr ' ' '_').done
