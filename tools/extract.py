#!/usr/bin/env python3
"""Mechanical extraction of real items from /repo into a single Verus file.

A *unit template* (units/<name>.rs) is ordinary Verus text (hand written: specs,
lemmas, assumed contracts – all reported as such) plus directives:

  //@include <path>                       paste another template (relative to /verif)
  //@fn file=<p> [in="<hdr>"] name=<n> [rules=R1,R2,..] [ret=<id>] [attrs="#[..]"] [as=<newname>]
      //@contract / //@pre / //@post / //@loop k / //@before_loop k /
      //@body_start k / //@body_end k / //@before "<code>" / //@after "<code>" / //@nloops k
      //@after_loop k   (ghost text right after the closing brace of loop k)
  //@end
  //@struct file=<p> name=<n> [keep=a,b] [derive="A,B"] [rules=..]
  //@enum   file=<p> name=<n> [derive="A,B"]
  //@const  file=<p> name=<n> [rules=..]
  //@trait  file=<p> name=<n> [keep=f1,f2] [rules=..]   with  //@sig <fn> sections  … //@end

Everything the extractor *adds* to an extracted item is bracketed by the sentinel
comments /*@<*/ … /*@>*/ .  The fidelity check strips the bracketed regions again
and compares the token stream with rules(original item).
"""
import hashlib
import json
import os
import re
import shlex
import sys

sys.path.insert(0, os.path.dirname(os.path.abspath(__file__)))
from rustlex import (Tok, lex, untok, sig, match_close, match_angle, next_code, prev_code, OPEN, CLOSE)

VERIF = os.path.dirname(os.path.dirname(os.path.abspath(__file__)))
REPO = os.environ.get("VERIF_REPO", "/repo")

S_OPEN, S_CLOSE = "/*@<*/", "/*@>*/"


class ExtractError(Exception):
    """lost anchor / unsupported construct: the run is UNDECIDED (exit 2), never a violation"""


# --------------------------------------------------------------------------- helpers

def S(text, kind=None):
    """synthetic token"""
    if kind is None:
        kind = "ident" if re.fullmatch(r"\w+", text) else "punct"
    return Tok(kind, text, -1, True)


def synth(text):
    """lex a snippet into synthetic tokens"""
    ts = lex(text)
    for t in ts:
        t.syn = True
        t.pos = -1
    return ts


def code_idx(toks):
    return [i for i, t in enumerate(toks) if t.kind not in ("ws", "comment")]


def find_blocks(toks, lo, hi, kw):
    """yield (kw_index, header_end_index('{'), close_index) for `kw` items at the nesting level of lo..hi"""
    i = lo
    while i < hi:
        t = toks[i]
        if t.kind == "punct" and t.text in OPEN:
            i = match_close(toks, i) + 1
            continue
        if t.kind == "ident" and t.text == kw:
            j = i + 1
            while j < hi and not (toks[j].kind == "punct" and toks[j].text in ("{", ";")):
                if toks[j].kind == "punct" and toks[j].text in ("(", "["):
                    j = match_close(toks, j)
                j += 1
            if j < hi and toks[j].text == "{":
                c = match_close(toks, j)
                yield (i, j, c)
                i = c + 1
                continue
            else:
                yield (i, j, j)
                i = j + 1
                continue
        i += 1


def norm(s):
    return re.sub(r"\s+", "", s)


def item_start(toks, i):
    """walk back from the item keyword over pub/pub(crate)/unsafe/const qualifiers"""
    start = i
    j = prev_code(toks, i - 1)
    while j >= 0:
        t = toks[j]
        if t.kind == "ident" and t.text in ("pub", "unsafe", "const", "extern"):
            start = j
            j = prev_code(toks, j - 1)
        elif t.kind == "punct" and t.text == ")":
            # pub(crate)
            k = j
            depth = 0
            while k >= 0:
                if toks[k].text == ")": depth += 1
                if toks[k].text == "(":
                    depth -= 1
                    if depth == 0: break
                k -= 1
            p = prev_code(toks, k - 1)
            if p >= 0 and toks[p].kind == "ident" and toks[p].text == "pub":
                start = p
                j = prev_code(toks, p - 1)
            else:
                break
        else:
            break
    return start


_file_cache = {}


def load(relpath):
    p = os.path.join(REPO, relpath)
    if p not in _file_cache:
        if not os.path.exists(p):
            raise ExtractError(f"lost anchor: file {relpath} does not exist")
        src = open(p, encoding="utf-8").read()
        _file_cache[p] = (src, lex(src))
    return _file_cache[p]


def locate_scope(toks, in_hdr):
    """return (lo, hi) token range of the body of the impl/trait/mod whose header contains in_hdr"""
    want = norm(in_hdr)
    hits = []

    def scan(lo, hi):
        for kw in ("impl", "trait", "mod"):
            for (k, h, c) in find_blocks(toks, lo, hi, kw):
                if h == c:
                    continue
                hdr = norm(untok([t for t in toks[k:h] if t.kind != "comment"]))
                if want in hdr:
                    hits.append((h + 1, c))
                elif kw == "mod":
                    scan(h + 1, c)
    scan(0, len(toks))
    if not hits:
        raise ExtractError(f"lost anchor: no impl/trait block matching {in_hdr!r}")
    return hits


def locate_item(relpath, kw, name, in_hdr=None):
    """returns (src, toks, start, end) – token range [start,end] of the item"""
    src, toks = load(relpath)
    scopes = [(0, len(toks))] if not in_hdr else locate_scope(toks, in_hdr)
    found = []

    def scan(lo, hi, descend):
        for (k, h, c) in find_blocks(toks, lo, hi, kw):
            n = next_code(toks, k + 1)
            if toks[n].kind == "ident" and toks[n].text == name:
                found.append((k, c))
        if descend:
            for (k, h, c) in find_blocks(toks, lo, hi, "mod"):
                if h != c:
                    scan(h + 1, c, True)
    for (lo, hi) in scopes:
        scan(lo, hi, in_hdr is None)
    if not found:
        raise ExtractError(f"lost anchor: {kw} {name} not found in {relpath}" + (f" [{in_hdr}]" if in_hdr else ""))
    if len(found) > 1:
        raise ExtractError(f"ambiguous anchor: {kw} {name} occurs {len(found)}x in {relpath}")
    k, c = found[0]
    return src, toks, item_start(toks, k), c


# --------------------------------------------------------------------------- rewrite rules
# each rule: fn(toks, fired: dict) -> toks ; operates on the token list of ONE item.

TRANSLIT = {
    "τ": "tau", "κ": "kappa", "μ": "mu", "α": "alpha", "σ": "sigma", "η": "eta", "λ": "lambda",
    "δ": "delta", "Δ": "Delta", "ξ": "xi", "ψ": "psi", "ϕ": "phi", "φ": "phi", "ρ": "rho", "γ": "gamma",
    "ζ": "zeta", "ω": "omega", "θ": "theta", "ϵ": "eps", "ε": "eps", "β": "beta", "ν": "nu", "π": "pi",
    "χ": "chi", "Σ": "Sigma", "Λ": "Lambda", "∇": "grad", "ᵀ": "t", "₁": "1", "₂": "2", "ₖ": "k",
    "Γ": "Gamma", "Ω": "Omega", "Φ": "Phi", "Ψ": "Psi", "ℓ": "ell",
}


def translit(s):
    return "".join(TRANSLIT.get(ch, ch) for ch in s)


def rule_R2(toks, fired):
    ascii_idents = {t.text for t in toks if t.kind == "ident" and t.text.isascii()}
    seen = {}
    for t in toks:
        if t.kind == "ident" and not t.text.isascii():
            new = translit(t.text)
            if not new.isascii():
                raise ExtractError(f"R2: no transliteration for identifier {t.text!r}")
            while new in ascii_idents or seen.get(new, t.text) != t.text:
                new += "_g"   # deterministic clash avoidance (e.g. parameter σ next to field sigma)
            seen[new] = t.text
            t.text = new
            fired["R2"] = fired.get("R2", 0) + 1
    return toks


def split_top_commas(toks, lo, hi):
    """split token index range [lo,hi) on top-level commas; returns list of (a,b) ranges"""
    parts, a, i = [], lo, lo
    adepth = 0
    while i < hi:
        t = toks[i]
        if t.kind == "punct":
            if t.text in OPEN:
                i = match_close(toks, i)
            elif t.text == "<": adepth += 1
            elif t.text == ">": adepth -= 1
            elif t.text == ">>": adepth -= 2
            elif t.text == "," and adepth == 0:
                parts.append((a, i)); a = i + 1
        i += 1
    if next_code(toks, a) < hi:
        parts.append((a, hi))
    return parts


def fn_header_end(toks):
    """index of the body '{' (or ';') of a fn item token list"""
    i = 0
    while i < len(toks):
        t = toks[i]
        if t.kind == "punct":
            if t.text in ("(", "["):
                i = match_close(toks, i)
            elif t.text in ("{", ";"):
                return i
        i += 1
    raise ExtractError("fn without body")


def rule_R1(toks, fired, tparam="T", target="F"):
    """drop generic parameter T (+ its where-predicates) from the fn header, rename type ident T -> F"""
    he = fn_header_end(toks)
    # generics directly after the fn name
    k = next(i for i, t in enumerate(toks) if t.kind == "ident" and t.text == "fn")
    nm = next_code(toks, k + 1)
    g = next_code(toks, nm + 1)
    dele = set()
    if toks[g].kind == "punct" and toks[g].text == "<":
        ge = match_angle(toks, g)
        parts = split_top_commas(toks, g + 1, ge)
        keep = []
        for (a, b) in parts:
            f = next_code(toks, a)
            if toks[f].kind == "ident" and toks[f].text == tparam:
                fired["R1"] = fired.get("R1", 0) + 1
            else:
                keep.append((a, b))
        if len(keep) != len(parts):
            if not keep:
                dele.update(range(g, ge + 1))
            else:
                # delete dropped params together with one adjacent comma
                for (a, b) in parts:
                    if (a, b) not in keep:
                        dele.update(range(a, b))
                        # following comma if any, else preceding
                        nx = next_code(toks, b)
                        if toks[nx].text == ",": dele.update(range(b, nx + 1))
                        else:
                            pv = prev_code(toks, a - 1)
                            if toks[pv].text == ",": dele.add(pv)
    # where clause
    w = None
    i = 0
    while i < he:
        t = toks[i]
        if t.kind == "punct" and t.text in ("(", "["):
            i = match_close(toks, i)
        elif t.kind == "ident" and t.text == "where":
            w = i; break
        i += 1
    if w is not None:
        parts = split_top_commas(toks, w + 1, he)
        keep = []
        for (a, b) in parts:
            f = next_code(toks, a)
            f2 = next_code(toks, f + 1)
            if toks[f].kind == "ident" and toks[f].text == tparam and toks[f2].text == ":":
                fired["R1"] = fired.get("R1", 0) + 1
            else:
                keep.append((a, b))
        if not keep:
            dele.update(range(w, he))
        elif len(keep) != len(parts):
            for (a, b) in parts:
                if (a, b) not in keep:
                    dele.update(range(a, b))
                    nx = next_code(toks, b)
                    if nx < he and toks[nx].text == ",": dele.update(range(b, nx + 1))
    out = []
    for i, t in enumerate(toks):
        if i in dele:
            continue
        if t.kind == "ident" and t.text == tparam:
            pv = prev_code(toks, i - 1)
            if pv >= 0 and toks[pv].kind == "punct" and toks[pv].text == "::" and pv not in dele:
                out.append(t)      # a path segment such as MatrixShape::T (enum variant), not the type parameter
                continue
            t.text = target
            fired["R1"] = fired.get("R1", 0) + 1
        out.append(t)
    if dele and out and w is not None and not any(x.kind == "ws" for x in out[-1:]):
        pass
    return out


def rule_R1f(toks, fired):
    """F-opaque units: the primitive f64 is mapped to F as well (solve_time / time_limit)"""
    for t in toks:
        if t.kind == "ident" and t.text == "f64":
            t.text = "F"
            fired["R1f"] = fired.get("R1f", 0) + 1
    return toks


def _loop_body_open(toks, i):
    """toks[i] is for/while/loop; index of the '{' opening its body"""
    j = i + 1
    while j < len(toks):
        t = toks[j]
        if t.kind == "punct":
            if t.text in ("(", "["):
                j = match_close(toks, j)
            elif t.text == "{":
                return j
        j += 1
    raise ExtractError("loop without body")


def rule_R3(toks, fired):
    """for (I, X) in ITER.enumerate() {B}  ->  let mut I_ctr = 0usize; for X in ITER { let I = I_ctr; I_ctr += 1; B }
    (the loop must stand in statement position; otherwise rustc rejects the emitted file => exit 2)"""
    i = 0
    while i < len(toks):
        t = toks[i]
        if t.kind == "ident" and t.text == "for" and not t.syn:
            p = next_code(toks, i + 1)
            if toks[p].text == "(":
                pe = match_close(toks, p)
                inn = next_code(toks, pe + 1)
                bo = _loop_body_open(toks, i)
                # header must end with .enumerate()   [optionally followed by .take(E): ITER.enumerate().take(E) == ITER.take(E).enumerate()]
                e3 = prev_code(toks, bo - 1)
                take_tail = []
                if toks[e3].text == ")":
                    k = e3
                    depth = 0
                    while k >= 0:
                        if toks[k].kind == "punct" and toks[k].text in CLOSE: depth += 1
                        if toks[k].kind == "punct" and toks[k].text in OPEN:
                            depth -= 1
                            if depth == 0: break
                        k -= 1
                    m_ = prev_code(toks, k - 1)
                    d_ = prev_code(toks, m_ - 1)
                    if toks[m_].text == "take" and toks[d_].text == ".":
                        take_tail = toks[d_:e3 + 1]
                        e3 = prev_code(toks, d_ - 1)
                e2 = prev_code(toks, e3 - 1)
                e1 = prev_code(toks, e2 - 1)
                e0 = prev_code(toks, e1 - 1)
                if (toks[inn].text == "in" and toks[e3].text == ")" and toks[e2].text == "(" and
                        toks[e1].text == "enumerate" and toks[e0].text == "."):
                    parts = split_top_commas(toks, p + 1, pe)
                    if len(parts) != 2:
                        raise ExtractError("R3: enumerate pattern is not a pair")
                    (a0, b0), (a1, b1) = parts
                    ivar = [x for x in toks[a0:b0] if x.kind not in ("ws", "comment")]
                    if len(ivar) != 1 or ivar[0].kind != "ident":
                        raise ExtractError("R3: index pattern not an identifier")
                    I = ivar[0].text
                    X = toks[a1:b1]
                    while X and X[0].kind == "ws": X = X[1:]
                    bc = match_close(toks, bo)
                    ctr = I + "_ctr"
                    pre = synth("let mut %s = 0usize; " % ctr)
                    new = (pre + [toks[i]] + [S(" ", "ws")] + X + [S(" ", "ws")]
                           + toks[inn:e0] + take_tail + [S(" ", "ws")] + [toks[bo]]
                           + synth(" let %s = %s; %s += 1;" % (I, ctr, ctr))
                           + toks[bo + 1:bc + 1])
                    toks = toks[:i] + new + toks[bc + 1:]
                    fired["R3"] = fired.get("R3", 0) + 1
                    i += len(pre) + 1
                    continue
        i += 1
    return toks


def rule_R4(toks, fired):
    """free zip(A, B) -> (A).into_iter().zip(B)   (body of core::iter::zip)"""
    i = 0
    while i < len(toks):
        t = toks[i]
        if t.kind == "ident" and t.text == "zip" and not t.syn:
            pv = prev_code(toks, i - 1)
            nx = next_code(toks, i + 1)
            if toks[pv].text not in (".", "::") and toks[nx].text == "(":
                pe = match_close(toks, nx)
                parts = split_top_commas(toks, nx + 1, pe)
                if len(parts) != 2:
                    raise ExtractError("R4: zip() with != 2 args")
                (a0, b0), (a1, b1) = parts
                A = toks[a0:b0]
                B = toks[a1:b1]
                new = [S("(")] + A + synth(").into_iter().zip(") + B + [S(")")]
                toks = toks[:i] + new + toks[pe + 1:]
                fired["R4"] = fired.get("R4", 0) + 1
                i += 1
                continue
        i += 1
    return toks


def rule_R6(toks, fired):
    """assert_eq!(a, b) -> assert!(a == b); assert_ne! likewise (debug_ variants too)"""
    i = 0
    while i < len(toks):
        t = toks[i]
        if t.kind == "ident" and t.text in ("assert_eq", "assert_ne", "debug_assert_eq", "debug_assert_ne"):
            b = next_code(toks, i + 1)
            p = next_code(toks, b + 1)
            if toks[b].text == "!" and toks[p].text == "(":
                pe = match_close(toks, p)
                parts = split_top_commas(toks, p + 1, pe)
                if len(parts) != 2:
                    raise ExtractError("R6: assert_eq with message not supported")
                (a0, b0), (a1, b1) = parts
                op = "==" if t.text.endswith("eq") else "!="
                t.text = t.text[:-3]
                new = toks[i:p + 1] + [S("(")] + toks[a0:b0] + synth(") %s (" % op) + toks[a1:b1] + [S(")")] + [toks[pe]]
                toks = toks[:i] + new + toks[pe + 1:]
                fired["R6"] = fired.get("R6", 0) + 1
        i += 1
    return toks


def rule_R7(toks, fired):
    """timeit!{t => "x"; {B}} / notimeit!{t; {B}} -> {B}"""
    i = 0
    while i < len(toks):
        t = toks[i]
        if t.kind == "ident" and t.text in ("timeit", "notimeit"):
            b = next_code(toks, i + 1)
            o = next_code(toks, b + 1)
            if toks[b].text == "!" and toks[o].text == "{":
                oe = match_close(toks, o)
                # first ';' at depth 1
                j = o + 1
                while j < oe and toks[j].text != ";":
                    if toks[j].kind == "punct" and toks[j].text in OPEN:
                        j = match_close(toks, j)
                    j += 1
                inner = next_code(toks, j + 1)
                if toks[inner].text != "{":
                    raise ExtractError("R7: unexpected timeit! shape")
                ie = match_close(toks, inner)
                if next_code(toks, ie + 1) != oe:
                    raise ExtractError("R7: unexpected timeit! tail")
                toks = toks[:i] + toks[inner:ie + 1] + toks[oe + 1:]
                fired["R7"] = fired.get("R7", 0) + 1
                continue
        i += 1
    return toks


def rule_R7t(toks, fired):
    """timeit!{t => "x"; {B}} -> t.start_as_current("x"); {B} t.stop_current();     notimeit!{t; {B}} -> t.suspend(); {B} t.resume();
    These are the expansions of the two macro_rules in src/timers/timers.rs, written out (the macro bodies paste the token
    trees between the two calls).  Unlike R7 the timer calls are KEPT, so that a unit can put a contract on them."""
    i = 0
    while i < len(toks):
        t = toks[i]
        if t.kind == "ident" and t.text in ("timeit", "notimeit"):
            b = next_code(toks, i + 1)
            o = next_code(toks, b + 1)
            if toks[b].text == "!" and toks[o].text == "{":
                oe = match_close(toks, o)
                j = o + 1
                while j < oe and toks[j].text != ";":
                    if toks[j].kind == "punct" and toks[j].text in OPEN:
                        j = match_close(toks, j)
                    j += 1
                head = [x for x in toks[o + 1:j] if x.kind not in ("ws", "comment")]
                inner = next_code(toks, j + 1)
                if toks[inner].text != "{":
                    raise ExtractError("R7t: unexpected timeit! shape")
                ie = match_close(toks, inner)
                if next_code(toks, ie + 1) != oe:
                    raise ExtractError("R7t: unexpected timeit! tail")
                if t.text == "timeit":
                    if not (len(head) == 4 and head[0].kind == "ident" and head[1].text == "=" and head[2].text == ">" and head[3].kind == "str") \
                            and not (len(head) == 3 and head[0].kind == "ident" and head[1].text == "=>" and head[2].kind == "str"):
                        raise ExtractError("R7t: unexpected timeit! header " + untok(toks[o + 1:j]))
                    tm, key = head[0].text, head[-1].text
                    pre, post = f"{tm}.start_as_current({key}); ", f" {tm}.stop_current();"
                else:
                    if not (len(head) == 1 and head[0].kind == "ident"):
                        raise ExtractError("R7t: unexpected notimeit! header " + untok(toks[o + 1:j]))
                    tm = head[0].text
                    pre, post = f"{tm}.suspend(); ", f" {tm}.resume();"
                toks = toks[:i] + lex(pre) + toks[inner:ie + 1] + lex(post) + toks[oe + 1:]
                fired["R7t"] = fired.get("R7t", 0) + 1
                continue
        i += 1
    return toks


def rule_R10(toks, fired):
    """*X.get_unchecked(i) -> X[i];  *X.get_unchecked_mut(i) -> X[i]"""
    i = 0
    while i < len(toks):
        t = toks[i]
        if t.kind == "ident" and t.text in ("get_unchecked", "get_unchecked_mut"):
            dot = prev_code(toks, i - 1)
            p = next_code(toks, i + 1)
            if toks[dot].text != "." or toks[p].text != "(":
                raise ExtractError("R10: unexpected get_unchecked shape")
            pe = match_close(toks, p)
            # receiver: a simple path  ident(.ident)*  preceded by '*'
            r = prev_code(toks, dot - 1)
            rs = r
            while True:
                if toks[rs].kind != "ident":
                    raise ExtractError("R10: receiver is not a simple path")
                q = prev_code(toks, rs - 1)
                if toks[q].text == ".":
                    rs = prev_code(toks, q - 1)
                else:
                    break
            star = prev_code(toks, rs - 1)
            endc = pe
            if toks[star].text == "(" and toks[next_code(toks, pe + 1)].text == ")" and toks[prev_code(toks, star - 1)].text == "*":
                # *(X.get_unchecked_mut(i))  : drop the parentheses as well
                endc = next_code(toks, pe + 1)
                star = prev_code(toks, star - 1)
            if toks[star].text != "*":
                # the reference itself is bound:  X.get_unchecked_mut(i)  ->  &mut X[i]
                pre = synth("&mut ") if t.text == "get_unchecked_mut" else synth("&")
                new = pre + toks[rs:dot] + [S("[")] + toks[p + 1:pe] + [S("]")]
                toks = toks[:rs] + new + toks[pe + 1:]
                fired["R10"] = fired.get("R10", 0) + 1
                i = rs + len(new)
                continue
            new = toks[rs:dot] + [S("[")] + toks[p + 1:pe] + [S("]")]
            toks = toks[:star] + new + toks[endc + 1:]
            fired["R10"] = fired.get("R10", 0) + 1
            i = star
        i += 1
    return toks


def rule_R5(toks, fired):
    """ref patterns in for loops:  for (&a, b, &c) in IT {B}  ->  for (a_r, b, c_r) in IT { let a = *a_r; let c = *c_r; B }"""
    i = 0
    while i < len(toks):
        t = toks[i]
        if t.kind == "ident" and t.text == "for":
            # pattern = tokens up to the top-level `in`
            j = i + 1
            while j < len(toks) and not (toks[j].kind == "ident" and toks[j].text == "in"):
                if toks[j].kind == "punct" and toks[j].text in ("(", "["):
                    # descend: patterns live inside parens; we scan flat, so do not skip
                    pass
                if toks[j].kind == "punct" and toks[j].text == "{":
                    break
                j += 1
            if j < len(toks) and toks[j].text == "in":
                names = []
                k = i + 1
                new_pat = []
                while k < j:
                    x = toks[k]
                    if x.kind == "punct" and x.text == "&":
                        n = next_code(toks, k + 1)
                        if toks[n].kind == "ident" and toks[n].text not in ("mut",):
                            names.append(toks[n].text)
                            new_pat.append(Tok("ident", toks[n].text + "_r", -1, True))
                            k = n + 1
                            continue
                        raise ExtractError("R5: unsupported reference pattern")
                    new_pat.append(x)
                    k += 1
                if names:
                    bo = _loop_body_open(toks, i)
                    lets = synth(" " + " ".join(f"let {n} = *{n}_r;" for n in names))
                    toks = toks[:i + 1] + new_pat + toks[j:bo + 1] + lets + toks[bo + 1:]
                    fired["R5"] = fired.get("R5", 0) + len(names)
        i += 1
    return toks


def rule_R13(toks, fired):
    """EXPR.unwrap()  ->  EXPR.unwrap_or_panic()   (documented panic modelled as divergence: the call site gets no
    proof obligation; the prelude declares unwrap_or_panic with `ensures` only.  Used where the statement allows a
    loud failure, e.g. "reported as errors, never as a silently wrong solution")"""
    for i, t in enumerate(toks):
        if t.kind == "ident" and t.text == "unwrap":
            pv = prev_code(toks, i - 1)
            nx = next_code(toks, i + 1)
            if toks[pv].text == "." and toks[nx].text == "(" and toks[next_code(toks, nx + 1)].text == ")":
                t.text = "unwrap_or_panic"
                fired["R13"] = fired.get("R13", 0) + 1
    return toks


def _strip_parens(ts):
    ts = [t for t in ts]
    while True:
        c = [i for i, t in enumerate(ts) if t.kind not in ("ws", "comment")]
        if len(c) >= 2 and ts[c[0]].text == "(" and match_close(ts, c[0]) == c[-1]:
            ts = ts[c[0] + 1:c[-1]]
        else:
            return ts


def _r14_flatten(pat, expr):
    """pair up the leaves of a (nested) zip expression with the leaves of the tuple pattern"""
    pat = _strip_ws(pat)
    expr = _strip_ws(expr)
    ci = [i for i, t in enumerate(expr) if t.kind not in ("ws", "comment")]
    first = expr[ci[0]]

    def tuple_parts(p):
        p = _strip_ws(p)
        c = [i for i, t in enumerate(p) if t.kind not in ("ws", "comment")]
        if not (p[c[0]].text == "(" and match_close(p, c[0]) == c[-1]):
            raise ExtractError("R14: pattern is not a tuple where the iterator is a zip")
        return [p[a:b] for (a, b) in split_top_commas(p, c[0] + 1, c[-1])]

    # zip(E1, E2)
    if first.kind == "ident" and first.text == "zip" and len(ci) > 1 and expr[ci[1]].text == "(" and match_close(expr, ci[1]) == ci[-1]:
        args = [expr[a:b] for (a, b) in split_top_commas(expr, ci[1] + 1, ci[-1])]
        pp = tuple_parts(pat)
        if len(args) != 2 or len(pp) != 2:
            raise ExtractError("R14: zip arity")
        return _r14_flatten(pp[0], args[0]) + _r14_flatten(pp[1], args[1])
    # izip!(E1, .., Ek)
    if first.kind == "ident" and first.text == "izip" and expr[ci[1]].text == "!" and expr[ci[2]].text == "(" and match_close(expr, ci[2]) == ci[-1]:
        args = [expr[a:b] for (a, b) in split_top_commas(expr, ci[2] + 1, ci[-1])]
        pp = tuple_parts(pat)
        if len(args) != len(pp):
            raise ExtractError("R14: izip arity")
        out = []
        for p_, a_ in zip(pp, args):
            out += _r14_flatten(p_, a_)
        return out
    # E1.zip(E2)  (top-level trailing method call)
    if expr[ci[-1]].text == ")":
        k = ci[-1]
        depth = 0
        while k >= 0:
            if expr[k].kind == "punct" and expr[k].text in CLOSE: depth += 1
            if expr[k].kind == "punct" and expr[k].text in OPEN:
                depth -= 1
                if depth == 0: break
            k -= 1
        m_ = prev_code(expr, k - 1)
        d_ = prev_code(expr, m_ - 1)
        if m_ >= 0 and expr[m_].text == "zip" and d_ >= 0 and expr[d_].text == ".":
            pp = tuple_parts(pat)
            inner = [expr[a:b] for (a, b) in split_top_commas(expr, k + 1, ci[-1])]
            if len(pp) != 2 or len(inner) != 1:
                raise ExtractError("R14: .zip arity")
            return _r14_flatten(pp[0], expr[:d_]) + _r14_flatten(pp[1], inner[0])
    return [(pat, expr)]


def _strip_ws(ts):
    ts = list(ts)
    while ts and ts[0].kind in ("ws", "comment"): ts = ts[1:]
    while ts and ts[-1].kind in ("ws", "comment"): ts = ts[:-1]
    return ts


def _r14_leaf(expr):
    """normalise an iterator source to (base expression tokens, mutable?, take-limit tokens or None)"""
    e = _strip_ws(_strip_parens(_strip_ws(expr)))
    mutable = None
    limit = None
    changed = True
    while changed:
        changed = False
        c = [i for i, t in enumerate(e) if t.kind not in ("ws", "comment")]
        # trailing .iter() / .iter_mut() / .into_iter() / .take(N)
        if len(c) >= 4 and e[c[-1]].text == ")":
            k = c[-1]
            depth = 0
            while k >= 0:
                if e[k].kind == "punct" and e[k].text in CLOSE: depth += 1
                if e[k].kind == "punct" and e[k].text in OPEN:
                    depth -= 1
                    if depth == 0: break
                k -= 1
            m_ = prev_code(e, k - 1)
            d_ = prev_code(e, m_ - 1)
            if m_ >= 0 and d_ >= 0 and e[d_].text == "." and e[m_].text in ("iter", "iter_mut", "into_iter", "take"):
                if e[m_].text == "iter_mut": mutable = True
                if e[m_].text == "iter": mutable = False
                if e[m_].text == "take":
                    if limit is not None: raise ExtractError("R14: two take() adaptors")
                    limit = e[k + 1:c[-1]]
                e = _strip_ws(_strip_parens(_strip_ws(e[:d_])))
                changed = True
                continue
        # leading & / &mut / &mut *
        if c and e[c[0]].text == "&":
            n1 = next_code(e, c[0] + 1)
            if e[n1].kind == "ident" and e[n1].text == "mut":
                mutable = True
                n2 = next_code(e, n1 + 1)
                if e[n2].text == "*": n2 = next_code(e, n2 + 1)
                e = _strip_ws(_strip_parens(_strip_ws(e[n2:])))
            else:
                if mutable is None: mutable = False
                e = _strip_ws(_strip_parens(_strip_ws(e[n1:])))
            changed = True
    return e, mutable, limit


def _has_top_level_range(ts):
    d = 0
    for t in ts:
        if t.kind == "punct" and t.text in OPEN: d += 1
        elif t.kind == "punct" and t.text in CLOSE: d -= 1
        elif t.kind == "punct" and t.text in ("..", "..=") and d == 0:
            return True
    return False

def _r14_subslice(base):
    """base tokens of the form X[A..B] (both bounds given) -> (X, A, B) as text, else None"""
    c = [i for i, t in enumerate(base) if t.kind not in ("ws", "comment")]
    if not c or base[c[-1]].text != "]":
        return None
    k = c[-1]
    depth = 0
    while k >= 0:
        if base[k].kind == "punct" and base[k].text in CLOSE: depth += 1
        if base[k].kind == "punct" and base[k].text in OPEN:
            depth -= 1
            if depth == 0: break
        k -= 1
    if k <= 0 or base[k].text != "[":
        return None
    inner = base[k + 1:c[-1]]
    d = 0
    for q, t in enumerate(inner):
        if t.kind == "punct" and t.text in OPEN: d += 1
        elif t.kind == "punct" and t.text in CLOSE: d -= 1
        elif t.kind == "punct" and t.text == ".." and d == 0:
            lo, hi = untok(_strip_ws(inner[:q])), untok(_strip_ws(inner[q + 1:]))
            xb = untok(_strip_ws(base[:k]))
            if not lo:
                lo = "0"
            if not hi:
                hi = f"{xb}.len()"        # X[a..] : up to the end of X
            return xb, lo, hi
    return None


def rule_R14(toks, fired, which=None):
    """index-loop form of slice zips:  for (P1,..,Pk) in zip/izip!/.zip(S1,..,Sk) {B}   ->
         { let mut n = S1.len(); if S2.len() < n { n = S2.len(); } ..; for r14_i in 0..n { let P1 = &[mut] S1[r14_i]; ..; B } }
    (the definition of zipping slice iterators: pairs in order, stopping at the shortest).  `which` = {ordinal: "mi.."}
    gives the mutability of leaves that syntax does not show (m = yields &mut, i = yields &)."""
    which = which or {}
    i = 0
    ordinal = 0
    nrew = 0
    while i < len(toks):
        t = toks[i]
        if t.kind == "ident" and t.text in ("for", "while", "loop") and not (t.text == "for" and toks[next_code(toks, i + 1)].text == "<"):
            ordinal += 1
        if t.kind == "ident" and t.text == "for" and not t.syn and ("*" in which or ordinal in which):
            j = i + 1
            while not (toks[j].kind == "ident" and toks[j].text == "in"):
                if toks[j].kind == "punct" and toks[j].text in ("(", "["):
                    j = match_close(toks, j)
                j += 1
            bo = _loop_body_open(toks, i)
            pat = toks[i + 1:j]
            expr = toks[j + 1:bo]
            leaves = _r14_flatten(pat, expr)
            if len(leaves) == 1 and _has_top_level_range(leaves[0][1]) and ordinal not in which:
                i += 1     # a plain range loop: nothing to rewrite
                continue
            hints = which.get(ordinal, which.get("*", ""))
            nrew += 1
            iv, nv = f"r14_i{nrew}", f"r14_n{nrew}"
            pre, lets = [], []
            for li, (p_, e_) in enumerate(leaves):
                rl = _r14_range_leaf(e_) if len(leaves) > 1 else None
                if rl is not None:
                    # zip leaf `A..B` / `(A..B).rev()` over usize: B - A elements (none if B <= A), element i is A + i resp. B - 1 - i
                    # (the definition of Range<usize> as an iterator and of Rev on it); bound by value
                    lo_, hi_, rev_ = rl
                    lo_v, hi_v = f"r14_lo{nrew}_{li}", f"r14_hi{nrew}_{li}"
                    pre.append(f"let {lo_v}: usize = {lo_}; let {hi_v}: usize = {hi_};")
                    ln = f"(if {hi_v} >= {lo_v} {{ {hi_v} - {lo_v} }} else {{ 0 }})"
                    if not any(x.startswith(f"let mut {nv}:") for x in pre):
                        pre.append(f"let mut {nv}: usize = {ln};")
                    else:
                        pre.append(f"if {ln} < {nv} {{ {nv} = {ln}; }}")
                    pc = [x for x in _strip_ws(p_) if x.kind not in ("ws", "comment")]
                    if not (len(pc) == 1 and pc[0].kind == "ident"):
                        raise ExtractError("R14: unsupported pattern for a range leaf " + untok(p_))
                    lets.append(f"let {pc[0].text}: usize = " + (f"{hi_v} - 1 - {iv};" if rev_ else f"{lo_v} + {iv};"))
                    continue
                base, mutable, limit = _r14_leaf(e_)
                # hint `v` (added for unit chordal_augment): the leaf is an OWNED Vec of Copy elements iterated by value
                # (`zip(rows, nnzs)`): element i is X[i] itself, bound by value
                byval = mutable is None and li < len(hints) and hints[li] == "v"
                if byval:
                    mutable = False
                if mutable is None:
                    if li < len(hints) and hints[li] in "mi":
                        mutable = hints[li] == "m"
                    else:
                        raise ExtractError(f"R14: mutability of zip leaf {li} of loop {ordinal} is not visible; give it in the rule argument")
                bt = untok(base)
                sub = _r14_subslice(base)
                if sub is not None:
                    # leaf X[A..B]: the slice-index bounds check of the original (A <= B <= X.len(), else panic) is kept
                    # as an explicit assert!, the elements are X[A + i]
                    xb, lo_, hi_ = sub
                    lo_v, hi_v = f"r14_lo{nrew}_{li}", f"r14_hi{nrew}_{li}"
                    pre.append(f"let {lo_v}: usize = {lo_}; let {hi_v}: usize = {hi_}; assert!({lo_v} <= {hi_v} && {hi_v} <= {xb}.len());")
                    lens = [f"{hi_v} - {lo_v}"] + ([untok(limit)] if limit is not None else [])
                    bt = None
                else:
                    lens = [f"{bt}.len()"] + ([untok(limit)] if limit is not None else [])
                for ln in lens:
                    if not any(x.startswith(f"let mut {nv}:") for x in pre):
                        pre.append(f"let mut {nv}: usize = {ln};")
                    else:
                        pre.append(f"if {ln} < {nv} {{ {nv} = {ln}; }}")
                p_ = _strip_ws(p_)
                pc = [x for x in p_ if x.kind not in ("ws", "comment")]
                elem = f"{bt}[{iv}]" if bt is not None else f"{xb}[{lo_v} + {iv}]"
                if len(pc) == 2 and pc[0].text == "&" and pc[1].kind == "ident":
                    lets.append(f"let {pc[1].text} = {elem};")
                elif len(pc) == 1 and pc[0].kind == "ident" and byval:
                    lets.append(f"let {pc[0].text} = {elem};")
                elif len(pc) == 1 and pc[0].kind == "ident":
                    lets.append(f"let {pc[0].text} = &{'mut ' if mutable else ''}{elem};")
                else:
                    raise ExtractError("R14: unsupported leaf pattern " + untok(p_))
            bc = match_close(toks, bo)
            new = (synth("{ " + " ".join(pre) + f" for {iv} in 0..{nv} ") + [toks[bo]] + synth(" " + " ".join(lets))
                   + toks[bo + 1:bc + 1] + synth(" }"))
            toks = toks[:i] + new + toks[bc + 1:]
            fired["R14"] = fired.get("R14", 0) + 1
            i += len(synth("{ " + " ".join(pre) + f" for {iv} in 0..{nv} "))
            continue
        i += 1
    return toks


def rule_R15(toks, fired, bases, any_index=False):
    """X[A..B]  ->  X.as_mut_slice()[A..B]   for the listed Vec-typed bases X that are range-indexed mutably.
    (Vec's IndexMut<Range> has no usable Verus specification; the slice one has.  Same place: deref of the Vec.)
    Variant `R15r:X` (any_index): X[E] -> X.as_mut_slice()[E] where E is an expression of type Range<usize> that is not a
    range literal (`&mut map.Hsblocks[rng.clone()]`); stated per use, a wrong claim about E's type is a compile error."""
    for base in bases:
        pat = sig(lex(base))
        i = 0
        while i < len(toks):
            ci = []
            k = i
            while k < len(toks) and len(ci) < len(pat) + 1:
                if toks[k].kind not in ("ws", "comment"):
                    ci.append(k)
                k += 1
            if len(ci) == len(pat) + 1 and [toks[c].text for c in ci[:-1]] == pat and toks[ci[-1]].text == "[" \
                    and not toks[ci[0]].syn and toks[prev_code(toks, ci[0] - 1)].text not in (".", "::"):
                close = match_close(toks, ci[-1])
                inner = toks[ci[-1] + 1:close]
                depth = 0
                has_range = False
                for x in inner:
                    if x.kind == "punct" and x.text in OPEN: depth += 1
                    if x.kind == "punct" and x.text in CLOSE: depth -= 1
                    if x.kind == "punct" and x.text in ("..", "..=") and depth == 0: has_range = True
                if has_range or any_index:
                    ins = synth(".as_mut_slice()")
                    toks = toks[:ci[-1]] + ins + toks[ci[-1]:]
                    fired["R15"] = fired.get("R15", 0) + 1
                    i = ci[-1] + len(ins) + 1
                    continue
            i += 1
    return toks


def rule_R16(toks, fired, pairs):
    """A == B / A != B on Vec operands  ->  vec_eq(&(A), &(B)) / !vec_eq(..)   (Vec's PartialEq has no Verus spec;
    the prelude's vec_eq is ASSUMED to be element-wise equality, which is what std implements)"""
    for pr in pairs:
        A, B = pr.split("~")
        pa, pb = sig(lex(A)), sig(lex(B))
        ci = code_idx(toks)
        texts = [toks[i].text for i in ci]
        k = 0
        while k + len(pa) + 1 + len(pb) <= len(texts):
            if texts[k:k + len(pa)] == pa and texts[k + len(pa)] in ("==", "!=") and texts[k + len(pa) + 1:k + len(pa) + 1 + len(pb)] == pb:
                op = texts[k + len(pa)]
                a0, a1 = ci[k], ci[k + len(pa) - 1]
                b0, b1 = ci[k + len(pa) + 1], ci[k + len(pa) + len(pb)]
                new = (synth(("!" if op == "!=" else "") + "vec_eq(&(") + toks[a0:a1 + 1] + synth("), &(") + toks[b0:b1 + 1] + synth("))"))
                toks = toks[:a0] + new + toks[b1 + 1:]
                fired["R16"] = fired.get("R16", 0) + 1
                ci = code_idx(toks)
                texts = [toks[i].text for i in ci]
            k += 1
    return toks


def rule_R17(toks, fired):
    """EXPR.for_each(|PAT| BODY);  ->  for PAT in EXPR { BODY }     (definition of Iterator::for_each; closure
    patterns are outside the Verus subset, the for loop is then open to R14)"""
    i = 0
    while i < len(toks):
        t = toks[i]
        if t.kind == "ident" and t.text == "for_each" and toks[prev_code(toks, i - 1)].text == ".":
            dot = prev_code(toks, i - 1)
            p = next_code(toks, i + 1)
            if toks[p].text != "(":
                i += 1; continue
            pe = match_close(toks, p)
            a, b = stmt_bounds(toks, dot)
            if prev_code(toks, b) != pe and next_code(toks, pe + 1) != b:
                raise ExtractError("R17: for_each is not a whole statement")
            # closure:  | PAT | BODY
            c0 = next_code(toks, p + 1)
            if toks[c0].text != "|":
                raise ExtractError("R17: for_each argument is not a closure")
            c1 = c0 + 1
            while toks[c1].text != "|":
                if toks[c1].kind == "punct" and toks[c1].text in ("(", "["):
                    c1 = match_close(toks, c1)
                c1 += 1
            pat = toks[c0 + 1:c1]
            body = _strip_ws(toks[c1 + 1:pe])
            bc = [x for x in body if x.kind not in ("ws", "comment")]
            if not (bc and bc[0].text == "{" and match_close(body, body.index(bc[0])) == len(body) - 1 - [y for y in reversed(body)].index(bc[-1]) and bc[-1].text == "}"):
                body = [S("{")] + body + synth("; }")
            expr = toks[a:dot]
            new = [Tok("ident", "for", -1, False), S(" ", "ws")] + pat + synth(" in ") + expr + [S(" ", "ws")] + body
            end = b if toks[b].text == ";" else pe
            toks = toks[:a] + new + toks[end + 1:]
            fired["R17"] = fired.get("R17", 0) + 1
            i = a + 1
            continue
        i += 1
    return toks


def rule_R19(toks, fired):
    """let NAME = EXPR;  NAME.for_each(..)   ->   EXPR.for_each(..)      (inline an immutable, un-annotated, single-use
    binding of an iterator expression into the statement that immediately follows it; evaluation order is unchanged
    because nothing lies between the binding and its only use)"""
    i = 0
    while i < len(toks):
        t = toks[i]
        if t.kind == "ident" and t.text == "let" and not t.syn:
            n1 = next_code(toks, i + 1)
            n2 = next_code(toks, n1 + 1)
            if toks[n1].kind == "ident" and toks[n1].text != "mut" and toks[n2].text == "=":
                name = toks[n1].text
                a, b = stmt_bounds(toks, i)
                if a == i and toks[b].text == ";":
                    u = next_code(toks, b + 1)
                    d = next_code(toks, u + 1)
                    m = next_code(toks, d + 1)
                    uses = [k for k, x in enumerate(toks) if x.kind == "ident" and x.text == name and k != n1]
                    if (toks[u].kind == "ident" and toks[u].text == name and toks[d].text == "." and toks[m].text == "for_each"
                            and uses == [u]):
                        expr = _strip_ws(toks[n2 + 1:b])
                        toks = toks[:i] + expr + toks[u + 1:]
                        fired["R19"] = fired.get("R19", 0) + 1
                        continue
        i += 1
    return toks


def rule_R31(toks, fired):
    """let N1 = E1; .. let Nk = Ek;  match IDENT { P => { f(N1, .., Nk.m()) .. } .. }   ->   the Ei inlined (parenthesised) at their uses.
    A group of immutable, un-annotated `let` bindings that is followed immediately by a `match` on a plain identifier and whose
    names are used nowhere else is inlined when EVERY arm uses EVERY name exactly once, in binding order, as the first things the
    arm evaluates (only `{`, `(`, `,`, `::`, callee names and argument-less method calls may stand before / between the uses).
    Exactly one arm runs, so each Ei is still evaluated exactly once, in the same order, before anything else of the arm; the
    scrutinee is an identifier, so moving the Ei past its evaluation changes nothing (a panic inside Ei is the same panic).
    Opens `let cols = X[a..b].iter_mut(); let counts = 1..n; match s { A => zip(cols, counts).for_each(..), B => zip(cols, counts.rev())..}`
    to R17 / R14."""
    i = 0
    while i < len(toks):
        t = toks[i]
        if not (t.kind == "ident" and t.text == "let" and not t.syn):
            i += 1
            continue
        group = []      # (name, let_index, eq_index, semi_index)
        k = i
        while toks[k].kind == "ident" and toks[k].text == "let":
            n1 = next_code(toks, k + 1)
            n2 = next_code(toks, n1 + 1)
            if not (toks[n1].kind == "ident" and toks[n1].text != "mut" and toks[n2].text == "="):
                break
            a, b = stmt_bounds(toks, k)
            if a != k or toks[b].text != ";":
                break
            group.append((toks[n1].text, k, n2, b))
            k = next_code(toks, b + 1)
        if not group or not (toks[k].kind == "ident" and toks[k].text == "match"):
            i += 1
            continue
        sc = next_code(toks, k + 1)
        mo = next_code(toks, sc + 1)
        if not (toks[sc].kind == "ident" and toks[mo].text == "{"):
            i += 1
            continue
        mc = match_close(toks, mo)
        names = [g[0] for g in group]
        ok = True
        for (nm, li, eq, se) in group:
            uses = [q for q, x in enumerate(toks) if x.kind == "ident" and x.text == nm and q != next_code(toks, li + 1)]
            if not uses or any(not (mo < q < mc) for q in uses):
                ok = False
            for (nm2, li2, eq2, se2) in group:
                if any(x.kind == "ident" and x.text == nm for x in toks[eq2 + 1:se2]):
                    ok = False
        if not ok:
            i += 1
            continue
        # arms: top-level `=>` inside the match body
        arrows = []
        q = mo + 1
        while q < mc:
            x = toks[q]
            if x.kind == "punct" and x.text in OPEN:
                q = match_close(toks, q) + 1
                continue
            if x.kind == "punct" and x.text == "=>":
                arrows.append(q)
            q += 1
        bounds = arrows + [mc]
        plan = []       # (use_index, name)
        for ai in range(len(arrows)):
            lo, hi = bounds[ai] + 1, bounds[ai + 1]
            us = [(q, toks[q].text) for q in range(lo, hi) if toks[q].kind == "ident" and toks[q].text in names
                  and toks[prev_code(toks, q - 1)].text not in (".", "::")]
            if [u[1] for u in us] != names:
                ok = False
                break
            # what stands before the first use / between the uses must not evaluate anything
            prev = lo
            for (q, nm) in us:
                seg = [x for x in toks[prev:q] if x.kind not in ("ws", "comment")]
                j = 0
                while j < len(seg):
                    x = seg[j]
                    if x.text in ("{", "(", ",", "::", ".") or x.kind == "ident":
                        j += 1
                    elif x.text == ")" and j > 0 and seg[j - 1].text == "(":
                        j += 1
                    else:
                        ok = False
                        break
                prev = q + 1
            plan += us
        if not ok:
            i += 1
            continue
        exprs = {nm: _strip_ws(toks[eq + 1:se]) for (nm, li, eq, se) in group}
        for (q, nm) in sorted(plan, reverse=True):
            toks = toks[:q] + synth("(") + exprs[nm] + synth(")") + toks[q + 1:]
        first, last = group[0][1], group[-1][3]
        toks = toks[:first] + toks[next_code(toks, last + 1):]
        fired["R31"] = fired.get("R31", 0) + len(group)
        i = first + 1
    return toks


def _r14_range_leaf(expr):
    """a zip leaf that is an integer range: `A..B` -> (A, B, False), `(A..B).rev()` -> (A, B, True), else None"""
    e = _strip_ws(_strip_parens(_strip_ws(expr)))
    rev = False
    c = [i for i, t in enumerate(e) if t.kind not in ("ws", "comment")]
    if len(c) >= 5 and [e[x].text for x in c[-4:]] == [".", "rev", "(", ")"]:
        inner = _strip_ws(e[:c[-4]])
        ci = [i for i, t in enumerate(inner) if t.kind not in ("ws", "comment")]
        if ci and inner[ci[0]].text == "(" and match_close(inner, ci[0]) == ci[-1]:
            e = _strip_ws(_strip_parens(inner))
            rev = True
        else:
            return None
    d = 0
    for q, t in enumerate(e):
        if t.kind == "punct" and t.text in OPEN: d += 1
        elif t.kind == "punct" and t.text in CLOSE: d -= 1
        elif t.kind == "punct" and t.text == ".." and d == 0:
            lo, hi = untok(_strip_ws(e[:q])), untok(_strip_ws(e[q + 1:]))
            if lo and hi:
                return lo, hi, rev
            return None
        elif t.kind == "punct" and t.text == "." and d == 0:
            return None        # a method call on something: not a bare range
    return None


def rule_R20(toks, fired):
    """for x in A..=B  ->  for x in A..(B + 1)    (RangeInclusive has no Verus iterator spec; the two ranges yield the
    same values whenever B + 1 does not overflow, and Verus' overflow check on the synthesized `B + 1` makes that a proof
    obligation instead of an assumption)"""
    i = 0
    while i < len(toks):
        t = toks[i]
        if t.kind == "ident" and t.text == "for" and not t.syn and toks[next_code(toks, i + 1)].text != "<":
            j = i + 1
            while not (toks[j].kind == "ident" and toks[j].text == "in"):
                if toks[j].kind == "punct" and toks[j].text in ("(", "["):
                    j = match_close(toks, j)
                j += 1
            bo = _loop_body_open(toks, i)
            d = 0
            for q in range(j + 1, bo):
                x = toks[q]
                if x.kind == "punct" and x.text in OPEN: d += 1
                elif x.kind == "punct" and x.text in CLOSE: d -= 1
                elif x.kind == "punct" and x.text == "..=" and d == 0:
                    hi = _strip_ws(toks[q + 1:bo])
                    toks = toks[:q] + synth("..(") + hi + synth(" + 1) ") + toks[bo:]
                    fired["R20"] = fired.get("R20", 0) + 1
                    break
        i += 1
    return toks


def _postfix_start(toks, dot):
    """index of the first token of the postfix expression that ends just before toks[dot] (a `.`)"""
    j = prev_code(toks, dot - 1)
    while True:
        t = toks[j]
        if t.kind == "punct" and t.text in (")", "]"):
            depth = 0
            k = j
            while k >= 0:
                if toks[k].kind == "punct" and toks[k].text in CLOSE: depth += 1
                if toks[k].kind == "punct" and toks[k].text in OPEN:
                    depth -= 1
                    if depth == 0: break
                k -= 1
            j = k
            p = prev_code(toks, j - 1)
            if p >= 0 and (toks[p].kind == "ident" and toks[p].text not in ("if", "while", "in", "return", "match", "let", "else")
                           or (toks[p].kind == "punct" and toks[p].text in (")", "]"))):
                j = p
                continue
            return j
        if t.kind in ("ident", "num", "str", "char"):
            p = prev_code(toks, j - 1)
            if p >= 0 and toks[p].kind == "punct" and toks[p].text in (".", "::"):
                j = prev_code(toks, p - 1)
                continue
            return j
        raise ExtractError("R21/R22: cannot delimit the receiver expression")


def _closure_parts(toks, p, pe):
    """toks[p] == '(' of  .method(|PAT| BODY) ; returns (PAT tokens, BODY tokens)"""
    c0 = next_code(toks, p + 1)
    if toks[c0].text != "|":
        raise ExtractError("R21/R22: argument is not a closure")
    c1 = c0 + 1
    while toks[c1].text != "|":
        if toks[c1].kind == "punct" and toks[c1].text in ("(", "["):
            c1 = match_close(toks, c1)
        c1 += 1
    return _strip_ws(toks[c0 + 1:c1]), _strip_ws(toks[c1 + 1:pe])


def _for_tok():
    return Tok("ident", "for", -1, False)


def rule_R21(toks, fired):
    """definitions of the short-circuiting iterator predicates, as loops (no Verus spec for Iterator::any / all / windows):
         X.any(|PAT| BODY)              ->  { let mut r21_k = false; for PAT in X { if !r21_k && BODY { r21_k = true; } } r21_k }
         X.all(|PAT| BODY)              ->  { let mut r21_k = true;  for PAT in X { if r21_k && !(BODY) { r21_k = false; } } r21_k }
         S.windows(2).any(|c| BODY)     ->  { let r21_s = &S; let mut r21_k = false;
                                              for r21_i in 1..r21_s.len() { let c = &r21_s[(r21_i - 1)..(r21_i + 1)]; if !r21_k && BODY { r21_k = true; } } r21_k }
       BODY is evaluated for the same elements in the same order up to the first decisive one and for none after it."""
    n = 0
    i = 0
    while i < len(toks):
        t = toks[i]
        if t.kind == "ident" and t.text in ("any", "all") and not t.syn and toks[prev_code(toks, i - 1)].text == "." \
                and toks[next_code(toks, i + 1)].text == "(":
            dot = prev_code(toks, i - 1)
            p = next_code(toks, i + 1)
            pe = match_close(toks, p)
            c0 = next_code(toks, p + 1)
            if toks[c0].text != "|":
                i += 1
                continue
            pat, body = _closure_parts(toks, p, pe)
            a = _postfix_start(toks, dot)
            recv = toks[a:dot]
            n += 1
            k = f"r21_k{n}"
            is_any = t.text == "any"
            # windows(2) receiver?
            rc = [x for x in recv if x.kind not in ("ws", "comment")]
            win = len(rc) >= 5 and rc[-1].text == ")" and rc[-2].text == "2" and rc[-3].text == "(" and rc[-4].text == "windows" and rc[-5].text == "."
            test = (synth(f"if !{k} && ") + body + synth(f" {{ {k} = true; }}")) if is_any else \
                   (synth(f"if {k} && !(") + body + synth(f") {{ {k} = false; }}"))
            if win:
                widx = max(q for q, x in enumerate(recv) if x.kind == "ident" and x.text == "windows")
                wdot = prev_code(recv, widx - 1)
                base = recv[:wdot]
                sname, iname = f"r21_s{n}", f"r21_i{n}"
                new = (synth(f"{{ let {sname} = &") + base + synth(f"; let mut {k} = {'false' if is_any else 'true'}; ") + [_for_tok()]
                       + synth(f" {iname} in 1..{sname}.len() {{ let ") + pat + synth(f" = &{sname}[({iname} - 1)..({iname} + 1)]; ") + test + synth(f" }} {k} }}"))
            else:
                new = (synth(f"{{ let mut {k} = {'false' if is_any else 'true'}; ") + [_for_tok(), S(" ", "ws")] + pat + synth(" in ") + recv
                       + synth(" { ") + test + synth(f" }} {k} }}"))
            toks = toks[:a] + new + toks[pe + 1:]
            fired["R21"] = fired.get("R21", 0) + 1
            i = a + 1
            continue
        i += 1
    return toks


def rule_R22(toks, fired):
    """X.filter(|PAT| BODY).count()  ->  { let mut r22_n = 0usize; for r22_x in X { let PAT' = ..; if BODY { r22_n += 1; } } r22_n }
    (definition of filter + count; the closure of `filter` receives a reference to the item: a leading `&` of PAT is
    cancelled against it, otherwise PAT is bound to `&r22_x`)"""
    n = 0
    i = 0
    while i < len(toks):
        t = toks[i]
        if t.kind == "ident" and t.text == "filter" and not t.syn and toks[prev_code(toks, i - 1)].text == "." \
                and toks[next_code(toks, i + 1)].text == "(":
            dot = prev_code(toks, i - 1)
            p = next_code(toks, i + 1)
            pe = match_close(toks, p)
            d2 = next_code(toks, pe + 1)
            m2 = next_code(toks, d2 + 1)
            p2 = next_code(toks, m2 + 1)
            if not (toks[d2].text == "." and toks[m2].text == "count" and toks[p2].text == "(" and next_code(toks, p2 + 1) == match_close(toks, p2)):
                raise ExtractError("R22: filter(..) is not followed by .count()")
            pat, body = _closure_parts(toks, p, pe)
            a = _postfix_start(toks, dot)
            recv = toks[a:dot]
            n += 1
            cn, xn = f"r22_n{n}", f"r22_x{n}"
            pc = [x for x in pat if x.kind not in ("ws", "comment")]
            if pc and pc[0].text == "&":
                bind = synth("let ") + pat[pat.index(pc[0]) + 1:] + synth(f" = {xn}; ")
            else:
                bind = synth("let ") + pat + synth(f" = &{xn}; ")
            new = (synth(f"{{ let mut {cn} = 0usize; ") + [_for_tok()] + synth(f" {xn} in ") + recv + synth(" { ") + bind
                   + synth("if ") + body + synth(f" {{ {cn} += 1; }} }} {cn} }}"))
            toks = toks[:a] + new + toks[match_close(toks, p2) + 1:]
            fired["R22"] = fired.get("R22", 0) + 1
            i = a + 1
            continue
        i += 1
    return toks


def rule_R23(toks, fired):
    """slice searches at type usize, as calls of prelude helpers with ASSUMED (documented-std) contracts:
         X.binary_search(&V)                 ->  usize_binary_search(&X, &V)      (&X: the auto-ref of the method call)
         X.partition_point(|&v| v < E)       ->  usize_partition_point_lt(X, E)
         X.partition_point(|&v| E > v)       ->  usize_partition_point_lt(X, E)      (the same predicate)
       any other closure shape is outside the rule (ExtractError => undecided)"""
    i = 0
    while i < len(toks):
        t = toks[i]
        if t.kind == "ident" and t.text in ("binary_search", "partition_point") and not t.syn \
                and toks[prev_code(toks, i - 1)].text == "." and toks[next_code(toks, i + 1)].text == "(":
            dot = prev_code(toks, i - 1)
            p = next_code(toks, i + 1)
            pe = match_close(toks, p)
            a = _postfix_start(toks, dot)
            recv = toks[a:dot]
            if t.text == "binary_search":
                new = synth("usize_binary_search(&") + recv + synth(", ") + _strip_ws(toks[p + 1:pe]) + synth(")")
            else:
                pat, body = _closure_parts(toks, p, pe)
                pc = [x for x in pat if x.kind not in ("ws", "comment")]
                if not (len(pc) == 2 and pc[0].text == "&" and pc[1].kind == "ident"):
                    raise ExtractError("R23: partition_point closure parameter is not |&v|")
                v = pc[1].text
                bc = [k for k, x in enumerate(body) if x.kind not in ("ws", "comment")]
                if len(bc) >= 3 and body[bc[0]].text == v and body[bc[1]].text == "<" and not any(body[k].text == v for k in bc[2:]):
                    bound = body[bc[2]:]
                elif len(bc) >= 3 and body[bc[-1]].text == v and body[bc[-2]].text == ">" and not any(body[k].text == v for k in bc[:-2]):
                    bound = body[:bc[-2]]
                else:
                    raise ExtractError("R23: partition_point predicate is not `v < E` / `E > v`")
                new = synth("usize_partition_point_lt(&") + recv + synth(", ") + _strip_ws(bound) + synth(")")
            toks = toks[:a] + new + toks[pe + 1:]
            fired["R23"] = fired.get("R23", 0) + 1
            i = a + 1
            continue
        i += 1
    return toks


def rule_R24(toks, fired):
    """ITER.fold(INIT, |ACC, PAT| BODY)  ->  { let mut ACC = INIT; for PAT in ITER { ACC = BODY; } ACC }
    (definition of Iterator::fold: the accumulator starts at INIT and is replaced by the closure's value, element by element)
    A closure with an explicit return type and block body, `|ACC, PAT| -> TYPE { EXPR }`, is taken with BODY = `{ EXPR }` (the type
    annotation is dropped: it only guides inference); any other use of `->` is an ExtractError."""
    i = 0
    while i < len(toks):
        t = toks[i]
        if t.kind == "ident" and t.text == "fold" and not t.syn and toks[prev_code(toks, i - 1)].text == "." \
                and toks[next_code(toks, i + 1)].text == "(":
            dot = prev_code(toks, i - 1)
            p = next_code(toks, i + 1)
            pe = match_close(toks, p)
            parts = split_top_commas(toks, p + 1, pe)
            if len(parts) < 2:
                raise ExtractError("R24: fold does not have two arguments")
            init = _strip_ws(toks[parts[0][0]:parts[0][1]])
            clo = toks[parts[1][0]:pe]      # the closure's own parameter list contains a top-level comma
            c0 = next_code(clo, 0)
            if clo[c0].text != "|":
                raise ExtractError("R24: second argument of fold is not a closure")
            c1 = c0 + 1
            while clo[c1].text != "|":
                if clo[c1].kind == "punct" and clo[c1].text in ("(", "["):
                    c1 = match_close(clo, c1)
                c1 += 1
            params = split_top_commas(clo, c0 + 1, c1)
            if len(params) != 2:
                raise ExtractError("R24: fold closure does not have two parameters")
            acc = _strip_ws(clo[params[0][0]:params[0][1]])
            pat = _strip_ws(clo[params[1][0]:params[1][1]])
            if not (len([x for x in acc if x.kind not in ("ws", "comment")]) == 1 and acc[0].kind == "ident"):
                raise ExtractError("R24: accumulator parameter is not a plain identifier")
            body = _strip_ws(clo[c1 + 1:])
            # (additive, unit nonsym_cones) a closure with an explicit return type must have a block body:
            #   |ACC, PAT| -> TYPE { EXPR }   is   |ACC, PAT| { EXPR }   with the value's type written down; the annotation only guides type
            # inference (here the accumulator's type, which `let mut ACC = INIT` already fixes), so it is dropped and the block kept as BODY
            bcode = [k for k, x in enumerate(body) if x.kind not in ("ws", "comment")]
            if bcode and body[bcode[0]].kind == "punct" and body[bcode[0]].text == "->":
                k = bcode[0] + 1
                while k < len(body) and not (body[k].kind == "punct" and body[k].text == "{"):
                    if body[k].kind == "punct" and body[k].text in ("(", "["):
                        k = match_close(body, k)
                    k += 1
                if k >= len(body) or match_close(body, k) != bcode[-1]:
                    raise ExtractError("R24: closure with a return type is not of the form `-> TYPE { EXPR }`")
                body = body[k:]
                fired["R24_ret"] = fired.get("R24_ret", 0) + 1
            a = _postfix_start(toks, dot)
            recv = toks[a:dot]
            an = acc[0].text
            new = (synth(f"{{ let mut {an} = ") + init + synth("; ") + [_for_tok(), S(" ", "ws")] + pat + synth(" in ") + recv
                   + synth(f" {{ {an} = ") + body + synth(f"; }} {an} }}"))
            toks = toks[:a] + new + toks[pe + 1:]
            fired["R24"] = fired.get("R24", 0) + 1
            i = a + 1
            continue
        i += 1
    return toks


def rule_R25(toks, fired):
    """fn f(.., p: impl BOUND, ..)  ->  fn f<OP: BOUND>(.., p: OP, ..)    (the desugaring of argument-position impl Trait;
    Verus' encoding of closure specifications needs the named parameter)"""
    he = fn_header_end(toks)
    i = 0
    while i < he and not (toks[i].kind == "ident" and toks[i].text == "fn"):
        i += 1
    name = next_code(toks, i + 1)
    nx = next_code(toks, name + 1)
    gen_close = None
    if toks[nx].text == "<":
        gen_close = match_angle(toks, nx)
        po = next_code(toks, gen_close + 1)
    else:
        po = nx
    pc = match_close(toks, po)
    new_params = []
    j = po + 1
    n = 0
    while j < pc:
        t = toks[j]
        if t.kind == "ident" and t.text == "impl" and toks[prev_code(toks, j - 1)].text == ":":
            # bound extends to the top-level ',' or the closing paren
            e = j + 1
            adepth = 0
            while e < pc:
                x = toks[e]
                if x.kind == "punct" and x.text in OPEN:
                    e = match_close(toks, e) + 1
                    continue
                if x.kind == "punct" and x.text == "," and adepth == 0:
                    break
                e += 1
            n += 1
            gname = "OP" if n == 1 else f"OP{n}"
            bound = _strip_ws(toks[j + 1:e])
            new_params.append((gname, bound))
            toks = toks[:j] + synth(gname) + toks[e:]
            pc = match_close(toks, po)
            fired["R25"] = fired.get("R25", 0) + 1
        j += 1
    if new_params:
        gl = []
        for k, (g, b) in enumerate(new_params):
            gl += synth(("" if k == 0 else ", ") + g + ": ") + b
        if gen_close is not None:
            toks = toks[:gen_close] + synth(", ") + gl + toks[gen_close:]
        else:
            toks = toks[:name + 1] + synth("<") + gl + synth(">") + toks[name + 1:]
    return toks


def rule_R26(toks, fired):
    """assert!(C [, "message"]);  ->  if !(C) { diverge(); }      (the documented panic seen from the caller's side: the call
    does not return.  `diverge` is a prelude fn with `ensures false`.  Used for the second, "completeness" extraction of a
    checking function: whatever its postcondition says is then known to follow from the checks alone.)"""
    i = 0
    while i < len(toks):
        t = toks[i]
        if t.kind == "ident" and t.text == "assert" and not t.syn and toks[next_code(toks, i + 1)].text == "!":
            b = next_code(toks, i + 1)
            p = next_code(toks, b + 1)
            if toks[p].text == "(":
                pe = match_close(toks, p)
                parts = split_top_commas(toks, p + 1, pe)
                cond = _strip_ws(toks[parts[0][0]:parts[0][1]])
                end = next_code(toks, pe + 1)
                if toks[end].text != ";":
                    raise ExtractError("R26: assert! is not a statement")
                new = synth("if !(") + cond + synth(") { diverge(); }")
                toks = toks[:i] + new + toks[end + 1:]
                fired["R26"] = fired.get("R26", 0) + 1
                i += len(new)
                continue
        i += 1
    return toks


def rule_R27(toks, fired):
    """assert!(C, "message", ..);  ->  assert!(C);     (the message only matters to the panic text)"""
    i = 0
    while i < len(toks):
        t = toks[i]
        if t.kind == "ident" and t.text == "assert" and not t.syn and toks[next_code(toks, i + 1)].text == "!":
            p = next_code(toks, next_code(toks, i + 1) + 1)
            if toks[p].text == "(":
                pe = match_close(toks, p)
                parts = split_top_commas(toks, p + 1, pe)
                if len(parts) > 1:
                    toks = toks[:parts[0][1]] + toks[pe:]
                    fired["R27"] = fired.get("R27", 0) + 1
        i += 1
    return toks


def rule_R28(toks, fired):
    """X[a..=b]  ->  X[a..(b + 1)]     (index by an inclusive range: no Verus spec; same elements whenever b + 1 does not
    overflow, which the overflow check on the synthesized `b + 1` turns into an obligation)"""
    i = 0
    while i < len(toks):
        t = toks[i]
        if t.kind == "punct" and t.text == "[" and not t.syn:
            c = match_close(toks, i)
            d = 0
            for q in range(i + 1, c):
                x = toks[q]
                if x.kind == "punct" and x.text in OPEN: d += 1
                elif x.kind == "punct" and x.text in CLOSE: d -= 1
                elif x.kind == "punct" and x.text == "..=" and d == 0:
                    hi = _strip_ws(toks[q + 1:c])
                    toks = toks[:q] + synth("..(") + hi + synth(" + 1)") + toks[c:]
                    fired["R28"] = fired.get("R28", 0) + 1
                    break
        i += 1
    return toks


def rule_R29(toks, fired):
    """X.map(|PAT| E).max()  ->  { let mut r29_m: Option<usize> = None; for PAT in X { let r29_v: usize = E;
                                   r29_m = match r29_m { None => Some(r29_v), Some(r29_w) => if r29_v >= r29_w { Some(r29_v) } else { Some(r29_w) } }; } r29_m }
    (definition of Iterator::map + max at type usize: the maximum of the mapped values, None for an empty iterator;
    which of several equal maxima is returned cannot be observed on integers)"""
    n = 0
    i = 0
    while i < len(toks):
        t = toks[i]
        if t.kind == "ident" and t.text == "map" and not t.syn and toks[prev_code(toks, i - 1)].text == "." \
                and toks[next_code(toks, i + 1)].text == "(":
            dot = prev_code(toks, i - 1)
            p = next_code(toks, i + 1)
            pe = match_close(toks, p)
            d2 = next_code(toks, pe + 1)
            m2 = next_code(toks, d2 + 1)
            p2 = next_code(toks, m2 + 1)
            if not (toks[d2].text == "." and toks[m2].text == "max" and toks[p2].text == "(" and next_code(toks, p2 + 1) == match_close(toks, p2)):
                i += 1
                continue
            pat, body = _closure_parts(toks, p, pe)
            a = _postfix_start(toks, dot)
            recv = toks[a:dot]
            n += 1
            mv, vv, wv = f"r29_m{n}", f"r29_v{n}", f"r29_w{n}"
            new = (synth(f"{{ let mut {mv}: Option<usize> = None; ") + [_for_tok(), S(" ", "ws")] + pat + synth(" in ") + recv
                   + synth(f" {{ let {vv}: usize = ") + body
                   + synth(f"; {mv} = match {mv} {{ None => Some({vv}), Some({wv}) => if {vv} >= {wv} {{ Some({vv}) }} else {{ Some({wv}) }} }}; }} {mv} }}"))
            toks = toks[:a] + new + toks[match_close(toks, p2) + 1:]
            fired["R29"] = fired.get("R29", 0) + 1
            i = a + 1
            continue
        i += 1
    return toks


def rule_R30(toks, fired):
    """X.map(|PAT| E).sum()  ->  { let mut r30_s: usize = 0; for PAT in X { r30_s += E; } r30_s }
    (definition of map + sum at type usize; the `+=` makes the no-overflow condition of the sum a proof obligation)"""
    n = 0
    i = 0
    while i < len(toks):
        t = toks[i]
        if t.kind == "ident" and t.text == "map" and not t.syn and toks[prev_code(toks, i - 1)].text == "." \
                and toks[next_code(toks, i + 1)].text == "(":
            dot = prev_code(toks, i - 1)
            p = next_code(toks, i + 1)
            pe = match_close(toks, p)
            d2 = next_code(toks, pe + 1)
            m2 = next_code(toks, d2 + 1)
            p2 = next_code(toks, m2 + 1)
            if not (toks[d2].text == "." and toks[m2].text == "sum" and toks[p2].text == "(" and next_code(toks, p2 + 1) == match_close(toks, p2)):
                i += 1
                continue
            pat, body = _closure_parts(toks, p, pe)
            a = _postfix_start(toks, dot)
            recv = toks[a:dot]
            n += 1
            sv = f"r30_s{n}"
            new = (synth(f"{{ let mut {sv}: usize = 0; ") + [_for_tok(), S(" ", "ws")] + pat + synth(" in ") + recv
                   + synth(f" {{ {sv} += ") + body + synth(f"; }} {sv} }}"))
            toks = toks[:a] + new + toks[match_close(toks, p2) + 1:]
            fired["R30"] = fired.get("R30", 0) + 1
            i = a + 1
            continue
        i += 1
    return toks


def rule_R32(toks, fired):
    """`<TYPE as TRAIT<..>>::name(`  ->  `name(` : a trait-static function (no receiver) called by its fully qualified path
    is called as the free function of the same name; the unit extracts that function's real body from the trait impl
    (or declares it with an assumed contract, listed in the unit header)"""
    i = 0
    while i < len(toks):
        t = toks[i]
        if t.kind == "punct" and t.text == "<":
            pv = prev_code(toks, i - 1)
            # expression position only: not generics after a path / identifier
            if pv >= 0 and (toks[pv].kind == "ident" and toks[pv].text not in ("return", "in", "else") or toks[pv].text in ("::", ")", "]", ">")):
                i += 1
                continue
            try:
                e = match_angle(toks, i)
            except ValueError:
                i += 1
                continue
            inner = [x for x in toks[i + 1:e] if x.kind not in ("ws", "comment")]
            c1 = next_code(toks, e + 1)
            c2 = next_code(toks, c1 + 1) if c1 < len(toks) else len(toks)
            c3 = next_code(toks, c2 + 1) if c2 < len(toks) else len(toks)
            if (any(x.kind == "ident" and x.text == "as" for x in inner) and c3 < len(toks) and toks[c1].text == "::"
                    and toks[c2].kind == "ident" and toks[c3].text == "("):
                toks = toks[:i] + toks[c2:]
                fired["R32"] = fired.get("R32", 0) + 1
                continue
        i += 1
    return toks


def rule_R35(toks, fired):
    """IT.filter(|(F1, .., Fk)| C).map(|(M1, .., Mk)| E).collect()   ->
         { let mut r35_out = Vec::new(); for (r35_a1, .., r35_ak) in IT { <filter binders> if C { <map binders> r35_out.push(E); } } r35_out }
    (definition of filter + map + collect into a Vec: the items on which the predicate holds, mapped, in iteration order).
    IT yields tuples of slice-element references (a zip of slices; the `for` is then open to R14).  The closure of `filter`
    receives `&item`: its leaf `&n` binds n = *r35_aj, its leaf `n` binds n = &r35_aj; the closure of `map` receives the item:
    leaf `&n` binds n = *r35_aj, leaf `n` binds n = r35_aj.  A `_`-prefixed leaf that its closure body never mentions is not bound."""
    n = 0
    i = 0
    while i < len(toks):
        t = toks[i]
        if t.kind == "ident" and t.text == "filter" and not t.syn and toks[prev_code(toks, i - 1)].text == "." \
                and toks[next_code(toks, i + 1)].text == "(":
            dot = prev_code(toks, i - 1)
            p = next_code(toks, i + 1)
            pe = match_close(toks, p)
            d2 = next_code(toks, pe + 1)
            m2 = next_code(toks, d2 + 1)
            p2 = next_code(toks, m2 + 1)
            if not (toks[d2].text == "." and toks[m2].text == "map" and toks[p2].text == "("):
                raise ExtractError("R35: filter(..) is not followed by .map(..)")
            pe2 = match_close(toks, p2)
            d3 = next_code(toks, pe2 + 1)
            m3 = next_code(toks, d3 + 1)
            p3 = next_code(toks, m3 + 1)
            if not (toks[d3].text == "." and toks[m3].text == "collect" and toks[p3].text == "(" and next_code(toks, p3 + 1) == match_close(toks, p3)):
                raise ExtractError("R35: filter(..).map(..) is not followed by .collect()")
            fpat, fbody = _closure_parts(toks, p, pe)
            mpat, mbody = _closure_parts(toks, p2, pe2)

            def leaves(pat):
                c = [q for q, x in enumerate(pat) if x.kind not in ("ws", "comment")]
                if not (c and pat[c[0]].text == "(" and match_close(pat, c[0]) == c[-1]):
                    raise ExtractError("R35: closure pattern is not a tuple")
                out = []
                for (a_, b_) in split_top_commas(pat, c[0] + 1, c[-1]):
                    lc = [x for x in pat[a_:b_] if x.kind not in ("ws", "comment")]
                    if len(lc) == 2 and lc[0].text == "&" and lc[1].kind == "ident":
                        out.append((True, lc[1].text))
                    elif len(lc) == 1 and lc[0].kind == "ident":
                        out.append((False, lc[0].text))
                    else:
                        raise ExtractError("R35: unsupported pattern leaf " + untok(pat[a_:b_]))
                return out
            fl, ml = leaves(fpat), leaves(mpat)
            if len(fl) != len(ml):
                raise ExtractError("R35: filter and map patterns have different arity")
            n += 1
            names = [f"r35_a{n}_{k + 1}" for k in range(len(fl))]

            def used(name, body):
                return any(x.kind == "ident" and x.text == name for x in body)
            fb = "".join(f"let {nm} = {'*' if amp else '&'}{names[k]}; " for k, (amp, nm) in enumerate(fl)
                         if not (nm.startswith("_") and not used(nm, fbody)))
            mb = "".join(f"let {nm} = {'*' if amp else ''}{names[k]}; " for k, (amp, nm) in enumerate(ml)
                         if not (nm.startswith("_") and not used(nm, mbody)))
            a = _postfix_start(toks, dot)
            recv = toks[a:dot]
            on = f"r35_out{n}"
            new = (synth(f"{{ let mut {on} = Vec::new(); ") + [_for_tok()] + synth(" (" + ", ".join(names) + ") in ") + _strip_ws(recv)
                   + synth(" { " + fb + "if ") + fbody + synth(" { " + mb + f"{on}.push(") + mbody + synth(f"); }} }} {on} }}"))
            toks = toks[:a] + new + toks[match_close(toks, p3) + 1:]
            fired["R35"] = fired.get("R35", 0) + 1
            i = a + 1
            continue
        i += 1
    return toks


def rule_R18(toks, fired):
    """bare max(a, b) / min(a, b) (core::cmp, imported by `use`) -> usize_max(a, b) / usize_min(a, b): the generic
    Ord-based functions have no Verus spec; the prelude helpers are ASSUMED to be the usize instances"""
    for i, t in enumerate(toks):
        if t.kind == "ident" and t.text in ("max", "min"):
            pv = prev_code(toks, i - 1)
            nx = next_code(toks, i + 1)
            if toks[pv].text not in (".", "::") and toks[nx].text == "(":
                t.text = "usize_" + t.text
                fired["R18"] = fired.get("R18", 0) + 1
    return toks


def _contains_continue(toks, lo, hi):
    """is there a `continue` in lo..hi that belongs to this loop (not to a nested loop / closure)?"""
    i = lo
    while i < hi:
        t = toks[i]
        if t.kind == "ident" and t.text in ("for", "while", "loop"):
            bo = _loop_body_open(toks, i)
            i = match_close(toks, bo) + 1
            continue
        if t.kind == "ident" and t.text == "continue":
            return True
        i += 1
    return False


def rule_R11(toks, fired):
    """for X in A..B {BODY} containing `continue` -> explicit Range::next loop"""
    i = 0
    n = 0
    while i < len(toks):
        t = toks[i]
        if t.kind == "ident" and t.text == "for" and not t.syn:
            bo = _loop_body_open(toks, i)
            bc = match_close(toks, bo)
            if _contains_continue(toks, bo + 1, bc):
                # parse: for X in A..B
                x = next_code(toks, i + 1)
                inn = next_code(toks, x + 1)
                if toks[x].kind != "ident" or toks[inn].text != "in":
                    raise ExtractError("R11: pattern is not an identifier")
                hdr = toks[inn + 1:bo]
                dd = [k for k, h in enumerate(hdr) if h.kind == "punct" and h.text == ".."]
                if len(dd) != 1:
                    raise ExtractError("R11: iterator is not a simple range A..B")
                A = hdr[:dd[0]]
                B = hdr[dd[0] + 1:]
                n += 1
                it, en = f"r11_it{n}", f"r11_end{n}"
                X = toks[x].text
                new = (synth(f"let mut {it} = ") + A + synth(f"; let {en} = ") + B + synth(f"; while {it} < {en} ")
                       + [toks[bo]] + synth(f" let {X} = {it}; {it} += 1;") + toks[bo + 1:bc + 1])
                toks = toks[:i] + [S("{")] + new + [S("}")] + toks[bc + 1:]
                fired["R11"] = fired.get("R11", 0) + 1
                i += 1
                continue
        i += 1
    return toks


def rule_R11z(toks, fired):
    """R11 for the index loops that R14 (zipidx) synthesises:  for r14_i in 0..r14_n {.. continue ..}  -> explicit
    while loop (same rewrite as R11, which by design skips synthesised `for` tokens; runs after R14)"""
    syn_for = [t for t in toks if t.kind == "ident" and t.text == "for" and t.syn]
    for t in syn_for:
        t.syn = False
    try:
        toks = rule_R11(toks, fired)
    finally:
        for t in syn_for:
            t.syn = True
    if "R11" in fired:
        fired["R11z"] = fired.pop("R11")
    return toks


def rule_boolor(toks, fired):
    """X |= E;  (bool)  ->  { let r_bo = E; X = X || r_bo; }   Verus has no non-short-circuit `|` on bool.  E is still
    evaluated exactly once and unconditionally (bound first), X is a place expression without side effects (checked: a
    plain path); on a non-bool X the result does not type-check, so the rule cannot silently change integer code"""
    n = 0
    i = 0
    while i < len(toks):
        t = toks[i]
        if t.kind == "punct" and t.text == "|=" and not t.syn:
            a, b = stmt_bounds(toks, i)
            if toks[b].text != ";":
                raise ExtractError("boolor: `|=` is not a statement of its own")
            lhs = _strip_ws(toks[a:i])
            if any(x.kind not in ("ident", "ws") and x.text not in (".", "::") for x in lhs):
                raise ExtractError("boolor: left-hand side is not a plain path")
            rhs = _strip_ws(toks[i + 1:b])
            n += 1
            v = f"r_bo{n}"
            lhs2 = [Tok(x.kind, x.text, -1, True) for x in lhs]
            new = synth(f"{{ let {v} = ") + rhs + synth("; ") + lhs + synth(" = ") + lhs2 + synth(f" || {v}; }}")
            toks = toks[:a] + new + toks[b + 1:]
            fired["boolor"] = fired.get("boolor", 0) + 1
            i = a + len(new)
            continue
        i += 1
    return toks


def rule_retbrk(toks, fired):
    """for P in IT { .. return E; .. }   ->   let mut rb_retK = None; for P in IT { .. { rb_retK = Some(E); break; } .. }
                                              if let Some(rb_v) = rb_retK { return rb_v; }
    An early `return` out of an (unlabelled) `for` loop is a `break` that carries the value out, followed by the return: E is
    evaluated at the same point, nothing runs between the `break` and the `return` that follows the loop.  `return`s inside a
    nested loop are left alone (they still return); a loop body with a closure (`|`) is refused.  Why: Verus checks a loop
    body in isolation and cannot relate `&mut` borrows taken before the loop to their lenders at a `return` inside the body
    (the borrow checker rejects an invariant that names the lender); after the loop that relation is available again, and what
    holds at the `break` is stated as an ordinary loop invariant guarded by `rb_retK is Some`."""
    n = 0
    i = 0
    while i < len(toks):
        t = toks[i]
        if t.kind == "ident" and t.text == "for" and not t.syn and toks[next_code(toks, i + 1)].text != "<":
            bo = _loop_body_open(toks, i)
            bc = match_close(toks, bo)
            rets = []
            j = bo + 1
            while j < bc:
                x = toks[j]
                if x.kind == "ident" and x.text in ("for", "while", "loop"):
                    j = match_close(toks, _loop_body_open(toks, j)) + 1
                    continue
                if x.kind == "ident" and x.text == "return":
                    rets.append(j)
                j += 1
            if rets:
                p = prev_code(toks, i - 1)
                if p >= 0 and toks[p].text not in (";", "{", "}"):
                    raise ExtractError("retbrk: the loop is labelled or not in statement position")
                if any(x.kind == "punct" and x.text in ("|", "||") for x in toks[bo + 1:bc]):
                    raise ExtractError("retbrk: `|` (closure?) inside the loop body")
                n += 1
                v = f"rb_ret{n}"
                out = toks[:i] + synth(f"let mut {v} = None;\n        ") + toks[i:rets[0]]
                for q, rj in enumerate(rets):
                    e = rj + 1
                    while e < bc and not (toks[e].kind == "punct" and toks[e].text == ";"):
                        if toks[e].kind == "punct" and toks[e].text in OPEN:
                            e = match_close(toks, e)
                        elif toks[e].kind == "punct" and toks[e].text in CLOSE:
                            raise ExtractError("retbrk: `return` without a terminating `;`")
                        e += 1
                    E = _strip_ws(toks[rj + 1:e])
                    if not E:
                        E = synth("()")
                    out += synth(f"{{ {v} = Some(") + E + synth("); break; }")
                    nxt = rets[q + 1] if q + 1 < len(rets) else bc + 1
                    out += toks[e + 1:nxt]
                out += synth(f"\n        if let Some(rb_v) = {v} {{ return rb_v; }}")
                resume = len(out)
                toks = out + toks[bc + 1:]
                fired["retbrk"] = fired.get("retbrk", 0) + len(rets)
                i = resume
                continue
        i += 1
    return toks


def _cfg_element_end(toks, i):
    """index of the last token of the element (variant / field / match arm / statement) starting at code token i"""
    j = i
    while j < len(toks):
        t = toks[j]
        if t.kind == "punct":
            if t.text in ("(", "["):
                j = match_close(toks, j)
            elif t.text == "{":
                j = match_close(toks, j)
                nx = next_code(toks, j + 1)
                if nx < len(toks) and toks[nx].text in (",", ";"):
                    return nx
                if nx < len(toks) and toks[nx].text in (".", "?"):
                    j = nx
                    continue
                return j
            elif t.text in (",", ";"):
                return j
            elif t.text in CLOSE:
                return j - 1
        j += 1
    return len(toks) - 1


def rule_R12(toks, fired):
    """strip attributes (#[...]) inside the item; #[cfg(..)] is evaluated for the crate's default feature set:
    an element (enum variant, field, match arm, statement) whose cfg is off is dropped, as rustc does"""
    out = []
    i = 0
    while i < len(toks):
        t = toks[i]
        if t.kind == "punct" and t.text == "#":
            b = next_code(toks, i + 1)
            if toks[b].text == "!":
                b = next_code(toks, b + 1)
            if toks[b].text == "[":
                be = match_close(toks, b)
                txt = norm(untok(toks[i:be + 1]))
                if not txt.startswith("#[cfg("):
                    fired["R12"] = fired.get("R12", 0) + 1
                    i = be + 1
                    continue
                on = eval_cfg(txt[len("#[cfg("):-2])
                if on:
                    fired["cfg_on"] = fired.get("cfg_on", 0) + 1
                    i = be + 1
                    continue
                st = next_code(toks, be + 1)
                en = _cfg_element_end(toks, st)
                fired["cfg_off"] = fired.get("cfg_off", 0) + 1
                i = en + 1
                continue
        out.append(t)
        i += 1
    return out


RULES = {"R35": rule_R35, "R32": rule_R32, "R31": rule_R31, "R30": rule_R30, "R29": rule_R29, "R28": rule_R28, "R27": rule_R27, "R26": rule_R26, "R25": rule_R25, "R24": rule_R24, "R23": rule_R23, "R22": rule_R22, "R21": rule_R21, "R20": rule_R20, "R19": rule_R19, "R18": rule_R18, "R17": rule_R17, "R13": rule_R13, "R5": rule_R5, "R1": rule_R1, "R1f": rule_R1f, "R2": rule_R2, "R3": rule_R3, "R4": rule_R4, "R6": rule_R6, "R7": rule_R7, "R7t": rule_R7t,
         "R10": rule_R10, "R11": rule_R11, "R12": rule_R12, "R11z": rule_R11z, "boolor": rule_boolor, "retbrk": rule_retbrk}
RULE_ORDER = ["R12", "R32", "R25", "R7", "R7t", "R6", "R13", "R18", "R31", "R19", "R17", "R21", "R22", "R35", "R23", "R24", "R26", "R27", "R28", "R29", "R30", "R20", "R10", "boolor", "retbrk", "R4", "R3", "R5", "R11", "R11z", "R2", "R1", "R1f"]


def rule_R40(toks, fired):
    """X.sort_by_key(|&(K, _)| K)  ->  sort_pairs_by_key0(&mut X)     (&mut X: the auto-ref of the method call)
    a Vec of pairs sorted by its first component: a call of the prelude helper (prelude/sort_assumed.rs) whose contract is the
    ASSUMED documented behaviour of the std sort (a stable permutation, keys nondecreasing).  Any other closure is outside the rule."""
    i = 0
    while i < len(toks):
        t = toks[i]
        if t.kind == "ident" and t.text == "sort_by_key" and not t.syn \
                and toks[prev_code(toks, i - 1)].text == "." and toks[next_code(toks, i + 1)].text == "(":
            dot = prev_code(toks, i - 1)
            p = next_code(toks, i + 1)
            pe = match_close(toks, p)
            a = _postfix_start(toks, dot)
            recv = toks[a:dot]
            pat, body = _closure_parts(toks, p, pe)
            pc = [x.text for x in pat if x.kind not in ("ws", "comment")]
            bc = [x.text for x in body if x.kind not in ("ws", "comment")]
            if not (len(pc) == 6 and pc[0] == "&" and pc[1] == "(" and pc[3] == "," and pc[4] == "_" and pc[5] == ")" and bc == [pc[2]]):
                raise ExtractError("R40: sort_by_key closure is not |&(k, _)| k")
            new = synth("sort_pairs_by_key0(&mut ") + recv + synth(")")
            toks = toks[:a] + new + toks[pe + 1:]
            fired["R40"] = fired.get("R40", 0) + 1
            i = a + 1
            continue
        i += 1
    return toks


def rule_R41(toks, fired):
    """X.extend(repeat(E).take(N))  ->  vec_extend_repeat(&mut X, E, N)
    (prelude/sort_assumed.rs, ASSUMED: appends N copies of E — the documented meaning of Extend on a Vec fed by repeat(..).take(..))"""
    i = 0
    while i < len(toks):
        t = toks[i]
        if t.kind == "ident" and t.text == "extend" and not t.syn \
                and toks[prev_code(toks, i - 1)].text == "." and toks[next_code(toks, i + 1)].text == "(":
            dot = prev_code(toks, i - 1)
            p = next_code(toks, i + 1)
            pe = match_close(toks, p)
            inner = [k for k in range(p + 1, pe) if toks[k].kind not in ("ws", "comment")]
            # repeat ( E ) . take ( N )
            if len(inner) >= 8 and toks[inner[0]].text == "repeat" and toks[inner[1]].text == "(":
                e_close = match_close(toks, inner[1])
                d2 = next_code(toks, e_close + 1)
                tk = next_code(toks, d2 + 1)
                tp = next_code(toks, tk + 1)
                if toks[d2].text == "." and toks[tk].text == "take" and toks[tp].text == "(" and match_close(toks, tp) == prev_code(toks, pe - 1):
                    a = _postfix_start(toks, dot)
                    recv = toks[a:dot]
                    E = _strip_ws(toks[inner[1] + 1:e_close])
                    N = _strip_ws(toks[tp + 1:match_close(toks, tp)])
                    new = synth("vec_extend_repeat(&mut ") + recv + synth(", ") + E + synth(", ") + N + synth(")")
                    toks = toks[:a] + new + toks[pe + 1:]
                    fired["R41"] = fired.get("R41", 0) + 1
                    i = a + 1
                    continue
            raise ExtractError("R41: extend argument is not repeat(E).take(N)")
        i += 1
    return toks


# registered additively (unit csc_build); run before the closure-rewriting rules
RULES["R40"] = rule_R40
RULES["R41"] = rule_R41
RULE_ORDER[RULE_ORDER.index("R23"):RULE_ORDER.index("R23")] = ["R40", "R41"]


def rule_setiter(toks, fired, names):
    """setiter:S1|S2  -  `for PAT in S {`  ->  `for PAT in S.iter() {`  for the listed identifiers S that are (references to) an
    indexmap::IndexSet: `impl IntoIterator for &IndexSet` is defined as `self.iter()` (indexmap/src/set.rs).  Verus has no
    IntoIterator model for a hand-written stand-in type, it has one for what the stand-in's `iter()` returns."""
    i = 0
    while i < len(toks):
        t = toks[i]
        if t.kind == "ident" and t.text == "for" and not t.syn:
            j = i + 1
            while j < len(toks) and not (toks[j].kind == "ident" and toks[j].text == "in"):
                if toks[j].kind == "punct" and toks[j].text == "{":
                    break
                j += 1
            if j < len(toks) and toks[j].text == "in":
                bo = _loop_body_open(toks, i)
                ex = [k for k in range(j + 1, bo) if toks[k].kind not in ("ws", "comment")]
                if len(ex) == 1 and toks[ex[0]].kind == "ident" and toks[ex[0]].text in names:
                    toks = toks[:ex[0] + 1] + synth(".iter()") + toks[ex[0] + 1:]
                    fired["setiter"] = fired.get("setiter", 0) + 1
        i += 1
    return toks


# ---- rules added for units dense_math / chordal_compact (additive) ----
_ASSIGN_OPS = ("=", "+=", "-=", "*=", "/=")


def rule_tupidx(toks, fired):
    """tupidx:  X[(A, B)]  ->  (*X.index((A, B)))   resp.  (*X.index_mut((A, B)))  when the expression is the left-hand side of
    `=` / `+=` / `-=` / `*=` / `/=`.  This is the definition of the indexing operator for a user type (`a[b]` is sugar for
    `*Index::index(&a, b)`, in a mutable place context for `*IndexMut::index_mut(&mut a, b)`); Verus only models `[]` on Vec /
    slices / arrays.  Only an index that is a *tuple literal* is rewritten (slices cannot be indexed by a tuple, so no builtin
    indexing is touched).  The unit supplies `index` / `index_mut` (the real bodies of the dense matrix type)."""
    i = 0
    while i < len(toks):
        t = toks[i]
        if t.kind == "punct" and t.text == "[" and not t.syn:
            c = match_close(toks, i)
            a = next_code(toks, i + 1)
            p = prev_code(toks, i - 1)
            if (a < c and toks[a].kind == "punct" and toks[a].text == "(" and match_close(toks, a) == prev_code(toks, c - 1)
                    and len(split_top_commas(toks, a + 1, match_close(toks, a))) == 2
                    and p >= 0 and (toks[p].kind == "ident" or toks[p].text in (")", "]"))):
                start = _postfix_start(toks, i)
                recv = toks[start:i]
                nx = next_code(toks, c + 1)
                mut = nx < len(toks) and toks[nx].kind == "punct" and toks[nx].text in _ASSIGN_OPS
                new = synth("(*") + recv + synth(".index_mut(" if mut else ".index(") + toks[a:match_close(toks, a) + 1] + synth("))")
                toks = toks[:start] + new + toks[c + 1:]
                fired["tupidx"] = fired.get("tupidx", 0) + 1
                i = start + 1
                continue
        i += 1
    return toks


def rule_selfout(toks, fired):
    """selfout:  `Self::Output`  ->  `F`   (the associated type of `Index<(usize, usize)> for DenseStorageMatrix<S, T>` is
    `type Output = T`, written out so that the method can be checked as an inherent method of the stand-in instantiation)"""
    out = []
    i = 0
    while i < len(toks):
        t = toks[i]
        if t.kind == "ident" and t.text == "Self" and not t.syn:
            a = next_code(toks, i + 1)
            b = next_code(toks, a + 1) if a < len(toks) else len(toks)
            if a < len(toks) and toks[a].text == "::" and b < len(toks) and toks[b].kind == "ident" and toks[b].text == "Output":
                out += synth("F")
                fired["selfout"] = fired.get("selfout", 0) + 1
                i = b + 1
                continue
        out.append(t)
        i += 1
    return out


def rule_stepby(toks, fired):
    """stepby:  for X in (A..B).step_by(K) {BODY}  ->  { let mut sb_itN = A; let sb_endN = B; while sb_itN < sb_endN { let X = sb_itN;
    sb_itN += K; BODY } }   (the values A, A+K, A+2K, .. below B, bounds evaluated once, as `StepBy<Range<usize>>` yields them; the
    synthesised `sb_itN += K` carries an overflow obligation that the iterator does not have - the unit has to discharge it)"""
    i = 0
    n = 0
    while i < len(toks):
        t = toks[i]
        if t.kind == "ident" and t.text == "for" and not t.syn:
            bo = _loop_body_open(toks, i)
            bc = match_close(toks, bo)
            x = next_code(toks, i + 1)
            inn = next_code(toks, x + 1)
            if toks[x].kind == "ident" and toks[inn].text == "in":
                p = next_code(toks, inn + 1)
                if toks[p].text == "(":
                    pe = match_close(toks, p)
                    d1 = next_code(toks, pe + 1)
                    sb = next_code(toks, d1 + 1)
                    kp = next_code(toks, sb + 1)
                    if (toks[d1].text == "." and toks[sb].text == "step_by" and toks[kp].text == "("
                            and next_code(toks, match_close(toks, kp) + 1) == bo):
                        dd = []
                        d = 0
                        for q in range(p + 1, pe):
                            xq = toks[q]
                            if xq.kind == "punct" and xq.text in OPEN: d += 1
                            elif xq.kind == "punct" and xq.text in CLOSE: d -= 1
                            elif xq.kind == "punct" and xq.text == ".." and d == 0: dd.append(q)
                        if len(dd) != 1:
                            raise ExtractError("stepby: iterator is not (A..B).step_by(K)")
                        A = _strip_ws(toks[p + 1:dd[0]])
                        B = _strip_ws(toks[dd[0] + 1:pe])
                        K = _strip_ws(toks[kp + 1:match_close(toks, kp)])
                        n += 1
                        it, en = f"sb_it{n}", f"sb_end{n}"
                        X = toks[x].text
                        new = (synth(f"let mut {it} = ") + A + synth(f"; let {en} = ") + B + synth(f"; while {it} < {en} ")
                               + [toks[bo]] + synth(f" let {X} = {it}; {it} += ") + K + synth(";") + toks[bo + 1:bc + 1])
                        toks = toks[:i] + [S("{")] + new + [S("}")] + toks[bc + 1:]
                        fired["stepby"] = fired.get("stepby", 0) + 1
                        i += 1
                        continue
        i += 1
    return toks


def rule_rangeeq(toks, fired):
    """rangeeq:  E.eq(0..0)  ->  range_yields_nothing(E)    `Range<usize>` is an iterator and method resolution picks the by-value
    `Iterator::eq(self, other)` before `PartialEq::eq(&self, &other)`, so `r.clone().eq(0..0)` compares the *sequences* the two ranges
    yield: true exactly when r yields nothing (start >= end), not only for the literal 0..0.  The unit declares the helper with that
    ASSUMED contract."""
    i = 0
    while i < len(toks):
        t = toks[i]
        if t.kind == "ident" and t.text == "eq" and not t.syn and toks[prev_code(toks, i - 1)].text == ".":
            dot = prev_code(toks, i - 1)
            p = next_code(toks, i + 1)
            if toks[p].text == "(":
                pe = match_close(toks, p)
                arg = [x.text for x in toks[p + 1:pe] if x.kind not in ("ws", "comment")]
                if arg == ["0", "..", "0"]:
                    a = _postfix_start(toks, dot)
                    recv = toks[a:dot]
                    toks = toks[:a] + synth("range_yields_nothing(") + recv + synth(")") + toks[pe + 1:]
                    fired["rangeeq"] = fired.get("rangeeq", 0) + 1
                    i = a + 1
                    continue
        i += 1
    return toks


def rule_itermax0(toks, fired):
    """itermax0:  E.iter().max().unwrap_or(&0)  ->  usize_iter_max_or0(E)    (E: a &Vec<usize> / &[usize]); the unit declares the helper
    with the ASSUMED documented meaning of Iterator::max over usize: a reference to a largest element, or to 0 for an empty list"""
    i = 0
    while i < len(toks):
        t = toks[i]
        if t.kind == "ident" and t.text == "max" and not t.syn and toks[prev_code(toks, i - 1)].text == ".":
            d_max = prev_code(toks, i - 1)
            p1 = next_code(toks, i + 1)
            # preceding `.iter()`
            q = prev_code(toks, d_max - 1)
            ok = toks[p1].text == "(" and next_code(toks, p1 + 1) == match_close(toks, p1) and toks[q].text == ")"
            if ok:
                qo = prev_code(toks, q - 1)
                it = prev_code(toks, qo - 1)
                d_it = prev_code(toks, it - 1)
                ok = toks[qo].text == "(" and toks[it].text == "iter" and toks[d_it].text == "."
            if ok:
                e1 = match_close(toks, p1)
                d_u = next_code(toks, e1 + 1)
                u = next_code(toks, d_u + 1)
                pu = next_code(toks, u + 1)
                ok = toks[d_u].text == "." and toks[u].text == "unwrap_or" and toks[pu].text == "(" and \
                    [x.text for x in toks[pu + 1:match_close(toks, pu)] if x.kind not in ("ws", "comment")] == ["&", "0"]
            if ok:
                a = _postfix_start(toks, d_it)
                recv = toks[a:d_it]
                toks = toks[:a] + synth("usize_iter_max_or0(") + recv + synth(")") + toks[match_close(toks, pu) + 1:]
                fired["itermax0"] = fired.get("itermax0", 0) + 1
                i = a + 1
                continue
        i += 1
    return toks


RULES["itermax0"] = rule_itermax0
RULES["tupidx"] = rule_tupidx
RULES["selfout"] = rule_selfout
RULES["stepby"] = rule_stepby
RULES["rangeeq"] = rule_rangeeq
RULE_ORDER[RULE_ORDER.index("R20"):RULE_ORDER.index("R20")] = ["tupidx", "selfout", "stepby", "rangeeq"]
RULE_ORDER[RULE_ORDER.index("R18"):RULE_ORDER.index("R18")] = ["itermax0"]


def rule_fmtmsg(toks, fired):
    """format!(FMT, ARGS..)  ->  fmt_message()      (unit solver_new: the error strings of settings validation)
    Verus has no `format!`.  The text of the message is outside every contract (only Ok / Err is specified); the prelude-style
    stand-in `fmt_message()` returns an arbitrary String.  Formatting the arguments (Debug / Display of a &str) has no effect
    on program state, so dropping them changes nothing observable except the message text.  Stated in the unit header."""
    i = 0
    while i < len(toks):
        t = toks[i]
        if t.kind == "ident" and t.text == "format" and not t.syn and toks[next_code(toks, i + 1)].text == "!":
            p = next_code(toks, next_code(toks, i + 1) + 1)
            if toks[p].text == "(":
                pe = match_close(toks, p)
                toks = toks[:i] + synth("fmt_message()") + toks[pe + 1:]
                fired["fmtmsg"] = fired.get("fmtmsg", 0) + 1
        i += 1
    return toks


RULES["fmtmsg"] = rule_fmtmsg
RULE_ORDER[RULE_ORDER.index("R20"):RULE_ORDER.index("R20")] = ["fmtmsg"]


def rule_tupassign(toks, fired):
    """(X1, .., Xk) = (E1, .., Ek);   ->   X1 = E1; .. Xk = Ek;        (unit solver_new_data: DefaultProblemData::new)
    Verus does not support destructuring assignment.  Rust evaluates E1..Ek left to right and then assigns left to right; the
    rewrite interleaves evaluation and assignment, which is the same whenever no Ei mentions one of the assigned names.  The rule
    fires only when every Xi is a plain identifier, both sides are tuple literals of equal arity, and no Xi occurs among the tokens
    of the right-hand side; otherwise it is an ExtractError (never a silent change)."""
    i = 0
    while i < len(toks):
        t = toks[i]
        if t.kind == "punct" and t.text == "(" and not t.syn:
            pv = prev_code(toks, i - 1)
            if pv >= 0 and toks[pv].kind == "punct" and toks[pv].text in (";", "{", "}"):
                pe = match_close(toks, i)
                eq = next_code(toks, pe + 1)
                rp = next_code(toks, eq + 1) if eq < len(toks) else len(toks)
                if eq < len(toks) and toks[eq].text == "=" and rp < len(toks) and toks[rp].text == "(":
                    re_ = match_close(toks, rp)
                    semi = next_code(toks, re_ + 1)
                    lhs = split_top_commas(toks, i + 1, pe)
                    rhs = split_top_commas(toks, rp + 1, re_)
                    if semi < len(toks) and toks[semi].text == ";" and len(lhs) >= 2:
                        names = []
                        for (a, b) in lhs:
                            code = [x for x in toks[a:b] if x.kind not in ("ws", "comment")]
                            if len(code) != 1 or code[0].kind != "ident":
                                raise ExtractError("tupassign: left-hand side is not a tuple of plain identifiers")
                            names.append(code[0].text)
                        if len(rhs) != len(lhs):
                            raise ExtractError("tupassign: arity mismatch")
                        if any(x.kind == "ident" and x.text in names for x in toks[rp:re_ + 1]):
                            raise ExtractError("tupassign: an assigned name occurs on the right-hand side")
                        out = []
                        for nm, (a, b) in zip(names, rhs):
                            out += synth(nm + " = ") + _strip_ws(toks[a:b]) + synth("; ")
                        toks = toks[:i] + out + toks[semi + 1:]
                        fired["tupassign"] = fired.get("tupassign", 0) + 1
                        continue
        i += 1
    return toks


RULES["tupassign"] = rule_tupassign
RULE_ORDER[RULE_ORDER.index("R20"):RULE_ORDER.index("R20")] = ["tupassign"]


def rule_tupassignx(toks, fired):
    """tupassignx (unit nonsym_cones):  (B1[K1], .., Bk[Kk]) = (E1, .., Ek);   ->   B1[K1] = E1; .. Bk[Kk] = Ek;
    The same rewrite as `tupassign`, for assigned places of the form IDENT[INTEGER LITERAL] (`(z[0], z[1], z[2]) = (s[0], s[1], s[2])`).
    Rust evaluates the right-hand tuple first and then assigns left to right; interleaving is the same computation whenever no
    assigned base identifier occurs on the right-hand side (then no Ei can observe an earlier assignment) and the index expressions are
    literals (nothing to evaluate).  A panicking index (slice too short) panics in both forms; the contracts exclude it.  Anything else
    (other place expressions, a base on the right-hand side, arity mismatch) is an ExtractError, never a silent change."""
    i = 0
    while i < len(toks):
        t = toks[i]
        if t.kind == "punct" and t.text == "(" and not t.syn:
            pv = prev_code(toks, i - 1)
            if pv >= 0 and toks[pv].kind == "punct" and toks[pv].text in (";", "{", "}"):
                pe = match_close(toks, i)
                eq = next_code(toks, pe + 1)
                rp = next_code(toks, eq + 1) if eq < len(toks) else len(toks)
                if eq < len(toks) and toks[eq].text == "=" and rp < len(toks) and toks[rp].text == "(":
                    re_ = match_close(toks, rp)
                    semi = next_code(toks, re_ + 1)
                    lhs = split_top_commas(toks, i + 1, pe)
                    rhs = split_top_commas(toks, rp + 1, re_)
                    if semi < len(toks) and toks[semi].text == ";" and len(lhs) >= 2:
                        bases, places = [], []
                        for (a, b) in lhs:
                            code = [x for x in toks[a:b] if x.kind not in ("ws", "comment")]
                            if not (len(code) == 4 and code[0].kind == "ident" and code[1].text == "[" and code[3].text == "]"
                                    and re.fullmatch(r"[0-9][0-9_]*", code[2].text)):
                                raise ExtractError("tupassignx: left-hand side is not a tuple of IDENT[LITERAL] places")
                            bases.append(code[0].text)
                            places.append(code)
                        if len(rhs) != len(lhs):
                            raise ExtractError("tupassignx: arity mismatch")
                        if any(x.kind == "ident" and x.text in bases for x in toks[rp:re_ + 1]):
                            raise ExtractError("tupassignx: an assigned base occurs on the right-hand side")
                        out = []
                        for code, (a, b) in zip(places, rhs):
                            out += [Tok(c.kind, c.text, c.pos, c.syn) for c in code] + synth(" = ") + _strip_ws(toks[a:b]) + synth("; ")
                        toks = toks[:i] + out + toks[semi + 1:]
                        fired["tupassignx"] = fired.get("tupassignx", 0) + 1
                        continue
        i += 1
    return toks


RULES["tupassignx"] = rule_tupassignx
RULE_ORDER[RULE_ORDER.index("R20"):RULE_ORDER.index("R20")] = ["tupassignx"]


def rule_unreach(toks, fired):
    """unreach (unit nonsym_cones):  unreachable!();  ->  return unreachable_panic();
    `unreachable!()` is an unconditional panic (of type `!`).  As in R13 / R26 the documented panic is modelled as divergence:
    `unreachable_panic<T>() -> T` is declared by the unit with `ensures false` (like `diverge` of prelude/std_assumed.rs, but usable in a
    function that returns a value) - control does not come back.  A function whose whole body is `unreachable!()` can then be given the
    truthful contract `ensures false` ("never returns"), which a changed body (one that does return) fails; a contract `requires false`
    would make the function vacuous for the `assert(false)` guard of check.py.  Only the argument-less statement form is rewritten;
    anything else is an ExtractError."""
    i = 0
    while i < len(toks):
        t = toks[i]
        if t.kind == "ident" and t.text == "unreachable" and not t.syn and toks[next_code(toks, i + 1)].text == "!":
            b = next_code(toks, i + 1)
            p = next_code(toks, b + 1)
            pe = match_close(toks, p) if toks[p].text == "(" else -1
            end = next_code(toks, pe + 1) if pe >= 0 else len(toks)
            if pe < 0 or next_code(toks, p + 1) != pe or end >= len(toks) or toks[end].text != ";":
                raise ExtractError("unreach: `unreachable!` is not the statement `unreachable!();`")
            new = synth("return unreachable_panic();")
            toks = toks[:i] + new + toks[end + 1:]
            fired["unreach"] = fired.get("unreach", 0) + 1
            i += len(new)
            continue
        i += 1
    return toks


RULES["unreach"] = rule_unreach
RULE_ORDER[RULE_ORDER.index("R20"):RULE_ORDER.index("R20")] = ["unreach"]


# ---- rules added for unit info_print (additive): output as a ghost sequence of items ----
def _wfmt_placeholders(lit):
    """(number of positional placeholders, [implicitly captured names in order of first appearance]) of a format-string literal.
    Handled are exactly the placeholder forms that occur in info_print.rs: `{}`, `{:SPEC}` (SPEC without `$` / `*`, e.g. `{:>3}`,
    `{:+8.4e}`, `{:?}`, `{:.1e}`) and the inline captured identifier `{name}`.  Everything else (`{0}`, `{name:SPEC}`, `{:w$}`,
    `{:.*}`, raw strings, `\\u{..}` escapes) is refused."""
    if not (len(lit) >= 2 and lit[0] == '"' and lit[-1] == '"'):
        raise ExtractError(f"wfmt: format string {lit!r} is not a plain string literal")
    body = lit[1:-1]
    i, npos, names = 0, 0, []
    while i < len(body):
        c = body[i]
        if c == "\\":
            if body[i + 1:i + 2] == "u":
                raise ExtractError("wfmt: \\u{..} escape in a format string is not handled")
            i += 2
            continue
        if c == "{":
            if body[i + 1:i + 2] == "{":
                i += 2
                continue
            j = body.find("}", i)
            if j < 0:
                raise ExtractError(f"wfmt: unbalanced brace in format string {lit!r}")
            inner = body[i + 1:j]
            name, colon, spec = inner.partition(":")
            if "$" in spec or "*" in spec or "{" in inner:
                raise ExtractError(f"wfmt: placeholder {{{inner}}} takes its width / precision from an argument: not handled")
            if name == "":
                npos += 1
            elif re.fullmatch(r"[^\W\d]\w*", name) and not colon:
                if name not in names:
                    names.append(name)
            else:
                raise ExtractError(f"wfmt: placeholder form {{{inner}}} is not handled")
            i = j + 1
            continue
        if c == "}":
            if body[i + 1:i + 2] == "}":
                i += 2
                continue
            raise ExtractError(f"wfmt: unbalanced brace in format string {lit!r}")
        i += 1
    return npos, names


def _wfmt_args(toks, parts, lit):
    """`&[fa(&A1), .., fa(&Ak), fa(&name1), ..]` for the explicit positional arguments (token ranges `parts`) followed by the
    identifiers the format string captures inline"""
    npos, names = _wfmt_placeholders(lit)
    if npos != len(parts):
        raise ExtractError(f"wfmt: {lit} has {npos} positional placeholders but {len(parts)} arguments")
    out = synth("&[")
    first = True
    for (a, b) in parts:
        arg = _strip_ws(toks[a:b])
        code = [x for x in arg if x.kind not in ("ws", "comment")]
        if len(code) >= 2 and code[0].kind == "ident" and code[1].kind == "punct" and code[1].text == "=":
            raise ExtractError("wfmt: explicit named format argument (`name = expr`) is not handled")
        if not first:
            out += synth(", ")
        # `&` binds tighter than a binary operator: an argument that is not a postfix expression (path, field, call, index) is parenthesised
        depth, simple = 0, True
        for x in code:
            if x.kind == "punct" and x.text in OPEN: depth += 1
            elif x.kind == "punct" and x.text in CLOSE: depth -= 1
            elif depth == 0 and not (x.kind in ("ident", "num", "str") or (x.kind == "punct" and x.text in (".", "::"))):
                simple = False
        out += (synth("fa(&") + arg + synth(")")) if simple else (synth("fa(&(") + arg + synth("))"))
        first = False
    for nm in names:
        if not first:
            out += synth(", ")
        out += synth("fa(&" + nm + ")")
        first = False
    return out + synth("]")


def rule_wfmt(toks, fired):
    """wfmt:  formatted output becomes ONE abstract item appended to a ghost history (unit info_print)

        write!(OUT, FMT $(, ARG)*)     ->  OUT.emit(FMT, &[ $( fa(&ARG) ),* ], false)
        writeln!(OUT, FMT $(, ARG)*)   ->  OUT.emit(FMT, &[ $( fa(&ARG) ),* ], true)
        writeln!(OUT,) / writeln!(OUT) ->  OUT.emit("", &[], true)
        format!(FMT $(, ARG)*)         ->  fmt_str(FMT, &[ $( fa(&ARG) ),* ])
        expformat!(FMT, V)             ->  fmt_exp(FMT, fa(&V))          (the crate-local macro at the top of info_print.rs)

    A `?` (or nothing) that follows stays where it is.  An identifier captured inline by the format string (`{nthreads}`) is
    appended to the argument list (that is what `format_args!` does with it).  OUT must be a plain identifier, FMT a plain string
    literal; the placeholder forms handled are listed in `_wfmt_placeholders`; anything else is an ExtractError (exit 2).

    Soundness.  The only effects of `write!(OUT, FMT, ARGS..)` (= `OUT.write_fmt(format_args!(FMT, ARGS..))`) are (a) evaluating
    OUT and then the argument expressions, left to right, each once, and (b) handing the formatted bytes to OUT.  The rewrite keeps
    (a) verbatim (same expressions, same order, each still evaluated once, now as `&ARG` -- `format_args!` takes its arguments by
    reference as well) and replaces (b) by a call whose ASSUMED contract appends exactly one abstract item (format string, argument
    values, newline flag) to the ghost history of OUT when it returns Ok.  Formatting itself could only matter to program state
    through a `Display` / `Debug` impl with side effects; the argument types that occur are usize, u32, &usize, &str, String, the
    float T (Display / LowerExp of f64 / f32), f64 (Debug), std::time::Duration (Debug) and SolverStatus (the crate's Display impl
    forwards to the derived Debug: the variant name): none has one.  An argument that is not a postfix expression is parenthesised
    (`fa(&(a + 1))`), since `&` binds tighter than a binary operator.  `format!` is the same with a fresh String as target; the unit's
    `fmt_str` returns a string whose text is an uninterpreted function of (FMT, argument values).
    `expformat!(FMT, V)` is `if V.is_finite() { _exp_str_reformat(format!(FMT, V)) } else { format!(FMT, V) }`: both branches
    format the same value with the same format string, `_exp_str_reformat` only normalises the exponent (sign, two digits).  The
    rule requires V to be a place expression (identifiers and `.` only), so that evaluating it once instead of two or three times
    is the same; the result is `fmt_exp(FMT, value)`.  DROPPED, stated in the unit: the finite / non-finite case split and
    `_exp_str_reformat`, i.e. the textual shape of the number (the Kani harness `expformat_nonfinite_no_panic` covers its
    panic-freedom)."""
    def find_macro(names, start=0):
        i = start
        while i < len(toks):
            t = toks[i]
            if t.kind == "ident" and t.text in names and not t.syn:
                b = next_code(toks, i + 1)
                if b < len(toks) and toks[b].kind == "punct" and toks[b].text == "!":
                    p = next_code(toks, b + 1)
                    if p < len(toks) and toks[p].kind == "punct" and toks[p].text == "(":
                        return i, p, match_close(toks, p)
                    raise ExtractError(f"wfmt: {t.text}! is not called with parentheses")
            i += 1
        return None

    def literal(a, b):
        code = [x for x in toks[a:b] if x.kind not in ("ws", "comment")]
        if len(code) != 1 or code[0].kind != "str":
            raise ExtractError("wfmt: the format string is not a single string literal")
        return code[0]

    # 1. expformat!(FMT, V)
    while True:
        hit = find_macro(("expformat",))
        if hit is None:
            break
        i, p, pe = hit
        parts = split_top_commas(toks, p + 1, pe)
        if len(parts) != 2:
            raise ExtractError("wfmt: expformat! takes a format string and one value")
        lit = literal(*parts[0])
        if _wfmt_placeholders(lit.text) != (1, []):
            raise ExtractError("wfmt: expformat! format string must contain exactly one positional placeholder")
        val = _strip_ws(toks[parts[1][0]:parts[1][1]])
        if not val or any(not (x.kind == "ident" or (x.kind == "punct" and x.text == ".")) for x in val):
            raise ExtractError("wfmt: expformat! value is not a place expression (identifiers and `.` only)")
        new = synth("fmt_exp(") + [lit] + synth(", fa(&") + val + synth("))")
        toks = toks[:i] + new + toks[pe + 1:]
        fired["wfmt_expformat"] = fired.get("wfmt_expformat", 0) + 1
    # 2. format!(FMT, ARGS..)
    while True:
        hit = find_macro(("format",))
        if hit is None:
            break
        i, p, pe = hit
        parts = split_top_commas(toks, p + 1, pe)
        if not parts:
            raise ExtractError("wfmt: format! without a format string")
        lit = literal(*parts[0])
        new = synth("fmt_str(") + [lit] + synth(", ") + _wfmt_args(toks, parts[1:], lit.text) + synth(")")
        toks = toks[:i] + new + toks[pe + 1:]
        fired["wfmt_format"] = fired.get("wfmt_format", 0) + 1
    # 3. write!(OUT, ..) / writeln!(OUT, ..)
    while True:
        hit = find_macro(("write", "writeln"))
        if hit is None:
            break
        i, p, pe = hit
        nl = toks[i].text == "writeln"
        parts = split_top_commas(toks, p + 1, pe)
        if not parts:
            raise ExtractError("wfmt: write! without a target")
        out = _strip_ws(toks[parts[0][0]:parts[0][1]])
        if len(out) != 1 or out[0].kind != "ident":
            raise ExtractError("wfmt: the target of write! / writeln! is not a plain identifier")
        if len(parts) == 1:
            if not nl:
                raise ExtractError("wfmt: write! without a format string")
            new = out + synth('.emit("", &[], true)')
        else:
            lit = literal(*parts[1])
            new = (out + synth(".emit(") + [lit] + synth(", ") + _wfmt_args(toks, parts[2:], lit.text)
                   + synth(", true)" if nl else ", false)"))
        toks = toks[:i] + new + toks[pe + 1:]
        fired["wfmt"] = fired.get("wfmt", 0) + 1
    return toks


def rule_strslice(toks, fired):
    """strslice:  &X[A..B]  ->  str_slice(X, A, B)      for a plain identifier X and a range with both bounds written out.
    Named only where X is a `&str` (unit info_print: the cone-type name without its trailing "Cone").  vstd models string
    slicing through UTF-8 byte boundaries; the unit's helper `str_slice` carries the ASSUMED documented meaning for an ASCII string
    (`requires A <= B <= len`: the panic condition of the slice expression stays a proof obligation; `ensures` the characters
    A..B).  If X is not a &str the emitted call does not type-check (exit 2), it is never silently something else."""
    i = 0
    while i < len(toks):
        t = toks[i]
        if t.kind == "punct" and t.text == "&" and not t.syn:
            x = next_code(toks, i + 1)
            b = next_code(toks, x + 1) if x < len(toks) else len(toks)
            if x < len(toks) and b < len(toks) and toks[x].kind == "ident" and toks[b].kind == "punct" and toks[b].text == "[":
                be = match_close(toks, b)
                dd, d = [], 0
                for q in range(b + 1, be):
                    xq = toks[q]
                    if xq.kind == "punct" and xq.text in OPEN: d += 1
                    elif xq.kind == "punct" and xq.text in CLOSE: d -= 1
                    elif xq.kind == "punct" and xq.text == ".." and d == 0: dd.append(q)
                if len(dd) == 1:
                    A = _strip_ws(toks[b + 1:dd[0]])
                    B = _strip_ws(toks[dd[0] + 1:be])
                    if not A or not B:
                        raise ExtractError("strslice: open-ended range is not handled")
                    new = synth("str_slice(") + [toks[x]] + synth(", ") + A + synth(", ") + B + synth(")")
                    toks = toks[:i] + new + toks[be + 1:]
                    fired["strslice"] = fired.get("strslice", 0) + 1
                    i += len(new)
                    continue
        i += 1
    return toks


RULES["wfmt"] = rule_wfmt
RULES["strslice"] = rule_strslice
RULE_ORDER[RULE_ORDER.index("R20"):RULE_ORDER.index("R20")] = ["wfmt", "strslice"]


# ---- rules added for units qdldl_new / kkt_new (additive) ----
def rule_tupcall(toks, fired):
    """tupcall:  (X1, .., Xk) = E;   ->   { let (tupcall_0, .., tupcall_{k-1}) = E; X1 = tupcall_0; .. }      (unit qdldl_new: _qdldl_new)
    for a right-hand side E that is NOT a tuple literal (a call).  Verus does not support destructuring assignment; this is the
    desugaring given in the Rust reference (destructuring assignment = a `let` with the same pattern, fresh names for the places,
    followed by the assignments left to right).  A place `_` stays `_` in the pattern and gets no assignment.  Fires only when
    every place is a plain identifier or `_`; anything else is an ExtractError (never a silent change)."""
    i = 0
    while i < len(toks):
        t = toks[i]
        if t.kind == "punct" and t.text == "(" and not t.syn:
            pv = prev_code(toks, i - 1)
            if pv >= 0 and toks[pv].kind == "punct" and toks[pv].text in (";", "{", "}"):
                pe = match_close(toks, i)
                eq = next_code(toks, pe + 1)
                rp = next_code(toks, eq + 1) if eq < len(toks) else len(toks)
                if eq < len(toks) and toks[eq].text == "=" and rp < len(toks) and toks[rp].text != "(":
                    # end of the statement: the next `;` at depth 0
                    d, semi = 0, None
                    for q in range(rp, len(toks)):
                        x = toks[q]
                        if x.kind == "punct" and x.text in OPEN: d += 1
                        elif x.kind == "punct" and x.text in CLOSE: d -= 1
                        elif x.kind == "punct" and x.text == ";" and d == 0:
                            semi = q
                            break
                        if d < 0: break
                    lhs = split_top_commas(toks, i + 1, pe)
                    if semi is not None and len(lhs) >= 2:
                        pats, assigns = [], []
                        for k, (a, b) in enumerate(lhs):
                            code = [x for x in toks[a:b] if x.kind not in ("ws", "comment")]
                            if len(code) != 1 or code[0].kind != "ident":
                                raise ExtractError("tupcall: left-hand side is not a tuple of plain identifiers / `_`")
                            if code[0].text == "_":
                                pats.append("_")
                            else:
                                pats.append(f"tupcall_{k}")
                                assigns.append(f"{code[0].text} = tupcall_{k}; ")
                        new = synth("{ let (" + ", ".join(pats) + ") = ") + _strip_ws(toks[rp:semi]) + synth("; " + "".join(assigns) + "}")
                        toks = toks[:i] + new + toks[semi + 1:]
                        fired["tupcall"] = fired.get("tupcall", 0) + 1
                        i += len(new)
                        continue
        i += 1
    return toks


def rule_R30i(toks, fired):
    """R30i:  X.iter().sum()  ->  { let mut r30i_s: usize = 0; for r30i_p in X.iter() { r30i_s += *r30i_p; } r30i_s }
    (unit qdldl_new: `workspace.Lnz.iter().sum()`).  Definition of `impl Sum<&usize> for usize` (core: `iter.fold(0, |a, b| a + b)`
    with `usize + &usize` = `a + *b`, forward_ref_binop) at type usize; the `+=` turns the no-overflow condition of the sum into a
    proof obligation (std panics on overflow in a debug build and wraps in a release build: under the obligation both agree).
    If X's items are not `usize` the emitted text does not type-check (exit 2), it is never silently something else."""
    n = 0
    i = 0
    while i < len(toks):
        t = toks[i]
        if t.kind == "ident" and t.text == "sum" and not t.syn and toks[prev_code(toks, i - 1)].text == ".":
            dot = prev_code(toks, i - 1)
            p = next_code(toks, i + 1)
            if toks[p].text == "(" and next_code(toks, p + 1) == match_close(toks, p):
                q = prev_code(toks, dot - 1)          # `)` of iter()
                if toks[q].text == ")":
                    qo = prev_code(toks, q - 1)
                    it = prev_code(toks, qo - 1)
                    d0 = prev_code(toks, it - 1)
                    if toks[qo].text == "(" and toks[it].kind == "ident" and toks[it].text == "iter" and toks[d0].text == ".":
                        a = _postfix_start(toks, dot)
                        recv = toks[a:dot]
                        n += 1
                        sv, pv = f"r30i_s{n}", f"r30i_p{n}"
                        new = (synth(f"{{ let mut {sv}: usize = 0; ") + [_for_tok()] + synth(f" {pv} in ") + recv
                               + synth(f" {{ {sv} += *{pv}; }} {sv} }}"))
                        toks = toks[:a] + new + toks[match_close(toks, p) + 1:]
                        fired["R30i"] = fired.get("R30i", 0) + 1
                        i = a + 1
                        continue
        i += 1
    return toks


def rule_fnptr(toks, fired, names):
    """fnptr:NAME  :  NAME(ARGS)  ->  NAME.call(ARGS)    for a local variable NAME that holds a function pointer (unit kkt_new:
    `ldl_ctor(&KKT, &dsigns, settings, None)`).  Verus has no function-pointer types; the unit gives the pointer a hand-written
    stand-in type whose method `call` carries the ASSUMED contract of every function the pointer can hold (listed in the unit
    header).  Arguments, their order and evaluation are untouched.  A NAME that is never called is an ExtractError."""
    for nm in names:
        hits = 0
        i = 0
        while i < len(toks):
            t = toks[i]
            if t.kind == "ident" and t.text == nm and not t.syn:
                pv = prev_code(toks, i - 1)
                nx = next_code(toks, i + 1)
                if nx < len(toks) and toks[nx].text == "(" and not (pv >= 0 and toks[pv].text in (".", "::", "fn")):
                    toks = toks[:i + 1] + synth(".call") + toks[i + 1:]
                    hits += 1
            i += 1
        if hits == 0:
            raise ExtractError(f"lost anchor: fnptr:{nm} is never called")
        fired["fnptr:" + nm] = hits
    return toks


RULES["tupcall"] = rule_tupcall
RULES["R30i"] = rule_R30i
RULE_ORDER[RULE_ORDER.index("R20"):RULE_ORDER.index("R20")] = ["tupcall", "R30i"]


# ---- rules added for units chordal_merge / chordal_snode (additive) ----
def rule_strmatch(toks, fired):
    """strmatch:  match S { "a" => {A} "b" => {B} _ => {C} }   ->   if str_eq(S, "a") {A} else if str_eq(S, "b") {B} else {C}
    (unit chordal_merge: the dispatch on the merge-method string in SparsityPattern::new).  A `match` on a `&str` scrutinee with
    string-literal patterns compares by value, top to bottom, first hit wins, `_` takes the rest: that is the if / else-if chain.
    Verus accepts the match but gives the literal patterns no meaning (every arm, including the panicking `_` arm, stays reachable
    whatever is known about S); the unit declares `str_eq` with the ASSUMED contract `r == (a@ == b@)`.  Fires only for: scrutinee a
    plain identifier (re-evaluating it has no effect), every pattern one string literal or (last) `_`, every arm body a block, the
    match in statement position; anything else is left untouched."""
    i = 0
    while i < len(toks):
        t = toks[i]
        if t.kind == "ident" and t.text == "match" and not t.syn:
            s = next_code(toks, i + 1)
            bo = next_code(toks, s + 1)
            pv = prev_code(toks, i - 1)
            if (toks[s].kind == "ident" and toks[bo].kind == "punct" and toks[bo].text == "{"
                    and (pv < 0 or (toks[pv].kind == "punct" and toks[pv].text in (";", "{", "}")))):
                bc = match_close(toks, bo)
                arms, ok, q = [], True, next_code(toks, bo + 1)
                while q < bc:
                    pat = toks[q]
                    ar = next_code(toks, q + 1)
                    ab = next_code(toks, ar + 1)
                    if not ((pat.kind == "str" or (pat.kind == "ident" and pat.text == "_")) and toks[ar].text == "=>" and toks[ab].text == "{"):
                        ok = False
                        break
                    ae = match_close(toks, ab)
                    arms.append((pat, ab, ae))
                    q = next_code(toks, ae + 1)
                    if q < bc and toks[q].text == ",":
                        q = next_code(toks, q + 1)
                ok = ok and len(arms) >= 2 and arms[-1][0].kind == "ident" and all(a[0].kind == "str" for a in arms[:-1])
                if ok:
                    new = []
                    for k, (pat, ab, ae) in enumerate(arms):
                        if pat.kind == "str":
                            new += synth(("" if k == 0 else " else ") + "if str_eq(" + toks[s].text + ", ") + [pat] + synth(") ") + toks[ab:ae + 1]
                        else:
                            new += synth(" else ") + toks[ab:ae + 1]
                    toks = toks[:i] + new + toks[bc + 1:]
                    fired["strmatch"] = fired.get("strmatch", 0) + 1
                    i += len(new)
                    continue
        i += 1
    return toks


def rule_extset(toks, fired):
    """extset:  V.extend(S.iter())  ->  V.extend_from_slice(S.iter())     (unit chordal_snode: `stack.extend(children[v].iter())`)
    for an indexmap::IndexSet<usize> S whose hand-written stand-in hands its members out as the slice `S.iter()` (insertion order).
    `impl Extend<&T> for Vec<T> where T: Copy` appends a copy of every yielded element in iteration order, which for the member
    slice is `extend_from_slice` (specified by vstd); the generic `Extend::extend` has no Verus specification."""
    i = 0
    while i < len(toks):
        t = toks[i]
        if t.kind == "ident" and t.text == "extend" and not t.syn and toks[prev_code(toks, i - 1)].text == ".":
            p = next_code(toks, i + 1)
            if toks[p].text == "(":
                pe = match_close(toks, p)
                last = prev_code(toks, pe - 1)
                lo = prev_code(toks, last - 1)
                it = prev_code(toks, lo - 1)
                d = prev_code(toks, it - 1)
                if toks[last].text == ")" and toks[lo].text == "(" and toks[it].kind == "ident" and toks[it].text == "iter" and toks[d].text == ".":
                    t.text = "extend_from_slice"
                    fired["extset"] = fired.get("extset", 0) + 1
        i += 1
    return toks


def rule_setmin(toks, fired):
    """setmin:  S.iter().min()  ->  usize_slice_min(S.iter())     (unit chordal_snode: `*sn.iter().min().unwrap()` in find_separators)
    The unit declares the helper with the ASSUMED documented meaning of Iterator::min over &usize: None for an empty iterator, else a
    reference to a smallest element.  The `.unwrap()` that follows stays in the text, so "the set is not empty" is a proof obligation."""
    i = 0
    while i < len(toks):
        t = toks[i]
        if t.kind == "ident" and t.text == "min" and not t.syn and toks[prev_code(toks, i - 1)].text == ".":
            d_min = prev_code(toks, i - 1)
            p1 = next_code(toks, i + 1)
            q = prev_code(toks, d_min - 1)
            if toks[p1].text == "(" and next_code(toks, p1 + 1) == match_close(toks, p1) and toks[q].text == ")":
                qo = prev_code(toks, q - 1)
                it = prev_code(toks, qo - 1)
                d_it = prev_code(toks, it - 1)
                if toks[qo].text == "(" and toks[it].kind == "ident" and toks[it].text == "iter" and toks[d_it].text == ".":
                    a = _postfix_start(toks, d_it)
                    new = synth("usize_slice_min(") + toks[a:q + 1] + synth(")")
                    toks = toks[:a] + new + toks[match_close(toks, p1) + 1:]
                    fired["setmin"] = fired.get("setmin", 0) + 1
                    i = a + 1
                    continue
        i += 1
    return toks


def rule_iterpos(toks, fired):
    """iterpos:  X.iter().position(|&x| x == E)  ->  usize_slice_position(&X, E)     (unit chordal_snode: the renumbering loop of
    pothen_sun).  The unit declares the helper with the ASSUMED documented meaning of Iterator::position over a slice of usize: the
    index of the first element equal to E, or None if there is none.  (Verus rejects closures with a `&x` pattern.)  Fires only for a
    closure whose parameter is `&IDENT` and whose body is exactly `IDENT == E`; E is evaluated once in both forms (it is an argument)."""
    i = 0
    while i < len(toks):
        t = toks[i]
        if t.kind == "ident" and t.text == "position" and not t.syn and toks[prev_code(toks, i - 1)].text == ".":
            d_pos = prev_code(toks, i - 1)
            q = prev_code(toks, d_pos - 1)
            p1 = next_code(toks, i + 1)
            if toks[p1].text == "(" and toks[q].text == ")":
                qo = prev_code(toks, q - 1)
                it = prev_code(toks, qo - 1)
                d_it = prev_code(toks, it - 1)
                pe = match_close(toks, p1)
                c = [k for k in range(p1 + 1, pe) if toks[k].kind not in ("ws", "comment")]
                if (toks[qo].text == "(" and toks[it].kind == "ident" and toks[it].text == "iter" and toks[d_it].text == "." and len(c) >= 7
                        and [toks[k].text for k in c[:3]] == ["|", "&", toks[c[2]].text] and toks[c[2]].kind == "ident" and toks[c[3]].text == "|"
                        and toks[c[4]].text == toks[c[2]].text and toks[c[5]].text == "=="
                        and not any(toks[k].text in (",", "|", "||", "&&") for k in c[6:])):
                    a = _postfix_start(toks, d_it)
                    new = synth("usize_slice_position(&") + toks[a:d_it] + synth(", ") + toks[c[6]:pe] + synth(")")
                    toks = toks[:a] + new + toks[pe + 1:]
                    fired["iterpos"] = fired.get("iterpos", 0) + 1
                    i = a + 1
                    continue
        i += 1
    return toks


RULES["strmatch"] = rule_strmatch
RULES["extset"] = rule_extset
RULES["setmin"] = rule_setmin
RULES["iterpos"] = rule_iterpos
RULE_ORDER[RULE_ORDER.index("R20"):RULE_ORDER.index("R20")] = ["strmatch", "extset", "setmin", "iterpos"]


# ---- rules added for unit chordal_augment (additive) ----
def _method_call_at(toks, i, name):
    """toks[i] is the identifier `name` of a method call `.name(`: returns (dot, open paren, close paren) or None"""
    t = toks[i]
    if not (t.kind == "ident" and t.text == name and not t.syn):
        return None
    d = prev_code(toks, i - 1)
    p = next_code(toks, i + 1)
    if d < 0 or toks[d].text != "." or toks[p].text != "(":
        return None
    return d, p, match_close(toks, p)


def _empty_call_before(toks, dot, name):
    """the tokens before toks[dot] (a `.`) end in `.name()`: returns the index of that call's `.`, else None"""
    q = prev_code(toks, dot - 1)
    if q < 0 or toks[q].text != ")":
        return None
    qo = prev_code(toks, q - 1)
    it = prev_code(toks, qo - 1)
    d_it = prev_code(toks, it - 1)
    if toks[qo].text == "(" and toks[it].kind == "ident" and toks[it].text == name and toks[d_it].text == ".":
        return d_it
    return None


def rule_peekslice(toks, fired):
    """peekslice:  X.iter().peekable()  ->  slice_peekable(&X)      (unit chordal_augment: the pattern iterators of the chordal code)
    X a Vec / slice.  The unit declares `SlicePeek` with the ASSUMED documented behaviour of Peekable<slice::Iter>: `len()` = number
    of elements not yet yielded (ExactSizeIterator), `peek()` = Some(&&X[pos]) without advancing / None at the end, `next()` =
    Some(&X[pos]) and advance / None.  The calls on the iterator stay in the text as they are."""
    i = 0
    while i < len(toks):
        mc = _method_call_at(toks, i, "peekable")
        if mc is not None and next_code(toks, mc[1] + 1) == mc[2]:
            d_it = _empty_call_before(toks, mc[0], "iter")
            if d_it is not None:
                a = _postfix_start(toks, d_it)
                new = synth("slice_peekable(&") + toks[a:d_it] + synth(")")
                toks = toks[:a] + new + toks[mc[2] + 1:]
                fired["peekslice"] = fired.get("peekslice", 0) + 1
                i = a + 1
                continue
        i += 1
    return toks


def rule_mapcollect(toks, fired):
    """mapcollect:  X.iter().map(|PAT| E).collect()  ->  { let mut mc_outN = Vec::new(); for PAT in X.iter() { mc_outN.push(E); } mc_outN }
    (definition of map + collect into a Vec: the mapped items in iteration order).  The closure receives the item of X.iter(), which
    is what the `for` pattern receives (a `&v` pattern is then open to R5).  Fires only when `.map(` directly follows `.iter()` and
    `.collect()` directly follows the map; E must not contain `return` / `?` (it does not in the covered uses; not checked further)."""
    n = 0
    i = 0
    while i < len(toks):
        mc = _method_call_at(toks, i, "map")
        if mc is not None:
            d_it = _empty_call_before(toks, mc[0], "iter")
            d3 = next_code(toks, mc[2] + 1)
            m3 = next_code(toks, d3 + 1)
            p3 = next_code(toks, m3 + 1)
            if (d_it is not None and toks[d3].text == "." and toks[m3].kind == "ident" and toks[m3].text == "collect"
                    and toks[p3].text == "(" and next_code(toks, p3 + 1) == match_close(toks, p3)):
                pat, body = _closure_parts(toks, mc[1], mc[2])
                if any(x.kind == "ident" and x.text == "return" for x in body) or any(x.text == "?" for x in body):
                    raise ExtractError("mapcollect: closure body with return / ?")
                a = _postfix_start(toks, d_it)
                n += 1
                on = f"mc_out{n}"
                recv = _strip_ws(toks[a:d_it])
                if len(recv) >= 2 and recv[0].kind == "ident" and recv[1].text == "(" and match_close(toks, toks.index(recv[1])) == toks.index(recv[-1]):
                    # (added for unit chordal_compact2) X is a free-function call `f(args)` returning an owned value: bind it first, so that the
                    # temporary lives as long as the loop (in the original it lives to the end of the enclosing statement; same evaluation order)
                    sn = f"mc_src{n}"
                    new = (synth(f"{{ let {sn} = ") + recv + synth(f"; let mut {on} = Vec::new(); ") + [_for_tok()] + synth(" ") + pat + synth(f" in {sn}.iter()")
                           + synth(f" {{ {on}.push(") + body + synth(f"); }} {on} }}"))
                else:
                    new = (synth(f"{{ let mut {on} = Vec::new(); ") + [_for_tok()] + synth(" ") + pat + synth(" in ") + _strip_ws(toks[a:mc[0]])
                           + synth(f" {{ {on}.push(") + body + synth(f"); }} {on} }}"))
                toks = toks[:a] + new + toks[match_close(toks, p3) + 1:]
                fired["mapcollect"] = fired.get("mapcollect", 0) + 1
                i = a + 1
                continue
        i += 1
    return toks


def rule_posall(toks, fired):
    """posall:  X.iter().position_all(|&x| C)  ->
         { let mut pa_outN: Vec<usize> = Vec::new(); let mut pa_iN: usize = 0; for x in X.iter() { if C { pa_outN.push(pa_iN); } pa_iN += 1; } pa_outN }
    the body of PositionAll::position_all (src/algebra/utils.rs: `self.enumerate().filter(|(_, item)| f(item)).map(|(index, _)| index)
    .collect()`) written as the loop it defines: the indices of the items on which the predicate holds, in order.  The predicate gets
    `&item`; its `&x` pattern binds x = item, which is the loop variable.  The synthesized `+= 1` is an overflow obligation."""
    n = 0
    i = 0
    while i < len(toks):
        mc = _method_call_at(toks, i, "position_all")
        if mc is not None:
            d_it = _empty_call_before(toks, mc[0], "iter")
            if d_it is not None:
                pat, body = _closure_parts(toks, mc[1], mc[2])
                pc = [x for x in pat if x.kind not in ("ws", "comment")]
                if not (len(pc) == 2 and pc[0].text == "&" and pc[1].kind == "ident"):
                    raise ExtractError("posall: closure pattern is not `&ident`")
                a = _postfix_start(toks, d_it)
                n += 1
                on, iv = f"pa_out{n}", f"pa_i{n}"
                new = (synth(f"{{ let mut {on}: Vec<usize> = Vec::new(); let mut {iv}: usize = 0; ") + [_for_tok()] + synth(f" {pc[1].text} in ")
                       + _strip_ws(toks[a:mc[0]]) + synth(" { if ") + body + synth(f" {{ {on}.push({iv}); }} {iv} += 1; }} {on} }}"))
                toks = toks[:a] + new + toks[mc[2] + 1:]
                fired["posall"] = fired.get("posall", 0) + 1
                i = a + 1
                continue
        i += 1
    return toks


def rule_vecsort(toks, fired, names):
    """vecsort:NAME|..  :  NAME.sort();  ->  usize_sort(&mut NAME);     for the listed local Vec<usize> variables (unit chordal_augment)
    `<[usize]>::sort` has no Verus specification (a generic `T: Ord` one could not speak about the order); the unit declares
    `usize_sort` with the ASSUMED documented contract of the std sort at type usize (same members, nondecreasing; for distinct
    members strictly ascending).  (&mut NAME: the auto-ref of the method call.)"""
    i = 0
    while i < len(toks):
        mc = _method_call_at(toks, i, "sort")
        if mc is not None and next_code(toks, mc[1] + 1) == mc[2]:
            r = prev_code(toks, mc[0] - 1)
            pv = prev_code(toks, r - 1)
            if toks[r].kind == "ident" and toks[r].text in names and (pv < 0 or toks[pv].text in (";", "{", "}")):
                new = synth("usize_sort(&mut ") + [toks[r]] + synth(")")
                toks = toks[:r] + new + toks[mc[2] + 1:]
                fired["vecsort"] = fired.get("vecsort", 0) + 1
                i = r + 1
                continue
        i += 1
    return toks


def rule_vecsortr(toks, fired, names):
    """vecsortr:NAME|..  :  NAME.sort();  ->  usize_sort(NAME);     twin of vecsort for a `&mut Vec<usize>` PARAMETER / reference local
    (unit chordal_reverse: `clique_buffer.sort()` in add_blocks_with_sparsity_pattern).  The method call auto-dereferences the reference
    and re-borrows the Vec mutably; passing the reference itself to `usize_sort(v: &mut Vec<usize>)` is the same implicit re-borrow."""
    i = 0
    while i < len(toks):
        mc = _method_call_at(toks, i, "sort")
        if mc is not None and next_code(toks, mc[1] + 1) == mc[2]:
            r = prev_code(toks, mc[0] - 1)
            pv = prev_code(toks, r - 1)
            if toks[r].kind == "ident" and toks[r].text in names and (pv < 0 or toks[pv].text in (";", "{", "}")):
                new = synth("usize_sort(") + [toks[r]] + synth(")")
                toks = toks[:r] + new + toks[mc[2] + 1:]
                fired["vecsortr"] = fired.get("vecsortr", 0) + 1
                i = r + 1
                continue
        i += 1
    return toks


def rule_rangesort(toks, fired, names):
    """rangesort:NAME|..  :  NAME[A..B].sort();  ->  usize_sort_range(&mut NAME, A, B);     (unit chordal_sntree: `p[k..(k + n)].sort()`)
    for the listed local Vec<usize> variables.  Sorting the sub-slice A..B in place: the unit declares `usize_sort_range` with the ASSUMED
    documented contract of the std sort applied to that window (panics unless A <= B <= len: kept as its precondition; the window becomes
    sorted_of(window), everything outside it is untouched)."""
    i = 0
    while i < len(toks):
        mc = _method_call_at(toks, i, "sort")
        if mc is not None and next_code(toks, mc[1] + 1) == mc[2]:
            rb = prev_code(toks, mc[0] - 1)
            if toks[rb].text == "]":
                depth = 0
                k = rb
                while k >= 0:
                    if toks[k].kind == "punct" and toks[k].text in CLOSE: depth += 1
                    if toks[k].kind == "punct" and toks[k].text in OPEN:
                        depth -= 1
                        if depth == 0: break
                    k -= 1
                r = prev_code(toks, k - 1)
                pv = prev_code(toks, r - 1)
                if (k > 0 and toks[k].text == "[" and toks[r].kind == "ident" and toks[r].text in names
                        and (pv < 0 or toks[pv].text in (";", "{", "}"))):
                    inner = toks[k + 1:rb]
                    d = 0
                    cut = None
                    for q, t in enumerate(inner):
                        if t.kind == "punct" and t.text in OPEN: d += 1
                        elif t.kind == "punct" and t.text in CLOSE: d -= 1
                        elif t.kind == "punct" and t.text == ".." and d == 0: cut = q
                    if cut is not None and _strip_ws(inner[:cut]) and _strip_ws(inner[cut + 1:]):
                        new = (synth("usize_sort_range(&mut ") + [toks[r]] + synth(", ") + _strip_ws(inner[:cut]) + synth(", ")
                               + _strip_ws(inner[cut + 1:]) + synth(")"))
                        toks = toks[:r] + new + toks[mc[2] + 1:]
                        fired["rangesort"] = fired.get("rangesort", 0) + 1
                        i = r + 1
                        continue
        i += 1
    return toks


def rule_setextend(toks, fired, names):
    """setextend:NAME|..  :  NAME.extend(A..B)  ->  NAME.extend_range(A, B)   and   NAME.extend(Y.iter())  ->  NAME.extend_slice(Y)
    (unit chordal_sntree: `snode.extend(k..(k + n))`, `sp.extend(tmp.iter())` in reorder_snode_consecutively) for the listed IndexSet
    variables.  `IndexSet::extend` inserts the yielded items one after the other (indexmap documentation: equivalent to calling insert for
    each of them in order); the generic `Extend::extend` has no Verus specification, so the unit declares the two instances used
    (a usize range; the elements of a slice by reference) on its stand-in with exactly that ASSUMED meaning.  Y is a slice reference
    (`&mut [usize]` re-borrowed shared by the call, as `Y.iter()` does)."""
    i = 0
    while i < len(toks):
        mc = _method_call_at(toks, i, "extend")
        if mc is not None:
            r = prev_code(toks, mc[0] - 1)
            if toks[r].kind == "ident" and toks[r].text in names:
                inner = toks[mc[1] + 1:mc[2]]
                d = 0
                cut = None
                for q, t in enumerate(inner):
                    if t.kind == "punct" and t.text in OPEN: d += 1
                    elif t.kind == "punct" and t.text in CLOSE: d -= 1
                    elif t.kind == "punct" and t.text == ".." and d == 0: cut = q
                code = [x for x in inner if x.kind not in ("ws", "comment")]
                if cut is not None:
                    new = synth("extend_range(") + _strip_ws(inner[:cut]) + synth(", ") + _strip_ws(inner[cut + 1:]) + synth(")")
                    toks = toks[:mc[0] + 1] + new + toks[mc[2] + 1:]
                    fired["setextend"] = fired.get("setextend", 0) + 1
                    i = mc[0] + 1
                    continue
                if (len(code) == 5 and code[0].kind == "ident" and code[1].text == "." and code[2].text == "iter"
                        and code[3].text == "(" and code[4].text == ")"):
                    new = synth("extend_slice(") + [code[0]] + synth(")")
                    toks = toks[:mc[0] + 1] + new + toks[mc[2] + 1:]
                    fired["setextend"] = fired.get("setextend", 0) + 1
                    i = mc[0] + 1
                    continue
        i += 1
    return toks


RULES["peekslice"] = rule_peekslice
RULES["mapcollect"] = rule_mapcollect
RULES["posall"] = rule_posall
RULE_ORDER[RULE_ORDER.index("R20"):RULE_ORDER.index("R20")] = ["peekslice", "mapcollect", "posall"]


def rule_R13e(toks, fired):
    """R13e (unit psdcone):  EXPR.expect(MSG)  ->  EXPR.expect_or_panic(MSG)
    The twin of R13 for `Result::expect`: the documented panic ("Eigval error", "SVD error") is modelled as divergence.  The unit
    declares `expect_or_panic` with `ensures` only (self is Ok), so the call site gets no proof obligation and the code after it
    is verified under "the engine reported success" - which is what reaching that code means in the real program."""
    for i, t in enumerate(toks):
        if t.kind == "ident" and t.text == "expect" and not t.syn:
            pv = prev_code(toks, i - 1)
            nx = next_code(toks, i + 1)
            if pv >= 0 and toks[pv].text == "." and nx < len(toks) and toks[nx].text == "(":
                t.text = "expect_or_panic"
                fired["R13e"] = fired.get("R13e", 0) + 1
    return toks


RULES["R13e"] = rule_R13e
RULE_ORDER[RULE_ORDER.index("R20"):RULE_ORDER.index("R20")] = ["R13e"]


# ---- rules added for unit chordal_cgraph (additive) ----
def rule_mapidx(toks, fired):
    """mapidx:  M[&K]  ->  (*M.at(&K))      (unit chordal_cgraph: `adjacency_table[&c_1]`)
    Indexing with a *reference* is only defined for maps (`impl Index<&Q> for HashMap`, documented: "Panics if the key is not
    present"); a Vec / slice index is never a reference.  Verus cannot give a contract to a user `Index` impl (a trait method
    implementation cannot declare `requires`), so the stand-in has the method `at(&self, k: &K) -> &V` with the panic condition as
    precondition - `a[b]` in value position is sugar for `*a.index(b)`."""
    i = 0
    while i < len(toks):
        t = toks[i]
        if t.kind == "punct" and t.text == "[" and not t.syn:
            pv = prev_code(toks, i - 1)
            nx = next_code(toks, i + 1)
            if pv >= 0 and toks[pv].kind == "ident" and nx < len(toks) and toks[nx].text == "&" \
                    and toks[pv].text not in ("in", "return", "let", "mut", "if", "else", "match"):
                ppv = prev_code(toks, pv - 1)
                if not (ppv >= 0 and toks[ppv].text in (".", "::")):
                    pe = match_close(toks, i)
                    toks = toks[:pv] + synth("(*") + [toks[pv]] + synth(".at(") + toks[i + 1:pe] + synth("))") + toks[pe + 1:]
                    fired["mapidx"] = fired.get("mapidx", 0) + 1
                    i = pv + 4
                    continue
        i += 1
    return toks


def rule_valuesmut(toks, fired):
    """valuesmut:  for PAT in M.values_mut() { BODY }   ->
         let vm_keysN = M.key_list(); for vm_iN in 0..vm_keysN.len() { let PAT = M.get_mut(&vm_keysN[vm_iN]).unwrap(); BODY }
    (unit chordal_cgraph: the last loop of update_strategy).  `HashMap::values_mut` visits every value exactly once, in arbitrary
    order, as `&mut V`; BODY only sees the value, so it cannot change the key set.  The stand-in's `key_list()` is ASSUMED to return
    every key exactly once (arbitrary order), `get_mut` is the documented lookup; the synthesized `unwrap()` is a proof obligation
    (discharged from "the listed keys are keys").  Verus has no model of an iterator of `&mut`."""
    n = 0
    i = 0
    while i < len(toks):
        t = toks[i]
        if t.kind == "ident" and t.text == "for" and not t.syn:
            j = i + 1
            while j < len(toks) and not (toks[j].kind == "ident" and toks[j].text == "in"):
                if toks[j].kind == "punct" and toks[j].text == "{":
                    break
                j += 1
            if j < len(toks) and toks[j].text == "in":
                bo = _loop_body_open(toks, i)
                ex = [k for k in range(j + 1, bo) if toks[k].kind not in ("ws", "comment")]
                if (len(ex) == 5 and toks[ex[0]].kind == "ident" and toks[ex[1]].text == "." and toks[ex[2]].text == "values_mut"
                        and toks[ex[3]].text == "(" and toks[ex[4]].text == ")"):
                    n += 1
                    m = toks[ex[0]].text
                    pat = _strip_ws(toks[i + 1:j])
                    kn, iv = f"vm_keys{n}", f"vm_i{n}"
                    new = (synth(f"let {kn} = {m}.key_list(); ") + [toks[i]] + synth(f" {iv} in 0..{kn}.len() ") + [toks[bo]]
                           + synth(" let ") + pat + synth(f" = {m}.get_mut(&{kn}[{iv}]).unwrap();"))
                    toks = toks[:i] + new + toks[bo + 1:]
                    fired["valuesmut"] = fired.get("valuesmut", 0) + 1
                    i += len(new)
                    continue
        i += 1
    return toks


def rule_slicechk(toks, fired):
    """slicechk:  X[A..B]  ->  X[A..range_end_or_panic(B, sc_lenN)]  with `let sc_lenN = X.len();` in front of the statement
    (X a plain identifier; unit chordal_cgraph: `p[0..nnz]` in traverse).
    Twin of R13 for range indexing: a range whose end exceeds the length panics ("range end index out of range"); the unit declares
    `range_end_or_panic(e, len) -> e` with `ensures` only (e <= len), i.e. that panic is modelled as divergence and the code after it
    is verified under "the slice was taken".  Used ONLY where the bound is listed as an OPEN obligation in the unit header."""
    i = 0
    while i < len(toks):
        t = toks[i]
        if t.kind == "punct" and t.text == "[" and not t.syn:
            pv = prev_code(toks, i - 1)
            if pv >= 0 and toks[pv].kind == "ident" and toks[pv].text not in ("in", "return", "let", "mut", "if", "else", "match"):
                pe = match_close(toks, i)
                d, cut = 0, None
                for z in range(i + 1, pe):
                    x = toks[z]
                    if x.kind == "punct" and x.text in OPEN: d += 1
                    elif x.kind == "punct" and x.text in CLOSE: d -= 1
                    elif x.kind == "punct" and x.text == ".." and d == 0: cut = z
                if cut is not None and _strip_ws(toks[i + 1:cut]) and _strip_ws(toks[cut + 1:pe]):
                    nfired = fired.get("slicechk", 0) + 1
                    ln = f"sc_len{nfired}"
                    new = synth("range_end_or_panic(") + _strip_ws(toks[cut + 1:pe]) + synth(f", {ln})")
                    a, _b = stmt_bounds(toks, i)
                    pre = synth(f"let {ln} = {toks[pv].text}.len(); ")
                    toks = toks[:a] + pre + toks[a:cut + 1] + new + toks[pe:]
                    fired["slicechk"] = nfired
                    i = cut + len(pre) + len(new)
                    continue
        i += 1
    return toks


RULES["mapidx"] = rule_mapidx
RULES["valuesmut"] = rule_valuesmut
RULES["slicechk"] = rule_slicechk
RULE_ORDER[RULE_ORDER.index("R20"):RULE_ORDER.index("R20")] = ["mapidx", "valuesmut", "slicechk"]


def rule_extfilter(toks, fired):
    """extfilter:  T.extend(X.iter().filter(|&s| C));   ->   for s in X.iter() { if C { T.insert(*s); } }
    (unit chordal_cgraph: `tmp.extend(snode[c_ind].iter().filter(|&s| !separators[c_ind].contains(s)))` in split_cliques.)
    T an indexmap::IndexSet<usize>, X one too (its stand-in hands the members out as the slice `X.iter()`).  `impl Extend<&usize> for
    IndexSet<usize>` inserts a copy of every yielded element in iteration order; `filter` yields the items on which the predicate
    holds; the closure receives `&item` (item: &usize), so its `&s` pattern binds s = item, which is the loop variable.  Statement
    position only; C must not contain `return` / `?`."""
    i = 0
    while i < len(toks):
        mc = _method_call_at(toks, i, "extend")
        if mc is not None:
            dot, p, pe = mc
            last = prev_code(toks, pe - 1)
            if toks[last].text == ",":          # trailing comma of a multi-line argument list
                last = prev_code(toks, last - 1)
            semi = next_code(toks, pe + 1)
            if toks[last].text == ")" and semi < len(toks) and toks[semi].text == ";":
                # the argument must end in `.filter(..)` directly after `.iter()`
                depth, k = 0, last
                while k > p:
                    if toks[k].kind == "punct" and toks[k].text in CLOSE: depth += 1
                    if toks[k].kind == "punct" and toks[k].text in OPEN:
                        depth -= 1
                        if depth == 0: break
                    k -= 1
                fname = prev_code(toks, k - 1)
                fdot = prev_code(toks, fname - 1)
                if toks[fname].kind == "ident" and toks[fname].text == "filter" and toks[fdot].text == ".":
                    d_it = _empty_call_before(toks, fdot, "iter")
                    if d_it is not None:
                        pat, body = _closure_parts(toks, k, last)
                        pc = [x for x in pat if x.kind not in ("ws", "comment")]
                        if not (len(pc) == 2 and pc[0].text == "&" and pc[1].kind == "ident"):
                            raise ExtractError("extfilter: closure pattern is not `&ident`")
                        if any(x.kind == "ident" and x.text == "return" for x in body) or any(x.text == "?" for x in body):
                            raise ExtractError("extfilter: closure body with return / ?")
                        a = _postfix_start(toks, dot)
                        recv = _strip_ws(toks[a:dot])
                        src = _strip_ws(toks[next_code(toks, p + 1):fdot])
                        v = pc[1].text
                        new = ([_for_tok()] + synth(f" {v} in ") + src + synth(" { if ") + body + synth(" { ") + recv + synth(f".insert(*{v}); }} }}"))
                        toks = toks[:a] + new + toks[semi + 1:]
                        fired["extfilter"] = fired.get("extfilter", 0) + 1
                        i = a + 1
                        continue
        i += 1
    return toks


def rule_extid(toks, fired):
    """extid:  V.extend(IDENT)  ->  V.extend_from_slice(IDENT)     (unit chordal_cgraph: `neighbors.extend(rows)` in find_neighbors)
    for a Vec<T> V (T: Copy) and a local IDENT of type `&[T]`: `impl Extend<&T> for Vec<T>` appends a copy of every element in order,
    which is `extend_from_slice` (specified by vstd); the generic `Extend::extend` has no Verus specification.  Fires only when the
    argument is a single identifier (twin of rule extset)."""
    i = 0
    while i < len(toks):
        mc = _method_call_at(toks, i, "extend")
        if mc is not None:
            dot, p, pe = mc
            a1 = next_code(toks, p + 1)
            if toks[a1].kind == "ident" and next_code(toks, a1 + 1) == pe:
                toks[i].text = "extend_from_slice"
                fired["extid"] = fired.get("extid", 0) + 1
        i += 1
    return toks


RULES["extfilter"] = rule_extfilter
RULES["extid"] = rule_extid
RULE_ORDER[RULE_ORDER.index("R20"):RULE_ORDER.index("R20")] = ["extfilter", "extid"]


def rule_sortlenrev(toks, fired):
    """sortlenrev:  X.sort_by_key(|b| Reverse(b.len()))  ->  sort_sets_by_len_rev(X)     (unit chordal_cgraph: compute_reduced_clique_graph;
    X a `&mut [IndexSet]` variable - passing it to a `&mut [T]` parameter reborrows it exactly as the method call does).  The unit
    declares the helper with the ASSUMED documented behaviour of slice::sort_by_key with key `Reverse(len)`: a (stable) permutation
    of the elements with non-increasing lengths.  Any other closure is outside the rule."""
    i = 0
    while i < len(toks):
        mc = _method_call_at(toks, i, "sort_by_key")
        if mc is not None:
            dot, p, pe = mc
            pat, body = _closure_parts(toks, p, pe)
            pc = [x.text for x in pat if x.kind not in ("ws", "comment")]
            bc = [x.text for x in body if x.kind not in ("ws", "comment")]
            if len(pc) == 1 and bc == ["Reverse", "(", pc[0], ".", "len", "(", ")", ")"]:
                a = _postfix_start(toks, dot)
                new = synth("sort_sets_by_len_rev(") + _strip_ws(toks[a:dot]) + synth(")")
                toks = toks[:a] + new + toks[pe + 1:]
                fired["sortlenrev"] = fired.get("sortlenrev", 0) + 1
                i = a + 1
                continue
        i += 1
    return toks


def rule_posfirst(toks, fired):
    """posfirst:  X.iter().position(|x| C)  ->
         { let mut pf_rN: Option<usize> = None; let mut pf_iN: usize = 0; for x in X.iter() { if pf_rN.is_none() && C { pf_rN = Some(pf_iN); } pf_iN += 1; } pf_rN }
    (unit chordal_cgraph: is_unconnected).  Iterator::position: the index of the first item on which the predicate holds, None if
    there is none; the predicate is not evaluated after the first hit (`is_none() &&` short-circuits, as in R21).  The closure of
    `position` receives the item itself, which is the loop variable.  Fires only for a plain identifier pattern; C must not contain
    `return` / `?`.  The synthesized `+= 1` is an overflow obligation."""
    n = 0
    i = 0
    while i < len(toks):
        mc = _method_call_at(toks, i, "position")
        if mc is not None:
            d_it = _empty_call_before(toks, mc[0], "iter")
            if d_it is not None:
                pat, body = _closure_parts(toks, mc[1], mc[2])
                pc = [x for x in pat if x.kind not in ("ws", "comment")]
                if len(pc) == 1 and pc[0].kind == "ident":
                    if any(x.kind == "ident" and x.text == "return" for x in body) or any(x.text == "?" for x in body):
                        raise ExtractError("posfirst: closure body with return / ?")
                    a = _postfix_start(toks, d_it)
                    n += 1
                    rn, iv = f"pf_r{n}", f"pf_i{n}"
                    new = (synth(f"{{ let mut {rn}: Option<usize> = None; let mut {iv}: usize = 0; ") + [_for_tok()] + synth(f" {pc[0].text} in ")
                           + _strip_ws(toks[a:mc[0]]) + synth(f" {{ if {rn}.is_none() && ") + body + synth(f" {{ {rn} = Some({iv}); }} {iv} += 1; }} {rn} }}"))
                    toks = toks[:a] + new + toks[mc[2] + 1:]
                    fired["posfirst"] = fired.get("posfirst", 0) + 1
                    i = a + 1
                    continue
        i += 1
    return toks


RULES["sortlenrev"] = rule_sortlenrev
RULES["posfirst"] = rule_posfirst
RULE_ORDER[RULE_ORDER.index("R20"):RULE_ORDER.index("R20")] = ["sortlenrev", "posfirst"]


# ---- rule added for unit composite2 (additive) ----
def rule_mapidxf(toks, fired):
    """mapidxf:  X.F[&K]  ->  (*X.F.at(&K))      (unit composite2: `self.type_counts[&tag]`)
    The twin of `mapidx` for a map reached through a field path (mapidx only takes a bare identifier).  Indexing with a *reference* is
    only defined for maps (`impl Index<&Q> for HashMap`, "Panics if the key is not present"); the stand-in's `at(&self, k) -> &V` carries the
    panic condition as precondition; `a[b]` in value position is sugar for `*a.index(b)`."""
    i = 0
    while i < len(toks):
        t = toks[i]
        if t.kind == "punct" and t.text == "[" and not t.syn:
            pv = prev_code(toks, i - 1)
            nx = next_code(toks, i + 1)
            if pv >= 0 and toks[pv].kind == "ident" and nx < len(toks) and toks[nx].text == "&":
                ppv = prev_code(toks, pv - 1)
                if ppv >= 0 and toks[ppv].text == ".":
                    a = _postfix_start(toks, ppv)
                    pe = match_close(toks, i)
                    new = synth("(*") + toks[a:pv + 1] + synth(".at(") + toks[i + 1:pe] + synth("))")
                    toks = toks[:a] + new + toks[pe + 1:]
                    fired["mapidxf"] = fired.get("mapidxf", 0) + 1
                    i = a + len(new)
                    continue
        i += 1
    return toks


RULES["mapidxf"] = rule_mapidxf
RULE_ORDER[RULE_ORDER.index("R20"):RULE_ORDER.index("R20")] = ["mapidxf"]


# ---- rule added for unit chordal_compact2 (additive) ----
def rule_zipnext(toks, fired, names):
    """zipnext:NAME|..  :  for (P1, P2) in zip(A, NAME) { B }   ->   for P1 in A.iter() { let P2 = NAME.next().unwrap(); B }
    and `let NAME = ..` becomes `let mut NAME = ..`      (unit chordal_compact2: `zip(cones, row_ranges)` with the iterator OBJECT
    `row_ranges = cones.rng_cones_iter()`; runs after R3, which has peeled an `.enumerate()` off).
    NAME is a local iterator object (not a slice: R14 cannot index it), A a `&Vec` / slice.  Zip::next calls A's `next` first and NAME's
    second and stops when either returns None; NAME is not used after the loop (it is moved into `zip`).  The synthesized `unwrap()` is a
    proof obligation "NAME yields at least as many items as A": when it is discharged the two loops run the same bodies on the same
    items in the same order (if NAME could run out first, the original would stop silently - the emitted text then does not verify)."""
    i = 0
    while i < len(toks):
        t = toks[i]
        if t.kind == "ident" and t.text == "for" and not t.syn:
            p = next_code(toks, i + 1)
            if toks[p].text == "(":
                pe = match_close(toks, p)
                inn = next_code(toks, pe + 1)
                bo = _loop_body_open(toks, i)
                ex = [k for k in range(inn + 1, bo) if toks[k].kind not in ("ws", "comment")]
                if (toks[inn].text == "in" and len(ex) == 6 and toks[ex[0]].text == "zip" and toks[ex[1]].text == "(" and toks[ex[2]].kind == "ident"
                        and toks[ex[3]].text == "," and toks[ex[4]].kind == "ident" and toks[ex[4]].text in names and toks[ex[5]].text == ")"):
                    parts = split_top_commas(toks, p + 1, pe)
                    if len(parts) != 2:
                        raise ExtractError("zipnext: pattern is not a pair")
                    (a0, b0), (a1, b1) = parts
                    P1 = _strip_ws(toks[a0:b0]); P2 = _strip_ws(toks[a1:b1])
                    A = toks[ex[2]].text; NAME = toks[ex[4]].text
                    new = ([toks[i]] + synth(" ") + P1 + synth(f" in {A}.iter() ") + [toks[bo]] + synth(" let ") + P2 + synth(f" = {NAME}.next().unwrap();"))
                    toks = toks[:i] + new + toks[bo + 1:]
                    # the binding of NAME becomes mutable
                    for k in range(i - 1, -1, -1):
                        if toks[k].kind == "ident" and toks[k].text == NAME and not toks[k].syn:
                            pv = prev_code(toks, k - 1)
                            if pv >= 0 and toks[pv].kind == "ident" and toks[pv].text == "let":
                                toks = toks[:k] + synth("mut ") + toks[k:]
                                i += 1
                                break
                    fired["zipnext"] = fired.get("zipnext", 0) + 1
                    i += len(new)
                    continue
        i += 1
    return toks


def rule_structinto(toks, fired):
    """structinto:  NAME { fields }.into()  ->  NAME_into(NAME { fields })      (unit chordal_compact2: `SparseVector { .. }.into()`)
    `Into::into` for a user type is the user's `From::from`; a Verus impl of std's `From` cannot carry the `requires` that the body's
    indexing needs, so the unit declares a free function `<name>_into` (lower-cased type name) with the contract of that `from`
    (its index obligations as precondition).  Fires only when the receiver is a struct literal."""
    i = 0
    while i < len(toks):
        mc = _method_call_at(toks, i, "into")
        if mc is not None and next_code(toks, mc[1] + 1) == mc[2]:
            q = prev_code(toks, mc[0] - 1)
            if q >= 0 and toks[q].text == "}":
                depth, k = 0, q
                while k >= 0:
                    if toks[k].kind == "punct" and toks[k].text in CLOSE: depth += 1
                    if toks[k].kind == "punct" and toks[k].text in OPEN:
                        depth -= 1
                        if depth == 0: break
                    k -= 1
                nm = prev_code(toks, k - 1)
                if k >= 0 and nm >= 0 and toks[nm].kind == "ident" and toks[nm].text[:1].isupper():
                    fn = {"SparseVector": "sparse_into"}.get(toks[nm].text, toks[nm].text.lower() + "_into")
                    new = synth(fn + "(") + toks[nm:q + 1] + synth(")")
                    toks = toks[:nm] + new + toks[mc[2] + 1:]
                    fired["structinto"] = fired.get("structinto", 0) + 1
                    i = nm + 1
                    continue
        i += 1
    return toks


RULES["structinto"] = rule_structinto
RULE_ORDER[RULE_ORDER.index("R20"):RULE_ORDER.index("R20")] = ["structinto"]


def rule_tupassignc(toks, fired):
    """tupassignc (unit chordal_compact2):  (X1, .., Xk) = F(ARGS);   ->   let ta_tN = F(ARGS); X1 = ta_tN.0; .. Xk = ta_tN.(k-1);
    Destructuring assignment from a CALL (Verus does not support it).  Rust evaluates the right-hand side completely (the arguments may
    mention the Xi: they see the OLD values) and then assigns left to right - which is what the emitted text does.  Fires only when
    every Xi is a plain identifier and the right-hand side is a single call `IDENT(..)`."""
    n = 0
    i = 0
    while i < len(toks):
        t = toks[i]
        if t.kind == "punct" and t.text == "(" and not t.syn:
            pv = prev_code(toks, i - 1)
            if pv >= 0 and toks[pv].kind == "punct" and toks[pv].text in (";", "{", "}"):
                pe = match_close(toks, i)
                eq = next_code(toks, pe + 1)
                f = next_code(toks, eq + 1) if eq < len(toks) else len(toks)
                fp = next_code(toks, f + 1) if f < len(toks) else len(toks)
                if eq < len(toks) and toks[eq].text == "=" and fp < len(toks) and toks[f].kind == "ident" and toks[fp].text == "(":
                    fe = match_close(toks, fp)
                    semi = next_code(toks, fe + 1)
                    lhs = split_top_commas(toks, i + 1, pe)
                    if semi < len(toks) and toks[semi].text == ";" and len(lhs) >= 2:
                        names = []
                        for (a, b) in lhs:
                            code = [x for x in toks[a:b] if x.kind not in ("ws", "comment")]
                            if len(code) != 1 or code[0].kind != "ident":
                                raise ExtractError("tupassignc: left-hand side is not a tuple of plain identifiers")
                            names.append(code[0].text)
                        n += 1
                        tn = f"ta_t{n}"
                        out = synth(f"let {tn} = ") + toks[f:fe + 1] + synth("; ")
                        for k, nm in enumerate(names):
                            out += synth(f"{nm} = {tn}.{k}; ")
                        toks = toks[:i] + out + toks[semi + 1:]
                        fired["tupassignc"] = fired.get("tupassignc", 0) + 1
                        i += len(out)
                        continue
        i += 1
    return toks


RULES["tupassignc"] = rule_tupassignc
RULE_ORDER[RULE_ORDER.index("R20"):RULE_ORDER.index("R20")] = ["tupassignc"]


def apply_rules(toks, rules, fired):
    for r in RULE_ORDER:
        if r in rules:
            toks = RULES[r](toks, fired)
        if r == "R3":
            # R14 runs after R3 (enumerate counters) and before R5 (ref patterns are consumed by R14 itself)
            for z in rules:
                if z.startswith("zipidx"):
                    which = {}
                    arg = z[len("zipidx"):].lstrip(":")
                    if arg in ("", "*"):
                        which["*"] = ""
                    else:
                        for part in arg.split(";"):
                            k, _, v = part.partition("=")
                            which[int(k) if k != "*" else "*"] = v
                    toks = rule_R14(toks, fired, which)
    for r in rules:
        if r.startswith("drop:"):
            toks = rule_drop_stmt(toks, fired, r[5:])
        elif r.startswith("zipidx"):
            pass
        elif r.startswith("R16:"):
            toks = rule_R16(toks, fired, [b for b in r[4:].split("|") if b])
        elif r.startswith("R15:"):
            toks = rule_R15(toks, fired, [b for b in r[4:].split("|") if b])
        elif r.startswith("R15r:"):
            toks = rule_R15(toks, fired, [b for b in r[5:].split("|") if b], any_index=True)
        elif r.startswith("tparam:"):
            a, _, b = r[7:].partition(">")
            toks = rule_R1(toks, fired, a, b)
        elif r.startswith("setiter:"):
            toks = rule_setiter(toks, fired, [b for b in r[8:].split("|") if b])
        elif r.startswith("fnptr:"):
            toks = rule_fnptr(toks, fired, [b for b in r[6:].split("|") if b])
        elif r.startswith("vecsort:"):
            toks = rule_vecsort(toks, fired, [b for b in r[8:].split("|") if b])
        elif r.startswith("vecsortr:"):
            toks = rule_vecsortr(toks, fired, [b for b in r[9:].split("|") if b])
        elif r.startswith("rangesort:"):
            toks = rule_rangesort(toks, fired, [b for b in r[10:].split("|") if b])
        elif r.startswith("setextend:"):
            toks = rule_setextend(toks, fired, [b for b in r[10:].split("|") if b])
        elif r.startswith("zipnext:"):
            toks = rule_zipnext(toks, fired, [b for b in r[8:].split("|") if b])
        elif r not in RULES:
            raise ExtractError(f"unknown rule {r}")
    return toks


def rule_drop_stmt(toks, fired, needle):
    """drop:<code>  – remove the one statement that contains the token sequence <code> (stated in evidence)"""
    pat = sig(lex(needle))
    ci = code_idx(toks)
    texts = [toks[i].text for i in ci]
    hits = [k for k in range(len(texts) - len(pat) + 1) if texts[k:k + len(pat)] == pat]
    if len(hits) != 1:
        raise ExtractError(f"lost anchor: drop:{needle!r} matches {len(hits)} times")
    a, b = stmt_bounds(toks, ci[hits[0]])
    fired["drop:" + needle] = 1
    return toks[:a] + toks[b + 1:]


def stmt_bounds(toks, i):
    """token index range [a,b] of the statement containing token i (b = its terminating ';' or '}' of a block statement)"""
    # walk back to previous ';' '{' or '}' at same depth
    a = i
    depth = 0
    j = i - 1
    while j >= 0:
        t = toks[j]
        if t.kind == "punct":
            if t.text in CLOSE:
                if depth == 0 and t.text == "}":
                    # a '}' that ends a block statement (for/while/if/match ...) is a statement boundary:
                    # recognised by what follows it (a new statement starts with an identifier / deref)
                    nx = next_code(toks, j + 1)
                    if nx < len(toks) and ((toks[nx].kind == "ident" and toks[nx].text not in ("else", "as"))
                                           or toks[nx].text in ("*", "#") or toks[nx].kind == "lifetime"):
                        break
                depth += 1
            elif t.text in OPEN:
                if depth == 0:
                    break
                depth -= 1
            elif t.text == ";" and depth == 0:
                break
        j -= 1
    a = next_code(toks, j + 1)
    # careful: a '}' at depth 0 ending a previous block statement
    # walk forward to ';' at depth 0
    b = i
    depth = 0
    block_stmt = (toks[a].kind == "ident" and toks[a].text in ("if", "for", "while", "loop", "match", "unsafe")) \
        or (toks[a].kind == "punct" and toks[a].text == "{")
    while b < len(toks):
        t = toks[b]
        if t.kind == "punct":
            if t.text in OPEN:
                was_brace = t.text == "{"
                b = match_close(toks, b)
                if block_stmt and was_brace:
                    nx = next_code(toks, b + 1)
                    if not (nx < len(toks) and toks[nx].kind == "ident" and toks[nx].text == "else"):
                        break      # a block statement ends with its closing brace
            elif t.text == ";":
                break
            elif t.text in CLOSE:
                b -= 1
                break
        b += 1
    return a, b


# --------------------------------------------------------------------------- annotation merge

def bracket(text):
    return [Tok("comment", S_OPEN, -1, True)] + [Tok("annot", text, -1, True)] + [Tok("comment", S_CLOSE, -1, True)]


def loops_of(toks, lo, hi):
    """loop keyword indices in source order (closures included)"""
    return [i for i in range(lo, hi) if toks[i].kind == "ident" and toks[i].text in ("for", "while", "loop")
            and not (toks[i].text == "for" and toks[next_code(toks, i + 1)].text == "<")]


def merge_fn(toks, opts, sections, fired):
    """insert return name, contract and loop annotations into the (already rule-rewritten) fn token list"""
    ins = {}  # index -> list of tokens inserted BEFORE toks[index]

    def add(i, ts):
        ins.setdefault(i, []).extend(ts)

    he = fn_header_end(toks)
    has_body = toks[he].text == "{"
    # rename
    if "as" in opts:
        k = next(i for i, t in enumerate(toks) if t.kind == "ident" and t.text == "fn")
        nm = next_code(toks, k + 1)
        add(nm, bracket("/*renamed*/"))
        toks[nm].text = opts["as"]
    # return value name
    arrow = None
    i = 0
    while i < he:
        t = toks[i]
        if t.kind == "punct" and t.text in ("(", "["):
            i = match_close(toks, i)
        elif t.kind == "punct" and t.text == "<":
            i = match_angle(toks, i)
        elif t.kind == "punct" and t.text == "->":
            arrow = i
            break
        i += 1
    if arrow is not None and opts.get("ret"):
        rs = next_code(toks, arrow + 1)
        # end of return type: 'where' or header end
        re_ = he
        j = rs
        while j < he:
            if toks[j].kind == "ident" and toks[j].text == "where":
                re_ = j; break
            if toks[j].kind == "punct" and toks[j].text in ("(", "["):
                j = match_close(toks, j)
            j += 1
        last = prev_code(toks, re_ - 1)
        add(rs, bracket("(%s: " % opts["ret"]))
        add(last + 1, bracket(")"))
    if opts.get("attrs"):
        add(0, bracket(opts["attrs"] + "\n"))
    if "contract" in sections:
        add(he, bracket("\n" + sections["contract"] + "\n"))
    if not has_body:
        out = []
        for i, t in enumerate(toks):
            out.extend(ins.get(i, []))
            out.append(t)
        return out
    bc = match_close(toks, he)
    lps = loops_of(toks, he + 1, bc)
    # $var<k> in an annotation = the loop variable of for-loop k (when its pattern is a plain identifier): annotations then
    # survive a renaming of the variable, and a reordering of loops shows up as a failed obligation, not as a compile error
    def _loopvar(k):
        li = lps[k - 1]
        if toks[li].text != "for":
            raise ExtractError(f"lost anchor: $var{k}: loop {k} is not a for loop")
        a = next_code(toks, li + 1)
        b = next_code(toks, a + 1)
        if toks[a].kind == "ident" and toks[b].kind == "ident" and toks[b].text == "in":
            return toks[a].text
        raise ExtractError(f"lost anchor: $var{k}: the pattern of loop {k} is not a plain identifier")
    for key in list(sections.keys()):
        if isinstance(sections[key], str) and "$var" in sections[key]:
            def _sub(m):
                k = int(m.group(1))
                if k > len(lps):
                    raise ExtractError(f"lost anchor: $var{k} but function has {len(lps)} loops")
                return _loopvar(k)
            sections[key] = re.sub(r"\$var(\d+)", _sub, sections[key])
    want_n = sections.get("nloops")
    maxk = 0
    for key in sections:
        m = re.fullmatch(r"(loop|before_loop|after_loop|body_start|body_end|iter) (\d+)", key)
        if m:
            maxk = max(maxk, int(m.group(2)))
    if want_n is not None and int(want_n) != len(lps):
        raise ExtractError(f"lost anchor: function has {len(lps)} loops, annotations expect {want_n}")
    if maxk > len(lps):
        raise ExtractError(f"lost anchor: annotation for loop {maxk} but function has {len(lps)} loops")
    for key, text in sections.items():
        m = re.fullmatch(r"(loop|before_loop|after_loop|body_start|body_end|iter) (\d+)", key)
        if m:
            kind, k = m.group(1), int(m.group(2))
            li = lps[k - 1]
            bo = _loop_body_open(toks, li)
            if kind == "iter":
                # name the ghost iterator of a for loop:  for x in /*@<*/it: /*@>*/EXPR
                if toks[li].text != "for":
                    raise ExtractError(f"lost anchor: loop {k} is not a for loop")
                j = li + 1
                while not (toks[j].kind == "ident" and toks[j].text == "in"):
                    if toks[j].kind == "punct" and toks[j].text in ("(", "["):
                        j = match_close(toks, j)
                    j += 1
                add(next_code(toks, j + 1), bracket((text.strip() or "it") + ": "))
            elif kind == "loop":
                add(bo, bracket("\n" + text + "\n"))
            elif kind == "before_loop":
                # skip a loop label
                p = prev_code(toks, li - 1)
                tgt = li
                if toks[p].text == ":" and toks[prev_code(toks, p - 1)].kind == "lifetime":
                    tgt = prev_code(toks, p - 1)
                add(tgt, bracket(text + "\n"))
            elif kind == "after_loop":
                # (additive, unit nonsym_cones) ghost text right after the closing brace of loop k
                add(match_close(toks, bo) + 1, bracket("\n" + text + "\n"))
            elif kind == "body_start":
                add(bo + 1, bracket("\n" + text + "\n"))
            elif kind == "body_end":
                add(match_close(toks, bo), bracket("\n" + text + "\n"))
        m = re.fullmatch(r'(before|after) (.+)', key)
        if m and m.group(1) in ("before", "after") and not re.fullmatch(r"(before_loop|after_loop) \d+", key):
            needle = m.group(2).strip()
            nth = None
            mo = re.fullmatch(r'(".*")\s*#(\d+)', needle)     # "code" #k : the k-th occurrence (1-based)
            if mo:
                needle, nth = mo.group(1), int(mo.group(2))
            if needle.startswith('"'):
                needle = needle[1:-1]
            pat = sig(lex(needle))
            ci = [i for i in code_idx(toks) if he < i < bc]
            texts = [toks[i].text for i in ci]
            hits = [k for k in range(len(texts) - len(pat) + 1) if texts[k:k + len(pat)] == pat]
            if nth is not None:
                if len(hits) < nth and len(pat) > 3:
                    # anchor fallback for the k-th occurrence (see below): longest proper prefix (>= 3 tokens) that occurs at
                    # least k times; one of the occurrences was edited, the k-th statement of that shape is still the k-th
                    for plen in range(len(pat) - 1, 2, -1):
                        sub = pat[:plen]
                        h2 = [k for k in range(len(texts) - plen + 1) if texts[k:k + plen] == sub]
                        if len(h2) >= nth:
                            hits = h2
                            fired["anchor_fallback"] = fired.get("anchor_fallback", 0) + 1
                            break
                if len(hits) < nth:
                    raise ExtractError(f"lost anchor: {key!r} matches {len(hits)} times")
                hits = [hits[nth - 1]]
            if len(hits) == 0 and nth is None and len(pat) > 3:
                # anchor fallback: the anchored statement itself was edited.  Take the longest proper token prefix of the anchor
                # (at least 3 tokens) that still occurs exactly once: the annotation then sits at the same statement, and what the
                # edit did to it is judged by the verifier (a failed obligation) instead of ending as "lost anchor".  On the
                # unchanged tree the full anchor matches, so this path is never taken there.
                for plen in range(len(pat) - 1, 2, -1):
                    sub = pat[:plen]
                    h2 = [k for k in range(len(texts) - plen + 1) if texts[k:k + plen] == sub]
                    if len(h2) == 1:
                        hits = h2
                        fired["anchor_fallback"] = fired.get("anchor_fallback", 0) + 1
                        break
                    if len(h2) > 1:
                        break
            if len(hits) != 1:
                raise ExtractError(f"lost anchor: {key!r} matches {len(hits)} times")
            a, b = stmt_bounds(toks, ci[hits[0]])
            if m.group(1) == "before":
                add(a, bracket(text + "\n"))
            else:
                add(b + 1, bracket("\n" + text + "\n"))
    # //@closure k : first line = parameter types (comma separated), rest = return binder and spec of the k-th closure
    #   |x| BODY   ->   |x/*@<*/: F/*@>*/| /*@<*/-> (r: F) ensures .. {/*@>*/ BODY /*@<*/}/*@>*/
    clos = [i for i in range(he + 1, bc) if toks[i].kind == "punct" and toks[i].text == "|"
            and toks[prev_code(toks, i - 1)].text in ("(", ",", "=", "return")]
    for key, text in sections.items():
        m = re.fullmatch(r"closure (\d+)", key)
        if not m:
            continue
        k = int(m.group(1))
        if k > len(clos):
            raise ExtractError(f"lost anchor: annotation for closure {k} but function has {len(clos)} closures")
        c0 = clos[k - 1]
        c1 = c0 + 1
        while toks[c1].text != "|":
            if toks[c1].kind == "punct" and toks[c1].text in ("(", "["):
                c1 = match_close(toks, c1)
            c1 += 1
        lines = text.strip("\n").split("\n")
        spec = " ".join(l.strip() for l in lines[1:])
        nxt = next_code(toks, c1 + 1)
        if lines[0].strip() == "=" and toks[nxt].text == "->":
            # the closure is already typed:  |s: &[T]| -> bool { .. }   ->   |s: &[T]| -> (b: bool) ensures .. { .. }
            mm = re.match(r"\((\w+):[^)]*\)\s*(.*)", spec)
            if not mm:
                raise ExtractError(f"closure {k}: annotation must look like `(b: T) ensures ..`")
            rs = next_code(toks, nxt + 1)
            bo_ = rs
            while not (toks[bo_].kind == "punct" and toks[bo_].text == "{"):
                if toks[bo_].kind == "punct" and toks[bo_].text in ("(", "["):
                    bo_ = match_close(toks, bo_)
                bo_ += 1
            add(rs, bracket("(" + mm.group(1) + ": "))
            add(prev_code(toks, bo_ - 1) + 1, bracket(") " + mm.group(2) + " "))
            continue
        types = [x.strip() for x in lines[0].split(",")]
        params = split_top_commas(toks, c0 + 1, c1)
        if len(params) != len(types):
            raise ExtractError(f"lost anchor: closure {k} has {len(params)} parameters, annotation gives {len(types)} types")
        for (pa, pb), ty in zip(params, types):
            add(prev_code(toks, pb - 1) + 1, bracket(": " + ty))
        # body end: the top-level ',' or ')' that ends the closure argument
        e = c1 + 1
        depth = 0
        while True:
            x = toks[e]
            if x.kind == "punct" and x.text in OPEN:
                e = match_close(toks, e) + 1
                continue
            if x.kind == "punct" and (x.text in CLOSE or x.text == ","):
                break
            e += 1
        add(c1 + 1, bracket(" -> " + " ".join(l.strip() for l in lines[1:]) + " { "))
        add(e, bracket(" }"))
    # //@closure0 k : return binder and spec of the k-th ZERO-parameter closure (`|| BODY`, lexed as one `||` token; counted
    # separately from the `|x| ..` closures above so that their ordinals do not move)
    #   || BODY   ->   || /*@<*/-> (r: T) ensures .. {/*@>*/ BODY /*@<*/}/*@>*/
    clos0 = [i for i in range(he + 1, bc) if toks[i].kind == "punct" and toks[i].text == "||"
             and toks[prev_code(toks, i - 1)].text in ("(", ",", "=", "return")]
    for key, text in sections.items():
        m = re.fullmatch(r"closure0 (\d+)", key)
        if not m:
            continue
        k = int(m.group(1))
        if k > len(clos0):
            raise ExtractError(f"lost anchor: annotation for zero-parameter closure {k} but function has {len(clos0)}")
        c1 = clos0[k - 1]
        e = c1 + 1
        while True:
            x = toks[e]
            if x.kind == "punct" and x.text in OPEN:
                e = match_close(toks, e) + 1
                continue
            if x.kind == "punct" and (x.text in CLOSE or x.text == ","):
                break
            e += 1
        add(c1 + 1, bracket(" -> " + " ".join(l.strip() for l in text.strip("\n").split("\n")) + " { "))
        add(e, bracket(" }"))
    # //@after_stmt k / //@before_stmt k : the k-th top-level statement of the body (positional: survives reordering)
    if any(re.fullmatch(r"(after|before)_stmt \d+", k_) for k_ in sections):
        tops = []
        q = next_code(toks, he + 1)
        while q < bc:
            a_, b_ = stmt_bounds(toks, q)
            tops.append((a_, b_))
            q = next_code(toks, b_ + 1)
        for key, text in sections.items():
            m = re.fullmatch(r"(after|before)_stmt (\d+)", key)
            if not m:
                continue
            k = int(m.group(2))
            if k > len(tops):
                raise ExtractError(f"lost anchor: {key} but the body has {len(tops)} statements")
            if m.group(1) == "before":
                add(tops[k - 1][0], bracket(text + "\n"))
            else:
                add(tops[k - 1][1] + 1, bracket("\n" + text + "\n"))
    if "pre" in sections:
        add(he + 1, bracket("\n" + sections["pre"] + "\n"))
    if "post" in sections:
        nm = opts.get("ret") or "ret_unit"
        add(he + 1, bracket(" let %s_v = {" % nm))
        add(bc, bracket("};\n" + sections["post"] + "\n%s_v " % nm))
    out = []
    for i, t in enumerate(toks):
        out.extend(ins.get(i, []))
        out.append(t)
    return out


def rename_params(toks, names, fired):
    """alpha-rename the non-self parameters of a fn to the given names (contracts refer to parameters by name; a
    parameter that was merely renamed in the source, e.g. x -> _x, must not make the unit fail to compile)"""
    k = next(i for i, t in enumerate(toks) if t.kind == "ident" and t.text == "fn")
    p = k
    while toks[p].text != "(":
        if toks[p].text == "<":
            p = match_angle(toks, p)
        p += 1
    pe = match_close(toks, p)
    cur = []
    for (a, b) in split_top_commas(toks, p + 1, pe):
        seg = [t for t in toks[a:b] if t.kind not in ("ws", "comment")]
        txt = [t.text for t in seg]
        if "self" in txt[:3]:
            continue
        # pattern: [mut] name : type
        nm = seg[1] if seg[0].text == "mut" else seg[0]
        if nm.kind != "ident":
            raise ExtractError("params=: parameter pattern is not an identifier")
        cur.append(nm.text)
    if len(cur) != len(names):
        raise ExtractError(f"lost anchor: function has {len(cur)} parameters, annotations expect {len(names)}")
    ren = {c: n for c, n in zip(cur, names) if c != n and n != "-"}
    if ren:
        clash = {t.text for t in toks if t.kind == "ident"} & (set(ren.values()) - set(cur))
        if clash:
            raise ExtractError(f"params=: renaming would capture {clash}")
        for t in toks:
            if t.kind == "ident" and t.text in ren:
                t.text = ren[t.text]
        fired["params_renamed"] = len(ren)
    return toks


def auto_unprefix_params(toks, sections, fired):
    """a parameter that the source (now) spells `_x` while the annotations of the unit speak of `x` (and never of `_x`) is
    alpha-renamed to `x`: marking a parameter as unused is not a change of behaviour, and the contract must keep applying
    (an edit that stops USING a parameter is then judged by the verifier instead of ending as a compile error).  Nothing
    happens on a tree where the names agree."""
    try:
        k = next(i for i, t in enumerate(toks) if t.kind == "ident" and t.text == "fn")
        p = k
        while toks[p].text != "(":
            if toks[p].text == "<":
                p = match_angle(toks, p)
            p += 1
        pe = match_close(toks, p)
    except Exception:
        return toks
    ann = "\n".join(v for v in sections.values() if isinstance(v, str))
    ann_ids = set(re.findall(r"[^\W\d]\w*", ann, re.UNICODE))
    allids = {t.text for t in toks if t.kind == "ident"}
    ren = {}
    for (a, b) in split_top_commas(toks, p + 1, pe):
        seg = [t for t in toks[a:b] if t.kind not in ("ws", "comment")]
        if not seg or "self" in [t.text for t in seg[:3]]:
            continue
        nm = seg[1] if seg[0].text == "mut" and len(seg) > 1 else seg[0]
        if nm.kind != "ident" or not nm.text.startswith("_") or len(nm.text) < 2:
            continue
        bare = nm.text[1:]
        if bare in ann_ids and nm.text not in ann_ids and bare not in allids:
            ren[nm.text] = bare
    if ren:
        for t in toks:
            if t.kind == "ident" and t.text in ren:
                t.text = ren[t.text]
        fired["params_unprefixed"] = len(ren)
    return toks


def strip_sentinels(text):
    out, i = [], 0
    while True:
        a = text.find(S_OPEN, i)
        if a < 0:
            out.append(text[i:]); break
        out.append(text[i:a])
        b = text.find(S_CLOSE, a)
        if b < 0:
            raise ExtractError("unbalanced sentinel")
        i = b + len(S_CLOSE)
    return "".join(out)


# --------------------------------------------------------------------------- struct / enum / trait

def filter_fields(toks, keep, fired):
    """keep only the named fields of a struct item (dropped fields are listed in the evidence)"""
    bo = next(i for i, t in enumerate(toks) if t.kind == "punct" and t.text == "{")
    bc = match_close(toks, bo)
    parts = split_top_commas(toks, bo + 1, bc)
    out = toks[:bo + 1]
    names = []
    for (a, b) in parts:
        seg = toks[a:b]
        # field name = ident before first top-level ':'
        nm = None
        k = 0
        while k < len(seg):
            t = seg[k]
            if t.kind == "punct" and t.text == ":":
                p = prev_code(seg, k - 1)
                nm = seg[p].text
                break
            if t.kind == "punct" and t.text in ("(", "["):
                k = match_close(seg, k)
            k += 1
        if nm is None:
            raise ExtractError("struct field without name")
        names.append(nm)
        cfg_on = True
        for k2, t2 in enumerate(seg):
            if t2.kind == "punct" and t2.text == "#":
                b3 = next_code(seg, k2 + 1)
                if seg[b3].text == "[":
                    atxt = norm(untok(seg[k2:match_close(seg, b3) + 1]))
                    if atxt.startswith("#[cfg("):
                        cfg_on = cfg_on and eval_cfg(atxt[len("#[cfg("):-2])
        if not cfg_on:
            fired.setdefault("cfg_off_fields", []).append(nm)
            names.pop()
            continue
        if keep is None or nm in keep or translit(nm) in keep:
            # strip attributes / doc comments of the field
            seg2 = []
            k = 0
            while k < len(seg):
                t = seg[k]
                if t.kind == "punct" and t.text == "#":
                    b2 = next_code(seg, k + 1)
                    if seg[b2].text == "[":
                        k = match_close(seg, b2) + 1
                        continue
                if t.kind == "comment":
                    k += 1
                    continue
                seg2.append(t); k += 1
            # visibility widened to `pub` (Verus: pub open spec fns may only read pub fields); stated drop
            f0 = next_code(seg2, 0)
            if seg2[f0].kind == "ident" and seg2[f0].text == "pub":
                f1 = next_code(seg2, f0 + 1)
                if seg2[f1].text == "(":
                    seg2 = seg2[:f1] + seg2[match_close(seg2, f1) + 1:]
                    fired["vis_pub"] = fired.get("vis_pub", 0) + 1
            else:
                seg2 = seg2[:f0] + [S("pub"), S(" ", "ws")] + seg2[f0:]
                fired["vis_pub"] = fired.get("vis_pub", 0) + 1
            out += seg2 + [S(",")]
        else:
            fired.setdefault("dropped_fields", []).append(nm)
    if keep is not None:
        missing = [k for k in keep if k not in names and k not in [translit(n) for n in names]]
        if missing:
            raise ExtractError(f"lost anchor: struct fields {missing} not found")
    out += [S("\n", "ws")] + toks[bc:]
    return out


import threading
_FEAT = threading.local()      # per thread: check.py extracts several units concurrently in one process
def _features():
    return getattr(_FEAT, "v", {"serde"})


def eval_cfg(expr):
    """evaluate a whitespace-free cfg predicate for the crate's default feature set"""
    m = re.fullmatch(r'feature="([\w-]+)"', expr)
    if m:
        return m.group(1) in _features()
    m = re.fullmatch(r'not\((.*)\)', expr)
    if m:
        return not eval_cfg(m.group(1))
    m = re.fullmatch(r'(any|all)\((.*)\)', expr)
    if m:
        parts, depth, cur = [], 0, ""
        for ch in m.group(2):
            if ch == "(": depth += 1
            if ch == ")": depth -= 1
            if ch == "," and depth == 0:
                parts.append(cur); cur = ""
            else:
                cur += ch
        if cur: parts.append(cur)
        vals = [eval_cfg(x) for x in parts]
        return any(vals) if m.group(1) == "any" else all(vals)
    raise ExtractError("unsupported cfg predicate: " + expr)


def strip_generic_bounds(toks):
    """struct Foo<T: X = f64> where ..  ->  struct Foo<T>"""
    k = next(i for i, t in enumerate(toks) if t.kind == "ident" and t.text in ("struct", "enum"))
    nm = next_code(toks, k + 1)
    g = next_code(toks, nm + 1)
    if toks[g].text != "<":
        return toks
    ge = match_angle(toks, g)
    parts = split_top_commas(toks, g + 1, ge)
    names = []
    for (a, b) in parts:
        f = next_code(toks, a)
        names.append(toks[f].text)
    new = toks[:g + 1] + synth(", ".join(names)) + toks[ge:]
    # drop a where clause before '{'
    bo = next(i for i, t in enumerate(new) if t.kind == "punct" and t.text == "{")
    w = [i for i in range(bo) if new[i].kind == "ident" and new[i].text == "where"]
    if w:
        new = new[:w[0]] + new[bo:]
    return new


# --------------------------------------------------------------------------- template processing

def parse_kv(s):
    out = {}
    for part in shlex.split(s):
        if "=" in part:
            k, v = part.split("=", 1)
            out[k] = v
        else:
            out[part] = True
    return out


class Unit:
    def __init__(self, name):
        self.name = name
        self.out = []          # list of text chunks
        self.items = []        # metadata of extracted items
        self.offset = 0
        self.handwritten_lines = 0

    def emit(self, text):
        self.out.append(text)
        self.offset += len(text.encode("utf-8"))


def render_item(unit, kind, opts, sections):
    rules = [r for r in opts.get("rules", "").split(",") if r]
    fired = {}
    name = opts["name"]
    kw = {"fn": "fn", "struct": "struct", "enum": "enum", "const": "const", "trait": "trait", "type": "type"}[kind]
    src, toks, a, b = locate_item(opts["file"], kw, name, opts.get("in"))
    orig = [Tok(t.kind, t.text, t.pos) for t in toks[a:b + 1]]
    orig_text = untok(orig)
    item = [Tok(t.kind, t.text, t.pos) for t in orig]
    if kind in ("struct", "enum"):
        if kind == "enum":
            item = rule_R12(item, fired)
        item = strip_generic_bounds(item)
        if kind == "struct" and ("keep" in opts):
            item = filter_fields(item, [k for k in opts["keep"].split(",") if k], fired)
        elif kind == "struct":
            item = filter_fields(item, None, fired)
        item = [t for t in item if t.kind != "comment"]
        # item visibility widened to `pub` (pub open spec fns must be able to name the type); stated drop
        kwi = next(i for i, t in enumerate(item) if t.kind == "ident" and t.text in ("struct", "enum"))
        if kwi > 0:
            item = item[kwi:]
        item = [S("pub"), S(" ", "ws")] + item
        item = apply_rules(item, [r for r in rules if r not in ("R1", "R12")], fired)
        ruled = [Tok(t.kind, t.text, t.pos, t.syn) for t in item]
        text = untok(item)
        derive = opts.get("derive")
        pre = ""
        if derive:
            pre = S_OPEN + "#[derive(%s)]\n" % derive + S_CLOSE
        emitted = pre + text
    elif kind in ("const", "type"):
        item = apply_rules(item, rules, fired)
        # visibility widened to `pub` (stated drop)
        kwi = next(i for i, t in enumerate(item) if t.kind == "ident" and t.text in ("const", "type"))
        item = [S("pub"), S(" ", "ws")] + item[kwi:]
        ruled = item
        emitted = untok(item)
    elif kind == "trait":
        item = render_trait(item, opts, sections, rules, fired)
        ruled = None
        emitted = untok(item)
    else:
        if opts.get("from"):
            item = slice_fn(item, opts, fired)
        if opts.get("hoist"):
            item = hoist_closure(item, opts, fired)
        item = apply_rules(item, ["R12"] + rules, fired)
        if opts.get("params"):
            item = rename_params(item, [x for x in opts["params"].split(",")], fired)
        else:
            item = auto_unprefix_params(item, sections, fired)
        ruled = [Tok(t.kind, t.text, t.pos, t.syn) for t in item]
        merged = merge_fn(item, opts, sections, fired)
        emitted = untok(merged)
    # fidelity check
    if ruled is not None:
        got = sig(lex(strip_sentinels(emitted)))
        want = sig(ruled)
        if kind in ("struct", "enum"):
            # visibility tokens are not part of the comparison (widened to pub, see above)
            got = got[got.index(kind):]
            want = want[want.index(kind):]
        want_fn_only = None
        if "as" in opts:
            if kind == "fn" and "fn" in want and want.index("fn") + 1 < len(want) and want[want.index("fn") + 1] in (name, opts["as"]):
                # merge_fn renames exactly the identifier after the first `fn`; a body that mentions the same identifier
                # (`X::new()` inside `fn new`) keeps it.  (A statement slice has a hand-written header that already carries
                # the as-name: nothing is renamed then.)
                k_fn = want.index("fn") + 1
                want_fn_only = want[:k_fn] + [opts["as"]] + want[k_fn + 1:]
            want = [opts["as"] if (w == name) else w for w in want]
        if got != want and (want_fn_only is None or got != want_fn_only):
            raise ExtractError(f"fidelity check failed for {kind} {name}")
    start = unit.offset
    unit.emit(emitted + "\n")
    unit.items.append({
        "kind": kind, "name": opts.get("as", opts["hoist"] if opts.get("part") == "closure" else name), "orig_name": name, "file": opts["file"], "in": opts.get("in"),
        "src_bytes": [orig[0].pos, orig[-1].pos + len(orig[-1].text)],
        "sha256": hashlib.sha256(orig_text.encode()).hexdigest(),
        "rules": fired, "emit_bytes": [start, unit.offset],
        "contract": sections.get("contract", "").strip(),
        "has_requires": bool(re.search(r"\brequires\b", sections.get("contract", ""))),
    })


def slice_fn(item, opts, fired):
    """statement-range extraction:  from="<code>" to="<code>" header="fn name(params)"  builds a function whose body is the
    contiguous statement range [statement containing <from> .. statement containing <to>] of the located fn, verbatim, under
    the given (hand-written, reported) header.  Everything else of the fn is DROPPED (recorded in the evidence as `slice`)."""
    he = fn_header_end(item)
    bc = match_close(item, he)
    ci = [i for i in code_idx(item) if he < i < bc]
    texts = [item[i].text for i in ci]
    def find(needle):
        pat = sig(lex(needle))
        hits = [k for k in range(len(texts) - len(pat) + 1) if texts[k:k + len(pat)] == pat]
        if len(hits) == 0 and len(pat) > 3:
            # anchor fallback (as for //@before / //@after): the first / last statement of the slice was edited itself; the longest
            # unique proper prefix (>= 3 tokens) of the anchor still identifies it.  Never taken on the unchanged tree.
            for plen in range(len(pat) - 1, 2, -1):
                h2 = [k for k in range(len(texts) - plen + 1) if texts[k:k + plen] == pat[:plen]]
                if len(h2) == 1:
                    hits = h2
                    fired["anchor_fallback"] = fired.get("anchor_fallback", 0) + 1
                    break
                if len(h2) > 1:
                    break
        if len(hits) != 1:
            raise ExtractError(f"lost anchor: slice anchor {needle!r} matches {len(hits)} times")
        return stmt_bounds(item, ci[hits[0]])
    if opts.get("from") == "@arm":
        # to="<match arm pattern>#k": the statements of the block of the k-th match arm with that pattern
        pat_txt, _, nth = opts["to"].partition("#")
        pat = sig(lex(pat_txt)) + ["=>", "{"]
        hits = [k for k in range(len(texts) - len(pat) + 1) if texts[k:k + len(pat)] == pat]
        k = int(nth or "1")
        if len(hits) < k:
            raise ExtractError(f"lost anchor: match arm {pat_txt!r} occurs {len(hits)} times")
        bo = ci[hits[k - 1] + len(pat) - 1]
        be = match_close(item, bo)
        fired["slice"] = 1
        return synth(opts["header"] + " {") + item[bo + 1:be] + synth("}")
    a, _ = find(opts["from"])
    _, b = find(opts["to"])
    if b < a:
        raise ExtractError("lost anchor: slice end precedes slice start")
    # the range must consist of whole statements of ONE block (an end anchor that now sits in a different nesting level, e.g.
    # after two loops were swapped, would cut a block in two)
    depth = 0
    for t in item[a:b + 1]:
        if t.kind == "punct" and t.text in OPEN:
            depth += 1
        elif t.kind == "punct" and t.text in CLOSE:
            depth -= 1
            if depth < 0:
                break
    if depth != 0:
        raise ExtractError("lost anchor: slice anchors are not in the same block (unbalanced statement range)")
    fired["slice"] = 1
    return synth(opts["header"] + " {\n        ") + item[a:b + 1] + synth("\n}")


def hoist_closure(item, opts, fired):
    """hoist=NAME captures=a,b,.. part=closure|outer : a non-escaping local closure

           let [mut] NAME = |p1: T1, ..| -> R { BODY };   ...  NAME(e1, ..)  ...

    of a method is split mechanically into   part=closure:  fn NAME(<receiver of the enclosing fn>, <captures>, p1: T1, ..) -> R { BODY }
    (BODY verbatim) and   part=outer:  the enclosing fn without the `let`, every call rewritten to self.NAME(<captures>, e1, ..).
    Sound because (checked here, else ExtractError): the closure is only ever *called* (it does not escape, so every call is
    synchronous and sees the current values); the listed captures are parameters of the enclosing fn of shared-reference type
    that are never re-bound (a copy of a `&` reference is the reference); `self` is the only other capture (the body reads /
    writes fields through it; the hoisted fn gets the enclosing receiver); every other name of the enclosing fn used inside
    the closure body must be bound inside the body itself (else it would be an unlisted capture -> ExtractError).  A name that
    is none of these resolves to a module-level item in both versions."""
    name = opts["hoist"]
    part = opts.get("part")
    caps = [c for c in opts.get("captures", "").split(",") if c]
    if part not in ("closure", "outer"):
        raise ExtractError("hoist: part=closure|outer")
    he = fn_header_end(item)
    bc = match_close(item, he)
    # --- locate  let [mut] NAME = |..| -> R { .. };
    ci = [i for i in code_idx(item) if he < i < bc]
    hit = None
    for q, i in enumerate(ci):
        if item[i].kind == "ident" and item[i].text == "let":
            j = q + 1
            if item[ci[j]].text == "mut":
                j += 1
            if item[ci[j]].text == name and item[ci[j + 1]].text == "=" and item[ci[j + 2]].text == "|":
                if hit is not None:
                    raise ExtractError(f"lost anchor: hoist: closure {name} defined twice")
                hit = (i, ci[j + 2])
    if hit is None:
        raise ExtractError(f"lost anchor: hoist: no `let {name} = |..|`")
    let_i, c0 = hit
    c1 = c0 + 1
    while item[c1].text != "|":
        if item[c1].kind == "punct" and item[c1].text in ("(", "["):
            c1 = match_close(item, c1)
        c1 += 1
    arrow = next_code(item, c1 + 1)
    if item[arrow].text != "->":
        raise ExtractError("hoist: the closure must carry an explicit return type")
    bo = arrow + 1
    while not (item[bo].kind == "punct" and item[bo].text == "{"):
        if item[bo].kind == "punct" and item[bo].text in ("(", "["):
            bo = match_close(item, bo)
        bo += 1
    be = match_close(item, bo)
    semi = next_code(item, be + 1)
    if item[semi].text != ";":
        raise ExtractError("hoist: closure definition is not a complete let statement")
    cparams = split_top_commas(item, c0 + 1, c1)
    cnames = []
    for (a, b) in cparams:
        seg = [t for t in item[a:b] if t.kind not in ("ws", "comment")]
        if not seg:
            continue
        nm = seg[1] if seg[0].text == "mut" else seg[0]
        if nm.kind != "ident" or not any(t.text == ":" for t in seg):
            raise ExtractError("hoist: closure parameters must be typed identifiers")
        cnames.append(nm.text)
    rettype = _strip_ws(item[arrow + 1:bo])
    body = item[bo:be + 1]
    # --- enclosing header: receiver and the captured parameters
    k = next(i for i, t in enumerate(item) if t.kind == "ident" and t.text == "fn")
    p = next_code(item, next_code(item, k + 1) + 1)
    if item[p].text != "(":
        raise ExtractError("hoist: enclosing fn has generics of its own")
    pe = match_close(item, p)
    receiver = None
    ptypes = {}
    pnames = []
    for (a, b) in split_top_commas(item, p + 1, pe):
        seg = [t for t in item[a:b] if t.kind not in ("ws", "comment")]
        if not seg:
            continue
        if any(t.text == "self" for t in seg[:3]):
            receiver = _strip_ws(item[a:b])
            continue
        if seg[0].kind == "ident" and seg[0].text != "mut" and seg[1].text == ":":
            ptypes[seg[0].text] = (_strip_ws(item[a:b]), seg[2].text == "&" and seg[3].text != "mut")
        pnames.append(seg[1].text if seg[0].text == "mut" else seg[0].text)
    for c in caps:
        if c not in ptypes or not ptypes[c][1]:
            raise ExtractError(f"hoist: capture {c} is not a (non-mut) parameter of shared-reference type")
    uses_self = any(t.kind == "ident" and t.text == "self" for t in body)
    if uses_self and receiver is None:
        raise ExtractError("hoist: closure uses self but the enclosing fn has no receiver")
    # --- names bound in the enclosing fn (outside the closure): must not re-bind a capture, must not be used unlisted
    def bound_names(lo, hi, skip=None):
        out = set()
        i = lo
        while i < hi:
            if skip and skip[0] <= i <= skip[1]:
                i = skip[1] + 1
                continue
            t = item[i]
            if t.kind == "ident" and t.text in ("let", "for") and not t.syn:
                stop = ("=", ";", ":") if t.text == "let" else ("in",)
                j = i + 1
                while j < hi and item[j].text not in stop:
                    if item[j].kind == "ident" and item[j].text not in ("mut", "ref"):
                        out.add(item[j].text)
                    j += 1
            i += 1
        return out
    outer_bound = bound_names(he + 1, bc, (let_i, semi)) | {name}
    for c in caps:
        if c in outer_bound:
            raise ExtractError(f"hoist: capture {c} is re-bound in the enclosing fn")
    inner_bound = bound_names(bo, be) | set(cnames)
    for t in body:
        if t.kind == "ident" and t.text != name and (t.text in outer_bound or t.text in pnames) \
                and t.text not in caps and t.text not in inner_bound:
            pvt = None
            raise ExtractError(f"hoist: closure body uses {t.text} of the enclosing fn: not a listed capture")
    fired["hoist"] = 1

    def cp(ts):
        return [Tok(t.kind, t.text, t.pos, t.syn) for t in ts]
    if part == "closure":
        hdr = synth(f"fn {name}(")
        parts = ([cp(receiver)] if uses_self else []) + [cp(ptypes[c][0]) for c in caps] + [cp(_strip_ws(item[a:b])) for (a, b) in cparams if _strip_ws(item[a:b])]
        for q, ts in enumerate(parts):
            if q:
                hdr += synth(", ")
            hdr += ts
        hdr += synth(") -> ") + cp(rettype) + synth(" ")
        return hdr + cp(body)
    # part == "outer": drop the let statement, rewrite the calls
    out = []
    i = 0
    while i < len(item):
        if i == let_i:
            i = semi + 1
            while i < len(item) and item[i].kind == "ws":
                i += 1
            continue
        t = item[i]
        if he < i < bc and t.kind == "ident" and t.text == name:
            nx = next_code(item, i + 1)
            if item[nx].text != "(" or item[prev_code(item, i - 1)].text in (".", "::"):
                raise ExtractError(f"hoist: closure {name} is used other than by calling it (it may escape)")
            if uses_self:
                out += synth("self.")
            elif receiver is not None:
                out += synth("Self::")
            out.append(t)
            out += item[i + 1:nx + 1]
            empty = next_code(item, nx + 1) == match_close(item, nx)
            out += synth(", ".join(caps) + ("" if (empty or not caps) else ", "))
            i = nx + 1
            continue
        out.append(t)
        i += 1
    return out


def render_trait(item, opts, sections, rules, fired):
    """trait declaration: keep only listed methods (signatures), drop assoc-type bounds (R9), merge //@sig contracts"""
    item = rule_R12(item, fired)
    item = [t for t in item if t.kind != "comment"]
    bo = next(i for i, t in enumerate(item) if t.kind == "punct" and t.text == "{")
    bc = match_close(item, bo)
    head = item[:bo]
    # drop generic T and where on the trait header if R1
    keep = [k for k in opts.get("keep", "").split(",") if k]
    keep_none = opts.get("keep") == "-"
    body = []
    i = bo + 1
    seen = set()
    while i < bc:
        t = item[i]
        if t.kind == "ident" and t.text == "type":
            j = i
            while item[j].text != ";":
                j += 1
            seg = item[i:j + 1]
            # R9: drop bounds (except the acyclic ones named in assoc="SE:Settings;..")
            col = [k for k, x in enumerate(seg) if x.kind == "punct" and x.text == ":"]
            tname = seg[next_code(seg, 1)].text
            keepb = dict(x.split(":") for x in opts.get("assoc", "").split(";") if x)
            if col:
                seg = seg[:col[0]] + [seg[-1]]
                fired["R9"] = fired.get("R9", 0) + 1
            if tname in keepb:
                seg = seg[:-1] + bracket(": " + keepb[tname]) + [seg[-1]]
            body += [S("\n    ", "ws")] + seg
            i = j + 1
            continue
        if t.kind == "ident" and t.text == "fn":
            nm = item[next_code(item, i + 1)].text
            seg_start = item_start(item, i)
            j = i
            while True:
                if item[j].kind == "punct" and item[j].text in ("(", "["):
                    j = match_close(item, j)
                elif item[j].kind == "punct" and item[j].text == "{":
                    j = match_close(item, j); break
                elif item[j].kind == "punct" and item[j].text == ";":
                    break
                j += 1
            if (not keep or nm in keep) and not keep_none:
                seg = item[seg_start:j + 1]
                seg = apply_rules(seg, [r for r in rules if r != "R12"], fired)
                sec = {}
                o = {}
                if ("sig " + nm) in sections:
                    txt = sections["sig " + nm]
                    m = re.match(r"\s*ret=(\w+)\s*\n", txt)
                    if m:
                        o["ret"] = m.group(1)
                        txt = txt[m.end():]
                    sec["contract"] = txt
                seg = merge_fn(seg, o, sec, fired)
                body += [S("\n    ", "ws")] + seg
                seen.add(nm)
            else:
                fired.setdefault("dropped_methods", []).append(nm)
            i = j + 1
            continue
        i += 1
    missing = [k for k in keep if k not in seen and k != "-"]
    if missing:
        raise ExtractError(f"lost anchor: trait methods {missing} not found")
    if "extra" in sections:
        body = [S("\n    ", "ws")] + bracket(sections["extra"]) + body
    head = apply_rules(head, [r for r in rules if r not in ("R12", "R1")], fired)
    if opts.get("header"):
        head = synth(opts["header"] + " ")
    return head + [S("{")] + body + [S("\n}\n", "ws")]


def process(template_path, unit, depth=0):
    lines = open(template_path, encoding="utf-8").read().split("\n")
    i = 0
    while i < len(lines):
        ln = lines[i]
        s = ln.strip()
        if s.startswith("//@include "):
            p = os.path.join(VERIF, s[len("//@include "):].strip())
            unit.emit(f"// ---- include {os.path.relpath(p, VERIF)}\n")
            process(p, unit, depth + 1)
            i += 1
            continue
        if s.startswith("//@features "):
            # unit-level switch (additive; unit chordal_compact): `#[cfg(feature = ..)]` is evaluated (rule R12, field filter) for the
            # listed cargo features from here on instead of the default set; build_unit resets it for every unit
            _FEAT.v = {f.strip() for f in s[len("//@features "):].split(",") if f.strip()}
            unit.emit(f"// ---- cfg evaluated for features {sorted(_features())}\n")
            i += 1
            continue
        m = re.match(r"//@(fn|struct|enum|const|trait|type)\s+(.*)", s)
        if m:
            kind, opts = m.group(1), parse_kv(m.group(2))
            sections = {}
            cur = None
            j = i + 1
            if kind in ("fn", "trait"):
                while j < len(lines):
                    t = lines[j].strip()
                    if t == "//@end":
                        break
                    if t.startswith("//@"):
                        cur = t[3:].strip()
                        if cur.startswith("nloops"):
                            sections["nloops"] = cur.split()[1]
                            cur = None
                        else:
                            sections[cur] = ""
                    elif cur is not None:
                        sections[cur] += lines[j] + "\n"
                    j += 1
                else:
                    raise ExtractError(f"{template_path}:{i + 1}: //@{kind} without //@end")
                i = j + 1
            else:
                i += 1
            render_item(unit, kind, opts, sections)
            continue
        if s.startswith("//@"):
            raise ExtractError(f"{template_path}:{i + 1}: unknown directive {s}")
        unit.emit(ln + "\n")
        unit.handwritten_lines += 1
        i += 1


def build_unit(name, outdir):
    tpl = os.path.join(VERIF, "units", name + ".rs")
    unit = Unit(name)
    _file_cache.clear()
    _FEAT.v = {"serde"}
    process(tpl, unit)
    os.makedirs(outdir, exist_ok=True)
    out = os.path.join(outdir, name + ".rs")
    text = "".join(unit.out)
    open(out, "w", encoding="utf-8").write(text)
    meta = {"unit": name, "file": out, "items": unit.items, "handwritten_lines": unit.handwritten_lines}
    json.dump(meta, open(os.path.join(outdir, name + ".map.json"), "w"), indent=1)
    return meta


if __name__ == "__main__":
    try:
        m = build_unit(sys.argv[1], sys.argv[2] if len(sys.argv) > 2 else os.path.join(VERIF, "build"))
        print(f"{m['file']}: {len(m['items'])} items extracted")
    except ExtractError as e:
        print("EXTRACT-ERROR:", e)
        sys.exit(2)
