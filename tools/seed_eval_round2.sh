#!/bin/bash
# evaluate the round-2 seeded changes (worktrees /tmp/mut2_<id>, labels C/D/E) against the current checks
cd /verif
mkdir -p /tmp/seed_logs2
run() { w=$1; l=$2; shift; shift; python3 tools/seed_eval.py /tmp/mut2_$w $l "$@" > /tmp/seed_logs2/${w}_$l.log 2>&1; }
run C01 C C01 C10; run C01 D C01 C03
run C03 C C03; run C03 D C03 C08
run C08 C C08; run C08 D C08
run C10 C C10; run C10 D C10
run C11 C C11; run C11 D C11
run C12 C C12; run C12 D C12
run C16 C C16; run C16 D C16; run C16 E C16
echo done > /tmp/seed_logs2/all.done
