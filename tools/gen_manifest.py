#!/usr/bin/env python3
"""writes MANIFEST.json from tools/props.py + tools/manifest_static.py"""
import json, os, sys
sys.path.insert(0, os.path.dirname(os.path.abspath(__file__)))
from props import PROPS
from manifest_static import NOT_APPLICABLE, LEVELS

V = os.path.dirname(os.path.dirname(os.path.abspath(__file__)))
checks = []
for pid, c in PROPS.items():
    lv = LEVELS.get(pid, {})
    checks.append({
        "property_id": pid,
        "quick_cmd": f"./check.py {pid} --tier quick",
        "thorough_cmd": f"./check.py {pid} --tier thorough",
        "evidence_file": f"/verif/evidence/{pid}.json",
        "replay_cmd_template": f"./check.py {pid} --replay {{path}}",
        "engine": "verus+kani",
        "level_claimed": {"category": "proof", "text": lv.get("text", c.get("scope", "")), "design_ref": lv.get("design_ref", "DESIGN.md §3 " + pid)},
        "level_note": lv.get("note", "; ".join(c.get("assumptions", []))),
        "technique": lv.get("technique", "contract-based deductive verification: Verus pre/postconditions and loop invariants on functions extracted mechanically from /repo each run"),
    })
m = {
    "version": 1,
    "setup_cmd": "python3 tools/setup_check.py",
    "hooks": {
        "guard": "cfg(kani) (set by cargo-kani on a scratch copy of /repo; no guarded source commits exist in /repo)",
        "enable": "none needed: Verus units are extracted from /repo's working tree; Kani harnesses are appended as #[cfg(kani)] child modules to a scratch rsync copy",
        "baseline_off_cmd": "cd /repo && cargo test --workspace --no-fail-fast --offline",
        "source_commits": [],
        "add_only": True,
    },
    "engines": [
        {"name": "verus-extract", "path": "tools/extract.py", "serves_properties": sorted(PROPS), "kind_free_text": "mechanical extraction of real functions + contracts, discharged by Verus/z3 (unbounded)"},
        {"name": "kani-overlay", "path": "tools/kani_run.py", "serves_properties": sorted(p for p, c in PROPS.items() if c.get("kani")), "kind_free_text": "Kani/CBMC harnesses on a scratch copy of the real crate; complete when loop-free, otherwise bounded stand-in"},
    ],
    "checks": checks,
    "not_applicable": NOT_APPLICABLE,
    "notes": "See DESIGN.md. exit 2 = UNDECIDED (lost anchor / unsupported construct / resource limit): neither pass nor alarm.",
}
json.dump(m, open(os.path.join(V, "MANIFEST.json"), "w"), indent=1)
print("MANIFEST.json written:", len(checks), "checks")
