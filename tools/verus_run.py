"""Run Verus on an emitted unit and classify the outcome per function (= obligation)."""
import json
import os
import re
import subprocess
import time

SEMANTIC = [
    "postcondition not satisfied", "precondition not satisfied", "invariant not satisfied",
    "assertion failed", "possible arithmetic underflow/overflow", "possible division by zero",
    "possible bit shift underflow/overflow", "decreases not satisfied", "loop invariant not satisfied",
    "index out of bounds", "recommendation not met", "unreachable", "could not prove termination",
    "assertion failed", "cannot show invariant", "failed this postcondition", "failed precondition",
    "slice index out of range", "not all errors may have been reported", "requires not satisfied",
    "precondition not met", "index in bounds",
]
RESOURCE = ["rlimit", "resource limit", "timed out", "timeout"]


def run_verus(path, rlimit=None, extra=None, timeout=900):
    cmd = ["verus", os.path.basename(path), "--output-json", "--time", "--multiple-errors", "5", "--error-format=json"]
    if rlimit:
        cmd += ["--rlimit", str(rlimit)]
    if extra:
        cmd += extra
    t0 = time.time()
    try:
        p = subprocess.run(cmd, cwd=os.path.dirname(path), capture_output=True, text=True, timeout=timeout)
        out, err, rc = p.stdout, p.stderr, p.returncode
    except subprocess.TimeoutExpired as e:
        out, err, rc = (e.stdout or ""), (e.stderr or "") + "\nTIMEOUT", 124
        if isinstance(out, bytes): out = out.decode()
        if isinstance(err, bytes): err = err.decode()
    wall = time.time() - t0
    res = {"cmd": " ".join(cmd), "rc": rc, "wall_s": round(wall, 2), "diagnostics": [], "functions": {},
           "verified": 0, "errors": 0, "vir_error": False, "compile_error": False, "raw_err": err[-20000:]}
    try:
        j = json.loads(out)
        vr = j.get("verification-results", {})
        res["verified"] = vr.get("verified", 0)
        res["errors"] = vr.get("errors", 0)
        res["vir_error"] = bool(vr.get("encountered-vir-error"))
        smt = j.get("times-ms", {}).get("smt", {})
        for m in smt.get("smt-run-module-times", []):
            for f in m.get("function-breakdown", []):
                name = f["function"]
                cur = res["functions"].get(name)
                ent = {"success": f.get("success", True), "time_ms": f.get("time-micros", 0) / 1000.0,
                       "rlimit": f.get("rlimit", 0), "mode": f.get("mode:", f.get("mode", ""))}
                if cur:
                    ent["success"] = ent["success"] and cur["success"]
                    ent["time_ms"] += cur["time_ms"]
                    ent["rlimit"] += cur["rlimit"]
                res["functions"][name] = ent
        res["smt_total_ms"] = smt.get("total", 0)
        res["verus_version"] = j.get("verus", {}).get("version") or j.get("times-ms", {}).get("verus-build", {}).get("version")
    except Exception:
        res["compile_error"] = True
    for line in err.splitlines():
        line = line.strip()
        if not line.startswith("{"):
            continue
        try:
            d = json.loads(line)
        except Exception:
            continue
        if d.get("$message_type") != "diagnostic" or d.get("level") not in ("error",):
            continue
        msg = d.get("message", "")
        spans = [{"start": s["byte_start"], "end": s["byte_end"], "line": s["line_start"], "primary": s["is_primary"],
                  "label": s.get("label")} for s in d.get("spans", [])]
        res["diagnostics"].append({"message": msg, "spans": spans, "rendered": d.get("rendered", "")})
    # rustc-level errors: any error diagnostic that is not a verification failure, or no results block
    # Verus prints per-function verification results only when the emitted file passed rustc's and Verus' own front end
    # (a type error / unsupported construct ends the run before any query is sent).  An error diagnostic of a run that has
    # such results is therefore a failed proof obligation even when its wording is not in the SEMANTIC list (e.g. "precondition
    # not met: index in bounds for this access"); only resource-limit messages are kept apart.
    has_results = bool(res["functions"]) and not res["vir_error"] and not res["compile_error"]
    for d in res["diagnostics"]:
        m = d["message"].lower()
        if m.startswith("aborting due to"):
            continue
        d["class"] = classify(m)
        if d["class"] == "other" and has_results and not re.match(r"error\[e\d+\]", m):
            d["class"] = "semantic"
        if d["class"] == "other":
            res["compile_error"] = True
    return res


def classify(msg):
    m = msg.lower()
    if any(k in m for k in RESOURCE):
        return "resource"
    if any(k in m for k in SEMANTIC):
        return "semantic"
    return "other"


def attribute(res, meta, text):
    """map diagnostics to extracted functions (by emitted byte range) or to hand-written fns (by scanning text)"""
    items = [it for it in meta["items"] if it["kind"] == "fn"]
    # hand-written fn ranges: find 'fn name' occurrences outside extracted ranges
    hw = []
    for m in re.finditer(r"\b(?:proof\s+fn|fn)\s+(\w+)", text):
        pos = len(text[:m.start()].encode("utf-8"))
        if any(it["emit_bytes"][0] <= pos < it["emit_bytes"][1] for it in meta["items"]):
            continue
        hw.append((pos, m.group(1)))
    hw.sort()
    failed = {}
    for d in res["diagnostics"]:
        if d.get("class") is None:
            continue
        # choose the span inside a function body: prefer non-primary "at the end of the function body"/call-site spans
        cand = None
        for s in d["spans"]:
            for it in items:
                if it["emit_bytes"][0] <= s["start"] < it["emit_bytes"][1]:
                    # a span in the *body or contract* of the function that failed; the precondition span of a
                    # callee also lies in an item – prefer the span that is not the callee's contract:
                    lab = (s.get("label") or "")
                    pri = 0 if "failed pre" in lab or "failed this" in lab else 1
                    if cand is None or pri > cand[0]:
                        cand = (pri, it["name"], s)
        name = None
        if cand:
            name = cand[1]
        else:
            for s in d["spans"]:
                prev = [h for h in hw if h[0] <= s["start"]]
                if prev:
                    name = "hw:" + prev[-1][1]
        if name is None:
            name = "?"
        failed.setdefault(name, []).append({"message": d["message"], "class": d["class"],
                                            "line": d["spans"][0]["line"] if d["spans"] else None,
                                            "rendered": d["rendered"]})
    return failed
