"""Kani side (filled in below): scratch rsync of /repo + add-only overlay, harness execution, playback."""


def run_harnesses(pid, harnesses, jobs=4):
    return []


def counterexample_for(pid, obligation, conf):
    return None


def write_replay(pid, k):
    return ""
