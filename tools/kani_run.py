"""Kani side: scratch rsync of /repo + add-only overlay (child modules #[cfg(kani)] appended to real files),
harness execution with per-harness cap, concrete playback on failure.

Overlay files live in /verif/kani/*.rs; first line  `//@target <path relative to /repo>`.
The rest of the file is appended verbatim to (a scratch copy of) that source file.  Nothing in /repo is touched.
"""
import concurrent.futures as cf
import glob
import os
import re
import shutil
import subprocess
import time

VERIF = os.path.dirname(os.path.dirname(os.path.abspath(__file__)))
REPO = os.environ.get("VERIF_REPO", "/repo")
SCRATCH_ROOT = os.environ.get("VERIF_SCRATCH", "/tmp/verif_kani")
TARGET_DIR = os.path.join(VERIF, ".cache", "kani_target")
ENV = dict(os.environ, CARGO_NET_OFFLINE="true")


def prepare(pid):
    """scratch copy of the working tree with all overlays applied; returns path"""
    dst = os.path.join(SCRATCH_ROOT, pid + os.environ.get("VERIF_BUILD_TAG", ""), "repo")
    os.makedirs(dst, exist_ok=True)
    subprocess.run(["rsync", "-a", "--delete", "--exclude", "target", "--exclude", ".git", "--exclude", "html",
                    "--exclude", "python", REPO + "/", dst + "/"], check=True)
    applied = []
    for ov in sorted(glob.glob(os.path.join(VERIF, "kani", "*.rs"))):
        txt = open(ov).read()
        m = re.match(r"//@target\s+(\S+)\s*\n", txt)
        if not m:
            continue
        tgt = os.path.join(dst, m.group(1))
        if not os.path.exists(tgt):
            return dst, None, f"lost anchor: overlay {os.path.basename(ov)} targets missing file {m.group(1)}"
        with open(tgt, "a") as f:
            f.write("\n// ---- appended by /verif/tools/kani_run.py (add-only overlay) ----\n" + txt[m.end():])
        applied.append(os.path.basename(ov))
    # crate-level feature gates for loop contracts etc. are not used
    return dst, applied, None


def cleanup(pid):
    shutil.rmtree(os.path.join(SCRATCH_ROOT, pid + os.environ.get("VERIF_BUILD_TAG", "")), ignore_errors=True)


def _run(cmd, cwd, timeout):
    t0 = time.time()
    try:
        p = subprocess.run(cmd, cwd=cwd, env=ENV, capture_output=True, text=True, timeout=timeout)
        return p.returncode, p.stdout + "\n" + p.stderr, time.time() - t0, False
    except subprocess.TimeoutExpired as e:
        out = (e.stdout or b"")
        err = (e.stderr or b"")
        if isinstance(out, bytes): out = out.decode(errors="replace")
        if isinstance(err, bytes): err = err.decode(errors="replace")
        # make sure no cbmc is left behind
        subprocess.run(["pkill", "-f", "cbmc.*" + os.path.basename(cwd)], capture_output=True)
        return 124, out + "\n" + err + "\nTIMEOUT", time.time() - t0, True


def base_cmd(dst):
    """one cargo target directory per scratch copy (= per property / per caller): two checks running at the same time must not
    write into the same target directory (seen once: `goto-cc exited with status 1` while another harness was being built)"""
    tag = os.path.basename(os.path.dirname(dst))
    bt = os.environ.get("VERIF_BUILD_TAG", "")
    if bt and tag.endswith(bt):
        tag = tag[:-len(bt)] + "_alt"          # seed evaluations etc.: one extra directory per property, not one per run
    tag = re.sub(r"_cex(?=$|_)", "", tag)       # the counterexample pass of a check runs after its harnesses, in the same process
    if tag.upper().startswith("DEV"):
        tag = "DEV"                             # development runs (tools/dev_kani.py)
    return ["cargo", "kani", "-Z", "function-contracts", "-Z", "stubbing", "--output-format", "terse",
            "--target-dir", TARGET_DIR + "_" + re.sub(r"[^\w.-]", "_", tag)]


def run_one(dst, h):
    cmd = base_cmd(dst) + ["--harness", h["harness"]] + h.get("flags", [])
    rc, out, wall, to = _run(cmd, dst, h.get("timeout", 600))
    r = dict(h)
    out = "\n".join(l for l in out.splitlines() if len(l) < 600)   # drop the multi-kB linker command echo
    r.update(wall_s=round(wall, 1), output=out[-6000:], cmd=" ".join(cmd))
    r.setdefault("bound", "")
    r.setdefault("what", "")
    if to:
        r.update(status="undecided", environmental=True, reason=f"timeout after {h.get('timeout', 600)} s (environmental; not counted)")
    elif "VERIFICATION:- SUCCESSFUL" in out:
        # vacuity: every kani::cover! must be satisfied
        cov = re.findall(r"(\d+) of (\d+) cover properties satisfied", out)
        if cov and any(int(a) < int(b) for a, b in cov):
            r.update(status="undecided", reason="vacuity guard: unsatisfied cover property")
        else:
            r.update(status="ok", reason="")
    elif "CBMC appears to have run out of memory" in out or ("CBMC failed" in out and not re.search(r"Failed Checks:", out)):
        r.update(status="undecided", environmental=True, reason="CBMC ran out of memory / crashed (environmental; not counted)")
    elif "VERIFICATION:- FAILED" in out:
        failed = re.findall(r"Failed Checks: (.*)", out)
        unwind_only = failed and all("unwinding assertion" in f for f in failed)
        if unwind_only:
            r.update(status="undecided", reason="unwinding assertion failed: the bound of this harness no longer covers the code")
        else:
            r.update(status="failed", reason="; ".join(failed[:6]))
    elif "no harnesses matched" in out or "error: no harnesses" in out.lower():
        r.update(status="undecided", reason="harness not found (overlay did not compile in?)")
    elif re.search(r"^error(\[E\d+\])?:", out, re.M):
        r.update(status="undecided", reason="overlaid crate does not compile: " + " | ".join(x[:200] for x in re.findall(r"^error[^\n]*", out, re.M)[:3]))
    elif "out of memory" in out.lower() or rc in (137, -9):
        r.update(status="undecided", environmental=True, reason="out of memory (environmental; not counted)")
    else:
        r.update(status="undecided", reason=f"unrecognised Kani outcome rc={rc}")
    return r


def playback(dst, h):
    """concrete counterexample for a failed harness, replayed natively against the real code"""
    import sys
    sys.path.insert(0, os.path.dirname(os.path.abspath(__file__)))
    import rustlex
    cmd = base_cmd(dst) + ["--harness", h["harness"], "-Z", "concrete-playback", "--concrete-playback=print"] + h.get("flags", [])
    rc, out, wall, to = _run(cmd, dst, h.get("timeout", 600) * 2)
    blocks = re.findall(r"```\n(.*?)```", out, re.S)
    blocks = [b for b in blocks if "Check for `cover`" not in b]
    if not blocks:
        return None
    blk = blocks[0]
    m = re.search(r"Test generated for harness `([\w:]+)`", blk)
    what = re.search(r"Check for `\w+`: (.*)", blk)
    test = "verif_replay_" + h["harness"]
    blk = re.sub(r"fn kani_concrete_playback_\w+\(\)", f"fn {test}()", blk)
    # insert the test into the module that holds the harness (scratch copy only)
    modpath = m.group(1).split("::")[:-1] if m else []
    target = None
    for root, _, files in os.walk(os.path.join(dst, "src")):
        for fn in files:
            pth = os.path.join(root, fn)
            t = open(pth, encoding="utf-8", errors="replace").read()
            if re.search(r"fn\s+" + re.escape(h["harness"]) + r"\s*\(", t):
                target = (pth, t)
    if not target:
        return None
    pth, t = target
    toks = rustlex.lex(t)
    hi = next(i for i, x in enumerate(toks) if x.kind == "ident" and x.text == h["harness"]
              and toks[rustlex.prev_code(toks, i - 1)].text == "fn")
    # enclosing brace
    depth, j = 0, hi
    while j >= 0:
        x = toks[j]
        if x.kind == "punct" and x.text == "}": depth += 1
        if x.kind == "punct" and x.text == "{":
            if depth == 0: break
            depth -= 1
        j -= 1
    close = rustlex.match_close(toks, j)
    newt = rustlex.untok(toks[:close]) + "\n" + blk + "\n" + rustlex.untok(toks[close:])
    open(pth, "w").write(newt)
    env_save = ENV.get("CARGO_TARGET_DIR")
    ENV["CARGO_TARGET_DIR"] = base_cmd(dst)[-1] + "_pb"
    rc2, out2, _, _ = _run(["cargo", "kani", "playback", "-Z", "concrete-playback", "--", test], dst, 1200)
    shutil.rmtree(ENV["CARGO_TARGET_DIR"], ignore_errors=True)      # a native test build of the crate (1.3 GB): not worth keeping
    if env_save is None:
        ENV.pop("CARGO_TARGET_DIR", None)
    tail = "\n".join(l for l in out2.splitlines() if "panicked" in l or l.startswith("test ") or "assertion" in l)[-3000:]
    return (f"failed check: {what.group(1) if what else ''}\ngenerated test (concrete values chosen by CBMC):\n{blk}\n"
            f"native replay on the real code (cargo kani playback -- {test}):\n{tail}\n")


def run_harnesses(pid, harnesses, jobs=4):
    dst, applied, err = prepare(pid)
    if err:
        return [dict(h, status="undecided", reason=err, wall_s=0, bound=h.get("bound", ""), what=h.get("what", "")) for h in harnesses]
    os.makedirs(TARGET_DIR, exist_ok=True)
    # build once
    rc, out, wall, to = _run(base_cmd(dst) + ["--only-codegen"], dst, 1500)
    if rc != 0:
        msg = " | ".join(x[:200] for x in re.findall(r"^error[^\n]*", out, re.M)[:4]) or out[-500:]
        cleanup(pid)
        return [dict(h, status="undecided", reason="overlaid crate does not build under Kani: " + msg, wall_s=round(wall, 1),
                     bound=h.get("bound", ""), what=h.get("what", "")) for h in harnesses]
    with cf.ThreadPoolExecutor(max_workers=jobs) as ex:
        res = list(ex.map(lambda h: run_one(dst, h), harnesses))
    for r in res:
        if r["status"] == "failed":
            try:
                r["cex"] = playback(dst, r)
            except Exception as e:  # playback is best effort
                r["cex"] = None
                r["cex_error"] = str(e)
    cleanup(pid)
    return res


def counterexample_for(pid, obligation, conf):
    """Verus gave no counterexample: run the Kani harnesses registered for the same function"""
    fn = obligation.split("::")[-1]
    hs = [h for h in conf.get("kani", []) if fn in h.get("covers", [])]
    if not hs:
        return None
    res = run_harnesses(pid + "_cex", hs, jobs=2)
    for r in res:
        if r["status"] == "failed" and r.get("cex"):
            return f"harness {r['harness']} ({r.get('bound','')}):\n{r['reason']}\n{r['cex']}"
    return None


def write_replay(pid, k):
    rdir = os.environ.get("VERIF_REPLAY_DIR") or os.path.join(VERIF, "replay")
    os.makedirs(rdir, exist_ok=True)
    path = os.path.join(rdir, f"{pid}-kani-{k['harness']}.txt")
    with open(path, "w") as f:
        f.write(f"property: {pid}\nfailed obligation: kani::{k['harness']}\nengine: Kani 0.68 / CBMC\ncommand: {k['cmd']}\n"
                f"bound: {k.get('bound','')}\nwhat: {k.get('what','')}\nfailed checks: {k['reason']}\n\n")
        if k.get("cex"):
            f.write("---- concrete counterexample, replayed on the real code ----\n" + k["cex"] + "\n")
        else:
            f.write("no-failing-input-found: CBMC reported the failed check but concrete playback produced no test\n")
        f.write("\n---- verifier output (tail) ----\n" + k["output"][-3000:])
    return path
