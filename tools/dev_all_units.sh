#!/bin/bash
# development aid: re-verify every unit (Verus only) in parallel; prints one line per unit.  Use after touching tools/extract.py or a prelude.
cd "$(dirname "$0")/.."
ls units/*.rs | xargs -n1 basename | sed 's/\.rs$//' | xargs -P 8 -I{} sh -c 'python3 tools/dev_unit.py {} --quiet 2>&1 | tail -1'
