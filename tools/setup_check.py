#!/usr/bin/env python3
"""setup: nothing to build (python + pre-installed verus/kani); verify the tools are present"""
import shutil, subprocess, sys
ok = True
for t in ("verus", "cargo", "cargo-kani"):
    if not shutil.which(t):
        print("missing tool:", t); ok = False
sys.exit(0 if ok else 1)
