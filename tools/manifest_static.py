NOT_APPLICABLE = [
    {"property_id": "C05", "reason": "2-safety property relating pairs of complete floating-point solves (different formulations, back ends, threads); a contract speaks about one call, and relating two interior-point trajectories needs numerical analysis or execution (DESIGN §5)"},
    {"property_id": "C06", "reason": "statistical convergence claim (success rate / iteration counts over a problem distribution); no pre/postcondition expresses a frequency (DESIGN §5)"},
]
LEVELS = {}
