#!/usr/bin/env python3
"""Development aid (not evidence):  tools/dev_unit.py <unit> [--fn NAME] [--rlimit N] [--canary]

Extracts units/<unit>.rs from the /repo working tree (VERIF_REPO overrides) into build/dev_<unit>/ and runs
Verus on it with human-readable diagnostics and a per-function verdict table.  --fn passes --verify-function.
"""
import argparse
import os
import subprocess
import sys
import json

VERIF = os.path.dirname(os.path.dirname(os.path.abspath(__file__)))
sys.path.insert(0, os.path.join(VERIF, "tools"))
import extract  # noqa: E402


def main():
    ap = argparse.ArgumentParser()
    ap.add_argument("unit")
    ap.add_argument("--fn")
    ap.add_argument("--rlimit", default="50")
    ap.add_argument("--errors", default="4")
    ap.add_argument("--quiet", action="store_true")
    a = ap.parse_args()
    bdir = os.path.join(VERIF, "build", "dev_" + a.unit)
    os.makedirs(bdir, exist_ok=True)
    try:
        meta = extract.build_unit(a.unit, bdir)
    except extract.ExtractError as e:
        print("EXTRACT-ERROR:", e)
        sys.exit(2)
    path = meta["file"]
    cmd = ["verus", os.path.basename(path), "--rlimit", a.rlimit, "--multiple-errors", a.errors, "--output-json", "--time"]
    if a.fn:
        cmd += ["--verify-root", "--verify-function", a.fn]
    p = subprocess.run(cmd, cwd=bdir, capture_output=True, text=True)
    if not a.quiet:
        print(p.stderr[-12000:])
    try:
        j = json.loads(p.stdout)
    except Exception:
        print("no JSON result (compile error?)")
        sys.exit(2)
    vr = j.get("verification-results", {})
    rows = []
    for m in j.get("times-ms", {}).get("smt", {}).get("smt-run-module-times", []):
        for f in m.get("function-breakdown", []):
            rows.append((f["function"], f.get("success", True), f.get("time-micros", 0) / 1000.0, f.get("rlimit", 0)))
    for fn, ok, ms, rl in sorted(rows, key=lambda r: (r[1], -r[2])):
        if not ok or ms > 3000:
            print(f"{'ok  ' if ok else 'FAIL'} {ms:9.0f} ms  rlimit {rl:>10}  {fn}")
    # vacuity guards (`canary_*`, ensures false under the admitted axioms) MUST fail: they are the expected errors
    canaries = [r for r in rows if r[0].split("::")[-1].startswith("canary_")]
    bad = [r for r in rows if not r[1] and r not in canaries]
    expected = sum(1 for r in canaries if not r[1])
    note = f"; canaries rejected {expected}/{len(canaries)} (expected errors)" if canaries and not a.fn else ""
    print(f"{path}: verified {vr.get('verified')} errors {vr.get('errors')} ({len(rows)} fn results){note}")
    ok = (not bad and vr.get("errors", 1) == expected and vr.get("verified", 0) > 0
          and (a.fn or expected == len(canaries)))
    sys.exit(0 if ok else 1)


if __name__ == "__main__":
    main()
