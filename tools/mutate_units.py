#!/usr/bin/env python3
"""Contract-strength probe: token-level mutants of the *extracted* functions of a unit (the real code as emitted, outside the
sentinel brackets), each re-verified with Verus.  A mutant that still verifies ("survivor") points at a contract that does not
pin the mutated behaviour down (or at an equivalent mutant).  Development tool: results are not evidence.
usage: mutate_units.py <unit> [max_per_fn] [jobs]"""
import json, os, re, subprocess, sys, random, concurrent.futures as cf
sys.path.insert(0, os.path.dirname(os.path.abspath(__file__)))
from rustlex import lex
VERIF = os.path.dirname(os.path.dirname(os.path.abspath(__file__)))
SWAPS = {"+": ["-"], "-": ["+"], "*": ["+"], "<": ["<=", ">"], "<=": ["<"], ">": [">=", "<"], ">=": [">"], "==": ["!="], "!=": ["=="],
         "+=": ["-="], "-=": ["+="], "&&": ["||"], "||": ["&&"]}

def main():
    unit = sys.argv[1]; maxper = int(sys.argv[2]) if len(sys.argv) > 2 else 12; jobs = int(sys.argv[3]) if len(sys.argv) > 3 else 12
    work = f"/tmp/mutwork/{unit}"; os.makedirs(work, exist_ok=True)
    subprocess.run(["python3", os.path.join(VERIF, "tools/extract.py"), unit, work], check=True, capture_output=True)
    text = open(f"{work}/{unit}.rs").read()
    meta = json.load(open(f"{work}/{unit}.map.json"))
    raw = text.encode()
    muts = []
    random.seed(1)
    for it in meta["items"]:
        if it["kind"] != "fn": continue
        a, b = it["emit_bytes"]
        seg = raw[a:b].decode()
        # mask bracketed (inserted) regions
        mask = [True] * len(seg)
        for m in re.finditer(r"/\*@<\*/.*?/\*@>\*/", seg, re.S):
            for k in range(m.start(), m.end()): mask[k] = False
        body_start = seg.find("{")
        toks = lex(seg)
        pos = 0; cands = []
        for t in toks:
            p = seg.find(t.text, pos) if t.text else pos
            st = pos; pos += len(t.text)
            if t.kind == "punct" and t.text in SWAPS and st > body_start and all(mask[st:st + len(t.text)]):
                # skip generics/arrows
                if t.text in ("<", ">") and re.search(r"[A-Za-z_:]\s*$", seg[:st][-3:]) and not re.search(r"[\w\)\]]\s$", seg[:st][-2:] + " "):
                    pass
                for rep in SWAPS[t.text]:
                    cands.append((st, t.text, rep))
            if t.kind == "num" and t.text in ("0", "1") and st > body_start and all(mask[st:st + 1]):
                cands.append((st, t.text, "1" if t.text == "0" else "0"))
        random.shuffle(cands)
        def synthesized(st):
            ls = seg.rfind("\n", 0, st) + 1; le = seg.find("\n", st)
            return re.search(r"\br(14|21|22)_\w+", seg[ls:le if le >= 0 else len(seg)]) is not None
        cands = [c for c in cands if not synthesized(c[0])]
        for (st, old, rep) in cands[:maxper]:
            muts.append((it["name"], a + len(seg[:st].encode()), old, rep))
    print(f"{unit}: {len(muts)} mutants")
    def run(i_m):
        i, (fn, off, old, rep) = i_m
        d = f"{work}/m{i}"; os.makedirs(d, exist_ok=True)
        new = raw[:off] + rep.encode() + raw[off + len(old.encode()):]
        open(f"{d}/{unit}.rs", "wb").write(new)
        try:
            p = subprocess.run(["verus", f"{unit}.rs", "--rlimit", "50"], cwd=d, capture_output=True, text=True, timeout=600)
            out = p.stdout + p.stderr
        except subprocess.TimeoutExpired:
            out = "TIMEOUT"
        m = re.search(r"verification results:: (\d+) verified, (\d+) errors", out)
        line = new[:off].count(b"\n") + 1
        ctx = new.split(b"\n")[line - 1].decode(errors="replace").strip()[:110]
        canary = len(re.findall(r"canary_", out))
        if "TIMEOUT" in out: st = "timeout"
        elif m is None: st = "compile-error"
        else:
            errs = int(m.group(2))
            base_fail = 1 if "canary_real_axioms" in text else 0
            st = "killed" if errs > base_fail else "SURVIVED"
        subprocess.run(["rm", "-rf", d])
        return (st, fn, old, rep, line, ctx)
    res = []
    with cf.ThreadPoolExecutor(jobs) as ex:
        for r in ex.map(run, enumerate(muts)):
            res.append(r)
    from collections import Counter
    print(Counter(r[0] for r in res))
    for r in res:
        if r[0] in ("SURVIVED", "timeout"): print(r)
    json.dump(res, open(f"{work}/result.json", "w"), indent=1)

if __name__ == "__main__":
    main()
