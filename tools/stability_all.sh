#!/bin/bash
# development aid: every unit (fresh extraction) under Z3 random seeds $1 (default "1 2 3 4 5"); prints FLIP lines only + a summary
cd "$(dirname "$0")/.."
SEEDS=${1:-"1 2 3 4 5"}
for u in $(ls units/*.rs | xargs -n1 basename | sed 's/\.rs$//'); do
  python3 tools/dev_unit.py $u --quiet > /tmp/stab_$u.base 2>&1
  base=$(grep -o "errors [0-9]*" /tmp/stab_$u.base | tail -1)
  for s in $SEEDS; do
    echo "$u $s"
  done
done | xargs -P 6 -n 2 sh -c 'u=$0; s=$1; d=build/dev_$u; r=$(cd $d && timeout 900 verus $u.rs --rlimit 50 --smt-option smt.random_seed=$s --multiple-errors 3 2>&1 | grep -o "[0-9]* verified, [0-9]* errors" | tail -1); b=$(cd $d && grep -o "errors [0-9]*" /tmp/stab_$u.base | tail -1 | grep -o "[0-9]*"); e=$(echo "$r" | grep -o "[0-9]* errors" | grep -o "[0-9]*"); if [ "$e" != "$b" ]; then echo "FLIP $u seed $s: $r (base errors $b)"; else echo "ok $u seed $s: $r"; fi'
