"""Minimal Rust lexer good enough for item slicing and token-level rewrites.

Token kinds: ws, comment, ident, lifetime, num, str, char, punct.
Every byte of the source belongs to exactly one token, so ''.join(t.text) == src.
"""
import re
from dataclasses import dataclass

PUNCT3 = ["<<=", ">>=", "...", "..="]
PUNCT2 = ["::", "->", "=>", "==", "!=", "<=", ">=", "&&", "||", "+=", "-=", "*=", "/=",
          "%=", "^=", "&=", "|=", "<<", ">>", ".."]


@dataclass
class Tok:
    kind: str
    text: str
    pos: int = -1      # byte offset in the original file (-1 = synthetic)
    syn: bool = False  # inserted by a rewrite rule / annotation

    def __repr__(self):
        return f"{self.kind}:{self.text!r}"


_ident_start = re.compile(r"[^\W\d]", re.UNICODE)
_ident_re = re.compile(r"[^\W\d]\w*", re.UNICODE)
_num_re = re.compile(r"\d[\d_]*(\.\d[\d_]*)?([eE][+-]?\d[\d_]*)?([a-z]\w*)?|0x[0-9a-fA-F_]+\w*")


def lex(src: str):
    toks = []
    i, n = 0, len(src)
    while i < n:
        c = src[i]
        if c.isspace():
            j = i
            while j < n and src[j].isspace():
                j += 1
            toks.append(Tok("ws", src[i:j], i)); i = j; continue
        if src.startswith("//", i):
            j = src.find("\n", i)
            j = n if j < 0 else j
            toks.append(Tok("comment", src[i:j], i)); i = j; continue
        if src.startswith("/*", i):
            depth, j = 1, i + 2
            while j < n and depth:
                if src.startswith("/*", j): depth += 1; j += 2
                elif src.startswith("*/", j): depth -= 1; j += 2
                else: j += 1
            toks.append(Tok("comment", src[i:j], i)); i = j; continue
        # raw strings / byte strings
        m = re.match(r'b?r(#*)"', src[i:i + 40])
        if m:
            hashes = m.group(1)
            end = src.find('"' + hashes, i + m.end())
            j = end + 1 + len(hashes)
            toks.append(Tok("str", src[i:j], i)); i = j; continue
        if c == '"' or (c == 'b' and i + 1 < n and src[i + 1] == '"'):
            j = i + (2 if c == 'b' else 1)
            while j < n and src[j] != '"':
                j += 2 if src[j] == '\\' else 1
            j += 1
            toks.append(Tok("str", src[i:j], i)); i = j; continue
        if c == "'":
            # char literal or lifetime
            m = re.match(r"'(\\x[0-9a-fA-F]{2}|\\u\{[0-9a-fA-F_]+\}|\\.|[^\\'])'", src[i:i + 16])
            if m:
                toks.append(Tok("char", m.group(0), i)); i += m.end(); continue
            m = _ident_re.match(src, i + 1)
            if m:
                toks.append(Tok("lifetime", src[i:m.end()], i)); i = m.end(); continue
            raise ValueError(f"bad quote at {i}")
        if c.isdigit():
            m = _num_re.match(src, i)
            j = m.end()
            # do not swallow range operator: "0..n"
            txt = src[i:j]
            if ".." in src[i:j + 1] and "." in txt:
                k = txt.find(".")
                if src[i + k:i + k + 2] == "..":
                    j = i + k
            toks.append(Tok("num", src[i:j], i)); i = j; continue
        m = _ident_re.match(src, i)
        if m and m.start() == i:
            toks.append(Tok("ident", m.group(0), i)); i = m.end(); continue
        for table, ln in ((PUNCT3, 3), (PUNCT2, 2)):
            if src[i:i + ln] in table:
                toks.append(Tok("punct", src[i:i + ln], i)); i += ln; break
        else:
            toks.append(Tok("punct", c, i)); i += 1
    return toks


def untok(toks):
    return "".join(t.text for t in toks)


def sig(toks):
    """non-trivia token texts – the 'token stream' used by the fidelity check"""
    return [t.text for t in toks if t.kind not in ("ws", "comment")]


OPEN = {"(": ")", "[": "]", "{": "}"}
CLOSE = {v: k for k, v in OPEN.items()}


def match_close(toks, i):
    """toks[i] is an opening bracket; return index of the matching closer."""
    depth = 0
    for j in range(i, len(toks)):
        t = toks[j]
        if t.kind != "punct":
            continue
        if t.text in OPEN:
            depth += 1
        elif t.text in CLOSE:
            depth -= 1
            if depth == 0:
                return j
    raise ValueError("unbalanced")


def next_code(toks, i):
    """index of next non-trivia token at or after i (len(toks) if none)"""
    while i < len(toks) and toks[i].kind in ("ws", "comment"):
        i += 1
    return i


def prev_code(toks, i):
    while i >= 0 and toks[i].kind in ("ws", "comment"):
        i -= 1
    return i


def match_angle(toks, i):
    """toks[i] is '<' opening generics; return index of matching '>' (handles '>>', '->')."""
    depth = 0
    j = i
    while j < len(toks):
        t = toks[j]
        if t.kind == "punct":
            if t.text == "<": depth += 1
            elif t.text == "<<": depth += 2
            elif t.text == ">":
                depth -= 1
                if depth == 0: return j
            elif t.text == ">>":
                depth -= 2
                if depth <= 0: return j
            elif t.text in OPEN:
                j = match_close(toks, j)
        j += 1
    raise ValueError("unbalanced <>")
