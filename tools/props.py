"""Which units / harnesses decide which property (DESIGN §3)."""

REAL = "unit info_update uses the F-real model: machine arithmetic treated as mathematical (admitted axioms reading each float operation as the exact real operation; NaN/inf/rounding not modelled); norms assumed nonnegative"
OPAQUE = "float model F-opaque: every arithmetic operation and comparison on the generic float type is an uninterpreted symbol (a proved postcondition holds for every interpretation, in particular IEEE-754 incl. NaN); the one axiom is f_eq(0,0)"
PRINT_OK = "print functions are assumed to return Ok (an I/O error on the print target makes solve panic at its .unwrap()) and to write self.iterations in the first column (info_print.rs is write!/format! code outside both verifiers)"
TRAITS = "generic solve loop: the contracts on the core traits are assumed for arbitrary implementations; for the default implementation they are PROVED for DefaultInfo (check_termination, post_process, save/reset_prev_iterate, save_scalars, get/set_status) and DefaultSettings::core, assumed for the numeric methods of DefaultVariables / KKT system / residuals / solution (they only need to return and keep vector lengths)"

PROPS = {
    "C01": {
        "units": ["status", "postprocess", "info_update"],
        "scope": "verdict layer: Solved only when the documented test holds on the reported figures; the figures are the documented functions of the residual norms (real arithmetic); the returned point is the un-scaled, un-presolved iterate the figures were computed on",
        "assumptions": [OPAQUE, REAL],
        "trusted_base": ["prelude/float_opaque.rs (hand written)"],
        "not_covered": ["Residuals::update (gemv/symv sums)", "cone membership of the final iterate", "that the loop reaches Solved at all (C06)"],
    },
    "C02": {
        "units": ["status", "postprocess", "info_update"],
        "scope": "verdict layer: *Infeasible only when the documented certificate test holds; infeasibility residuals are the documented scale-free ratios; NaN objectives and kappa-normalisation exactly for infeasible statuses",
        "assumptions": [OPAQUE, REAL],
        "trusted_base": ["prelude/float_opaque.rs (hand written)"],
        "not_covered": ["z in K*, s in K of the certificate", "user-space certificate beyond the unscale contract"],
    },
    "C03": {
        "units": ["status", "solve", "postprocess", "info_update"],
        "scope": "Almost* only from error/limit statuses under reduced tolerances; never inside the loop; status revisions only to Almost*",
        "assumptions": [OPAQUE, REAL, TRAITS, PRINT_OK],
        "trusted_base": ["prelude/float_opaque.rs", "prelude/vecmath_assumed.rs", "prelude/float_real_axioms.rs"],
        "not_covered": ["numerical equality of obj_val with an independent recomputation (rounding)", "chordal case"],
    },
    "C04": {
        "units": ["status", "solve"],
        "scope": "solve terminates (given callee termination), exits with a terminal status, iterations <= max_iter, budget/time limit stop the loop; panic obligations (unwrap, unreachable!, copy_from_slice lengths) of the functions under contract",
        "assumptions": [OPAQUE, TRAITS, PRINT_OK, "termination is relative: numeric callees are assumed to return"],
        "trusted_base": ["prelude/float_opaque.rs", "prelude/vecmath_assumed.rs"],
        "drops": ["timers (rule R7: timeit!/notimeit! wrappers removed)", "the `_print_banner(self.info.print_target(), ..)` statement of solve (&mut dyn Write)"],
        "not_covered": ["absence of hangs inside numeric kernels", "wall-clock behaviour"],
    },
    "C07": {
        "units": ["status", "solve", "steplen"],
        "scope": "narrow: tau, kappa stay positive and every accepted (combined) step has length in [0,1] (real arithmetic); the iteration budget is observed only by the MaxIterations test (verdict independent of max_iter while budget remains); MaxIterations reported only with iterations == max_iter",
        "assumptions": [OPAQUE, TRAITS, "unit steplen uses the F-real model (machine arithmetic treated as mathematical); CompositeCone::step_length is assumed to return values in [0, alphamax]; 0 < max_step_fraction < 1"],
        "trusted_base": ["prelude/float_opaque.rs", "prelude/vecmath_assumed.rs"],
        "not_covered": ["s,z strictly inside K,K* (numeric)", "bit-reproducibility across runs (2-safety)"],
    },
    "C20": {
        "units": ["solve"],
        "scope": "narrow: verbose off => the solve loop adds nothing to the progress table; verbose on => iteration column starts at 0, never decreases, ends at info.iterations (ghost history of the print target)",
        "assumptions": [OPAQUE, TRAITS, PRINT_OK],
        "trusted_base": ["prelude/float_opaque.rs", "prelude/vecmath_assumed.rs"],
        "drops": ["timers (rule R7)", "the `_print_banner(..)` statement of solve"],
        "not_covered": ["byte equality across print targets", "header/footer contents", "print_configuration figures"],
    },
    "C12": {
        "units": ["qdldl_perm", "ldl_wrapper"],
        "scope": "LDL engine: permutation validation (Ok <=> valid permutation, result is the inverse); the back-end adaptor reports success only for a completed factorisation (errors are never swallowed)",
        "assumptions": ["p.len() < usize::MAX (a Vec<usize> cannot be that long)",
                        "unit ldl_wrapper: the engine's refactor is assumed to return Ok exactly when the factorisation completed; a documented panic (.unwrap() on the engine's Err) is modelled as divergence (rule R13)"],
        "trusted_base": ["prelude/std_assumed.rs"],
        "not_covered": ["P*A*P' = L*D*L' to backward-stable accuracy and solve accuracy (floating-point error analysis, outside the family)"],
    },
    "C17": {
        "units": ["dsu"],
        "scope": "narrow: the union-find mechanism of the clique-graph merge against an abstract partition (rep): root returns the representative, union merges exactly two classes, in_same_set decides class equality; memory safety and termination",
        "assumptions": ["rank budget: union is covered for fewer than usize::MAX unions (ranks grow by at most one per union)",
                        "DisjointSetUnion::new ((0..n).collect()) is outside the Verus subset and not under contract"],
        "trusted_base": [],
        "not_covered": ["supernode tree, post-order, merge strategies, clique tree validity (IndexSet/HashMap/sort_by closures, sdp feature)"],
    },
    "C16": {
        "units": [],
        "scope": "CSC operations against an abstract (row,col)->value view; check_format <=> canonical",
        "assumptions": [],
        "trusted_base": [],
        "kani": [
            {"harness": "check_format_iff_wf_2x2_nnz2", "quick": True, "complete": False,
             "bound": "m=n=2, 2 stored entries, colptr entries <= 3, arbitrary rowval contents, unwind 5",
             "what": "check_format().is_ok() == wf (canonical encoding incl. colptr[0]==0, sorted strictly increasing in-range rows)",
             "covers": ["check_format", "check_dimensions"], "timeout": 600},
        ],
        "not_covered": [],
    },
    "C18": {
        "units": ["scalarmath"],
        "scope": "narrow: the packed upper-triangle index maps used by PSD/chordal code are mutually inverse bijections (tri(col)+row), symmetric in (i,j), overflow-free for indices < 2^31 / linear indices < 2^50",
        "assumptions": ["isqrt ((v as f64).sqrt() as usize, outside Verus) is assumed to be the exact floor square root for v < 2^53",
                        "usize is 64 bit (global size_of usize == 8)"],
        "trusted_base": [],
        "not_covered": ["augmentation (standard/compact), reversal, PSD completion (IndexSet / BLAS, sdp feature not in the default build)"],
    },
    "C09": {
        "units": ["postprocess"],
        "scope": "reduction map (exactly the rows in a nonnegative cone above the contracted threshold (1-10eps)*bound are dropped; count; None iff nothing dropped), reversal (lengths/order restored, z=0 and s=captured bound at dropped rows), post_process wiring",
        "assumptions": [OPAQUE, "the cones partition the rows of b (checked by the constructor's dimension asserts)",
                        "nvars of a GenPowerConeT does not overflow usize",
                        "the code's deliberate margin: rows with b in ((1-10eps)*B, B) are dropped as well (DESIGN O4); the contract states the threshold the code documents"],
        "trusted_base": ["prelude/float_opaque.rs", "prelude/vecmath_assumed.rs"],
        "kani": [
            {"harness": "problemdata_new_caps_and_drops", "quick": False, "complete": False,
             "bound": "one NonnegativeConeT(1) row + one SecondOrderConeT(2) block, n=1, concrete A pattern, symbolic non-NaN right-hand sides b0,b1 and symbolic presolve_enable, unwind 8",
             "what": "DefaultProblemData::new: every internal rhs entry <= bound (capped); the NN row is dropped iff presolve is on and b0 > (1-10eps)*bound; SOC rows are never dropped and keep min(b1,bound); presolver stored iff a row was dropped",
             "covers": ["new", "try_presolver", "reduce_cones", "select_rows"], "timeout": 900},
        ],
        "not_covered": ["reduce_cones / select_rows / capping of b in DefaultProblemData::new beyond the bounded Kani harness (iterator adaptors with closures are outside the Verus subset)",
                        "that the reduced problem's solution equals the hand-reduced one (same data => C01 on the reduced data)"],
    },
    "C15": {
        "units": ["steplen"],
        "scope": "nonnegative cone: ratio test safe (z + a*dz >= 0 for all rows), bounded by alphamax and tight (alphamax or exactly -z_i/dz_i); zero cone returns alphamax; backtrack_search returns 0 or the first accepted trial alpha_init*step^k with the accepted point in the work vector; combined step keeps tau,kappa > 0",
        "assumptions": ["F-real model: machine arithmetic treated as mathematical (admitted axioms; NaN/inf/rounding not modelled); minimum() is an attained lower bound; waxpby/axpby element-wise contracts assumed (vecmath)",
                        "CompositeCone::step_length assumed to return values in [0, alphamax]",
                        "backtrack_search: partial correctness (terminates only if step < 1; not enforced by settings validation, DESIGN O3)"],
        "trusted_base": ["prelude/float_opaque.rs", "prelude/float_real_axioms.rs", "prelude/vecmath_assumed.rs"],
        "not_covered": ["SOC / PSD root selection and tightness in floats", "exponential/power feasibility predicates (ln, powf)", "margins / unit shifts"],
    },
}
