"""Which units / harnesses decide which property (DESIGN §3)."""

PROPS = {
    "C01": {
        "units": ["status"],
        "scope": "verdict layer: Solved only when the documented test holds on the reported figures",
        "assumptions": ["float model F-opaque: every arithmetic operation and comparison is an uninterpreted symbol (sound for IEEE-754 incl. NaN)"],
        "trusted_base": ["prelude/float_opaque.rs (hand written)"],
        "not_covered": [],
    },
}
