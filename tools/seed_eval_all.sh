#!/bin/bash
# re-evaluate every seeded change against the current checks (worktrees /tmp/mut_<id> must exist at /repo's HEAD)
cd /verif
mkdir -p /tmp/seed_logs
run() { w=$1; l=$2; shift; shift; python3 tools/seed_eval.py /tmp/mut_$w $l "$@" > /tmp/seed_logs/${w}_$l.log 2>&1; }
run C01 A C01; run C01 B C01 C08
run C02 A C02; run C02 B C02
run C03 A C03; run C03 B C03
run C04 A C04 C20; run C04 B C04 C03
run C07 A C07 C15; run C07 B C07 C03
run C08 A C08 C01; run C08 B C08
run C09 A C09
run C10 A C10; run C10 B C10
run C11 A C11; run C11 B C11
run C12 A C12; run C12 B C12
run C15 A C15; run C15 B C15
run C16 A C16
run C17 A C17
run C18 A C18
run C20 A C20; run C20 B C20
SEED_TIER=thorough run C09 B C09
SEED_TIER=thorough run C16 B C16
SEED_TIER=thorough run C18 B C18 C16
echo done > /tmp/seed_logs/all.done
