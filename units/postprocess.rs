// unit `postprocess` : solution post-processing, un-scaling, presolve reduction map and its reversal
// (C01 C02 C03 C09).  float model: F-opaque (values are copied / multiplied symbolically).
use vstd::prelude::*;
verus! {
//@include prelude/float_opaque.rs
//@include prelude/vecmath_assumed.rs
//@include prelude/std_assumed.rs
//@include units/inc/status_items.rs

//@enum file=src/solver/core/cones/supportedcone.rs name=SupportedConeT rules=R12 derive="Clone"
//@struct file=src/algebra/csc/core.rs name=CscMatrix
//@struct file=src/solver/implementations/default/presolver.rs name=PresolverRowReductionIndex
//@struct file=src/solver/implementations/default/presolver.rs name=Presolver keep=_init_cones,reduce_map,mfull,mreduced,infbound
//@struct file=src/solver/implementations/default/equilibration.rs name=DefaultEquilibrationData
//@struct file=src/solver/implementations/default/problemdata.rs name=DefaultProblemData keep=n,m,equilibration,presolver
//@struct file=src/solver/implementations/default/variables.rs name=DefaultVariables rules=R2
//@struct file=src/solver/implementations/default/solution.rs name=DefaultSolution rules=R1f

// ------------------------------------------------------------------ specification
pub open spec fn nvars_spec(c: SupportedConeT<F>) -> nat {
    match c {
        SupportedConeT::ZeroConeT(d) => d as nat,
        SupportedConeT::NonnegativeConeT(d) => d as nat,
        SupportedConeT::SecondOrderConeT(d) => d as nat,
        SupportedConeT::ExponentialConeT() => 3,
        SupportedConeT::PowerConeT(_) => 3,
        SupportedConeT::GenPowerConeT(a, d2) => a@.len() + d2 as nat,
    }
}
// first row of cone k  (= total size of the cones before it)
pub open spec fn cone_start(cones: Seq<SupportedConeT<F>>, k: int) -> nat
    decreases k,
{
    if k <= 0 { 0 } else { cone_start(cones, k - 1) + nvars_spec(cones[k - 1]) }
}
pub open spec fn is_nn(c: SupportedConeT<F>) -> bool { c is NonnegativeConeT }
// C09: "rows that sit in a nonnegative cone"
pub open spec fn row_in_nn(cones: Seq<SupportedConeT<F>>, i: int) -> bool {
    exists|k: int| 0 <= k < cones.len() && is_nn(#[trigger] cones[k]) && cone_start(cones, k) <= i < cone_start(cones, k + 1)
}
// the contracted threshold the code compares against: (1 - 10 eps) * infbound
pub open spec fn thr(infbound: F) -> F {
    f_mul(f_sub(f_one(), f_mul(f_eps(), f_lit(10.))), infbound)
}
// C09: "exactly those rows that sit in a nonnegative cone and whose right-hand side is above the bound are dropped"
pub open spec fn dropped(cones: Seq<SupportedConeT<F>>, b: Seq<F>, infbound: F, i: int) -> bool {
    row_in_nn(cones, i) && f_lt(thr(infbound), b[i])
}
// C09: the reduction record produced for (cones, b) under the bound `infbound`
pub open spec fn reduction_ok(cones: Seq<SupportedConeT<F>>, b: Seq<F>, infbound: F, map: Option<PresolverRowReductionIndex>, mreduced: usize) -> bool {
    &&& mreduced <= b.len()
    // None <=> nothing is dropped
    &&& (map is None <==> (forall|i: int| 0 <= i < b.len() ==> !dropped(cones, b, infbound, i)))
    &&& (map is None ==> mreduced == b.len())
    // the keep mask marks exactly the rows that are in a nonnegative cone and above the threshold
    &&& (map matches Some(m) ==> m.keep_logical@.len() == b.len()
            && (forall|i: int| 0 <= i < b.len() ==> #[trigger] m.keep_logical@[i] == !dropped(cones, b, infbound, i))
            && mreduced == count_true(m.keep_logical@, b.len() as int))
}
pub open spec fn count_true(s: Seq<bool>, n: int) -> int
    decreases n,
{
    if n <= 0 { 0 } else { count_true(s, n - 1) + (if s[n - 1] { 1int } else { 0int }) }
}
// C09: kept rows carry the reduced problem's entries in order; dropped rows get z = 0, s = the captured bound
pub open spec fn row_restored(keep: Seq<bool>, ss: Seq<F>, sz: Seq<F>, vs: Seq<F>, vz: Seq<F>, inf: F, i: int) -> bool {
    if keep[i] { ss[i] == vs[count_true(keep, i)] && sz[i] == vz[count_true(keep, i)] }
    else { ss[i] == inf && sz[i] == f_zero() }
}
pub proof fn lemma_cone_start_mono(cones: Seq<SupportedConeT<F>>, a: int, b: int)
    requires 0 <= a <= b <= cones.len(),
    ensures cone_start(cones, a) <= cone_start(cones, b),
    decreases b - a,
{
    if a < b { lemma_cone_start_mono(cones, a, b - 1); }
}
// rows of different cones are disjoint: a row inside cone k is in a nonnegative cone iff cone k is one
pub proof fn lemma_row_cone_unique(cones: Seq<SupportedConeT<F>>, k: int, i: int)
    requires 0 <= k < cones.len(), cone_start(cones, k) <= i < cone_start(cones, k + 1),
    ensures row_in_nn(cones, i) == is_nn(cones[k]),
{
    if row_in_nn(cones, i) {
        let k2 = choose|k2: int| 0 <= k2 < cones.len() && is_nn(#[trigger] cones[k2]) && cone_start(cones, k2) <= i < cone_start(cones, k2 + 1);
        if k2 < k { lemma_cone_start_mono(cones, k2 + 1, k); }
        if k < k2 { lemma_cone_start_mono(cones, k + 1, k2); }
    }
}
pub proof fn lemma_count_true_bounds(s: Seq<bool>, n: int)
    requires 0 <= n <= s.len(),
    ensures 0 <= count_true(s, n) <= n,
    decreases n,
{ if n > 0 { lemma_count_true_bounds(s, n - 1); } }
pub proof fn lemma_count_true_update(s: Seq<bool>, n: int, j: int, v: bool)
    requires 0 <= n <= j < s.len(),
    ensures count_true(s.update(j, v), n) == count_true(s, n),
    decreases n,
{ if n > 0 { lemma_count_true_update(s, n - 1, j, v); } }
pub proof fn lemma_count_true_all(s: Seq<bool>, n: int)
    requires 0 <= n <= s.len(), forall|i: int| 0 <= i < n ==> s[i],
    ensures count_true(s, n) == n,
    decreases n,
{ if n > 0 { lemma_count_true_all(s, n - 1); } }

impl SupportedConeT<F> {
//@fn file=src/solver/core/cones/supportedcone.rs in="impl<T> SupportedConeT<T>" name=nvars rules=R12,R2,R1 ret=r
//@contract
    requires nvars_spec(*self) <= usize::MAX,     // alpha.len() + dim2 of a GenPowerConeT must not overflow
    ensures r == nvars_spec(*self),
//@end
}

//@fn file=src/solver/implementations/default/presolver.rs name=make_reduction_map rules=R1 ret=r
//@contract
    requires
        // well-formed input: the cones partition the rows of b
        cone_start(cones@, cones@.len() as int) == b@.len(),
    ensures reduction_ok(cones@, b@, infbound, r.0, r.1),
//@before "let infbound ="
    let ghost infbound0 = infbound;
//@iter 1
it
//@loop 1
        invariant
            infbound == thr(infbound0),
            cone_start(cones@, cones@.len() as int) == b@.len(),
            it.seq().len() == cones@.len(),
            forall|k: int| 0 <= k < it.seq().len() ==> *(#[trigger] it.seq()[k]) == cones@[k],
            idx == cone_start(cones@, it.index@ as int),
            keep_logical@.len() == b@.len(),
            forall|i: int| 0 <= i < idx ==> #[trigger] keep_logical@[i] == !dropped(cones@, b@, infbound0, i),
            forall|i: int| idx <= i < b@.len() ==> #[trigger] keep_logical@[i],
            mreduced + (idx - count_true(keep_logical@, idx as int)) == b@.len(),
            0 <= count_true(keep_logical@, idx as int) <= idx,
//@body_start 1
        let ghost kc = it.index@ as int;
        proof {
            assert(*cone == cones@[kc]);
            lemma_cone_start_mono(cones@, kc + 1, cones@.len() as int);
            lemma_cone_start_mono(cones@, 0, kc);
            // nvars(cone) fits: it is bounded by b.len()
        }
//@iter 2
it2
//@loop 2
                invariant
                    infbound == thr(infbound0), 0 <= kc < cones@.len(), *cone == cones@[kc], is_nn(cones@[kc]),
                    numel_cone == nvars_spec(cones@[kc]),
                    cone_start(cones@, kc + 1) <= b@.len(),
                    idx == cone_start(cones@, kc) + it2.index@, it2.seq().len() == numel_cone,
                    keep_logical@.len() == b@.len(),
                    forall|i: int| 0 <= i < idx ==> #[trigger] keep_logical@[i] == !dropped(cones@, b@, infbound0, i),
                    forall|i: int| idx <= i < b@.len() ==> #[trigger] keep_logical@[i],
                    mreduced + (idx - count_true(keep_logical@, idx as int)) == b@.len(),
                    0 <= count_true(keep_logical@, idx as int) <= idx,
//@body_start 2
                proof {
                    lemma_row_cone_unique(cones@, kc, idx as int);
                    lemma_count_true_bounds(keep_logical@, idx as int);
                }
                let ghost keep_before = keep_logical@;
//@before "idx += 1"
                proof {
                    lemma_count_true_update(keep_before, idx as int, idx as int, false);
                    assert(keep_logical@ == keep_before || keep_logical@ == keep_before.update(idx as int, false));
                    assert(count_true(keep_logical@, idx as int + 1) == count_true(keep_logical@, idx as int) + (if keep_logical@[idx as int] { 1int } else { 0int }));
                }
//@before "idx += numel_cone"
            proof {
                assert(cone_start(cones@, kc + 1) == cone_start(cones@, kc) + nvars_spec(cones@[kc]));
                assert(b@.len() == b.len());
                // rows of a cone that is not a nonnegative cone are never dropped; they are all still `true`
                assert forall|i: int| idx <= i < idx + numel_cone implies !dropped(cones@, b@, infbound0, i) by {
                    lemma_row_cone_unique(cones@, kc, i);
                }
                lemma_count_true_skip(keep_logical@, idx as int, idx as int + numel_cone as int);
            }
//@before "let outoption ="
    proof {
        assert(idx == b@.len());
        if mreduced == b@.len() {
            assert(count_true(keep_logical@, idx as int) == idx);
            lemma_count_all_true(keep_logical@, idx as int);
            assert forall|i: int| 0 <= i < b@.len() implies !dropped(cones@, b@, infbound0, i) by {
                assert(keep_logical@[i]);
            }
        } else {
            if forall|i: int| 0 <= i < idx ==> keep_logical@[i] {
                lemma_count_true_all(keep_logical@, idx as int);
                assert(false);
            }
            let j = choose|j: int| 0 <= j < idx && !keep_logical@[j];
            assert(dropped(cones@, b@, infbound0, j));
        }
    }
//@end

// module-level infinity bound (src/utils/infbounds.rs: an AtomicF64 behind lazy_static!, outside Verus).
// ASSUMED: get_infinity() returns "the value in force", modelled as one uninterpreted value for the duration of a
// constructor call (no concurrent set_infinity while a solver is being built)
pub uninterp spec fn infinity_in_force() -> f64;
#[verifier::external_body]
pub fn get_infinity() -> (r: f64) ensures r == infinity_in_force() { unimplemented!() }
//@const file=src/lib.rs name=_INFINITY_DEFAULT
//@const file=src/utils/infbounds.rs name=INFINITY_DEFAULT
pub assume_specification<T: Clone> [<[T]>::to_vec] (s: &[T]) -> (r: Vec<T>)
    ensures r@.len() == s@.len();

impl Presolver<F> {
//@fn file=src/solver/implementations/default/presolver.rs in="impl<T> Presolver<T>" name=new rules=R1 ret=r
//@contract
    requires cone_start(cones@, cones@.len() as int) == b@.len(),
    ensures
        // C09: "the bound is the module-level value in force when the solver was built", captured once
        r.infbound == infinity_in_force(),
        r.mfull == b@.len(),
        reduction_ok(cones@, b@, f_lit(infinity_in_force()), r.reduce_map, r.mreduced),
//@end
//@fn file=src/solver/implementations/default/presolver.rs in="impl<T> Presolver<T>" name=count_reduced rules=R1 ret=r
//@contract
    requires self.mreduced <= self.mfull,
    ensures r == self.mfull - self.mreduced,
//@end
//@fn file=src/solver/implementations/default/presolver.rs in="impl<T> Presolver<T>" name=is_reduced rules=R1 ret=r
//@contract
    ensures r == (self.reduce_map is Some)
//@end
//@fn file=src/solver/implementations/default/presolver.rs in="impl<T> Presolver<T>" name=reverse_presolve rules=R1,R3,R5
//@contract
    requires
        self.reduce_map is Some,
        // lengths as produced by Presolver::new / DefaultSolution::new / DefaultVariables::new
        old(solution).x@.len() == variables.x@.len(),
        self.reduce_map->Some_0.keep_logical@.len() == old(solution).s@.len(),
        old(solution).s@.len() == old(solution).z@.len(),
        variables.s@.len() == variables.z@.len(),
        count_true(self.reduce_map->Some_0.keep_logical@, old(solution).s@.len() as int) == variables.s@.len(),
    ensures
        // C09 / C03: the user's lengths and ordering are restored
        final(solution).x@ == variables.x@,
        final(solution).s@.len() == old(solution).s@.len(), final(solution).z@.len() == old(solution).z@.len(),
        forall|i: int| 0 <= i < final(solution).s@.len() ==> #[trigger] row_restored(self.reduce_map->Some_0.keep_logical@,
            final(solution).s@, final(solution).z@, variables.s@, variables.z@, f_lit(self.infbound), i),
        // nothing else in the solution record is touched
        final(solution).status == old(solution).status, final(solution).obj_val == old(solution).obj_val,
        final(solution).obj_val_dual == old(solution).obj_val_dual, final(solution).iterations == old(solution).iterations,
        final(solution).r_prim == old(solution).r_prim, final(solution).r_dual == old(solution).r_dual,
        final(solution).solve_time == old(solution).solve_time,
//@iter 1
it
//@loop 1
        invariant
            idx_ctr == it.index@, map.keep_logical@ == self.reduce_map->Some_0.keep_logical@,
            it.seq().len() == map.keep_logical@.len(),
            forall|k: int| 0 <= k < it.seq().len() ==> *(#[trigger] it.seq()[k]) == map.keep_logical@[k],
            solution.x@ == variables.x@,
            solution.s@.len() == old(solution).s@.len(), solution.z@.len() == old(solution).z@.len(),
            map.keep_logical@.len() == solution.s@.len(), solution.s@.len() == solution.z@.len(),
            variables.s@.len() == variables.z@.len(),
            count_true(map.keep_logical@, solution.s@.len() as int) == variables.s@.len(),
            ctr == count_true(map.keep_logical@, idx_ctr as int),
            forall|i: int| 0 <= i < idx_ctr ==> #[trigger] row_restored(map.keep_logical@, solution.s@, solution.z@, variables.s@, variables.z@, f_lit(self.infbound), i),
            solution.status == old(solution).status, solution.obj_val == old(solution).obj_val,
            solution.obj_val_dual == old(solution).obj_val_dual, solution.iterations == old(solution).iterations,
            solution.r_prim == old(solution).r_prim, solution.r_dual == old(solution).r_dual, solution.solve_time == old(solution).solve_time,
//@body_start 1
            let ghost s0 = solution.s@;
            let ghost z0 = solution.z@;
            proof {
                assert(map.keep_logical@.len() == map.keep_logical.len());   // a Vec length fits in usize
                lemma_count_true_le(map.keep_logical@, it.index@ as int + 1, solution.s@.len() as int);
                lemma_count_true_bounds(map.keep_logical@, it.index@ as int);
            }
//@body_end 1
            proof {
                assert forall|i: int| 0 <= i < idx_ctr implies #[trigger] row_restored(map.keep_logical@, solution.s@, solution.z@, variables.s@, variables.z@, f_lit(self.infbound), i) by {
                    if i < idx { assert(row_restored(map.keep_logical@, s0, z0, variables.s@, variables.z@, f_lit(self.infbound), i)); }
                }
            }
//@end
}

pub proof fn lemma_count_true_le(s: Seq<bool>, a: int, b: int)
    requires 0 <= a <= b <= s.len(),
    ensures count_true(s, a) <= count_true(s, b),
    decreases b - a,
{ if a < b { lemma_count_true_le(s, a, b - 1); } }
pub proof fn lemma_count_true_skip(s: Seq<bool>, a: int, b: int)
    requires 0 <= a <= b <= s.len(), forall|i: int| a <= i < b ==> s[i],
    ensures count_true(s, b) == count_true(s, a) + (b - a),
    decreases b - a,
{ if a < b { lemma_count_true_skip(s, a, b - 1); } }
pub proof fn lemma_count_all_true(s: Seq<bool>, n: int)
    requires 0 <= n <= s.len(), count_true(s, n) == n,
    ensures forall|i: int| 0 <= i < n ==> s[i],
    decreases n,
{
    if n > 0 {
        lemma_count_true_bounds(s, n - 1);
        lemma_count_all_true(s, n - 1);
    }
}

// C01 / C02: what un-scaling does to the iterate: kappa-normalisation exactly for infeasibility certificates,
// tau-normalisation otherwise; x by D, z by E/c, s by E^-1 (entry for entry, in the float symbols)
pub open spec fn unscaled_by(o: DefaultVariables<F>, data: DefaultProblemData<F>, is_infeasible: bool, n: DefaultVariables<F>) -> bool {
    let sc = if is_infeasible { f_recip(o.kappa) } else { f_recip(o.tau) };
    let cinv = f_recip(data.equilibration.c);
    &&& n.x@.len() == o.x@.len() && n.z@.len() == o.z@.len() && n.s@.len() == o.s@.len()
    &&& forall|i: int| 0 <= i < o.x@.len() ==> #[trigger] n.x@[i] ==
            f_mul((if i < data.equilibration.d@.len() { f_mul(o.x@[i], data.equilibration.d@[i]) } else { o.x@[i] }), sc)
    &&& forall|i: int| 0 <= i < o.z@.len() ==> #[trigger] n.z@[i] ==
            f_mul((if i < data.equilibration.e@.len() { f_mul(o.z@[i], data.equilibration.e@[i]) } else { o.z@[i] }), f_mul(sc, cinv))
    &&& forall|i: int| 0 <= i < o.s@.len() ==> #[trigger] n.s@[i] ==
            f_mul((if i < data.equilibration.einv@.len() { f_mul(o.s@[i], data.equilibration.einv@[i]) } else { o.s@[i] }), sc)
    &&& n.tau == f_mul(o.tau, sc)
    &&& n.kappa == f_mul(o.kappa, sc)
}
impl DefaultVariables<F> {
//@fn file=src/solver/implementations/default/variables.rs in="impl<T> DefaultVariables<T>" name=unscale rules=R1,R2
//@contract
    ensures unscaled_by(*old(self), *data, is_infeasible, *final(self)),
//@end
}

// shape agreement between the solution record, the (possibly reduced) iterate and the presolver, as established
// by DefaultSolution::new(n, m_full), DefaultVariables::new(n, m_reduced) and Presolver::new
pub open spec fn shapes_ok(sol: DefaultSolution<F>, v: DefaultVariables<F>, data: DefaultProblemData<F>) -> bool {
    &&& sol.x@.len() == v.x@.len()
    &&& sol.s@.len() == sol.z@.len()
    &&& v.s@.len() == v.z@.len()
    &&& match data.presolver {
            Some(p) => p.reduce_map is Some
                && p.reduce_map->Some_0.keep_logical@.len() == sol.s@.len()
                && count_true(p.reduce_map->Some_0.keep_logical@, sol.s@.len() as int) == v.s@.len(),
            None => sol.s@.len() == v.s@.len(),
        }
}

impl DefaultSolution<F> {
//@fn file=src/solver/implementations/default/solution.rs in="Solution<T> for DefaultSolution<T>" name=post_process rules=R1,R12
//@contract
    requires shapes_ok(*old(self), *old(variables), *data),
    ensures
        // C03: the report copies the info record
        final(self).status == info.status, final(self).iterations == info.iterations,
        final(self).r_prim == info.res_primal, final(self).r_dual == info.res_dual,
        final(self).solve_time == old(self).solve_time,
        // C02: objective values are NaN for the four infeasible statuses, the info costs otherwise
        is_infeasible_spec(info.status) ==> final(self).obj_val == f_nan() && final(self).obj_val_dual == f_nan(),
        !is_infeasible_spec(info.status) ==> final(self).obj_val == info.cost_primal && final(self).obj_val_dual == info.cost_dual,
        // C01 / C02: the returned point is the un-scaled iterate; kappa-normalised exactly for infeasible statuses
        unscaled_by(*old(variables), *data, is_infeasible_spec(info.status), *final(variables)),
        final(self).x@ == final(variables).x@,
        // C03 / C09: user lengths preserved
        final(self).s@.len() == old(self).s@.len(), final(self).z@.len() == old(self).z@.len(),
        data.presolver is None ==> final(self).s@ == final(variables).s@ && final(self).z@ == final(variables).z@,
        data.presolver matches Some(p) ==> forall|i: int| 0 <= i < final(self).s@.len() ==>
            #[trigger] row_restored(p.reduce_map->Some_0.keep_logical@, final(self).s@, final(self).z@,
                                    final(variables).s@, final(variables).z@, f_lit(p.infbound), i),
//@end
//@fn file=src/solver/implementations/default/solution.rs in="Solution<T> for DefaultSolution<T>" name=finalize rules=R1
//@contract
    ensures *final(self) == (DefaultSolution::<F> { solve_time: info.solve_time, ..*old(self) }),
//@end
}

// ------------------------------------------------------------------ construction-time dimension check (C04)
pub open spec fn dims_consistent(P: CscMatrix<F>, q: Seq<F>, A: CscMatrix<F>, b: Seq<F>, cones: Seq<SupportedConeT<F>>) -> bool {
    &&& b.len() == A.m && cone_start(cones, cones.len() as int) == b.len()
    &&& q.len() == A.n && q.len() == P.n && P.m == P.n
}
impl CscMatrix<F> {
//@fn file=src/algebra/csc/core.rs in="ShapedMatrix for CscMatrix<T>" name=nrows rules=R1 ret=r
//@contract
    ensures r == self.m
//@end
//@fn file=src/algebra/csc/core.rs in="ShapedMatrix for CscMatrix<T>" name=ncols rules=R1 ret=r
//@contract
    ensures r == self.n
//@end
//@fn file=src/algebra/csc/core.rs in="ShapedMatrix for CscMatrix<T>" name=is_square rules=R1 ret=r
//@contract
    ensures r == (self.m == self.n)
//@end
}
// (a) consistent dimensions are accepted: none of the documented panics fires
//@fn file=src/solver/implementations/default/solver.rs name=_check_dimensions rules=R1,R24,R27
//@contract
    requires dims_consistent(*P, q@, *A, b@, cone_types@),
        forall|k: int| 0 <= k < cone_types@.len() ==> nvars_spec(#[trigger] cone_types@[k]) <= usize::MAX,
//@pre
    proof { assert(b@.len() == b.len()); }
//@iter 1
it
//@loop 1
        invariant
            it.seq().len() == cone_types@.len(), (forall|i: int| 0 <= i < cone_types@.len() ==> *(#[trigger] it.seq()[i]) == cone_types@[i]),
            forall|k: int| 0 <= k < cone_types@.len() ==> nvars_spec(#[trigger] cone_types@[k]) <= usize::MAX,
            cone_start(cone_types@, cone_types@.len() as int) <= usize::MAX,
            acc == cone_start(cone_types@, it.index@ as int),
//@body_start 1
        proof { lemma_cone_start_mono(cone_types@, it.index@ + 1, cone_types@.len() as int); }
//@end
// (b) whenever the check returns, the dimensions are consistent: the asserts together are a complete test
//@fn file=src/solver/implementations/default/solver.rs name=_check_dimensions as=_check_dimensions_returns rules=R1,R24,R26
//@contract
    requires
        // the cone dimensions are summed in usize: ASSUMED not to wrap (a wrapped sum could equal m by accident)
        cone_start(cone_types@, cone_types@.len() as int) <= usize::MAX,
        forall|k: int| 0 <= k < cone_types@.len() ==> nvars_spec(#[trigger] cone_types@[k]) <= usize::MAX,
    ensures dims_consistent(*P, q@, *A, b@, cone_types@),
//@iter 1
it
//@loop 1
        invariant
            it.seq().len() == cone_types@.len(), (forall|i: int| 0 <= i < cone_types@.len() ==> *(#[trigger] it.seq()[i]) == cone_types@[i]),
            forall|k: int| 0 <= k < cone_types@.len() ==> nvars_spec(#[trigger] cone_types@[k]) <= usize::MAX,
            cone_start(cone_types@, cone_types@.len() as int) <= usize::MAX,
            acc == cone_start(cone_types@, it.index@ as int),
//@body_start 1
        proof { lemma_cone_start_mono(cone_types@, it.index@ + 1, cone_types@.len() as int); }
//@end

} // verus!
fn main() {}
