// unit `composite2` : what unit `composite` dropped of src/solver/core/cones/compositecone.rs, and the default methods of
// src/solver/core/cones/symmetric_common.rs for a GENERIC symmetric cone (C07 / C13: every cone gets its identity scaling on a
// re-solve; the combined-step shift and the ds offset of every symmetric cone are the documented compositions of its own operators).
// Float model: F-opaque (data flow only).
//
// PROVED (real text)
//   CompositeCone::{len, is_empty, iter, iter_mut}   the wrappers hand out exactly the cone list (`iter_mut`: in vstd's vocabulary for
//       slice::IterMut -- the references handed out are the cones in order, and what is written through them is what the list holds
//       afterwards; nothing else of the object changes);
//   CompositeCone::set_identity_scaling   (the loop over `self.iter_mut()`, verbatim): EVERY cone gets `set_identity_scaling`, exactly once
//       (sis_rel between its old and new value), its shape is kept, and numel / degree / ranges / counts / symmetry flag are untouched;
//   CompositeCone::get_type_count   (rule mapidxf) the stored count for a tag that was recorded, 0 otherwise; no panic of the map index;
//   SymmetricConeUtils::_combined_ds_shift_symmetric   for ANY C: SymmetricCone + Cone (blanket impl, real text):
//       step_z <- W step_z (mul_W, N, alpha 1, beta 0, input = a copy of step_z);  step_s <- W^-T step_s (mul_Winv, T, 1, 0, copy of step_s);
//       shift <- unit_shift( step_s o step_z , -sigma*mu, PrimalCone )  with the NEW step_s, step_z in THIS order;  scaling state kept;
//   SymmetricConeUtils::_Δs_from_Δz_offset_symmetric   work <- lambda \ ds;  out <- W^T work (mul_W, T, 1, 0);  scaling state kept.
// ASSUMED
//   * SupportedCone<T> stand-in (enum_dispatch enum): set_identity_scaling keeps shape(); its effect is NAMED (sis_rel) -- as in unit composite;
//   * HashMap<SupportedConeTag, usize> stand-in (ghost Map): contains_key, `m[&k]` = at(k) with the documented panic as precondition;
//   * the trait-level contracts of SymmetricCone / JordanAlgebra / Cone (merged into the stand-in trait `SymCone`, generic `impl<C: SymCone>`):
//     every operator is a FUNCTION (named, uninterpreted: mulw / mulwinv / circ / linv / ushift) of the cone's scaling state `key()` and its
//     arguments, needs vectors of the cone's size and keeps `key()`.  These are the shapes of the contracts PROVED per cone type in units
//     nncone / socone_ops / psdcone (there with the operators interpreted); the instantiation C := that cone type is not repeated here
//     (nncone and psdcone verify the same text inside their concrete impls);
//   * VectorMath::copy_from (prelude/vecmath_assumed.rs, proved in unit vecmath).
// ALREADY COVERED elsewhere: len / iter also in info_print / kkt_assemble (same contracts).
// DROPPED: CompositeCone::is_sparse_expandable (body `unreachable!()`: the only possible contract is `requires false`, which the vacuity guard
//   of check.py rightly rejects; no caller exists: kkt_new / kkt_assemble call the per-cone method).  Nothing else of the listed bodies.  NOT COVERED: type_counts construction in CompositeCone::new (HashMap entry API over an enum key).
// MUTATION ROUND (scratch copy, 15 wrong edits: identity scaling of the first cone only / all but the first / twice, is_empty negated, len of
//   rng_cones, get_type_count without the guard / default 1, circ_op arguments swapped, +sigma*mu, mul_W for mul_Winv, wrong transposition (x2),
//   second copy dropped, lambda solve dropped, W applied to ds): all 15 fail the obligation of the edited function, 0 survivors.
// New rewrite rule (tools/extract.py, additive): mapidxf (`X.F[&K]` -> `(*X.F.at(&K))`, the field-path twin of mapidx).
#![allow(non_snake_case)]
use vstd::prelude::*;
use std::ops::Range;
use vstd::std_specs::iter::IteratorSpec;
verus! {
//@include prelude/float_opaque.rs
//@include prelude/vecmath_assumed.rs
//@enum file=src/solver/core/cones/mod.rs name=PrimalOrDualCone rules=R12 derive="PartialEq, Eq, Clone, Copy, Structural"
//@enum file=src/algebra/matrix_types.rs name=MatrixShape rules=R12 derive="PartialEq, Eq, Clone, Copy, Structural"
//@enum file=src/solver/core/cones/supportedcone.rs name=SupportedConeTag rules=R12 derive="PartialEq, Eq, Clone, Copy, Structural"

// ---- stand-ins ----
pub struct ConeShape { pub numel: nat, pub degree: nat, pub sym: bool }
#[verifier::external_body]
#[verifier::accept_recursive_types(T)]
pub struct SupportedCone<T> { _p: Option<T> }
impl<T> SupportedCone<T> {
    pub uninterp spec fn shape(&self) -> ConeShape;
    // NAMED effect of the per-cone set_identity_scaling
    pub uninterp spec fn sis_rel(old: &Self, new: &Self) -> bool;
    #[verifier::external_body] pub fn set_identity_scaling(&mut self)
        ensures final(self).shape() == old(self).shape(), Self::sis_rel(old(self), final(self)),
    { unimplemented!() }
}
#[verifier::external_body]
#[verifier::reject_recursive_types(K)]
#[verifier::accept_recursive_types(V)]
pub struct HashMap<K, V> { _p: core::marker::PhantomData<(K, V)> }
impl<K, V> View for HashMap<K, V> { type V = Map<K, V>; uninterp spec fn view(&self) -> Map<K, V>; }
impl<V> HashMap<SupportedConeTag, V> {
    #[verifier::external_body] pub fn contains_key(&self, k: &SupportedConeTag) -> (r: bool) ensures r == self@.contains_key(*k) { unimplemented!() }
    // rule mapidxf: `m[&k]` ("Panics if the key is not present")
    #[verifier::external_body] pub fn at(&self, k: &SupportedConeTag) -> (r: &V) requires self@.contains_key(*k), ensures *r == self@[*k] { unimplemented!() }
}

//@struct file=src/solver/core/cones/compositecone.rs name=CompositeCone rules=R12

impl CompositeCone<F> {
    // everything but the cone list
    pub open spec fn rest_eq(&self, o: &Self) -> bool {
        self.type_counts == o.type_counts && self.numel == o.numel && self.degree == o.degree && self.rng_cones == o.rng_cones
        && self.rng_blocks == o.rng_blocks && self._is_symmetric == o._is_symmetric
    }
//@fn file=src/solver/core/cones/compositecone.rs in="impl<T> CompositeCone<T>" name=len rules=R1 ret=r
//@contract
    ensures r == self.cones@.len(),
//@end
//@fn file=src/solver/core/cones/compositecone.rs in="impl<T> CompositeCone<T>" name=is_empty rules=R1 ret=r
//@contract
    ensures r == (self.cones@.len() == 0),
//@end
//@fn file=src/solver/core/cones/compositecone.rs in="impl<T> CompositeCone<T>" name=iter rules=R1 ret=r
//@contract
    ensures r.remaining().len() == self.cones@.len(),
        forall|q: int| 0 <= q < self.cones@.len() ==> *(#[trigger] r.remaining()[q]) == self.cones@[q],
        vstd::std_specs::slice::into_iter_elts(r) == r.remaining().unref(), r.decrease() is Some,
//@end
//@fn file=src/solver/core/cones/compositecone.rs in="impl<T> CompositeCone<T>" name=iter_mut rules=R1 ret=r
//@contract
    ensures
        // the references handed out are the cones, in order ...
        r.remaining().len() == old(self).cones@.len(),
        forall|q: int| 0 <= q < r.remaining().len() ==> *(#[trigger] r.remaining()[q]) == old(self).cones@[q],
        // ... what is written through them is what the list holds afterwards, and nothing else of the object changes
        final(self).cones@.len() == old(self).cones@.len(),
        forall|q: int| #![trigger final(self).cones@[q]] #![trigger r.remaining()[q]] 0 <= q < r.remaining().len() ==> final(self).cones@[q] == *final(r.remaining()[q]),
        final(self).rest_eq(old(self)),
        r.obeys_prophetic_iter_laws(), r.decrease() is Some,
//@end
//@fn file=src/solver/core/cones/compositecone.rs in="impl<T> CompositeCone<T>" name=get_type_count rules=R1,mapidxf ret=r
//@contract
    ensures r == (if self.type_counts@.contains_key(tag) { self.type_counts@[tag] } else { 0usize }),
//@end

//@fn file=src/solver/core/cones/compositecone.rs in="impl<T> Cone<T> for CompositeCone<T>" name=set_identity_scaling rules=R1
//@contract
    ensures final(self).cones@.len() == old(self).cones@.len(), final(self).rest_eq(old(self)),
        forall|i: int| #![trigger final(self).cones@[i]] 0 <= i < old(self).cones@.len() ==>
            SupportedCone::sis_rel(&old(self).cones@[i], &final(self).cones@[i]) && final(self).cones@[i].shape() == old(self).cones@[i].shape(),
//@pre
    let ghost c0 = self.cones@;
//@iter 1
it
//@loop 1
        invariant it.seq().len() == c0.len(),
            forall|q: int| it.index@ <= q < c0.len() ==> *(#[trigger] it.seq()[q]) == c0[q],
            forall|q: int| 0 <= q < it.index@ ==> SupportedCone::sis_rel(&c0[q], &*final(#[trigger] it.seq()[q])) && (*final(it.seq()[q])).shape() == c0[q].shape(),
//@end
}

// ------------------------------------------------------------------ symmetric_common.rs: the blanket implementation
// NAMED operators of a symmetric cone: functions of its scaling state and the arguments
pub struct SKey { pub id: int }
pub uninterp spec fn mulw(k: SKey, t: MatrixShape, y0: Seq<F>, x: Seq<F>, a: F, b: F) -> Seq<F>;
pub uninterp spec fn mulwinv(k: SKey, t: MatrixShape, y0: Seq<F>, x: Seq<F>, a: F, b: F) -> Seq<F>;
pub uninterp spec fn circ(k: SKey, y: Seq<F>, z: Seq<F>) -> Seq<F>;
pub uninterp spec fn linv(k: SKey, z: Seq<F>) -> Seq<F>;
pub uninterp spec fn ushift(k: SKey, z: Seq<F>, alpha: F, pd: PrimalOrDualCone) -> Seq<F>;
// stand-in for `SymmetricCone<T> + JordanAlgebra<T> + Cone<T>` (the methods the two default bodies use), trait-level contracts
pub trait SymCone {
    spec fn key(&self) -> SKey;
    spec fn numel_s(&self) -> nat;
    fn mul_W(&mut self, is_transpose: MatrixShape, y: &mut [F], x: &[F], alpha: F, beta: F)
        requires old(y)@.len() == old(self).numel_s(), x@.len() == old(self).numel_s(),
        ensures final(self).key() == old(self).key(), final(self).numel_s() == old(self).numel_s(),
            final(y)@.len() == old(y)@.len(), final(y)@ == mulw(old(self).key(), is_transpose, old(y)@, x@, alpha, beta);
    fn mul_Winv(&mut self, is_transpose: MatrixShape, y: &mut [F], x: &[F], alpha: F, beta: F)
        requires old(y)@.len() == old(self).numel_s(), x@.len() == old(self).numel_s(),
        ensures final(self).key() == old(self).key(), final(self).numel_s() == old(self).numel_s(),
            final(y)@.len() == old(y)@.len(), final(y)@ == mulwinv(old(self).key(), is_transpose, old(y)@, x@, alpha, beta);
    fn lambda_inv_circ_op(&mut self, x: &mut [F], z: &[F])
        requires old(x)@.len() == old(self).numel_s(), z@.len() == old(self).numel_s(),
        ensures final(self).key() == old(self).key(), final(self).numel_s() == old(self).numel_s(),
            final(x)@.len() == old(x)@.len(), final(x)@ == linv(old(self).key(), z@);
    fn circ_op(&mut self, x: &mut [F], y: &[F], z: &[F])
        requires old(x)@.len() == old(self).numel_s(), y@.len() == old(self).numel_s(), z@.len() == old(self).numel_s(),
        ensures final(self).key() == old(self).key(), final(self).numel_s() == old(self).numel_s(),
            final(x)@.len() == old(x)@.len(), final(x)@ == circ(old(self).key(), y@, z@);
    fn scaled_unit_shift(&self, z: &mut [F], alpha: F, pd: PrimalOrDualCone)
        requires old(z)@.len() == self.numel_s(),
        ensures final(z)@.len() == old(z)@.len(), final(z)@ == ushift(self.key(), old(z)@, alpha, pd);
}
pub trait SymmetricConeUtils {
    spec fn k(&self) -> SKey;
    spec fn n(&self) -> nat;
    fn _combined_ds_shift_symmetric(&mut self, shift: &mut [F], step_z: &mut [F], step_s: &mut [F], sigmamu: F)
        requires old(shift)@.len() == old(self).n(), old(step_z)@.len() == old(self).n(), old(step_s)@.len() == old(self).n(),
        ensures final(self).k() == old(self).k(), final(self).n() == old(self).n(),
            // step_z <- W step_z,  step_s <- W^-T step_s,  shift <- (step_s o step_z) - sigma*mu e
            final(step_z)@ == mulw(old(self).k(), MatrixShape::N, old(step_z)@, old(step_z)@, f_one(), f_zero()),
            final(step_s)@ == mulwinv(old(self).k(), MatrixShape::T, old(step_s)@, old(step_s)@, f_one(), f_zero()),
            final(shift)@ == ushift(old(self).k(), circ(old(self).k(), final(step_s)@, final(step_z)@), f_neg(sigmamu), PrimalOrDualCone::PrimalCone);
    fn _Deltas_from_Deltaz_offset_symmetric(&mut self, out: &mut [F], ds: &[F], work: &mut [F])
        requires old(out)@.len() == old(self).n(), ds@.len() == old(self).n(), old(work)@.len() == old(self).n(),
        ensures final(self).k() == old(self).k(), final(self).n() == old(self).n(),
            // work <- lambda \ ds,  out <- W' work
            final(work)@ == linv(old(self).k(), ds@),
            final(out)@ == mulw(old(self).k(), MatrixShape::T, old(out)@, final(work)@, f_one(), f_zero());
}
impl<C: SymCone> SymmetricConeUtils for C {
    open spec fn k(&self) -> SKey { self.key() }
    open spec fn n(&self) -> nat { self.numel_s() }
//@fn file=src/solver/core/cones/symmetric_common.rs in="SymmetricConeUtils<T> for C" name=_combined_ds_shift_symmetric rules=R1,R2
//@end
//@fn file=src/solver/core/cones/symmetric_common.rs in="SymmetricConeUtils<T> for C" name=_Δs_from_Δz_offset_symmetric rules=R1,R2
//@end
}

} // verus!
fn main() {}
