// unit `alg_utils` : small leftovers -- src/algebra/utils.rs (`permute`, `ipermute`: the safe wrappers used by the chordal code and the
// presolver) and the print-target switches of src/io/mod.rs (C20: output goes where the user pointed it).
//
// PROVED (real text)
//   algebra::utils::permute    x[i] = b[p[i]] on the common prefix of p and x, the rest of x untouched, length kept -- from in_range(p, |b|),
//                              the condition under which the `get_unchecked` inside qdldl::permute is safe (the wrapper adds NO check);
//   algebra::utils::ipermute   x[p[i]] = b[i] (last writer wins), positions outside the image of p untouched -- from in_range(p, |x|);
//   ConfigurablePrintTarget for PrintTarget::{print_to_stdout, print_to_file, print_to_sink, print_to_buffer}
//                              the target becomes exactly the named variant; `print_to_file` stores THE file it was given;
//                              `print_to_buffer` starts from an EMPTY buffer (earlier output is discarded).
// ASSUMED
//   * qdldl::permute / qdldl::ipermute (module stand-in): the contracts PROVED in units qdldl_kernels / qdldl_new (same text);
//   * PrintTarget: hand-written twin of the enum (the `Stream(Box<dyn Write + Send + Sync>)` variant is a trait object; here an opaque
//     `BoxedStream`), Stdout / File opaque stand-ins, `self::stdout()` returns some Stdout, std::io::sink() some Sink.
// OUT OF REACH in this framework (said plainly; nothing is claimed for them):
//   * sortperm / sortperm_rev / sortperm_by (closure-generic `sort_by` / `sort_by_key` over `T: Ord` with a captured FnMut comparator: the
//     assumed stable-permutation contract of prelude/sort_assumed.rs is stated for (usize, T) pairs sorted by the first component; a
//     comparator-generic version needs a spec-level reading of an FnMut closure, which Verus does not give), findmax (`max_by_key` chain),
//     PositionAll::position_all (its body is the iterator chain that rule posall writes out as a loop AT THE CALL SITES: chordal units);
//   * utils/infbounds.rs get_infinity / set_infinity / default_infinity: a `lazy_static!` global AtomicF64 -- "set then get returns the value"
//     is a statement about global mutable state; Verus has no model of statics without threading a token through the signatures, which
//     would not be the real functions any more (a Kani harness is the right tool: 3 lines, bit-precise);
//   * DefaultSolver's six print-target forwarding methods (solver.rs): one-line forwards `self.info.stream.print_to_*()` through the
//     generic Solver struct of 8 type parameters (unit solve owns that stand-in); print_to_stream / get_print_buffer / Clone for
//     PrintTarget (`Box<dyn Write + Send + Sync>` in a signature, `String::from_utf8_lossy`, `File::try_clone`): the Kani harnesses of
//     C20 (kani/print_target*.rs) cover write / flush / clone on the real enum.
// MUTATION ROUND (scratch copy, 7 wrong edits: permute <-> ipermute (x2), first index dropped, print_to_sink -> stdout, print_to_stdout ->
//   sink, print_to_buffer keeping an old buffer, print_to_file ignoring its argument): all 7 fail the obligation of the edited function.
#![allow(non_snake_case)]
use vstd::prelude::*;
verus! {

pub open spec fn in_range(p: Seq<usize>, n: int) -> bool { forall|i: int| 0 <= i < p.len() ==> #[trigger] p[i] < n }
// ASSUMED here, PROVED in units qdldl_kernels / qdldl_new (src/qdldl/qdldl.rs)
pub mod qdldl {
    use super::*;
    #[verifier::external_body]
    pub fn permute<T: Copy>(x: &mut [T], b: &[T], p: &[usize])
        requires in_range(p@, b@.len() as int),
        ensures
            final(x)@.len() == old(x)@.len(),
            forall|i: int| 0 <= i < p@.len() && i < old(x)@.len() ==> #[trigger] final(x)@[i] == b@[p@[i] as int],
            forall|i: int| p@.len() <= i < old(x)@.len() ==> #[trigger] final(x)@[i] == old(x)@[i],
    { unimplemented!() }
    #[verifier::external_body]
    pub fn ipermute<T: Copy>(x: &mut [T], b: &[T], p: &[usize])
        requires in_range(p@, old(x)@.len() as int),
        ensures
            final(x)@.len() == old(x)@.len(),
            forall|i: int| 0 <= i < p@.len() && i < b@.len() && (forall|i2: int| i < i2 < p@.len() && i2 < b@.len() ==> p@[i2] != p@[i])
                ==> final(x)@[#[trigger] p@[i] as int] == b@[i],
            forall|s: int| 0 <= s < old(x)@.len() && (forall|i: int| 0 <= i < p@.len() && i < b@.len() ==> p@[i] != s) ==> #[trigger] final(x)@[s] == old(x)@[s],
    { unimplemented!() }
}

//@fn file=src/algebra/utils.rs name=permute rules=R12
//@contract
    requires in_range(p@, b@.len() as int),
    ensures
        final(x)@.len() == old(x)@.len(),
        forall|i: int| 0 <= i < p@.len() && i < old(x)@.len() ==> #[trigger] final(x)@[i] == b@[p@[i] as int],
        forall|i: int| p@.len() <= i < old(x)@.len() ==> #[trigger] final(x)@[i] == old(x)@[i],
//@end
//@fn file=src/algebra/utils.rs name=ipermute rules=R12
//@contract
    requires in_range(p@, old(x)@.len() as int),
    ensures
        final(x)@.len() == old(x)@.len(),
        forall|i: int| 0 <= i < p@.len() && i < b@.len() && (forall|i2: int| i < i2 < p@.len() && i2 < b@.len() ==> p@[i2] != p@[i])
            ==> final(x)@[#[trigger] p@[i] as int] == b@[i],
        forall|s: int| 0 <= s < old(x)@.len() && (forall|i: int| 0 <= i < p@.len() && i < b@.len() ==> p@[i] != s) ==> #[trigger] final(x)@[s] == old(x)@[s],
//@end

// ------------------------------------------------------------------ io/mod.rs
pub struct Stdout { pub _p: u8 }
pub struct File { pub id: int }
pub struct BoxedStream { pub _p: u8 }
#[verifier::external_type_specification]
#[verifier::external_body]
pub struct ExSink(std::io::Sink);
pub assume_specification [std::io::sink] () -> (r: std::io::Sink);
#[verifier::external_body] pub fn stdout() -> (r: Stdout) { unimplemented!() }
// hand-written twin of `pub(crate) enum PrintTarget` (the Stream variant holds a trait object)
pub enum PrintTarget {
    Stdout(Stdout),
    File(File),
    Buffer(Vec<u8>),
    Stream(BoxedStream),
    Sink(std::io::Sink),
}
impl PrintTarget {
//@fn file=src/io/mod.rs in="impl ConfigurablePrintTarget for PrintTarget" name=print_to_stdout
//@contract
    ensures *final(self) is Stdout,
//@end
//@fn file=src/io/mod.rs in="impl ConfigurablePrintTarget for PrintTarget" name=print_to_file
//@contract
    ensures *final(self) == PrintTarget::File(file),
//@end
//@fn file=src/io/mod.rs in="impl ConfigurablePrintTarget for PrintTarget" name=print_to_sink
//@contract
    ensures *final(self) is Sink,
//@end
//@fn file=src/io/mod.rs in="impl ConfigurablePrintTarget for PrintTarget" name=print_to_buffer
//@contract
    ensures *final(self) matches PrintTarget::Buffer(b) && b@.len() == 0,
//@end
}

} // verus!
fn main() {}
