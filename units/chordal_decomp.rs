// unit `chordal_decomp` : index-level pieces of the chordal decomposition and of its reversal (C18) and of the graph that is handed to
// the clique-tree analysis (C17)
//
// PROVED (real text, unbounded: panic-freedom + structural clause):
//   chordal_info.rs: find_aggregate_sparsity_mask (row marked <=> A stores an entry in it or b[i] != 0), connect_graph (afterwards every
//     column but the last has an entry below the diagonal; nothing lost; only the sub-diagonal entries (j+1, j) of unconnected columns
//     added; canonical and strictly lower preserved), the triplet loop of find_graph (statement slice `find_graph_coords`)
//   decomp/augment_standard.rs: add_subblock_map (appends the packed upper triangle of the clique block, entry (a, b) at tri(b) + a ->
//     row_start + packed(v[a], v[b]); lemma_subblock_injective: for a sorted clique every entry appears exactly once), decompose_with_cone
//   decomp/reverse_compact.rs: add_blocks_with_cone, the double loop of add_blocks_with_sparsity_pattern (statement slice
//     `add_blocks_clique_loop`: z overwritten, s accumulated, each target written exactly once, nothing else touched, counter = tri(|clique|))
// ASSUMED (hand-written stand-ins, not verified here):
//   CscMatrix::set_entry : contract copied from unit csc_core, where it is PROVED from the real body;
//   coord_to_upper_triangular_index, upper_triangular_index_to_coord : contracts copied from unit scalarmath, where they are PROVED
//     (the second one modulo the assumed isqrt contract, see there);
//   SupportedConeT<T> (opaque stand-in; the real enum has a variant behind `#[cfg(feature = "sdp")]`) with `nvars` (uninterpreted
//     `nvars_spec`; the real body is proved in unit postprocess for the default feature set) and `clone` (returns an equal value);
//   VectorMath::copy_from (prelude/vecmath_assumed.rs, proved in unit vecmath), `Range::clone` (std);
//   1.0 != 0.0 in the float model is a *precondition* of connect_graph (`!f_eq(f_one(), f_zero())`), true for IEEE-754.
// PRECONDITIONS and the call sites:
//   find_aggregate_sparsity_mask `rowval[k] < b.len()`: A.m == b.len() is asserted by _check_dimensions; that the row indices of the user's A
//     are below A.m is NOT checked by DefaultSolver::new (check_format is never called on it): a malformed A panics here (as elsewhere);
//   connect_graph `n >= 1` (`n - 1` underflow): holds, find_graph is reached only with a mask that is not all-true, hence non-empty;
//     `canonical(L)`: L is QDLDL's factor pattern (not re-proved here);
//   add_subblock_map / add_blocks_clique_loop: vertices < 2^31, sorted without repetition (`c.sort()` / `clique_buffer.sort()` of the
//     distinct members of an IndexSet mapped through the permutation `ordering`), targets inside the rows of the original cone: by inspection.
// DROPPED: find_graph outside the triplet loop (filter/count closure, triplet -> CSC, QDLDL), find_sparsity_patterns /
//   get_decomposed_dim_and_overlaps of ChordalInfo (peekable iterators), find_standard_H_and_cones and decompose_with_sparsity_pattern
//   (peekable, map/collect closures), find_H_col_dimension (one-line wrapper of the former), decomp_reverse_standard and
//   number_of_overlaps_in_rows (position_all / map / collect closures around gemv and row_sums, whose contracts live in unit csc_math in the
//   real-float model), augment_compact.rs (HashMap-free but built on peekable / closures throughout), psd_completion (LAPACK).
use vstd::prelude::*;
use std::ops::Range;
verus! {
global size_of usize == 8;
//@include prelude/float_opaque.rs
//@include prelude/vecmath_assumed.rs
// ASSUMED std: cloning a Range clones its two ends (for usize: copies them)
pub assume_specification<Idx: Clone> [<Range<Idx> as Clone>::clone] (r: &Range<Idx>) -> (c: Range<Idx>)
    ensures cloned(r.start, c.start), cloned(r.end, c.end);
//@struct file=src/algebra/csc/core.rs name=CscMatrix

// ---- canonical CSC encoding and the contract of set_entry, copied from unit csc_core ----
pub open spec fn in_col(A: CscMatrix<F>, k: int, c: int) -> bool { 0 <= c < A.n && A.colptr@[c] <= k < A.colptr@[c + 1] }
pub open spec fn dims_ok(A: CscMatrix<F>) -> bool {
    A.rowval@.len() == A.nzval@.len() && A.colptr@.len() == A.n + 1 && A.colptr@[A.n as int] == A.rowval@.len()
}
// (opaque in this unit: the successor trigger is a matching loop that the insertion lemmas below cannot afford; lemma_canon_mono is the way in)
#[verifier::opaque]
pub open spec fn colptr_mono(A: CscMatrix<F>) -> bool {
    A.colptr@[0] == 0 && forall|i: int| 0 <= i < A.colptr@.len() - 1 ==> #[trigger] A.colptr@[i] <= A.colptr@[i + 1]
}
pub open spec fn rows_sorted(A: CscMatrix<F>) -> bool {
    forall|c: int, k: int| #[trigger] in_col(A, k, c) && k + 1 < A.colptr@[c + 1] ==> A.rowval@[k] < A.rowval@[k + 1]
}
pub open spec fn rows_in_range(A: CscMatrix<F>) -> bool { forall|k: int| 0 <= k < A.rowval@.len() ==> #[trigger] A.rowval@[k] < A.m }
pub open spec fn canonical(A: CscMatrix<F>) -> bool { dims_ok(A) && colptr_mono(A) && rows_sorted(A) && rows_in_range(A) }
pub open spec fn entry_pos(A: CscMatrix<F>, row: int, col: int, p: int) -> bool {
    &&& A.colptr@[col] <= p <= A.colptr@[col + 1]
    &&& forall|k: int| A.colptr@[col] <= k < p ==> #[trigger] A.rowval@[k] < row
    &&& forall|k: int| p <= k < A.colptr@[col + 1] ==> #[trigger] A.rowval@[k] >= row
}
pub open spec fn entry_present(A: CscMatrix<F>, row: int, col: int, p: int) -> bool { p < A.colptr@[col + 1] && A.rowval@[p] == row }
pub open spec fn colptr_shifted(c0: Seq<usize>, c1: Seq<usize>, col: int) -> bool {
    c1.len() == c0.len() && forall|c: int| 0 <= c < c0.len() ==> #[trigger] c1[c] == c0[c] + (if c > col { 1int } else { 0int })
}
pub open spec fn set_entry_post(A0: CscMatrix<F>, A1: CscMatrix<F>, row: int, col: int, value: F, p: int) -> bool {
    &&& A1.m == A0.m && A1.n == A0.n
    &&& entry_present(A0, row, col, p) ==> A1.colptr@ == A0.colptr@ && A1.rowval@ == A0.rowval@ && A1.nzval@ == A0.nzval@.update(p, value)
    &&& !entry_present(A0, row, col, p) && f_eq(value, f_zero()) ==> A1 == A0
    &&& !entry_present(A0, row, col, p) && !f_eq(value, f_zero()) ==> {
            &&& A1.rowval@ == A0.rowval@.insert(p, row as usize) && A1.nzval@ == A0.nzval@.insert(p, value)
            &&& colptr_shifted(A0.colptr@, A1.colptr@, col) }
}
impl CscMatrix<F> {
    // ASSUMED here, PROVED in unit csc_core
    #[verifier::external_body] pub fn set_entry(&mut self, idx: (usize, usize), value: F)
        requires canonical(*old(self)), idx.0 < old(self).m, idx.1 < old(self).n,
        ensures exists|p: int| entry_pos(*old(self), idx.0 as int, idx.1 as int, p) && set_entry_post(*old(self), *final(self), idx.0 as int, idx.1 as int, value, p),
    { unimplemented!() }
//@fn file=src/algebra/csc/core.rs in="ShapedMatrix for CscMatrix<T>" name=ncols rules=R1 ret=r
//@contract
    ensures r == self.n
//@end
}
pub proof fn lemma_mono_ab(cp: Seq<usize>, a: int, b: int)
    requires forall|i: int| 0 <= i < cp.len() - 1 ==> #[trigger] cp[i] <= cp[i + 1], 0 <= a <= b < cp.len(),
    ensures cp[a] <= cp[b],
    decreases b - a,
{ if a < b { lemma_mono_ab(cp, a, b - 1); assert(cp[b - 1] <= cp[b - 1 + 1]); } }
pub proof fn lemma_canon_mono(A: CscMatrix<F>, a: int, b: int)
    requires canonical(A), 0 <= a <= b <= A.n,
    ensures A.colptr@[a] <= A.colptr@[b], A.colptr@[0] == 0,
{ reveal(colptr_mono); lemma_mono_ab(A.colptr@, a, b); }

// ---- the stored pattern, abstractly ----
pub open spec fn has_entry(A: CscMatrix<F>, r: int, c: int) -> bool { exists|k: int| in_col(A, k, c) && #[trigger] A.rowval@[k] == r }
// column c has an entry below the diagonal
pub open spec fn has_below(A: CscMatrix<F>, c: int) -> bool { exists|k: int| in_col(A, k, c) && #[trigger] A.rowval@[k] > c }
pub open spec fn strict_lower(A: CscMatrix<F>) -> bool { forall|c: int, k: int| #[trigger] in_col(A, k, c) ==> A.rowval@[k] > c }

// where slot k of the old arrays lives after an insertion at slot p, and back
pub open spec fn moved(k: int, p: int) -> int { if k >= p { k + 1 } else { k } }
pub open spec fn unmoved(k: int, p: int) -> int { if k > p { k - 1 } else { k } }
// A1 is A0 with the pattern entry (row, col) inserted at its sorted position p
pub open spec fn ins(A0: CscMatrix<F>, A1: CscMatrix<F>, row: int, col: int, p: int) -> bool {
    &&& canonical(A0) && 0 <= row < A0.m && 0 <= col < A0.n && row <= usize::MAX && entry_pos(A0, row, col, p) && !entry_present(A0, row, col, p)
    &&& A1.m == A0.m && A1.n == A0.n && A1.rowval@ == A0.rowval@.insert(p, row as usize) && A1.nzval@.len() == A0.nzval@.len() + 1
    &&& colptr_shifted(A0.colptr@, A1.colptr@, col)
}
pub proof fn lemma_ins_colptr(A0: CscMatrix<F>, A1: CscMatrix<F>, row: int, col: int, p: int, c: int)
    requires ins(A0, A1, row, col, p), 0 <= c <= A0.n,
    ensures A1.colptr@[c] == A0.colptr@[c] + (if c > col { 1int } else { 0int }),
        c <= col ==> A0.colptr@[c] <= A0.colptr@[col] <= p, c > col ==> p <= A0.colptr@[col + 1] <= A0.colptr@[c], A0.colptr@[c] <= A0.rowval@.len(),
{
    if c <= col { lemma_canon_mono(A0, c, col); } else { lemma_canon_mono(A0, col + 1, c); }
    lemma_canon_mono(A0, c, A0.n as int);
}
// every old entry keeps its column and row, its slot moves
pub proof fn lemma_ins_fwd(A0: CscMatrix<F>, A1: CscMatrix<F>, row: int, col: int, p: int, k: int, c: int)
    requires ins(A0, A1, row, col, p), in_col(A0, k, c),
    ensures in_col(A1, moved(k, p), c), A1.rowval@[moved(k, p)] == A0.rowval@[k],
{
    lemma_ins_colptr(A0, A1, row, col, p, c); lemma_ins_colptr(A0, A1, row, col, p, c + 1);
    lemma_ins_colptr(A0, A1, row, col, p, col); lemma_ins_colptr(A0, A1, row, col, p, col + 1);
    assert(0 <= p <= A0.rowval@.len() && 0 <= k < A0.rowval@.len());
}
// every new entry is the inserted one or an old one
pub proof fn lemma_ins_bwd(A0: CscMatrix<F>, A1: CscMatrix<F>, row: int, col: int, p: int, k: int, c: int)
    requires ins(A0, A1, row, col, p), in_col(A1, k, c),
    ensures k == p ==> c == col && A1.rowval@[k] == row, k != p ==> in_col(A0, unmoved(k, p), c) && A0.rowval@[unmoved(k, p)] == A1.rowval@[k],
{
    lemma_ins_colptr(A0, A1, row, col, p, c); lemma_ins_colptr(A0, A1, row, col, p, c + 1);
    lemma_ins_colptr(A0, A1, row, col, p, col); lemma_ins_colptr(A0, A1, row, col, p, col + 1);
    assert(0 <= p <= A0.rowval@.len() && 0 <= k < A0.rowval@.len() + 1);
}
pub proof fn lemma_ins_new(A0: CscMatrix<F>, A1: CscMatrix<F>, row: int, col: int, p: int)
    requires ins(A0, A1, row, col, p),
    ensures in_col(A1, p, col), A1.rowval@[p] == row,
{
    lemma_ins_colptr(A0, A1, row, col, p, col); lemma_ins_colptr(A0, A1, row, col, p, col + 1);
    assert(0 <= p <= A0.rowval@.len());
}
pub proof fn lemma_ins_sorted_at(A0: CscMatrix<F>, A1: CscMatrix<F>, row: int, col: int, p: int, k: int, c: int)
    requires ins(A0, A1, row, col, p), in_col(A1, k, c), k + 1 < A1.colptr@[c + 1],
    ensures A1.rowval@[k] < A1.rowval@[k + 1],
{
    lemma_ins_bwd(A0, A1, row, col, p, k, c);
    assert(in_col(A1, k + 1, c));
    lemma_ins_bwd(A0, A1, row, col, p, k + 1, c);
    if k + 1 == p {
        assert(in_col(A0, k, col)); assert(A0.rowval@[k] < row);
    } else if k == p {
        assert(in_col(A0, p, col)); assert(A0.rowval@[p] >= row);
    } else {
        let k0 = unmoved(k, p);
        assert(in_col(A0, k0, c)); assert(in_col(A0, k0 + 1, c));
        assert(A0.rowval@[k0] < A0.rowval@[k0 + 1]);
    }
}
pub proof fn lemma_ins_canonical(A0: CscMatrix<F>, A1: CscMatrix<F>, row: int, col: int, p: int)
    requires ins(A0, A1, row, col, p),
    ensures canonical(A1),
{
    lemma_ins_colptr(A0, A1, row, col, p, A0.n as int); lemma_ins_colptr(A0, A1, row, col, p, 0);
    assert(dims_ok(A1));
    assert(colptr_mono(A1)) by {
        assert forall|i: int| 0 <= i < A1.colptr@.len() - 1 implies #[trigger] A1.colptr@[i] <= A1.colptr@[i + 1] by {
            lemma_ins_colptr(A0, A1, row, col, p, i); lemma_ins_colptr(A0, A1, row, col, p, i + 1); lemma_canon_mono(A0, i, i + 1);
        }
        reveal(colptr_mono);
    }
    assert(rows_in_range(A1)) by {
        assert forall|k: int| 0 <= k < A1.rowval@.len() implies #[trigger] A1.rowval@[k] < A1.m by {
            if k < p { assert(A1.rowval@[k] == A0.rowval@[k]); } else if k > p { assert(A1.rowval@[k] == A0.rowval@[k - 1]); }
        }
    }
    assert(rows_sorted(A1)) by {
        assert forall|c: int, k: int| #[trigger] in_col(A1, k, c) && k + 1 < A1.colptr@[c + 1] implies A1.rowval@[k] < A1.rowval@[k + 1] by {
            lemma_ins_sorted_at(A0, A1, row, col, p, k, c);
        }
    }
}
// one step of connect_graph: column j of A0 has nothing below the diagonal, A1 = A0 + (j + 1, j); L0 = the matrix before the loop
pub open spec fn connect_inv(L0: CscMatrix<F>, A: CscMatrix<F>, j: int) -> bool {
    &&& A.n == L0.n && A.m == L0.m && A.m == A.n && canonical(A)
    &&& forall|c: int| 0 <= c < j ==> #[trigger] has_below(A, c)
    &&& forall|r: int, c: int| #[trigger] has_entry(L0, r, c) ==> has_entry(A, r, c)
    &&& forall|r: int, c: int| #[trigger] has_entry(A, r, c) ==> has_entry(L0, r, c) || (r == c + 1 && c < j && !has_below(L0, c))
    &&& strict_lower(L0) ==> strict_lower(A)
}
pub proof fn lemma_connect_skip(L0: CscMatrix<F>, A0: CscMatrix<F>, j: int)
    requires connect_inv(L0, A0, j), 0 <= j < A0.n - 1, has_below(A0, j),
    ensures connect_inv(L0, A0, j + 1),
{
    assert forall|c: int| 0 <= c < j + 1 implies #[trigger] has_below(A0, c) by {}
}
pub proof fn lemma_connect_step(L0: CscMatrix<F>, A0: CscMatrix<F>, A1: CscMatrix<F>, j: int, p: int)
    requires connect_inv(L0, A0, j), 0 <= j < A0.n - 1, !has_below(A0, j), ins(A0, A1, j + 1, j, p),
    ensures connect_inv(L0, A1, j + 1),
{
    lemma_ins_canonical(A0, A1, j + 1, j, p);
    lemma_ins_new(A0, A1, j + 1, j, p);
    assert(has_below(A1, j)) by { assert(in_col(A1, p, j) && A1.rowval@[p] > j); }
    assert forall|c: int| 0 <= c < j + 1 implies #[trigger] has_below(A1, c) by {
        if c < j {
            assert(has_below(A0, c));
            let k = choose|k: int| in_col(A0, k, c) && #[trigger] A0.rowval@[k] > c;
            lemma_ins_fwd(A0, A1, j + 1, j, p, k, c);
            assert(in_col(A1, moved(k, p), c) && A1.rowval@[moved(k, p)] > c);
        }
    }
    assert forall|r: int, c: int| #[trigger] has_entry(L0, r, c) implies has_entry(A1, r, c) by {
        assert(has_entry(A0, r, c));
        let k = choose|k: int| in_col(A0, k, c) && #[trigger] A0.rowval@[k] == r;
        lemma_ins_fwd(A0, A1, j + 1, j, p, k, c);
        assert(in_col(A1, moved(k, p), c) && A1.rowval@[moved(k, p)] == r);
    }
    // the column that is not connected in A0 was not connected in L0 either (its entries are those of L0)
    assert(!has_below(L0, j)) by {
        if has_below(L0, j) {
            let k = choose|k: int| in_col(L0, k, j) && #[trigger] L0.rowval@[k] > j;
            let r = L0.rowval@[k] as int;
            assert(has_entry(L0, r, j));
            assert(has_entry(A0, r, j));
            let k2 = choose|k2: int| in_col(A0, k2, j) && #[trigger] A0.rowval@[k2] == r;
            assert(in_col(A0, k2, j) && A0.rowval@[k2] > j);
        }
    }
    assert forall|r: int, c: int| #[trigger] has_entry(A1, r, c) implies has_entry(L0, r, c) || (r == c + 1 && c < j + 1 && !has_below(L0, c)) by {
        let k = choose|k: int| in_col(A1, k, c) && #[trigger] A1.rowval@[k] == r;
        lemma_ins_bwd(A0, A1, j + 1, j, p, k, c);
        if k != p {
            assert(in_col(A0, unmoved(k, p), c) && A0.rowval@[unmoved(k, p)] == r);
            assert(has_entry(A0, r, c));
        }
    }
    if strict_lower(L0) {
        assert forall|c: int, k: int| #[trigger] in_col(A1, k, c) implies A1.rowval@[k] > c by {
            lemma_ins_bwd(A0, A1, j + 1, j, p, k, c);
            if k != p { assert(in_col(A0, unmoved(k, p), c)); }
        }
    }
}

//@fn file=src/solver/chordal/chordal_info.rs name=find_aggregate_sparsity_mask rules=R1,R3,R5 ret=r
//@contract
    requires
        // every stored row index addresses a row of b  (A.m == b.len() and canonical A at the call site)
        forall|k: int| 0 <= k < A.rowval@.len() ==> #[trigger] A.rowval@[k] < b@.len(),
    ensures
        // C18/C17 (aggregate sparsity of [A b]): row i is marked exactly when A stores an entry in row i or b[i] != 0
        r@.len() == b@.len(),
        forall|i: int| 0 <= i < b@.len() ==> (#[trigger] r@[i] <==> ((exists|k: int| 0 <= k < A.rowval@.len() && A.rowval@[k] == i) || !f_eq(b@[i], f_zero()))),
//@pre
    proof { assert(b@.len() == b.len()); }
//@iter 1
it1
//@loop 1
        invariant
            active@.len() == b@.len(), it1.seq().len() == A.rowval@.len(),
            forall|k: int| 0 <= k < it1.seq().len() ==> *(#[trigger] it1.seq()[k]) == A.rowval@[k],
            forall|k: int| 0 <= k < A.rowval@.len() ==> #[trigger] A.rowval@[k] < b@.len(),
            forall|i: int| 0 <= i < b@.len() ==> (#[trigger] active@[i] <==> exists|k: int| 0 <= k < it1.index@ && A.rowval@[k] == i),
//@body_start 1
        let ghost a0 = active@;
        let ghost gk = it1.index@ as int;
        proof { assert(A.rowval@[gk] < b@.len()); }
//@body_end 1
        proof {
            assert forall|i: int| 0 <= i < b@.len() implies (#[trigger] active@[i] <==> exists|k: int| 0 <= k < gk + 1 && A.rowval@[k] == i) by {
                if i == r { assert(A.rowval@[gk] == i); }
                else if active@[i] {
                    assert(a0[i]);
                    let k = choose|k: int| 0 <= k < gk && A.rowval@[k] == i;
                    assert(0 <= k < gk + 1 && A.rowval@[k] == i);
                } else if exists|k: int| 0 <= k < gk + 1 && A.rowval@[k] == i {
                    let k = choose|k: int| 0 <= k < gk + 1 && A.rowval@[k] == i;
                    assert(k < gk);
                    assert(a0[i]);
                }
            }
        }
//@iter 2
it2
//@loop 2
        invariant
            i_ctr == it2.index@, active@.len() == b@.len(), it2.seq().len() == b@.len(), b@.len() <= usize::MAX,
            forall|k: int| 0 <= k < it2.seq().len() ==> *(#[trigger] it2.seq()[k]) == b@[k],
            forall|i: int| 0 <= i < it2.index@ ==> (#[trigger] active@[i] <==> ((exists|k: int| 0 <= k < A.rowval@.len() && A.rowval@[k] == i) || !f_eq(b@[i], f_zero()))),
            forall|i: int| it2.index@ <= i < b@.len() ==> (#[trigger] active@[i] <==> exists|k: int| 0 <= k < A.rowval@.len() && A.rowval@[k] == i),
//@end

// ---- packed upper-triangle index maps: contracts copied from unit scalarmath, where they are PROVED ----
pub open spec fn tri(k: int) -> int { k * (k + 1) / 2 }
pub proof fn lemma_consec_even(k: int) requires k >= 0 ensures k * (k + 1) % 2 == 0 decreases k
{
    if k > 0 {
        lemma_consec_even(k - 1);
        assert(k * (k + 1) == (k - 1) * k + 2 * k) by (nonlinear_arith);
    } else {
        assert(k * (k + 1) == 0) by (nonlinear_arith) requires k == 0;
    }
}
pub proof fn lemma_tri_step(k: int) requires k >= 0 ensures tri(k + 1) == tri(k) + k + 1, tri(k) >= 0
{
    assert(k * (k + 1) >= 0) by (nonlinear_arith) requires k >= 0;
    assert((k + 1) * (k + 2) == k * (k + 1) + 2 * (k + 1)) by (nonlinear_arith);
    lemma_consec_even(k);
}
pub proof fn lemma_tri_mono(a: int, b: int) requires 0 <= a <= b ensures tri(a) <= tri(b) decreases b - a
{
    if a < b { lemma_tri_step(b - 1); lemma_tri_mono(a, b - 1); }
}
pub proof fn lemma_tri_unique(c1: int, r1: int, c2: int, r2: int)
    requires 0 <= r1 <= c1, 0 <= r2 <= c2, tri(c1) + r1 == tri(c2) + r2,
    ensures c1 == c2, r1 == r2,
{
    if c1 < c2 { lemma_tri_step(c1); lemma_tri_mono(c1 + 1, c2); }
    if c2 < c1 { lemma_tri_step(c2); lemma_tri_mono(c2 + 1, c1); }
}
// packed column-major index of the entry (a, b) of a symmetric matrix stored by its upper triangle
pub open spec fn packed(a: int, b: int) -> int { if a <= b { tri(b) + a } else { tri(a) + b } }
#[verifier::external_body]
fn coord_to_upper_triangular_index(coord: (usize, usize)) -> (r: usize)
    requires coord.0 < 0x8000_0000, coord.1 < 0x8000_0000,
    ensures r == packed(coord.0 as int, coord.1 as int),
{ unimplemented!() }
#[verifier::external_body]
fn upper_triangular_index_to_coord(linearidx: usize) -> (r: (usize, usize))
    requires linearidx < 0x2_0000_0000_0000 - 1,
    ensures r.0 <= r.1, tri(r.1 as int) + r.0 == linearidx,
{ unimplemented!() }

// ---- find_graph: the loop that turns the marked packed indices into (row, col) triplets ----
pub open spec fn cnt_true(mask: Seq<bool>, k: int) -> int decreases k { if k <= 0 { 0 } else { cnt_true(mask, k - 1) + (if mask[k - 1] { 1int } else { 0int }) } }
pub proof fn lemma_cnt_true_mono(mask: Seq<bool>, a: int, b: int)
    requires 0 <= a <= b,
    ensures 0 <= cnt_true(mask, a) <= cnt_true(mask, b), cnt_true(mask, b) - cnt_true(mask, a) <= b - a, cnt_true(mask, a) <= a,
    decreases b,
{ if a < b { lemma_cnt_true_mono(mask, a, b - 1); } else if a > 0 { lemma_cnt_true_mono(mask, a - 1, a - 1); } }
// statement slice of find_graph: only the loop over the mask.  DROPPED: the count of marked entries / with_capacity allocations before it
// (rows and cols start empty), the dimension computation `upper_triangular_index_to_coord(nz_mask.len() - 1)` + assert_eq!(m, n), the
// triplet -> CSC conversion, the symbolic QDLDL factorisation and the call of connect_graph (verified on its own below).
//@fn file=src/solver/chordal/chordal_info.rs name=find_graph as=find_graph_coords rules=R3,R5 from="for (linearidx, &isnonzero)" to="for (linearidx, &isnonzero)" header="fn find_graph_coords(nz_mask: &[bool], rows: &mut Vec<usize>, cols: &mut Vec<usize>)"
//@contract
    requires
        old(rows)@.len() == 0, old(cols)@.len() == 0,
        // domain of upper_triangular_index_to_coord (exact integer square root below 2^52)
        nz_mask@.len() < 0x2_0000_0000_0000,
    ensures
        // C17 (the graph covers the aggregate sparsity pattern): one triplet per marked packed index, in index order, carrying the
        // upper-triangle coordinate of that index; nothing else
        final(rows)@.len() == cnt_true(nz_mask@, nz_mask@.len() as int), final(cols)@.len() == final(rows)@.len(),
        forall|l: int| 0 <= l < nz_mask@.len() && #[trigger] nz_mask@[l] ==> {
            let k = cnt_true(nz_mask@, l);
            0 <= k < final(rows)@.len() && final(rows)@[k] <= final(cols)@[k] && tri(final(cols)@[k] as int) + final(rows)@[k] == l },
//@pre
    proof { assert(nz_mask@.len() == nz_mask.len()); }
//@iter 1
it
//@loop 1
        invariant
            linearidx_ctr == it.index@, it.seq().len() == nz_mask@.len(), nz_mask@.len() < 0x2_0000_0000_0000,
            forall|k: int| 0 <= k < it.seq().len() ==> *(#[trigger] it.seq()[k]) == nz_mask@[k],
            rows@.len() == cnt_true(nz_mask@, it.index@ as int), cols@.len() == rows@.len(),
            forall|l: int| 0 <= l < it.index@ && #[trigger] nz_mask@[l] ==> {
                let k = cnt_true(nz_mask@, l);
                0 <= k < rows@.len() && rows@[k] <= cols@[k] && tri(cols@[k] as int) + rows@[k] == l },
//@body_start 1
        let ghost gl = it.index@ as int;
        let ghost rows0 = rows@;
        let ghost cols0 = cols@;
        proof { assert(cnt_true(nz_mask@, gl + 1) == cnt_true(nz_mask@, gl) + (if nz_mask@[gl] { 1int } else { 0int })); }
//@body_end 1
        proof {
            assert forall|l: int| 0 <= l < gl + 1 && #[trigger] nz_mask@[l] implies ({
                let k = cnt_true(nz_mask@, l);
                0 <= k < rows@.len() && rows@[k] <= cols@[k] && tri(cols@[k] as int) + rows@[k] == l }) by {
                if l < gl {
                    lemma_cnt_true_mono(nz_mask@, l + 1, gl);
                    let k = cnt_true(nz_mask@, l);
                    assert(cnt_true(nz_mask@, l + 1) == k + 1);
                    assert(rows@[k] == rows0[k] && cols@[k] == cols0[k]);
                }
            }
        }
//@end

// ---- standard decomposition: the rows of H ----
// names the (i, j) entry of the upper triangle of a clique block (a trigger: an index term with arithmetic in it is not one Z3 matches reliably)
pub open spec fn tslot(i: int, j: int) -> bool { true }
//@fn file=src/solver/chordal/decomp/augment_standard.rs name=add_subblock_map rules=R20
//@contract
    requires
        forall|k: int| 0 <= k < clique_vertices@.len() ==> #[trigger] clique_vertices@[k] < 0x8000_0000,
        forall|a: int, b: int| 0 <= a <= b < clique_vertices@.len() ==> row_start + packed(#[trigger] clique_vertices@[a] as int, #[trigger] clique_vertices@[b] as int) <= usize::MAX,
    ensures
        // C18: the packed upper triangle of the clique sub-block is appended column by column: entry (a, b), a <= b, of the block goes to
        // position tri(b) + a of the new part and names row row_start + packed(v[a], v[b]) of the original cone; nothing else changes
        final(H_I)@.len() == old(H_I)@.len() + tri(clique_vertices@.len() as int),
        forall|k: int| 0 <= k < old(H_I)@.len() ==> #[trigger] final(H_I)@[k] == old(H_I)@[k],
        forall|a: int, b: int| #[trigger] tslot(a, b) && 0 <= a <= b < clique_vertices@.len() ==>
            final(H_I)@[old(H_I)@.len() + tri(b) + a] == row_start + packed(clique_vertices@[a] as int, clique_vertices@[b] as int),
//@pre
    let ghost h0 = H_I@;
    let ghost cv = clique_vertices@;
    proof { assert(clique_vertices@.len() == clique_vertices.len()); }
//@loop 1
        invariant
            v@ == cv, cv == clique_vertices@, cv.len() <= usize::MAX, h0 == old(H_I)@,
            forall|k: int| 0 <= k < cv.len() ==> #[trigger] cv[k] < 0x8000_0000,
            forall|a: int, b: int| 0 <= a <= b < cv.len() ==> row_start + packed(#[trigger] cv[a] as int, #[trigger] cv[b] as int) <= usize::MAX,
            H_I@.len() == h0.len() + tri($var1 as int),
            forall|k: int| 0 <= k < h0.len() ==> #[trigger] H_I@[k] == h0[k],
            forall|a: int, b: int| #[trigger] tslot(a, b) && 0 <= a <= b < $var1 ==> H_I@[h0.len() + tri(b) + a] == row_start + packed(cv[a] as int, cv[b] as int),
//@body_start 1
        let ghost gj = $var1 as int;
        let ghost base = h0.len() + tri(gj);
        proof { lemma_tri_step(gj); }
//@loop 2
            invariant
                v@ == cv, cv.len() <= usize::MAX, gj == $var1, 0 <= gj < cv.len(), tri(gj + 1) == tri(gj) + gj + 1, tri(gj) >= 0, base == h0.len() + tri(gj),
                forall|k: int| 0 <= k < cv.len() ==> #[trigger] cv[k] < 0x8000_0000,
                forall|a: int, b: int| 0 <= a <= b < cv.len() ==> row_start + packed(#[trigger] cv[a] as int, #[trigger] cv[b] as int) <= usize::MAX,
                H_I@.len() == base + $var2,
                forall|k: int| 0 <= k < h0.len() ==> #[trigger] H_I@[k] == h0[k],
                forall|a: int, b: int| #[trigger] tslot(a, b) && 0 <= a <= b < gj ==> H_I@[h0.len() + tri(b) + a] == row_start + packed(cv[a] as int, cv[b] as int),
                forall|k: int| base <= k < H_I@.len() ==> #[trigger] H_I@[k] == row_start + packed(cv[k - base] as int, cv[gj] as int),
//@body_start 2
            let ghost gi = $var2 as int;
            let ghost h1 = H_I@;
            proof { assert(row_start + packed(cv[gi] as int, cv[gj] as int) <= usize::MAX); }
//@body_end 2
            proof {
                assert forall|a: int, b: int| #[trigger] tslot(a, b) && 0 <= a <= b < gj implies H_I@[h0.len() + tri(b) + a] == row_start + packed(cv[a] as int, cv[b] as int) by {
                    lemma_tri_step(b); lemma_tri_mono(b + 1, gj);
                    assert(H_I@[h0.len() + tri(b) + a] == h1[h0.len() + tri(b) + a]);
                }
                assert forall|k: int| base <= k < H_I@.len() implies #[trigger] H_I@[k] == row_start + packed(cv[k - base] as int, cv[gj] as int) by {
                    if k < base + gi { assert(H_I@[k] == h1[k]); }
                }
            }
//@body_end 1
        proof {
            assert forall|a: int, b: int| #[trigger] tslot(a, b) && 0 <= a <= b < gj + 1 implies H_I@[h0.len() + tri(b) + a] == row_start + packed(cv[a] as int, cv[b] as int) by {
                if b == gj { let k = base + a; assert(H_I@[k] == row_start + packed(cv[k - base] as int, cv[gj] as int)); }
            }
        }
//@end
// consequence for a sorted clique without repetitions (`c.sort()` of the distinct vertices of an IndexSet mapped through a permutation):
// distinct entries (i, j) of the block name distinct rows, i.e. every entry of the sub-block appears exactly once
pub proof fn lemma_subblock_injective(v: Seq<usize>, i1: int, j1: int, i2: int, j2: int)
    requires
        forall|a: int, b: int| 0 <= a < b < v.len() ==> v[a] < v[b],
        0 <= i1 <= j1 < v.len(), 0 <= i2 <= j2 < v.len(), packed(v[i1] as int, v[j1] as int) == packed(v[i2] as int, v[j2] as int),
    ensures i1 == i2, j1 == j2,
{
    if i1 < j1 { assert(v[i1] < v[j1]); }
    if i2 < j2 { assert(v[i2] < v[j2]); }
    lemma_tri_unique(v[j1] as int, v[i1] as int, v[j2] as int, v[i2] as int);
    if j1 < j2 { assert(v[j1] < v[j2]); } if j2 < j1 { assert(v[j2] < v[j1]); }
    if i1 < i2 { assert(v[i1] < v[i2]); } if i2 < i1 { assert(v[i2] < v[i1]); }
}

// stand-in for the user-facing cone enum (ASSUMED: nvars is an uninterpreted function of the cone, clone returns an equal value)
pub struct SupportedConeT<T> { pub _p: Option<T>, pub tag: usize }
impl<T> SupportedConeT<T> {
    pub uninterp spec fn nvars_spec(&self) -> usize;
    #[verifier::external_body] pub fn nvars(&self) -> (r: usize) ensures r == self.nvars_spec() { unimplemented!() }
}
impl<T> Clone for SupportedConeT<T> { #[verifier::external_body] fn clone(&self) -> (r: Self) ensures r == *self { unimplemented!() } }
//@fn file=src/solver/chordal/decomp/augment_standard.rs name=decompose_with_cone rules=R1
//@contract
    requires row + cone.nvars_spec() <= usize::MAX,
    ensures
        // C18: a cone that is not decomposed keeps its rows: H gets the identity block row .. row + nvars, the cone is copied
        final(H_I)@.len() == old(H_I)@.len() + cone.nvars_spec(),
        forall|k: int| 0 <= k < old(H_I)@.len() ==> #[trigger] final(H_I)@[k] == old(H_I)@[k],
        forall|k: int| old(H_I)@.len() <= k < final(H_I)@.len() ==> #[trigger] final(H_I)@[k] == row + (k - old(H_I)@.len()),
        final(cones_new)@ == old(cones_new)@.push(*cone),
//@pre
    let ghost h0 = H_I@;
//@loop 1
        invariant
            H_I@.len() == h0.len() + $var1, row + cone.nvars_spec() <= usize::MAX, *cones_new == *old(cones_new),
            forall|k: int| 0 <= k < h0.len() ==> #[trigger] H_I@[k] == h0[k],
            forall|k: int| h0.len() <= k < H_I@.len() ==> #[trigger] H_I@[k] == row + (k - h0.len()),
//@end

// ---- compact decomposition, reversal: the loop that scatters one clique block back into the original cone ----
pub open spec fn strictly_increasing(v: Seq<usize>) -> bool { forall|a: int, b: int| 0 <= a < b < v.len() ==> v[a] < v[b] }
// the entries (a, b), a <= b, of the block that the loop has handled when it stands at column jj, row ii of the (sorted) clique
pub open spec fn blk_done(a: int, b: int, jj: int, ii: int) -> bool { 0 <= a <= b && (b < jj || (b == jj && a < ii)) }
// slot k of the original cone is the target of an entry handled so far
pub open spec fn blk_hit(c: Seq<usize>, start: int, jj: int, ii: int, k: int) -> bool {
    exists|a: int, b: int| #[trigger] tslot(a, b) && blk_done(a, b, jj, ii) && b < c.len() && k == start + packed(c[a] as int, c[b] as int)
}
pub open spec fn blk_state(c: Seq<usize>, start: int, row_ptr: int, s0: Seq<F>, z0: Seq<F>, s1: Seq<F>, z1: Seq<F>, old_s: Seq<F>, old_z: Seq<F>, jj: int, ii: int) -> bool {
    &&& s1.len() == s0.len() && z1.len() == z0.len()
    &&& forall|a: int, b: int| #[trigger] tslot(a, b) && blk_done(a, b, jj, ii) && b < c.len() ==>
            z1[start + packed(c[a] as int, c[b] as int)] == old_z[row_ptr + tri(b) + a]
    &&& forall|a: int, b: int| #[trigger] tslot(a, b) && blk_done(a, b, jj, ii) && b < c.len() ==>
            s1[start + packed(c[a] as int, c[b] as int)] == f_add(s0[start + packed(c[a] as int, c[b] as int)], old_s[row_ptr + tri(b) + a])
    &&& forall|k: int| 0 <= k < s0.len() && !blk_hit(c, start, jj, ii, k) ==> #[trigger] s1[k] == s0[k]
    &&& forall|k: int| 0 <= k < z0.len() && !blk_hit(c, start, jj, ii, k) ==> #[trigger] z1[k] == z0[k]
}
// one more entry (ii, jj): its slot was untouched so far (injectivity), every other slot keeps what the state says
pub proof fn lemma_blk_write(c: Seq<usize>, start: int, row_ptr: int, s0: Seq<F>, z0: Seq<F>, s1: Seq<F>, z1: Seq<F>, s2: Seq<F>, z2: Seq<F>, old_s: Seq<F>, old_z: Seq<F>, jj: int, ii: int)
    requires
        strictly_increasing(c), 0 <= ii <= jj < c.len(), blk_state(c, start, row_ptr, s0, z0, s1, z1, old_s, old_z, jj, ii),
        0 <= start + packed(c[ii] as int, c[jj] as int) < s0.len(), start + packed(c[ii] as int, c[jj] as int) < z0.len(),
        s2 == s1.update(start + packed(c[ii] as int, c[jj] as int), f_add(s1[start + packed(c[ii] as int, c[jj] as int)], old_s[row_ptr + tri(jj) + ii])),
        z2 == z1.update(start + packed(c[ii] as int, c[jj] as int), old_z[row_ptr + tri(jj) + ii]),
    ensures blk_state(c, start, row_ptr, s0, z0, s2, z2, old_s, old_z, jj, ii + 1),
{
    let t = start + packed(c[ii] as int, c[jj] as int);
    assert(!blk_hit(c, start, jj, ii, t)) by {
        if blk_hit(c, start, jj, ii, t) {
            let (a, b) = choose|a: int, b: int| #[trigger] tslot(a, b) && blk_done(a, b, jj, ii) && b < c.len() && t == start + packed(c[a] as int, c[b] as int);
            lemma_subblock_injective(c, a, b, ii, jj);
        }
    }
    assert(s1[t] == s0[t]);
    assert forall|a: int, b: int| #[trigger] tslot(a, b) && blk_done(a, b, jj, ii + 1) && b < c.len() implies
        z2[start + packed(c[a] as int, c[b] as int)] == old_z[row_ptr + tri(b) + a]
        && s2[start + packed(c[a] as int, c[b] as int)] == f_add(s0[start + packed(c[a] as int, c[b] as int)], old_s[row_ptr + tri(b) + a]) by {
        if a == ii && b == jj { } else {
            assert(blk_done(a, b, jj, ii));
            if start + packed(c[a] as int, c[b] as int) == t { lemma_subblock_injective(c, a, b, ii, jj); }
        }
    }
    assert forall|k: int| 0 <= k < s0.len() && !blk_hit(c, start, jj, ii + 1, k) implies #[trigger] s2[k] == s0[k] by {
        if k == t { assert(tslot(ii, jj) && blk_done(ii, jj, jj, ii + 1)); assert(blk_hit(c, start, jj, ii + 1, k)); }
        if blk_hit(c, start, jj, ii, k) {
            let (a, b) = choose|a: int, b: int| #[trigger] tslot(a, b) && blk_done(a, b, jj, ii) && b < c.len() && k == start + packed(c[a] as int, c[b] as int);
            assert(tslot(a, b) && blk_done(a, b, jj, ii + 1));
        }
    }
    assert forall|k: int| 0 <= k < z0.len() && !blk_hit(c, start, jj, ii + 1, k) implies #[trigger] z2[k] == z0[k] by {
        if k == t { assert(tslot(ii, jj) && blk_done(ii, jj, jj, ii + 1)); assert(blk_hit(c, start, jj, ii + 1, k)); }
        if blk_hit(c, start, jj, ii, k) {
            let (a, b) = choose|a: int, b: int| #[trigger] tslot(a, b) && blk_done(a, b, jj, ii) && b < c.len() && k == start + packed(c[a] as int, c[b] as int);
            assert(tslot(a, b) && blk_done(a, b, jj, ii + 1));
        }
    }
}
// the handled set does not depend on how far past the diagonal the inner loop has run, and a finished column is the start of the next
pub proof fn lemma_blk_same(c: Seq<usize>, start: int, row_ptr: int, s0: Seq<F>, z0: Seq<F>, s1: Seq<F>, z1: Seq<F>, old_s: Seq<F>, old_z: Seq<F>, j1: int, i1: int, j2: int, i2: int)
    requires
        blk_state(c, start, row_ptr, s0, z0, s1, z1, old_s, old_z, j1, i1),
        forall|a: int, b: int| #[trigger] blk_done(a, b, j1, i1) <==> blk_done(a, b, j2, i2),
    ensures blk_state(c, start, row_ptr, s0, z0, s1, z1, old_s, old_z, j2, i2),
{
    assert forall|k: int| blk_hit(c, start, j1, i1, k) == blk_hit(c, start, j2, i2, k) by {
        if blk_hit(c, start, j1, i1, k) {
            let (a, b) = choose|a: int, b: int| #[trigger] tslot(a, b) && blk_done(a, b, j1, i1) && b < c.len() && k == start + packed(c[a] as int, c[b] as int);
            assert(tslot(a, b) && blk_done(a, b, j2, i2));
        }
        if blk_hit(c, start, j2, i2, k) {
            let (a, b) = choose|a: int, b: int| #[trigger] tslot(a, b) && blk_done(a, b, j2, i2) && b < c.len() && k == start + packed(c[a] as int, c[b] as int);
            assert(tslot(a, b) && blk_done(a, b, j1, i1));
        }
    }
    assert forall|a: int, b: int| #[trigger] tslot(a, b) && blk_done(a, b, j2, i2) && b < c.len() implies
        z1[start + packed(c[a] as int, c[b] as int)] == old_z[row_ptr + tri(b) + a]
        && s1[start + packed(c[a] as int, c[b] as int)] == f_add(s0[start + packed(c[a] as int, c[b] as int)], old_s[row_ptr + tri(b) + a]) by {
        assert(blk_done(a, b, j1, i1));
    }
}
//@fn file=src/solver/chordal/decomp/reverse_compact.rs name=add_blocks_with_cone rules=R1 ret=r
//@contract
    requires
        row_range.start <= row_range.end, row_range.end <= old(new_s)@.len(), old(new_s)@.len() == old(new_z)@.len(),
        // the rows of the cone in the original problem and its block in the decomposed one have the same length (else copy_from panics)
        row_range.end - row_range.start == cone.nvars_spec(),
        row_ptr + cone.nvars_spec() <= old_s@.len(), old_s@.len() == old_z@.len(), old_s@.len() <= usize::MAX,
    ensures
        // C18 (reversal, compact form): a cone that was not decomposed gets its block of s and z back, nothing else changes
        r == row_ptr + cone.nvars_spec(),
        final(new_s)@.len() == old(new_s)@.len(), final(new_z)@.len() == old(new_z)@.len(),
        forall|k: int| row_range.start <= k < row_range.end ==> #[trigger] final(new_s)@[k] == old_s@[row_ptr + (k - row_range.start)],
        forall|k: int| row_range.start <= k < row_range.end ==> #[trigger] final(new_z)@[k] == old_z@[row_ptr + (k - row_range.start)],
        forall|k: int| 0 <= k < old(new_s)@.len() && !(row_range.start <= k < row_range.end) ==> #[trigger] final(new_s)@[k] == old(new_s)@[k],
        forall|k: int| 0 <= k < old(new_z)@.len() && !(row_range.start <= k < row_range.end) ==> #[trigger] final(new_z)@[k] == old(new_z)@[k],
//@end
// statement slice of add_blocks_with_sparsity_pattern (decomp/reverse_compact.rs): the counter and the double loop over the sorted clique.
// DROPPED: loading the clique into the buffer through `ordering` (IndexSet iteration + sort; the slice takes the sorted buffer as given)
// and the returned `row_ptr + triangular_number(clique.len())` (the final counter is checked against it in the last assertion).
//@fn file=src/solver/chordal/decomp/reverse_compact.rs name=add_blocks_with_sparsity_pattern as=add_blocks_clique_loop rules=R1,R5 from="let mut counter = 0;" to="for &j in clique_buffer.iter()" header="fn add_blocks_clique_loop(new_s: &mut [F], old_s: &[F], new_z: &mut [F], old_z: &[F], row_range: core::ops::Range<usize>, clique_buffer: &Vec<usize>, row_ptr: usize)"
//@contract
    requires
        // the buffer holds the clique mapped through `ordering` and sorted: distinct vertices of the cone in increasing order
        strictly_increasing(clique_buffer@),
        forall|k: int| 0 <= k < clique_buffer@.len() ==> #[trigger] clique_buffer@[k] < 0x8000_0000,
        // every entry of the block lies inside the rows of the original cone, the block itself inside the decomposed vectors
        forall|a: int, b: int| 0 <= a <= b < clique_buffer@.len() ==>
            row_range.start + packed(#[trigger] clique_buffer@[a] as int, #[trigger] clique_buffer@[b] as int) < old(new_s)@.len(),
        old(new_s)@.len() == old(new_z)@.len(),
        row_ptr + tri(clique_buffer@.len() as int) <= old_s@.len(), old_s@.len() == old_z@.len(), old_s@.len() <= usize::MAX,
    ensures
        // C18 (reversal, compact form): entry (a, b) of the clique block, stored at row_ptr + tri(b) + a of the decomposed vectors, goes to
        // entry (c[a], c[b]) of the original cone: z is overwritten, s is accumulated; each target is written exactly once (the clique
        // is sorted without repetitions) and nothing else changes
        blk_state(clique_buffer@, row_range.start as int, row_ptr as int, old(new_s)@, old(new_z)@, final(new_s)@, final(new_z)@, old_s@, old_z@, clique_buffer@.len() as int, 0),
//@pre
    let ghost c = clique_buffer@;
    let ghost s0 = new_s@;
    let ghost z0 = new_z@;
    let ghost start = row_range.start as int;
    let ghost nn = clique_buffer@.len() as int;
    proof { lemma_tri_step(0); assert(tri(0) == 0); assert(new_s@.len() == new_s.len()); }
//@iter 1
it1
//@loop 1
        invariant
            c == clique_buffer@, nn == c.len(), start == row_range.start, strictly_increasing(c), s0 == old(new_s)@, z0 == old(new_z)@,
            it1.seq().len() == nn, forall|k: int| 0 <= k < nn ==> *(#[trigger] it1.seq()[k]) == c[k],
            forall|k: int| 0 <= k < nn ==> #[trigger] c[k] < 0x8000_0000,
            forall|a: int, b: int| 0 <= a <= b < nn ==> start + packed(#[trigger] c[a] as int, #[trigger] c[b] as int) < s0.len(),
            s0.len() == z0.len(), s0.len() <= usize::MAX, row_ptr + tri(nn) <= old_s@.len(), old_s@.len() == old_z@.len(), old_s@.len() <= usize::MAX,
            counter == tri(it1.index@ as int),
            blk_state(c, start, row_ptr as int, s0, z0, new_s@, new_z@, old_s@, old_z@, it1.index@ as int, 0),
//@body_start 1
        let ghost gj = it1.index@ as int;
        proof { lemma_tri_step(gj); lemma_tri_mono(gj + 1, nn); }
//@iter 2
it2
//@loop 2
            invariant
                c == clique_buffer@, nn == c.len(), start == row_range.start, strictly_increasing(c), 0 <= gj < nn, j == c[gj],
                it2.seq().len() == nn, forall|k: int| 0 <= k < nn ==> *(#[trigger] it2.seq()[k]) == c[k],
                forall|k: int| 0 <= k < nn ==> #[trigger] c[k] < 0x8000_0000,
                forall|a: int, b: int| 0 <= a <= b < nn ==> start + packed(#[trigger] c[a] as int, #[trigger] c[b] as int) < s0.len(),
                s0.len() == z0.len(), s0.len() <= usize::MAX, row_ptr + tri(nn) <= old_s@.len(), old_s@.len() == old_z@.len(), old_s@.len() <= usize::MAX,
                tri(gj + 1) == tri(gj) + gj + 1, tri(gj) >= 0, tri(gj + 1) <= tri(nn),
                counter == tri(gj) + (if it2.index@ <= gj { it2.index@ as int } else { gj + 1 }),
                blk_state(c, start, row_ptr as int, s0, z0, new_s@, new_z@, old_s@, old_z@, gj, (if it2.index@ <= gj { it2.index@ as int } else { gj + 1 })),
//@body_start 2
            let ghost gi = it2.index@ as int;
            let ghost s1 = new_s@;
            let ghost z1 = new_z@;
            proof {
                assert(*i_r == c[gi]);
                if gi < gj { assert(c[gi] < c[gj]); }
                if gj < gi { assert(c[gj] < c[gi]); }
                if gi <= gj { assert(start + packed(c[gi] as int, c[gj] as int) < s0.len()); }
            }
//@body_end 2
            proof {
                if gi <= gj {
                    lemma_blk_write(c, start, row_ptr as int, s0, z0, s1, z1, new_s@, new_z@, old_s@, old_z@, gj, gi);
                }
            }
//@body_end 1
        proof {
            lemma_blk_same(c, start, row_ptr as int, s0, z0, new_s@, new_z@, old_s@, old_z@, gj, gj + 1, gj + 1, 0);
        }
//@after "for j_r in clique_buffer.iter()"
    proof { assert(counter == tri(nn)); }
//@end

//@fn file=src/solver/chordal/chordal_info.rs name=connect_graph rules=R1,R5
//@contract
    requires
        // `n - 1` underflows for a 0 x 0 matrix; find_graph only gets here with a non-empty mask, i.e. n >= 1
        old(L).n >= 1, old(L).m == old(L).n, canonical(*old(L)), old(L).n < usize::MAX,
        !f_eq(f_one(), f_zero()),
    ensures
        final(L).m == old(L).m, final(L).n == old(L).n, canonical(*final(L)),
        // C17: afterwards every column but the last has an entry below the diagonal (so every vertex but the last gets a parent)
        forall|j: int| 0 <= j < old(L).n - 1 ==> #[trigger] has_below(*final(L), j),
        // nothing is lost, and the only additions are the sub-diagonal entries (j + 1, j) of columns that had nothing below the diagonal
        forall|r: int, c: int| #[trigger] has_entry(*old(L), r, c) ==> has_entry(*final(L), r, c),
        forall|r: int, c: int| #[trigger] has_entry(*final(L), r, c) ==> has_entry(*old(L), r, c) || (r == c + 1 && c < old(L).n - 1 && !has_below(*old(L), c)),
        strict_lower(*old(L)) ==> strict_lower(*final(L)),
//@pre
    let ghost L0 = *L;
//@loop 1
        invariant
            n == L.n, n >= 1, n < usize::MAX, L0 == *old(L), !f_eq(f_one(), f_zero()), connect_inv(L0, *L, $var1 as int),
//@body_start 1
        let ghost gj = $var1 as int;
        let ghost A0 = *L;
        proof {
            lemma_canon_mono(*L, gj, gj + 1); lemma_canon_mono(*L, gj + 1, L.n as int);
        }
        let ghost lo = L.colptr@[gj] as int;
        let ghost hi = L.colptr@[gj + 1] as int;
//@iter 2
it2
//@loop 2
            invariant_except_break
                !connected,
            invariant
                it2.seq().len() == hi - lo, 0 <= lo <= hi <= row_val@.len(), row_val@ == A0.rowval@, gj == $var1,
                forall|i: int| 0 <= i < hi - lo ==> *(#[trigger] it2.seq()[i]) == A0.rowval@[lo + i],
                !connected ==> forall|k: int| lo <= k < lo + it2.index@ ==> #[trigger] A0.rowval@[k] <= gj,
                connected ==> exists|k: int| lo <= k < hi && #[trigger] A0.rowval@[k] > gj,
            ensures
                !connected ==> forall|k: int| lo <= k < hi ==> #[trigger] A0.rowval@[k] <= gj,
//@body_start 2
                proof { assert(*row_r == A0.rowval@[lo + it2.index@]); }
//@body_end 1
        proof {
            if connected {
                let k = choose|k: int| lo <= k < hi && #[trigger] A0.rowval@[k] > gj;
                assert(in_col(A0, k, gj));
                assert(has_below(A0, gj));
                lemma_connect_skip(L0, A0, gj);
            } else {
                assert(!has_below(A0, gj));
                let gr = gj + 1;
                let p = choose|p: int| #[trigger] entry_pos(A0, gr, gj, p) && set_entry_post(A0, *L, gr, gj, f_one(), p);
                if entry_present(A0, gr, gj, p) { assert(in_col(A0, p, gj)); assert(A0.rowval@[p] > gj); assert(false); }
                assert(ins(A0, *L, gr, gj, p));
                lemma_connect_step(L0, A0, *L, gj, p);
            }
        }
//@end

} // verus!
fn main() {}
