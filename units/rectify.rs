// unit `rectify` : per-cone rectification of the row equilibration (C10: "E is constant across the rows of every cone
// that is not a product of scalar cones"; scalar cones are left to the element-wise Ruiz scaling)
// float model: F-real for the uniformity claim
use vstd::prelude::*;
verus! {
//@include prelude/float_opaque.rs
//@include prelude/float_real_axioms.rs
//@include prelude/vecmath_assumed.rs
// stand-ins for the cone objects: rectify_equilibration does not read `self` in any of them
pub struct NonnegativeCone<T> { pub _p: Option<T> }
pub struct ZeroCone<T> { pub _p: Option<T> }
pub struct SecondOrderCone<T> { pub _p: Option<T> }
pub struct ExponentialCone<T> { pub _p: Option<T> }
pub struct PowerCone<T> { pub _p: Option<T> }
pub struct GenPowerCone<T> { pub _p: Option<T> }

// scalar cones: delta = 1, "nothing changed"
pub open spec fn all_ones(d: Seq<F>) -> bool { forall|i: int| 0 <= i < d.len() ==> #[trigger] d[i] == f_one() }
// non-separable cones: delta_i = (1 / e_i) * mean(e), so that e_i * delta_i is the same number for every row of the cone
pub open spec fn uniform(d: Seq<F>, e: Seq<F>) -> bool {
    d.len() == e.len() && forall|i: int| 0 <= i < e.len() ==> #[trigger] d[i] == f_mul(f_recip(e[i]), vm_mean(e))
}
// F-real: e_i * ((1/e_i) * m) == m
pub proof fn lemma_uniform_product(d: Seq<F>, e: Seq<F>, i: int)
    requires uniform(d, e), 0 <= i < e.len(), e[i].v() != 0real,
    ensures e[i].v() * d[i].v() == vm_mean(e).v(),
{
    broadcast use real_arith;
    let x = e[i].v(); let m = vm_mean(e).v();
    assert(x * ((1real / x) * m) == m) by(nonlinear_arith) requires x != 0real;
}

impl NonnegativeCone<F> {
//@fn file=src/solver/core/cones/nonnegativecone.rs in="Cone<T> for NonnegativeCone<T>" name=rectify_equilibration rules=R1,R2 ret=r params=delta,e
//@contract
    ensures !r, final(delta)@.len() == old(delta)@.len(), all_ones(final(delta)@),
//@end
}
impl ZeroCone<F> {
//@fn file=src/solver/core/cones/zerocone.rs in="Cone<T> for ZeroCone<T>" name=rectify_equilibration rules=R1,R2 ret=r params=delta,e
//@contract
    ensures !r, final(delta)@.len() == old(delta)@.len(), all_ones(final(delta)@),
//@end
}
impl SecondOrderCone<F> {
//@fn file=src/solver/core/cones/socone.rs in="Cone<T> for SecondOrderCone<T>" name=rectify_equilibration rules=R1,R2 ret=r params=delta,e
//@contract
    requires old(delta)@.len() == e@.len(),
    ensures r, uniform(final(delta)@, e@),
//@end
}
impl ExponentialCone<F> {
//@fn file=src/solver/core/cones/expcone.rs in="Cone<T> for ExponentialCone<T>" name=rectify_equilibration rules=R1,R2 ret=r params=delta,e
//@contract
    requires old(delta)@.len() == e@.len(),
    ensures r, uniform(final(delta)@, e@),
//@end
}
impl PowerCone<F> {
//@fn file=src/solver/core/cones/powcone.rs in="Cone<T> for PowerCone<T>" name=rectify_equilibration rules=R1,R2 ret=r params=delta,e
//@contract
    requires old(delta)@.len() == e@.len(),
    ensures r, uniform(final(delta)@, e@),
//@end
}
impl GenPowerCone<F> {
//@fn file=src/solver/core/cones/genpowcone.rs in="Cone<T> for GenPowerCone<T>" name=rectify_equilibration rules=R1,R2 ret=r params=delta,e
//@contract
    requires old(delta)@.len() == e@.len(),
    ensures r, uniform(final(delta)@, e@),
//@end
}

} // verus!
fn main() {}
