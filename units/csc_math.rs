// unit `csc_math` : diagonal scalings of CSC matrices, scale_data, clip (C10, C16)
// float model: F-opaque (entry-wise products are stated in the float symbols: exact, no arithmetic assumption);
// the bounded-scaling clause of `equilibrate` additionally uses the F-real axioms (broadcast use real_arith)
use vstd::prelude::*;
verus! {
//@include prelude/float_opaque.rs
//@include prelude/float_real_axioms.rs
//@include prelude/vecmath_assumed.rs
//@include prelude/std_assumed.rs
//@include units/inc/csc_scalings.rs

// ------------------------------------------------------------------ scalar clip (scalarmath.rs)
pub trait ScalarMath { fn clip(&self, min_thresh: Self, max_thresh: Self) -> Self where Self: Sized; }
impl ScalarMath for F {
//@fn file=src/algebra/scalarmath.rs in="ScalarMath for T" name=clip rules=tparam:Self>F ret=r
//@contract
    ensures
        // the result is the argument or one of the bounds ...
        r == *self || r == min_thresh || r == max_thresh,
        // ... chosen by the two comparisons, in this order (NaN compares false => passes through)
        f_lt(*self, min_thresh) ==> r == min_thresh,
        !f_lt(*self, min_thresh) && f_lt(max_thresh, *self) ==> r == max_thresh,
        !f_lt(*self, min_thresh) && !f_lt(max_thresh, *self) ==> r == *self,
//@end
}

// ------------------------------------------------------------------ scale_data (problemdata.rs)
pub open spec fn rows_below(a: CscMatrix<F>, bound: int) -> bool {
    forall|k: int| 0 <= k < a.rowval@.len() ==> a.rowval@[k] < bound
}
//@fn file=src/solver/implementations/default/problemdata.rs name=scale_data rules=R1
//@contract
    requires
        old(P).colptr_ok(), old(A).colptr_ok(), rows_below(*old(A), e@.len() as int),
        d matches Some(dv) ==> dv@.len() == old(P).n && dv@.len() == old(A).n && rows_below(*old(P), dv@.len() as int),
    ensures
        final(P).same_pattern(old(P)), final(A).same_pattern(old(A)),
        final(q)@.len() == old(q)@.len(), final(b)@.len() == old(b)@.len(),
        // C10: b <- E b
        forall|i: int| 0 <= i < old(b)@.len() ==> #[trigger] final(b)@[i] == (if i < e@.len() { f_mul(old(b)@[i], e@[i]) } else { old(b)@[i] }),
        d matches Some(dv) ==> {
            // C10: P <- D P D,  A <- E A D,  q <- D q   (entry for entry)
            &&& forall|k: int, j: int| #[trigger] old(P).in_col(k, j) ==>
                    final(P).nzval@[k] == f_mul(old(P).nzval@[k], f_mul(dv@[old(P).rowval@[k] as int], dv@[j]))
            &&& forall|k: int, j: int| #[trigger] old(A).in_col(k, j) ==>
                    final(A).nzval@[k] == f_mul(old(A).nzval@[k], f_mul(e@[old(A).rowval@[k] as int], dv@[j]))
            &&& forall|i: int| 0 <= i < old(q)@.len() ==> #[trigger] final(q)@[i] == (if i < dv@.len() { f_mul(old(q)@[i], dv@[i]) } else { old(q)@[i] })
        },
        d is None ==> {
            // rectification pass: A <- E A only; P and q untouched
            &&& final(P).nzval@ == old(P).nzval@ && final(q)@ == old(q)@
            &&& forall|k: int| 0 <= k < old(A).nzval@.len() ==> #[trigger] final(A).nzval@[k] == f_mul(old(A).nzval@[k], e@[old(A).rowval@[k] as int])
        },
//@end

// ------------------------------------------------------------------ Ruiz equilibration (problemdata.rs)
//@struct file=src/solver/implementations/default/equilibration.rs name=DefaultEquilibrationData
//@struct file=src/solver/implementations/default/settings.rs name=DefaultSettings rules=R1f
//@struct file=src/solver/implementations/default/problemdata.rs name=DefaultProblemData keep=P,q,A,b,n,m,equilibration
pub open spec fn rect_ok(e: Seq<F>, delta: Seq<F>, i: int) -> bool {
    &&& exists|j: int| 0 <= j < e.len() && (#[trigger] e[j]).v() <= e[i].v() * delta[i].v()
    &&& exists|j: int| 0 <= j < e.len() && e[i].v() * delta[i].v() <= (#[trigger] e[j]).v()
}
// stand-in for CompositeCone (enum_dispatch over the cone types); rectify_equilibration: ASSUMED to keep lengths
pub struct CompositeCone<T> { pub _p: Option<T> }
impl CompositeCone<F> {
    #[verifier::external_body]
    pub fn rectify_equilibration(&self, delta: &mut [F], e: &[F]) -> (r: bool)
        ensures final(delta)@.len() == old(delta)@.len(),
            // ASSUMED (F-real): rectification replaces e_i by a value inside the range spanned by e ("a convex combination
            // of scalings over a cone"): e_i * delta_i lies between two entries of e
            forall|i: int| 0 <= i < e@.len() && i < old(delta)@.len() ==> #[trigger] rect_ok(e@, final(delta)@, i),
    { unimplemented!() }
}
// norm kernels of MatrixMath (fold / closure based): ASSUMED to write only the output vector
impl CscMatrix<F> {
    #[verifier::external_body] pub fn col_norms(&self, norms: &mut [F]) ensures final(norms)@.len() == old(norms)@.len() { unimplemented!() }
    #[verifier::external_body] pub fn col_norms_sym(&self, norms: &mut [F]) ensures final(norms)@.len() == old(norms)@.len() { unimplemented!() }
    #[verifier::external_body] pub fn col_norms_no_reset(&self, norms: &mut [F]) ensures final(norms)@.len() == old(norms)@.len() { unimplemented!() }
    #[verifier::external_body] pub fn row_norms(&self, norms: &mut [F]) ensures final(norms)@.len() == old(norms)@.len() { unimplemented!() }
}
//@fn file=src/solver/implementations/default/problemdata.rs name=kkt_col_norms rules=R1
//@contract
    ensures final(norm_LHS)@.len() == old(norm_LHS)@.len(), final(norm_RHS)@.len() == old(norm_RHS)@.len(),
//@end

// every entry of s lies in [lo, hi]
pub open spec fn within(s: Seq<F>, lo: real, hi: real) -> bool { forall|i: int| 0 <= i < s.len() ==> lo <= (#[trigger] s[i]).v() <= hi }
// clip(x, lo/d, hi/d) times d stays in [lo, hi] for d > 0
pub proof fn lemma_clip_keeps_bounds(x: real, d: real, lo: real, hi: real, r: real)
    requires d > 0real, 0real < lo <= hi,
        (x < lo / d ==> r == lo / d), (!(x < lo / d) && hi / d < x ==> r == hi / d), (!(x < lo / d) && !(hi / d < x) ==> r == x),
    ensures lo <= d * r <= hi,
{
    assert(d * (lo / d) == lo) by(nonlinear_arith) requires d > 0real;
    assert(d * (hi / d) == hi) by(nonlinear_arith) requires d > 0real;
    assert(lo / d <= hi / d) by(nonlinear_arith) requires d > 0real, lo <= hi;
    if !(x < lo / d) && !(hi / d < x) {
        assert(d * (lo / d) <= d * x <= d * (hi / d)) by(nonlinear_arith) requires d > 0real, lo / d <= x <= hi / d;
    }
}
impl DefaultProblemData<F> {
    // dimensions as established by DefaultProblemData::new: P is n x n, A is m x n, q: n, b: m, scalings d: n, e: m
    pub open spec fn shape_ok(&self) -> bool {
        let eq = self.equilibration;
        &&& self.P.colptr_ok() && self.A.colptr_ok()
        &&& self.P.n == eq.d@.len() && self.A.n == eq.d@.len()
        &&& rows_below(self.P, eq.d@.len() as int) && rows_below(self.A, eq.e@.len() as int)
        &&& self.q@.len() == eq.d@.len() && self.b@.len() == eq.e@.len()
        &&& eq.dinv@.len() == eq.d@.len() && eq.einv@.len() == eq.e@.len()
    }
//@fn file=src/solver/implementations/default/problemdata.rs in="ProblemData<T> for DefaultProblemData<T>" name=equilibrate rules=R1,zipidx:*
//@contract
    requires old(self).shape_ok(),
        // F-real part: sane scaling bounds (defaults 1e-4, 1e4) and initial scalings inside them (the constructor sets d = e = c = 1)
        0real < settings.equilibrate_min_scaling.v() <= 1real, 1real <= settings.equilibrate_max_scaling.v(),
        within(old(self).equilibration.d@, settings.equilibrate_min_scaling.v(), settings.equilibrate_max_scaling.v()),
        within(old(self).equilibration.e@, settings.equilibrate_min_scaling.v(), settings.equilibrate_max_scaling.v()),
        settings.equilibrate_min_scaling.v() <= old(self).equilibration.c.v() <= settings.equilibrate_max_scaling.v(),
    ensures
        // C10: "With equilibration disabled the data are untouched"
        !settings.equilibrate_enable ==> *final(self) == *old(self),
        // the sparsity patterns and all lengths are never changed
        final(self).shape_ok(), final(self).P.same_pattern(&old(self).P), final(self).A.same_pattern(&old(self).A),
        final(self).n == old(self).n, final(self).m == old(self).m,
        // C10 (real arithmetic): "every scaling factor (cumulative) stays within [equilibrate_min_scaling, equilibrate_max_scaling]"
        within(final(self).equilibration.d@, settings.equilibrate_min_scaling.v(), settings.equilibrate_max_scaling.v()),
        within(final(self).equilibration.e@, settings.equilibrate_min_scaling.v(), settings.equilibrate_max_scaling.v()),
        settings.equilibrate_min_scaling.v() <= final(self).equilibration.c.v() <= settings.equilibrate_max_scaling.v(),
//@pre
        broadcast use real_arith;
//@before_loop 1
        let ghost P0 = *P;
        let ghost A0 = *A;
        let ghost nn = d@.len();
        let ghost mm = e@.len();
        let ghost lo = scale_min.v();
        let ghost hi = scale_max.v();
//@loop 1
            invariant
                P.same_pattern(&P0), A.same_pattern(&A0), P0.colptr_ok(), A0.colptr_ok(),
                P0.n == nn, A0.n == nn, rows_below(P0, nn as int), rows_below(A0, mm as int),
                q@.len() == nn, b@.len() == mm, d@.len() == nn, dwork@.len() == nn, e@.len() == mm, ework@.len() == mm,
                lo == scale_min.v(), hi == scale_max.v(), 0real < lo <= 1real, 1real <= hi,
                within(d@, lo, hi), within(e@, lo, hi), lo <= equil.c.v() <= hi,
//@body_start 1
            broadcast use real_arith;
//@loop 2
                invariant r14_n1 == nn, d@.len() == nn, dwork@.len() == nn,
                    lo == scale_min.v(), hi == scale_max.v(), 0real < lo <= 1real, 1real <= hi, within(d@, lo, hi),
                    forall|k: int| 0 <= k < r14_i1 ==> lo <= d@[k].v() * (#[trigger] dwork@[k]).v() <= hi,
//@body_start 2
                broadcast use real_arith;
                let ghost dw0 = dwork@[r14_i1 as int].v();
                let ghost dd = d@[r14_i1 as int].v();
//@body_end 2
                proof {
                    // (inside the body `dwork` / `d` name the current elements: rule R14 bindings)
                    lemma_clip_keeps_bounds(dw0, dd, lo, hi, (*dwork).v());
                    assert(lo <= dd * (*dwork).v() <= hi);
                }
//@loop 3
                invariant r14_n2 == mm, e@.len() == mm, ework@.len() == mm,
                    lo == scale_min.v(), hi == scale_max.v(), 0real < lo <= 1real, 1real <= hi, within(e@, lo, hi),
                    forall|k: int| 0 <= k < r14_i2 ==> lo <= e@[k].v() * (#[trigger] ework@[k]).v() <= hi,
//@body_start 3
                broadcast use real_arith;
                let ghost ew0 = ework@[r14_i2 as int].v();
                let ghost ee = e@[r14_i2 as int].v();
//@body_end 3
                proof {
                    lemma_clip_keeps_bounds(ew0, ee, lo, hi, (*ework).v());
                    assert(lo <= ee * (*ework).v() <= hi);
                }
//@before "if cones.rectify_equilibration(ework, e)"
        let ghost e_before = e@;
//@after "if cones.rectify_equilibration(ework, e)"
        proof {
            assert forall|i: int| 0 <= i < e@.len() implies lo <= (#[trigger] e@[i]).v() <= hi by {
                if e@[i] != e_before[i] {
                    assert(rect_ok(e_before, ework@, i));
                    let j1 = choose|j: int| 0 <= j < e_before.len() && (#[trigger] e_before[j]).v() <= e_before[i].v() * ework@[i].v();
                    let j2 = choose|j: int| 0 <= j < e_before.len() && e_before[i].v() * ework@[i].v() <= (#[trigger] e_before[j]).v();
                    assert(lo <= e_before[j1].v() && e_before[j2].v() <= hi);
                }
            }
        }
//@before "let ctmp = F::clip(&ctmp"
                let ghost ct0 = ctmp.v();
                let ghost cc = equil.c.v();
//@after "let ctmp = F::clip(&ctmp"
                proof { lemma_clip_keeps_bounds(ct0, cc, lo, hi, ctmp.v()); }
//@end
}

} // verus!
fn main() {}
