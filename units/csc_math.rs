// unit `csc_math` : diagonal scalings of CSC matrices, scale_data, clip (C10, C16)
// float model: F-opaque (entry-wise products are stated in the float symbols: exact, no arithmetic assumption);
// the bounded-scaling clause of `equilibrate` additionally uses the F-real axioms (broadcast use real_arith)
use vstd::prelude::*;
verus! {
//@include prelude/float_opaque.rs
//@include prelude/float_real_axioms.rs
//@include prelude/vecmath_assumed.rs
//@include prelude/std_assumed.rs
//@include units/inc/csc_scalings.rs


// ------------------------------------------------------------------ sparse matrix-vector products (matrix_math.rs), F-real
// dense meaning of  A*x  read off the CSC arrays:  (A x)_r = sum over stored entries (r, j) of A_rj * x_j
// contribution to row r of the stored entries  colptr[j] .. hi  of column j
pub open spec fn colsum_n(A: CscMatrix<F>, x: Seq<F>, r: int, j: int, hi: int) -> real
    decreases hi - A.colptr@[j],
{
    if hi <= A.colptr@[j] { 0real } else {
        colsum_n(A, x, r, j, hi - 1) + (if A.rowval@[hi - 1] == r { A.nzval@[hi - 1].v() * x[j].v() } else { 0real })
    }
}
// contribution to row r of the columns 0 .. j
pub open spec fn total_n(A: CscMatrix<F>, x: Seq<F>, r: int, j: int) -> real
    decreases j,
{
    if j <= 0 { 0real } else { total_n(A, x, r, j - 1) + colsum_n(A, x, r, j - 1, A.colptr@[j] as int) }
}
// the values produced by the range lo..hi
pub open spec fn range_from(sq: Seq<usize>, lo: int) -> bool { forall|k: int| 0 <= k < sq.len() ==> #[trigger] sq[k] == lo + k }
pub proof fn lemma_axpy_step(aa: real, s: real, nz: real, xv: real)
    ensures aa * (s + nz * xv) == aa * s + (aa * nz) * xv,
{
    assert(aa * (s + nz * xv) == aa * s + (aa * nz) * xv) by(nonlinear_arith);
}

//@fn file=src/algebra/csc/matrix_math.rs name=_csc_axpby_N rules=R1,R2,R3,R6,zipidx:1=i;3=i;5=i
//@contract
    requires
        A.colptr_ok(), x@.len() == A.n, rows_below(*A, old(y)@.len() as int),
    ensures
        final(y)@.len() == old(y)@.len(),
        // C16: y <- a*A*x + b*y, row by row (real arithmetic; the dense meaning of the CSC arrays)
        forall|r: int| 0 <= r < old(y)@.len() ==> (#[trigger] final(y)@[r]).v() == b.v() * old(y)@[r].v() + a.v() * total_n(*A, x@, r, A.n as int),
//@pre
    broadcast use real_arith;
    let ghost y0 = y@;
//@before "if a == F::zero()"
    let ghost yb = y@;
    proof {
        assert(yb.len() == y0.len());
        assert forall|r: int| 0 <= r < y0.len() implies (#[trigger] yb[r]).v() == b.v() * y0[r].v() by {
            if b.v() != 0real && b.v() != 1real && b.v() != -1real { }
        }
        // a == 0: nothing is added
        assert forall|r: int| 0 <= r < y0.len() implies 0real * total_n(*A, x@, r, A.n as int) == 0real by {
            assert(0real * total_n(*A, x@, r, A.n as int) == 0real) by(nonlinear_arith);
        }
    }
//@loop 1
            invariant
                j_ctr == r14_i1, r14_n1 == A.n, A.colptr_ok(), x@.len() == A.n, rows_below(*A, y@.len() as int), y@.len() == y0.len(), a.v() == 1real,
                forall|r: int| 0 <= r < y0.len() ==> (#[trigger] y@[r]).v() == yb[r].v() + total_n(*A, x@, r, j_ctr as int),
//@iter 2
it_a
//@loop 2
                invariant
                    j < A.n, *xj == x@[j as int], A.colptr_ok(), x@.len() == A.n, rows_below(*A, y@.len() as int), y@.len() == y0.len(), a.v() == 1real,
                    it_a.seq().len() == A.colptr@[j + 1] - A.colptr@[j as int], range_from(it_a.seq(), A.colptr@[j as int] as int),
                    forall|r: int| 0 <= r < y0.len() ==> (#[trigger] y@[r]).v() == yb[r].v() + (total_n(*A, x@, r, j as int) + colsum_n(*A, x@, r, j as int, A.colptr@[j as int] + it_a.index@)),
//@body_start 2
                broadcast use real_arith;
//@body_end 2
                proof {
                    assert(forall|r: int| 0 <= r < y0.len() ==> colsum_n(*A, x@, r, j as int, i as int + 1) == colsum_n(*A, x@, r, j as int, i as int) + (if A.rowval@[i as int] == r { A.nzval@[i as int].v() * x@[j as int].v() } else { 0real }));
                }
//@loop 3
            invariant
                j_ctr == r14_i2, r14_n2 == A.n, A.colptr_ok(), x@.len() == A.n, rows_below(*A, y@.len() as int), y@.len() == y0.len(), a.v() == -1real,
                forall|r: int| 0 <= r < y0.len() ==> (#[trigger] y@[r]).v() == yb[r].v() - total_n(*A, x@, r, j_ctr as int),
//@iter 4
it_b
//@loop 4
                invariant
                    j < A.n, *xj == x@[j as int], A.colptr_ok(), x@.len() == A.n, rows_below(*A, y@.len() as int), y@.len() == y0.len(), a.v() == -1real,
                    it_b.seq().len() == A.colptr@[j + 1] - A.colptr@[j as int], range_from(it_b.seq(), A.colptr@[j as int] as int),
                    forall|r: int| 0 <= r < y0.len() ==> (#[trigger] y@[r]).v() == yb[r].v() - (total_n(*A, x@, r, j as int) + colsum_n(*A, x@, r, j as int, A.colptr@[j as int] + it_b.index@)),
//@body_start 4
                broadcast use real_arith;
//@body_end 4
                proof {
                    assert(forall|r: int| 0 <= r < y0.len() ==> colsum_n(*A, x@, r, j as int, i as int + 1) == colsum_n(*A, x@, r, j as int, i as int) + (if A.rowval@[i as int] == r { A.nzval@[i as int].v() * x@[j as int].v() } else { 0real }));
                }
//@loop 5
            invariant
                j_ctr == r14_i3, r14_n3 == A.n, A.colptr_ok(), x@.len() == A.n, rows_below(*A, y@.len() as int), y@.len() == y0.len(),
                forall|r: int| 0 <= r < y0.len() ==> (#[trigger] y@[r]).v() == yb[r].v() + a.v() * total_n(*A, x@, r, j_ctr as int),
//@iter 6
it_c
//@loop 6
                invariant
                    j < A.n, *xj == x@[j as int], A.colptr_ok(), x@.len() == A.n, rows_below(*A, y@.len() as int), y@.len() == y0.len(), 
                    it_c.seq().len() == A.colptr@[j + 1] - A.colptr@[j as int], range_from(it_c.seq(), A.colptr@[j as int] as int),
                    forall|r: int| 0 <= r < y0.len() ==> (#[trigger] y@[r]).v() == yb[r].v() + a.v() * (total_n(*A, x@, r, j as int) + colsum_n(*A, x@, r, j as int, A.colptr@[j as int] + it_c.index@)),
//@body_start 6
                broadcast use real_arith;
//@body_end 6
                proof {
                    assert(forall|r: int| 0 <= r < y0.len() ==> colsum_n(*A, x@, r, j as int, i as int + 1) == colsum_n(*A, x@, r, j as int, i as int) + (if A.rowval@[i as int] == r { A.nzval@[i as int].v() * x@[j as int].v() } else { 0real }));
                    let rr = A.rowval@[i as int] as int;
                    lemma_axpy_step(a.v(), total_n(*A, x@, rr, j as int) + colsum_n(*A, x@, rr, j as int, i as int), A.nzval@[i as int].v(), x@[j as int].v());
                }
//@body_start 1
            broadcast use real_arith;
//@body_end 1
            proof {
                assert(forall|r: int| 0 <= r < y0.len() ==> total_n(*A, x@, r, j as int + 1) == total_n(*A, x@, r, j as int) + colsum_n(*A, x@, r, j as int, A.colptr@[j as int + 1] as int));
            }
//@body_start 3
            broadcast use real_arith;
//@body_end 3
            proof {
                assert(forall|r: int| 0 <= r < y0.len() ==> total_n(*A, x@, r, j as int + 1) == total_n(*A, x@, r, j as int) + colsum_n(*A, x@, r, j as int, A.colptr@[j as int + 1] as int));
            }
//@body_start 5
            broadcast use real_arith;
//@body_end 5
            proof {
                assert(forall|r: int| 0 <= r < y0.len() ==> total_n(*A, x@, r, j as int + 1) == total_n(*A, x@, r, j as int) + colsum_n(*A, x@, r, j as int, A.colptr@[j as int + 1] as int));
            }
//@end

// ------------------------------------------------------------------ quadratic form  y' sym(M) x  of an upper-triangular M, F-real
// a stored entry (r, c) of the upper triangle stands for the two dense entries (r, c) and (c, r), the diagonal for one
pub open spec fn qf_entry(M: CscMatrix<F>, y: Seq<F>, x: Seq<F>, c: int, k: int) -> real {
    let r = M.rowval@[k] as int; let mv = M.nzval@[k].v();
    if r == c { mv * x[c].v() * y[c].v() } else { mv * x[r].v() * y[c].v() + mv * y[r].v() * x[c].v() }
}
pub open spec fn qf_col(M: CscMatrix<F>, y: Seq<F>, x: Seq<F>, c: int, hi: int) -> real decreases hi - M.colptr@[c] {
    if hi <= M.colptr@[c] { 0real } else { qf_col(M, y, x, c, hi - 1) + qf_entry(M, y, x, c, hi - 1) }
}
pub open spec fn qf_total(M: CscMatrix<F>, y: Seq<F>, x: Seq<F>, j: int) -> real decreases j {
    if j <= 0 { 0real } else { qf_total(M, y, x, j - 1) + qf_col(M, y, x, j - 1, M.colptr@[j] as int) }
}
// the three partial sums the loop keeps for column c: diagonal terms, sum Mv*x[r], sum Mv*y[r] over the strict upper part
pub open spec fn qf_d(M: CscMatrix<F>, y: Seq<F>, x: Seq<F>, c: int, hi: int) -> real decreases hi - M.colptr@[c] {
    if hi <= M.colptr@[c] { 0real } else { qf_d(M, y, x, c, hi - 1) + (if M.rowval@[hi - 1] == c { M.nzval@[hi - 1].v() * x[c].v() * y[c].v() } else { 0real }) }
}
pub open spec fn qf_t(M: CscMatrix<F>, w: Seq<F>, c: int, hi: int) -> real decreases hi - M.colptr@[c] {
    if hi <= M.colptr@[c] { 0real } else { qf_t(M, w, c, hi - 1) + (if M.rowval@[hi - 1] < c { M.nzval@[hi - 1].v() * w[M.rowval@[hi - 1] as int].v() } else { 0real }) }
}
pub proof fn lemma_qf_split(M: CscMatrix<F>, y: Seq<F>, x: Seq<F>, c: int, hi: int)
    requires forall|k: int| M.colptr@[c] <= k < hi ==> #[trigger] M.rowval@[k] <= c,
    ensures qf_col(M, y, x, c, hi) == qf_d(M, y, x, c, hi) + qf_t(M, x, c, hi) * y[c].v() + qf_t(M, y, c, hi) * x[c].v(),
    decreases hi - M.colptr@[c],
{
    if hi <= M.colptr@[c] {
        assert(0real * y[c].v() == 0real) by(nonlinear_arith);
        assert(0real * x[c].v() == 0real) by(nonlinear_arith);
    } else {
        lemma_qf_split(M, y, x, c, hi - 1);
        let r = M.rowval@[hi - 1] as int; let mv = M.nzval@[hi - 1].v();
        let t1 = qf_t(M, x, c, hi - 1); let t2 = qf_t(M, y, c, hi - 1);
        let yc = y[c].v(); let xc = x[c].v();
        assert(M.rowval@[hi - 1] <= c);
        if r < c {
            let xr = x[r].v(); let yr = y[r].v();
            assert((t1 + mv * xr) * yc == t1 * yc + mv * xr * yc) by(nonlinear_arith);
            assert((t2 + mv * yr) * xc == t2 * xc + mv * yr * xc) by(nonlinear_arith);
        }
    }
}

//@fn file=src/algebra/csc/matrix_math.rs name=_csc_quad_form rules=R1,R6,zipidx:2=ii ret=r
//@contract
    requires
        M.colptr_ok(), M.n == M.m, x@.len() == M.n, y@.len() == M.n,
        // the input is in upper-triangular form (otherwise: documented panic)
        forall|c: int, k: int| #[trigger] M.in_col(k, c) ==> M.rowval@[k] <= c,
    ensures
        // C16 / C03: the value is y' sym(M) x, summed over the stored upper triangle (real arithmetic)
        r.v() == qf_total(*M, y@, x@, M.n as int),
//@pre
    broadcast use real_arith;
    proof { assert(M.nzval@.len() == M.nzval.len()); }
//@iter 1
it0
//@loop 1
        invariant
            it0.seq().len() == M.n, range_from(it0.seq(), 0), M.colptr_ok(), M.n == M.m, x@.len() == M.n, y@.len() == M.n,
            forall|c: int, k: int| #[trigger] M.in_col(k, c) ==> M.rowval@[k] <= c,
            out.v() == qf_total(*M, y@, x@, it0.index@ as int),
//@body_start 1
        broadcast use real_arith;
        let ghost gc = col as int;
        let ghost out0 = out.v();
        proof { assert(M.colptr@[gc] <= M.colptr@[gc + 1] <= M.colptr@[M.n as int]); }
//@iter 2
it1
//@loop 2
            invariant
                it1.seq().len() == r14_n1, range_from(it1.seq(), 0),
                0 <= gc < M.n, col == gc, first == M.colptr@[gc], last == M.colptr@[gc + 1], first <= last, last <= M.nzval@.len(),
                M.colptr_ok(), M.n == M.m, x@.len() == M.n, y@.len() == M.n,
                values@ == M.nzval@.subrange(first as int, last as int), rows@ == M.rowval@.subrange(first as int, last as int), r14_n1 == last - first,
                forall|c: int, k: int| #[trigger] M.in_col(k, c) ==> M.rowval@[k] <= c,
                out.v() == out0 + qf_d(*M, y@, x@, gc, first + it1.index@),
                tmp1.v() == qf_t(*M, x@, gc, first + it1.index@),
                tmp2.v() == qf_t(*M, y@, gc, first + it1.index@),
//@body_start 2
            broadcast use real_arith;
            proof {
                let k = first as int + r14_i1 as int;
                assert(M.in_col(k, gc));
                assert(values@[r14_i1 as int] == M.nzval@[k]);
                assert(rows@[r14_i1 as int] == M.rowval@[k]);
            }
//@body_end 1
        proof {
            assert forall|k: int| M.colptr@[gc] <= k < last implies #[trigger] M.rowval@[k] <= gc by { assert(M.in_col(k, gc)); }
            lemma_qf_split(*M, y@, x@, gc, last as int);
            assert(qf_total(*M, y@, x@, gc + 1) == qf_total(*M, y@, x@, gc) + qf_col(*M, y@, x@, gc, M.colptr@[gc + 1] as int));
        }
//@end

// ------------------------------------------------------------------ symmetric product  y <- a*sym(A)*x + b*y, F-real
// dense meaning read off the stored (upper-triangle) entries: entry (i, c) contributes A_ic*x_c to row i and, when it is
// off the diagonal, A_ic*x_i to row c
pub open spec fn sv_entry(A: CscMatrix<F>, x: Seq<F>, r: int, c: int, k: int) -> real {
    let i = A.rowval@[k] as int; let v = A.nzval@[k].v();
    (if i == r { v * x[c].v() } else { 0real }) + (if i != c && c == r { v * x[i].v() } else { 0real })
}
pub open spec fn sv_col(A: CscMatrix<F>, x: Seq<F>, r: int, c: int, hi: int) -> real decreases hi - A.colptr@[c] {
    if hi <= A.colptr@[c] { 0real } else { sv_col(A, x, r, c, hi - 1) + sv_entry(A, x, r, c, hi - 1) }
}
pub open spec fn sv_total(A: CscMatrix<F>, x: Seq<F>, r: int, j: int) -> real decreases j {
    if j <= 0 { 0real } else { sv_total(A, x, r, j - 1) + sv_col(A, x, r, j - 1, A.colptr@[j] as int) }
}
pub proof fn lemma_sv_step(A: CscMatrix<F>, x: Seq<F>, r: int, c: int, k: int, aa: real, base: real, tot: real, ynew: real)
    requires
        A.colptr@[c] <= k,
        ynew == base + aa * (tot + sv_col(A, x, r, c, k))
              + (if A.rowval@[k] == r { (aa * A.nzval@[k].v()) * x[c].v() } else { 0real })
              + (if A.rowval@[k] != c && c == r { (aa * A.nzval@[k].v()) * x[A.rowval@[k] as int].v() } else { 0real }),
    ensures ynew == base + aa * (tot + sv_col(A, x, r, c, k + 1)),
{
    let v = A.nzval@[k].v(); let i = A.rowval@[k] as int; let s = tot + sv_col(A, x, r, c, k);
    assert(sv_col(A, x, r, c, k + 1) == sv_col(A, x, r, c, k) + sv_entry(A, x, r, c, k));
    let e1 = if i == r { v * x[c].v() } else { 0real };
    let e2 = if i != c && c == r { v * x[i].v() } else { 0real };
    assert(aa * (s + (e1 + e2)) == aa * s + aa * e1 + aa * e2) by(nonlinear_arith);
    assert(aa * (v * x[c].v()) == (aa * v) * x[c].v()) by(nonlinear_arith);
    assert(aa * (v * x[i].v()) == (aa * v) * x[i].v()) by(nonlinear_arith);
    assert(aa * 0real == 0real) by(nonlinear_arith);
}

//@fn file=src/algebra/csc/matrix_math.rs name=_csc_symv_unsafe rules=R1,R3,R10,zipidx:1=i;2=ii
//@contract
    requires
        A.colptr_ok(), A.n == A.m, x@.len() == A.n, old(y)@.len() == A.n, rows_below(*A, A.n as int),
    ensures
        final(y)@.len() == old(y)@.len(),
        // C16: y <- a*sym(A)*x + b*y row by row, sym(A) = A + A' - diag(A) of the stored entries (real arithmetic)
        forall|r: int| 0 <= r < A.n ==> (#[trigger] final(y)@[r]).v() == b.v() * old(y)@[r].v() + a.v() * sv_total(*A, x@, r, A.n as int),
//@pre
    broadcast use real_arith;
    let ghost y0 = y@;
//@before "assert!(x.len() == A.n);"
    let ghost yb = y@;
    proof {
        assert(A.nzval@.len() == A.nzval.len());
        assert forall|r: int| 0 <= r < A.n implies (#[trigger] yb[r]).v() == b.v() * y0[r].v() by {
            assert(yb[r] == f_mul(y0[r], b));
            assert(y0[r].v() * b.v() == b.v() * y0[r].v()) by(nonlinear_arith);
        }
        assert(a.v() * 0real == 0real) by(nonlinear_arith);
    }
//@iter 1
it0
//@loop 1
            invariant
                it0.seq().len() == r14_n1, range_from(it0.seq(), 0), col_ctr == it0.index@, r14_n1 == A.n,
                A.colptr_ok(), A.n == A.m, x@.len() == A.n, y@.len() == A.n, rows_below(*A, A.n as int), yb.len() == A.n,
                forall|r: int| 0 <= r < A.n ==> (#[trigger] yb[r]).v() == b.v() * y0[r].v(),
                forall|r: int| 0 <= r < A.n ==> (#[trigger] y@[r]).v() == yb[r].v() + a.v() * sv_total(*A, x@, r, col_ctr as int),
//@body_start 1
            broadcast use real_arith;
            let ghost gc = col_ctr as int;
//@iter 2
it1
//@loop 2
                invariant
                    it1.seq().len() == r14_n2, range_from(it1.seq(), 0), r14_lo2_0 == first, r14_lo2_1 == first, r14_n2 == last - first,
                    0 <= gc < A.n, col == gc, xcol == x@[gc], first == A.colptr@[gc], last == A.colptr@[gc + 1], first <= last, last <= A.nzval@.len(),
                    A.colptr_ok(), A.n == A.m, x@.len() == A.n, y@.len() == A.n, rows_below(*A, A.n as int), yb.len() == A.n,
                    forall|r: int| 0 <= r < A.n ==> (#[trigger] y@[r]).v() == yb[r].v() + a.v() * (sv_total(*A, x@, r, gc) + sv_col(*A, x@, r, gc, first + it1.index@)),
//@body_start 2
                broadcast use real_arith;
                let ghost yk = y@;
                let ghost gk = first as int + r14_i2 as int;
                proof { assert(A.in_col(gk, gc)); }
//@body_end 2
                proof {
                    assert forall|r: int| 0 <= r < A.n implies (#[trigger] y@[r]).v() == yb[r].v() + a.v() * (sv_total(*A, x@, r, gc) + sv_col(*A, x@, r, gc, gk + 1)) by {
                        lemma_sv_step(*A, x@, r, gc, gk, a.v(), yb[r].v(), sv_total(*A, x@, r, gc), y@[r].v());
                    }
                }
//@body_end 1
            proof {
                assert(forall|r: int| 0 <= r < A.n ==> sv_total(*A, x@, r, gc + 1) == sv_total(*A, x@, r, gc) + sv_col(*A, x@, r, gc, A.colptr@[gc + 1] as int));
            }
//@end

// (A' x)_j = sum over the stored entries (r, j) of column j of A_rj * x_r
pub open spec fn colsum_t(A: CscMatrix<F>, x: Seq<F>, j: int, hi: int) -> real
    decreases hi - A.colptr@[j],
{
    if hi <= A.colptr@[j] { 0real } else { colsum_t(A, x, j, hi - 1) + A.nzval@[hi - 1].v() * x[A.rowval@[hi - 1] as int].v() }
}
pub open spec fn col_t(A: CscMatrix<F>, x: Seq<F>, c: int) -> real { colsum_t(A, x, c, A.colptr@[c + 1] as int) }
//@fn file=src/algebra/csc/matrix_math.rs name=_csc_axpby_T rules=R1,R2,R3,R6,zipidx:1=m;3=m;5=m
//@contract
    requires
        A.colptr_ok(), x@.len() == A.m, rows_below(*A, x@.len() as int), old(y)@.len() >= A.n,
    ensures
        final(y)@.len() == old(y)@.len(),
        // C16: y <- a*A'*x + b*y (entries of y beyond A.n only get the b*y part: zip/take semantics)
        forall|c: int| 0 <= c < A.n ==> (#[trigger] final(y)@[c]).v() == b.v() * old(y)@[c].v() + a.v() * col_t(*A, x@, c),
        forall|c: int| A.n <= c < old(y)@.len() ==> (#[trigger] final(y)@[c]).v() == b.v() * old(y)@[c].v(),
//@pre
    broadcast use real_arith;
    let ghost y0 = y@;
//@before "if a == F::zero()"
    let ghost yb = y@;
    proof {
        assert(yb.len() == y0.len());
        assert forall|r: int| 0 <= r < y0.len() implies (#[trigger] yb[r]).v() == b.v() * y0[r].v() by { }
        assert forall|c: int| 0 <= c < A.n implies 0real * #[trigger] col_t(*A, x@, c) == 0real by {
            assert(0real * col_t(*A, x@, c) == 0real) by(nonlinear_arith);
        }
    }
//@loop 1
            invariant
                j_ctr == r14_i1, r14_n1 == A.n, A.colptr_ok(), x@.len() == A.m, rows_below(*A, x@.len() as int), y@.len() == y0.len(), y0.len() >= A.n, a.v() == 1real,
                forall|c: int| 0 <= c < j_ctr ==> (#[trigger] y@[c]).v() == yb[c].v() + col_t(*A, x@, c),
                forall|c: int| j_ctr <= c < y0.len() ==> #[trigger] y@[c] == yb[c],
//@body_start 1
            broadcast use real_arith;
            let ghost ybj = yb[j_ctr as int].v();
//@iter 2
it_a
//@loop 2
                invariant
                    j < A.n, A.colptr_ok(), x@.len() == A.m, rows_below(*A, x@.len() as int), a.v() == 1real,
                    it_a.seq().len() == A.colptr@[j + 1] - A.colptr@[j as int], range_from(it_a.seq(), A.colptr@[j as int] as int),
                    (*yj).v() == ybj + colsum_t(*A, x@, j as int, A.colptr@[j as int] + it_a.index@),
//@body_start 2
                broadcast use real_arith;
//@body_end 2
                proof {
                    assert(colsum_t(*A, x@, j as int, k as int + 1) == colsum_t(*A, x@, j as int, k as int) + A.nzval@[k as int].v() * x@[A.rowval@[k as int] as int].v());
                }
//@loop 3
            invariant
                j_ctr == r14_i2, r14_n2 == A.n, A.colptr_ok(), x@.len() == A.m, rows_below(*A, x@.len() as int), y@.len() == y0.len(), y0.len() >= A.n, a.v() == -1real,
                forall|c: int| 0 <= c < j_ctr ==> (#[trigger] y@[c]).v() == yb[c].v() - col_t(*A, x@, c),
                forall|c: int| j_ctr <= c < y0.len() ==> #[trigger] y@[c] == yb[c],
//@body_start 3
            broadcast use real_arith;
            let ghost ybj = yb[j_ctr as int].v();
//@iter 4
it_b
//@loop 4
                invariant
                    j < A.n, A.colptr_ok(), x@.len() == A.m, rows_below(*A, x@.len() as int), a.v() == -1real,
                    it_b.seq().len() == A.colptr@[j + 1] - A.colptr@[j as int], range_from(it_b.seq(), A.colptr@[j as int] as int),
                    (*yj).v() == ybj - colsum_t(*A, x@, j as int, A.colptr@[j as int] + it_b.index@),
//@body_start 4
                broadcast use real_arith;
//@body_end 4
                proof {
                    assert(colsum_t(*A, x@, j as int, k as int + 1) == colsum_t(*A, x@, j as int, k as int) + A.nzval@[k as int].v() * x@[A.rowval@[k as int] as int].v());
                }
//@loop 5
            invariant
                j_ctr == r14_i3, r14_n3 == A.n, A.colptr_ok(), x@.len() == A.m, rows_below(*A, x@.len() as int), y@.len() == y0.len(), y0.len() >= A.n, 
                forall|c: int| 0 <= c < j_ctr ==> (#[trigger] y@[c]).v() == yb[c].v() + a.v() * col_t(*A, x@, c),
                forall|c: int| j_ctr <= c < y0.len() ==> #[trigger] y@[c] == yb[c],
//@body_start 5
            broadcast use real_arith;
            let ghost ybj = yb[j_ctr as int].v();
//@iter 6
it_c
//@loop 6
                invariant
                    j < A.n, A.colptr_ok(), x@.len() == A.m, rows_below(*A, x@.len() as int), 
                    it_c.seq().len() == A.colptr@[j + 1] - A.colptr@[j as int], range_from(it_c.seq(), A.colptr@[j as int] as int),
                    (*yj).v() == ybj + a.v() * colsum_t(*A, x@, j as int, A.colptr@[j as int] + it_c.index@),
//@body_start 6
                broadcast use real_arith;
//@body_end 6
                proof {
                    assert(colsum_t(*A, x@, j as int, k as int + 1) == colsum_t(*A, x@, j as int, k as int) + A.nzval@[k as int].v() * x@[A.rowval@[k as int] as int].v());
                    lemma_axpy_step(a.v(), colsum_t(*A, x@, j as int, k as int), A.nzval@[k as int].v(), x@[A.rowval@[k as int] as int].v());
                }
//@end

// ------------------------------------------------------------------ scalar clip (scalarmath.rs)
pub trait ScalarMath { fn clip(&self, min_thresh: Self, max_thresh: Self) -> Self where Self: Sized; }
impl ScalarMath for F {
//@fn file=src/algebra/scalarmath.rs in="ScalarMath for T" name=clip rules=tparam:Self>F ret=r
//@contract
    ensures
        // the result is the argument or one of the bounds ...
        r == *self || r == min_thresh || r == max_thresh,
        // ... chosen by the two comparisons, in this order (NaN compares false => passes through)
        f_lt(*self, min_thresh) ==> r == min_thresh,
        !f_lt(*self, min_thresh) && f_lt(max_thresh, *self) ==> r == max_thresh,
        !f_lt(*self, min_thresh) && !f_lt(max_thresh, *self) ==> r == *self,
//@end
}

// ------------------------------------------------------------------ scale_data (problemdata.rs)
pub open spec fn rows_below(a: CscMatrix<F>, bound: int) -> bool {
    forall|k: int| 0 <= k < a.rowval@.len() ==> a.rowval@[k] < bound
}
//@fn file=src/solver/implementations/default/problemdata.rs name=scale_data rules=R1
//@contract
    requires
        old(P).colptr_ok(), old(A).colptr_ok(), rows_below(*old(A), e@.len() as int),
        d matches Some(dv) ==> dv@.len() == old(P).n && dv@.len() == old(A).n && rows_below(*old(P), dv@.len() as int),
    ensures
        final(P).same_pattern(old(P)), final(A).same_pattern(old(A)),
        final(q)@.len() == old(q)@.len(), final(b)@.len() == old(b)@.len(),
        // C10: b <- E b
        forall|i: int| 0 <= i < old(b)@.len() ==> #[trigger] final(b)@[i] == (if i < e@.len() { f_mul(old(b)@[i], e@[i]) } else { old(b)@[i] }),
        d matches Some(dv) ==> {
            // C10: P <- D P D,  A <- E A D,  q <- D q   (entry for entry)
            &&& forall|k: int, j: int| #[trigger] old(P).in_col(k, j) ==>
                    final(P).nzval@[k] == f_mul(old(P).nzval@[k], f_mul(dv@[old(P).rowval@[k] as int], dv@[j]))
            &&& forall|k: int, j: int| #[trigger] old(A).in_col(k, j) ==>
                    final(A).nzval@[k] == f_mul(old(A).nzval@[k], f_mul(e@[old(A).rowval@[k] as int], dv@[j]))
            &&& forall|i: int| 0 <= i < old(q)@.len() ==> #[trigger] final(q)@[i] == (if i < dv@.len() { f_mul(old(q)@[i], dv@[i]) } else { old(q)@[i] })
        },
        d is None ==> {
            // rectification pass: A <- E A only; P and q untouched
            &&& final(P).nzval@ == old(P).nzval@ && final(q)@ == old(q)@
            &&& forall|k: int| 0 <= k < old(A).nzval@.len() ==> #[trigger] final(A).nzval@[k] == f_mul(old(A).nzval@[k], e@[old(A).rowval@[k] as int])
        },
//@end

// ------------------------------------------------------------------ Ruiz equilibration (problemdata.rs)
//@struct file=src/solver/implementations/default/equilibration.rs name=DefaultEquilibrationData
//@struct file=src/solver/implementations/default/settings.rs name=DefaultSettings rules=R1f
//@struct file=src/solver/implementations/default/problemdata.rs name=DefaultProblemData keep=P,q,A,b,n,m,equilibration

// C10 (real arithmetic): "the internal data equal c*D*P*D, E*A*D, c*D*q and E*b entry for entry", relative to a reference
// state (X0, d0, e0, c0) and written without division:  X * (old scalings) == X0 * (new scalings)
pub open spec fn rel_a(A: CscMatrix<F>, A0: CscMatrix<F>, e: Seq<F>, e0: Seq<F>, d: Seq<F>, d0: Seq<F>) -> bool {
    forall|k: int, j: int| #[trigger] A0.in_col(k, j) ==>
        A.nzval@[k].v() * (e0[A0.rowval@[k] as int].v() * d0[j].v()) == A0.nzval@[k].v() * (e[A0.rowval@[k] as int].v() * d[j].v())
}
pub open spec fn rel_p(P: CscMatrix<F>, P0: CscMatrix<F>, d: Seq<F>, d0: Seq<F>, c: F, c0: F) -> bool {
    forall|k: int, j: int| #[trigger] P0.in_col(k, j) ==>
        P.nzval@[k].v() * (c0.v() * (d0[P0.rowval@[k] as int].v() * d0[j].v())) == P0.nzval@[k].v() * (c.v() * (d[P0.rowval@[k] as int].v() * d[j].v()))
}
pub open spec fn rel_q(q: Seq<F>, q0: Seq<F>, d: Seq<F>, d0: Seq<F>, c: F, c0: F) -> bool {
    q.len() == q0.len() && forall|j: int| 0 <= j < q0.len() ==> (#[trigger] q[j]).v() * (c0.v() * d0[j].v()) == q0[j].v() * (c.v() * d[j].v())
}
pub open spec fn rel_b(b: Seq<F>, b0: Seq<F>, e: Seq<F>, e0: Seq<F>) -> bool {
    b.len() == b0.len() && forall|i: int| 0 <= i < b0.len() ==> (#[trigger] b[i]).v() * e0[i].v() == b0[i].v() * e[i].v()
}
pub proof fn lemma_rel3(x: real, x0: real, s0: real, s: real, f: real)
    requires x * s0 == x0 * s,
    ensures (x * f) * s0 == x0 * (s * f),
{ assert((x * f) * s0 == (x * s0) * f) by(nonlinear_arith); assert(x0 * (s * f) == (x0 * s) * f) by(nonlinear_arith); }
pub proof fn lemma_prod2(e: real, d: real, l: real, r: real) ensures (e * l) * (d * r) == (e * d) * (l * r) { assert((e * l) * (d * r) == (e * d) * (l * r)) by(nonlinear_arith); }
pub proof fn lemma_prod3(c: real, a: real, b: real, ct: real) ensures (c * ct) * (a * b) == (c * (a * b)) * ct { assert((c * ct) * (a * b) == (c * (a * b)) * ct) by(nonlinear_arith); }
pub open spec fn rect_ok(e: Seq<F>, delta: Seq<F>, i: int) -> bool {
    &&& exists|j: int| 0 <= j < e.len() && (#[trigger] e[j]).v() <= e[i].v() * delta[i].v()
    &&& exists|j: int| 0 <= j < e.len() && e[i].v() * delta[i].v() <= (#[trigger] e[j]).v()
}
// stand-in for CompositeCone (enum_dispatch over the cone types); rectify_equilibration: ASSUMED to keep lengths
pub struct CompositeCone<T> { pub _p: Option<T> }
impl CompositeCone<F> {
    #[verifier::external_body]
    pub fn rectify_equilibration(&self, delta: &mut [F], e: &[F]) -> (r: bool)
        ensures final(delta)@.len() == old(delta)@.len(),
            // ASSUMED (F-real): rectification replaces e_i by a value inside the range spanned by e ("a convex combination
            // of scalings over a cone"): e_i * delta_i lies between two entries of e
            forall|i: int| 0 <= i < e@.len() && i < old(delta)@.len() ==> #[trigger] rect_ok(e@, final(delta)@, i),
    { unimplemented!() }
}
// ------------------------------------------------------------------ column / row norms and sums (matrix_math.rs), float symbols
// running max of |value| over the stored entries lo..hi (one column), starting from `init`
pub open spec fn colmax(nz: Seq<F>, lo: int, hi: int, init: F) -> F decreases hi - lo { if hi <= lo { init } else { f_max(colmax(nz, lo, hi - 1, init), f_abs(nz[hi - 1])) } }
// running max of |value| over the first k stored entries that lie in row r
pub open spec fn rowmax(rv: Seq<usize>, nz: Seq<F>, r: int, k: int, init: F) -> F decreases k {
    if k <= 0 { init } else if rv[k - 1] == r { f_max(rowmax(rv, nz, r, k - 1, init), f_abs(nz[k - 1])) } else { rowmax(rv, nz, r, k - 1, init) } }
pub open spec fn rowsum(rv: Seq<usize>, nz: Seq<F>, r: int, k: int) -> F decreases k {
    if k <= 0 { f_zero() } else if rv[k - 1] == r { f_add(rowsum(rv, nz, r, k - 1), nz[k - 1]) } else { rowsum(rv, nz, r, k - 1) } }
// symmetric column norms of an upper triangle: entry (r, i) feeds norms[i] and norms[r] (twice the same cell on the diagonal)
pub open spec fn symstep(x: F, t: F, i: int, rj: int, c: int) -> F { let x1 = if i == c { f_max(x, t) } else { x }; if rj == c { f_max(x1, t) } else { x1 } }
pub open spec fn symcol(A: CscMatrix<F>, c: int, i: int, hi: int, x: F) -> F decreases hi - A.colptr@[i] {
    if hi <= A.colptr@[i] { x } else { symstep(symcol(A, c, i, hi - 1, x), f_abs(A.nzval@[hi - 1]), i, A.rowval@[hi - 1] as int, c) } }
pub open spec fn symall(A: CscMatrix<F>, c: int, i: int, x: F) -> F decreases i { if i <= 0 { x } else { symcol(A, c, i - 1, A.colptr@[i] as int, symall(A, c, i - 1, x)) } }

impl CscMatrix<F> {
//@fn file=src/algebra/csc/matrix_math.rs in="MatrixMath<T> for CscMatrix<T>" name=col_norms_no_reset rules=R1,R6,R3,R24,R5,zipidx:1=m
//@contract
    requires self.colptr_ok(), old(norms)@.len() == self.n,
    ensures
        final(norms)@.len() == old(norms)@.len(),
        // C16 / C10: norms[c] <- max(norms[c], max |entry| of column c)
        forall|c: int| 0 <= c < self.n ==> #[trigger] final(norms)@[c] == colmax(self.nzval@, self.colptr@[c] as int, self.colptr@[c + 1] as int, old(norms)@[c]),
//@pre
        proof { assert(self.colptr@.len() == self.colptr.len()); assert(self.nzval@.len() == self.nzval.len()); }
        let ghost n0 = norms@;
//@iter 1
it0
//@loop 1
        invariant
            it0.seq().len() == r14_n1, range_from(it0.seq(), 0), r14_n1 == self.n, i_ctr == it0.index@, norms@.len() == n0.len(), n0.len() == self.n, self.colptr_ok(),
            forall|c: int| 0 <= c < it0.index@ ==> #[trigger] norms@[c] == colmax(self.nzval@, self.colptr@[c] as int, self.colptr@[c + 1] as int, n0[c]),
            forall|c: int| it0.index@ <= c < self.n ==> #[trigger] norms@[c] == n0[c],
//@body_start 1
            let ghost gc = i_ctr as int;
            proof { assert(self.colptr@[gc] <= self.colptr@[gc + 1] <= self.colptr@[self.n as int]); }
//@iter 2
it1
//@loop 2
                invariant
                    0 <= gc < self.n, self.colptr_ok(), self.colptr@[gc] <= self.colptr@[gc + 1] <= self.nzval@.len(),
                    it1.seq().len() == self.colptr@[gc + 1] - self.colptr@[gc],
                    forall|q: int| 0 <= q < it1.seq().len() ==> *(#[trigger] it1.seq()[q]) == self.nzval@[self.colptr@[gc] + q],
                    m == colmax(self.nzval@, self.colptr@[gc] as int, self.colptr@[gc] + it1.index@, n0[gc]),
//@end

//@fn file=src/algebra/csc/matrix_math.rs in="MatrixMath<T> for CscMatrix<T>" name=col_norms rules=R1
//@contract
    requires self.colptr_ok(), old(norms)@.len() == self.n,
    ensures
        final(norms)@.len() == old(norms)@.len(),
        forall|c: int| 0 <= c < self.n ==> #[trigger] final(norms)@[c] == colmax(self.nzval@, self.colptr@[c] as int, self.colptr@[c + 1] as int, f_zero()),
//@end

//@fn file=src/algebra/csc/matrix_math.rs in="MatrixMath<T> for CscMatrix<T>" name=row_norms_no_reset rules=R1,R6,zipidx:1=ii
//@contract
    requires self.colptr_ok(), rows_below(*self, old(norms)@.len() as int),
    ensures
        final(norms)@.len() == old(norms)@.len(),
        // norms[r] <- max(norms[r], max |entry| of row r), entries taken in storage order
        forall|r: int| 0 <= r < old(norms)@.len() ==> #[trigger] final(norms)@[r] == rowmax(self.rowval@, self.nzval@, r, self.rowval@.len() as int, old(norms)@[r]),
//@pre
        proof { assert(self.colptr@.len() == self.colptr.len()); }
        let ghost n0 = norms@;
//@iter 1
it0
//@loop 1
        invariant
            it0.seq().len() == r14_n1, range_from(it0.seq(), 0), r14_n1 == self.rowval@.len(), self.rowval@.len() == self.nzval@.len(), norms@.len() == n0.len(),
            rows_below(*self, n0.len() as int),
            forall|r: int| 0 <= r < n0.len() ==> #[trigger] norms@[r] == rowmax(self.rowval@, self.nzval@, r, it0.index@ as int, n0[r]),
//@end

//@fn file=src/algebra/csc/matrix_math.rs in="MatrixMath<T> for CscMatrix<T>" name=row_norms rules=R1
//@contract
    requires self.colptr_ok(), rows_below(*self, old(norms)@.len() as int),
    ensures
        final(norms)@.len() == old(norms)@.len(),
        forall|r: int| 0 <= r < old(norms)@.len() ==> #[trigger] final(norms)@[r] == rowmax(self.rowval@, self.nzval@, r, self.rowval@.len() as int, f_zero()),
//@end

//@fn file=src/algebra/csc/matrix_math.rs in="MatrixMath<T> for CscMatrix<T>" name=col_sums rules=R1,R6,R3,zipidx:1=m
//@contract
    requires self.colptr_ok(), old(sums)@.len() == self.n,
    ensures
        final(sums)@.len() == old(sums)@.len(),
        // sums[c] = sum of the stored entries of column c, in storage order
        forall|c: int| 0 <= c < self.n ==> #[trigger] final(sums)@[c] == fold_sum(self.nzval@.subrange(self.colptr@[c] as int, self.colptr@[c + 1] as int), self.colptr@[c + 1] - self.colptr@[c]),
//@pre
        proof { assert(self.nzval@.len() == self.nzval.len()); }
//@iter 1
it0
//@loop 1
        invariant
            it0.seq().len() == r14_n1, range_from(it0.seq(), 0), r14_n1 == self.n, col_ctr == it0.index@, sums@.len() == self.n, self.colptr_ok(),
            forall|c: int| 0 <= c < it0.index@ ==> #[trigger] sums@[c] == fold_sum(self.nzval@.subrange(self.colptr@[c] as int, self.colptr@[c + 1] as int), self.colptr@[c + 1] - self.colptr@[c]),
//@body_start 1
            proof { let gc = col_ctr as int; assert(self.colptr@[gc] <= self.colptr@[gc + 1] <= self.colptr@[self.n as int]); }
//@end

//@fn file=src/algebra/csc/matrix_math.rs in="MatrixMath<T> for CscMatrix<T>" name=row_sums rules=R1,R6,zipidx:1=ii
//@contract
    requires self.rowval@.len() == self.nzval@.len(), old(sums)@.len() == self.m, rows_below(*self, self.m as int),
    ensures
        final(sums)@.len() == old(sums)@.len(),
        forall|r: int| 0 <= r < self.m ==> #[trigger] final(sums)@[r] == rowsum(self.rowval@, self.nzval@, r, self.rowval@.len() as int),
//@iter 1
it0
//@loop 1
        invariant
            it0.seq().len() == r14_n1, range_from(it0.seq(), 0), r14_n1 == self.rowval@.len(), self.rowval@.len() == self.nzval@.len(), sums@.len() == self.m,
            rows_below(*self, self.m as int),
            forall|r: int| 0 <= r < self.m ==> #[trigger] sums@[r] == rowsum(self.rowval@, self.nzval@, r, it0.index@ as int),
//@end

//@fn file=src/algebra/csc/matrix_math.rs in="MatrixMath<T> for CscMatrix<T>" name=col_norms_sym_no_reset rules=R1,R6
//@contract
    requires self.colptr_ok(), old(norms)@.len() == self.n, rows_below(*self, self.n as int),
    ensures
        final(norms)@.len() == old(norms)@.len(),
        // symmetric column norms from the stored upper triangle
        forall|c: int| 0 <= c < self.n ==> #[trigger] final(norms)@[c] == symall(*self, c, self.n as int, old(norms)@[c]),
//@pre
        proof { assert(self.colptr@.len() == self.colptr.len()); }
        let ghost n0 = norms@;
//@iter 1
it0
//@loop 1
        invariant
            it0.seq().len() == self.n, range_from(it0.seq(), 0), norms@.len() == self.n, n0.len() == self.n, self.colptr_ok(), rows_below(*self, self.n as int),
            forall|c: int| 0 <= c < self.n ==> #[trigger] norms@[c] == symall(*self, c, it0.index@ as int, n0[c]),
//@body_start 1
            let ghost gi = $var1 as int;
            proof { assert(self.colptr@[gi] <= self.colptr@[gi + 1] <= self.colptr@[self.n as int]); }
//@iter 2
it1
//@loop 2
                invariant
                    0 <= gi < self.n, $var1 == gi, norms@.len() == self.n, n0.len() == self.n, self.colptr_ok(), rows_below(*self, self.n as int),
                    self.colptr@[gi] <= self.colptr@[gi + 1] <= self.nzval@.len(),
                    it1.seq().len() == self.colptr@[gi + 1] - self.colptr@[gi], range_from(it1.seq(), self.colptr@[gi] as int),
                    forall|c: int| 0 <= c < self.n ==> #[trigger] norms@[c] == symcol(*self, c, gi, self.colptr@[gi] + it1.index@, symall(*self, c, gi, n0[c])),
//@body_start 2
                let ghost gj = $var2 as int;
                let ghost nm1 = norms@;
//@body_end 2
                proof {
                    assert forall|c: int| 0 <= c < self.n implies #[trigger] norms@[c] == symcol(*self, c, gi, gj + 1, symall(*self, c, gi, n0[c])) by {
                        assert(nm1[c] == symcol(*self, c, gi, gj, symall(*self, c, gi, n0[c])));
                    }
                }
//@end

//@fn file=src/algebra/csc/matrix_math.rs in="MatrixMath<T> for CscMatrix<T>" name=col_norms_sym rules=R1
//@contract
    requires self.colptr_ok(), old(norms)@.len() == self.n, rows_below(*self, self.n as int),
    ensures
        final(norms)@.len() == old(norms)@.len(),
        forall|c: int| 0 <= c < self.n ==> #[trigger] final(norms)@[c] == symall(*self, c, self.n as int, f_zero()),
//@end
}
//@fn file=src/solver/implementations/default/problemdata.rs name=kkt_col_norms rules=R1
//@contract
    requires
        P.colptr_ok(), A.colptr_ok(), P.m == P.n, A.n == P.n, old(norm_LHS)@.len() == P.n, old(norm_RHS)@.len() == A.m,
        rows_below(*P, P.n as int), rows_below(*A, A.m as int),
    ensures final(norm_LHS)@.len() == old(norm_LHS)@.len(), final(norm_RHS)@.len() == old(norm_RHS)@.len(),
        // C10: column norms of the KKT matrix [P A'; A 0]: left block = symmetric column norms of P, then the columns of A on top; right block = row norms of A
        forall|c: int| 0 <= c < P.n ==> #[trigger] final(norm_LHS)@[c] == colmax(A.nzval@, A.colptr@[c] as int, A.colptr@[c + 1] as int, symall(*P, c, P.n as int, f_zero())),
        forall|r: int| 0 <= r < A.m ==> #[trigger] final(norm_RHS)@[r] == rowmax(A.rowval@, A.nzval@, r, A.rowval@.len() as int, f_zero()),
//@end

// every entry of s lies in [lo, hi]
pub open spec fn within(s: Seq<F>, lo: real, hi: real) -> bool { forall|i: int| 0 <= i < s.len() ==> lo <= (#[trigger] s[i]).v() <= hi }
// clip(x, lo/d, hi/d) times d stays in [lo, hi] for d > 0
pub proof fn lemma_clip_keeps_bounds(x: real, d: real, lo: real, hi: real, r: real)
    requires d > 0real, 0real < lo <= hi,
        (x < lo / d ==> r == lo / d), (!(x < lo / d) && hi / d < x ==> r == hi / d), (!(x < lo / d) && !(hi / d < x) ==> r == x),
    ensures lo <= d * r <= hi,
{
    assert(d * (lo / d) == lo) by(nonlinear_arith) requires d > 0real;
    assert(d * (hi / d) == hi) by(nonlinear_arith) requires d > 0real;
    assert(lo / d <= hi / d) by(nonlinear_arith) requires d > 0real, lo <= hi;
    if !(x < lo / d) && !(hi / d < x) {
        assert(d * (lo / d) <= d * x <= d * (hi / d)) by(nonlinear_arith) requires d > 0real, lo / d <= x <= hi / d;
    }
}
impl DefaultProblemData<F> {
    // dimensions as established by DefaultProblemData::new: P is n x n, A is m x n, q: n, b: m, scalings d: n, e: m
    pub open spec fn shape_ok(&self) -> bool {
        let eq = self.equilibration;
        &&& self.P.colptr_ok() && self.A.colptr_ok()
        &&& self.P.n == eq.d@.len() && self.A.n == eq.d@.len() && self.P.m == self.P.n && self.A.m == eq.e@.len()
        &&& rows_below(self.P, eq.d@.len() as int) && rows_below(self.A, eq.e@.len() as int)
        &&& self.q@.len() == eq.d@.len() && self.b@.len() == eq.e@.len()
        &&& eq.dinv@.len() == eq.d@.len() && eq.einv@.len() == eq.e@.len()
    }
//@fn file=src/solver/implementations/default/problemdata.rs in="ProblemData<T> for DefaultProblemData<T>" name=equilibrate rules=R1,zipidx:*
//@contract
    requires old(self).shape_ok(),
        // F-real part: sane scaling bounds (defaults 1e-4, 1e4) and initial scalings inside them (the constructor sets d = e = c = 1)
        0real < settings.equilibrate_min_scaling.v() <= 1real, 1real <= settings.equilibrate_max_scaling.v(),
        within(old(self).equilibration.d@, settings.equilibrate_min_scaling.v(), settings.equilibrate_max_scaling.v()),
        within(old(self).equilibration.e@, settings.equilibrate_min_scaling.v(), settings.equilibrate_max_scaling.v()),
        settings.equilibrate_min_scaling.v() <= old(self).equilibration.c.v() <= settings.equilibrate_max_scaling.v(),
    ensures
        // C10: "With equilibration disabled the data are untouched"
        !settings.equilibrate_enable ==> *final(self) == *old(self),
        // the sparsity patterns and all lengths are never changed
        final(self).shape_ok(), final(self).P.same_pattern(&old(self).P), final(self).A.same_pattern(&old(self).A),
        final(self).n == old(self).n, final(self).m == old(self).m,
        // C10 (real arithmetic): "every scaling factor (cumulative) stays within [equilibrate_min_scaling, equilibrate_max_scaling]"
        within(final(self).equilibration.d@, settings.equilibrate_min_scaling.v(), settings.equilibrate_max_scaling.v()),
        within(final(self).equilibration.e@, settings.equilibrate_min_scaling.v(), settings.equilibrate_max_scaling.v()),
        settings.equilibrate_min_scaling.v() <= final(self).equilibration.c.v() <= settings.equilibrate_max_scaling.v(),
        // C10 (real arithmetic): "the internal data equal c*D*P*D, E*A*D, c*D*q and E*b entry for entry" (relative to the data and scalings on entry)
        rel_a(final(self).A, old(self).A, final(self).equilibration.e@, old(self).equilibration.e@, final(self).equilibration.d@, old(self).equilibration.d@),
        rel_p(final(self).P, old(self).P, final(self).equilibration.d@, old(self).equilibration.d@, final(self).equilibration.c, old(self).equilibration.c),
        rel_q(final(self).q@, old(self).q@, final(self).equilibration.d@, old(self).equilibration.d@, final(self).equilibration.c, old(self).equilibration.c),
        rel_b(final(self).b@, old(self).b@, final(self).equilibration.e@, old(self).equilibration.e@),
//@pre
        broadcast use real_arith;
//@before_loop 1
        let ghost P0 = *P;
        let ghost A0 = *A;
        let ghost nn = d@.len();
        let ghost mm = e@.len();
        let ghost lo = scale_min.v();
        let ghost hi = scale_max.v();
        let ghost q0 = q@; let ghost b0 = b@; let ghost d0 = d@; let ghost e0 = e@; let ghost c0 = equil.c;
//@loop 1
            invariant
                P.same_pattern(&P0), A.same_pattern(&A0), P0.colptr_ok(), A0.colptr_ok(),
                P0.n == nn, A0.n == nn, P0.m == P0.n, A0.m == mm, rows_below(P0, nn as int), rows_below(A0, mm as int),
                q@.len() == nn, b@.len() == mm, d@.len() == nn, dwork@.len() == nn, e@.len() == mm, ework@.len() == mm,
                lo == scale_min.v(), hi == scale_max.v(), 0real < lo <= 1real, 1real <= hi,
                within(d@, lo, hi), within(e@, lo, hi), lo <= equil.c.v() <= hi,
                d0.len() == nn, e0.len() == mm, q0.len() == nn, b0.len() == mm,
                rel_a(*A, A0, e@, e0, d@, d0), rel_p(*P, P0, d@, d0, equil.c, c0), rel_q(q@, q0, d@, d0, equil.c, c0), rel_b(b@, b0, e@, e0),
//@body_start 1
            broadcast use real_arith;
            let ghost A1 = *A; let ghost P1 = *P; let ghost q1 = q@; let ghost b1 = b@; let ghost d1 = d@; let ghost e1 = e@; let ghost c1 = equil.c;
//@before "scale_data(P, A, q, b, Some(dwork), ework);"
            let ghost dw = dwork@; let ghost ew = ework@;
//@after "e.hadamard(ework);" #1
            proof {
                assert forall|k: int, j: int| #[trigger] A0.in_col(k, j) implies
                    A.nzval@[k].v() * (e0[A0.rowval@[k] as int].v() * d0[j].v()) == A0.nzval@[k].v() * (e@[A0.rowval@[k] as int].v() * d@[j].v()) by {
                    let r = A0.rowval@[k] as int;
                    assert(A1.in_col(k, j));
                    lemma_prod2(e1[r].v(), d1[j].v(), ew[r].v(), dw[j].v());
                    lemma_rel3(A1.nzval@[k].v(), A0.nzval@[k].v(), e0[r].v() * d0[j].v(), e1[r].v() * d1[j].v(), ew[r].v() * dw[j].v());
                }
                assert forall|k: int, j: int| #[trigger] P0.in_col(k, j) implies
                    P.nzval@[k].v() * (c0.v() * (d0[P0.rowval@[k] as int].v() * d0[j].v())) == P0.nzval@[k].v() * (c1.v() * (d@[P0.rowval@[k] as int].v() * d@[j].v())) by {
                    let r = P0.rowval@[k] as int;
                    assert(P1.in_col(k, j));
                    lemma_prod2(d1[r].v(), d1[j].v(), dw[r].v(), dw[j].v());
                    let f = dw[r].v() * dw[j].v();
                    lemma_rel3(P1.nzval@[k].v(), P0.nzval@[k].v(), c0.v() * (d0[r].v() * d0[j].v()), c1.v() * (d1[r].v() * d1[j].v()), f);
                    assert((c1.v() * (d1[r].v() * d1[j].v())) * f == c1.v() * ((d1[r].v() * d1[j].v()) * f)) by(nonlinear_arith);
                }
                assert forall|j: int| 0 <= j < q0.len() implies (#[trigger] q@[j]).v() * (c0.v() * d0[j].v()) == q0[j].v() * (c1.v() * d@[j].v()) by {
                    lemma_rel3(q1[j].v(), q0[j].v(), c0.v() * d0[j].v(), c1.v() * d1[j].v(), dw[j].v());
                    assert((c1.v() * d1[j].v()) * dw[j].v() == c1.v() * (d1[j].v() * dw[j].v())) by(nonlinear_arith);
                }
                assert forall|i: int| 0 <= i < b0.len() implies (#[trigger] b@[i]).v() * e0[i].v() == b0[i].v() * e@[i].v() by {
                    lemma_rel3(b1[i].v(), b0[i].v(), e0[i].v(), e1[i].v(), ew[i].v());
                }
            }
            let ghost P2 = *P; let ghost q2 = q@;
//@after "equil.c *= ctmp;"
                proof {
                    let ct = ctmp.v();
                    assert forall|k: int, j: int| #[trigger] P0.in_col(k, j) implies
                        P.nzval@[k].v() * (c0.v() * (d0[P0.rowval@[k] as int].v() * d0[j].v())) == P0.nzval@[k].v() * (equil.c.v() * (d@[P0.rowval@[k] as int].v() * d@[j].v())) by {
                        let r = P0.rowval@[k] as int;
                        lemma_rel3(P2.nzval@[k].v(), P0.nzval@[k].v(), c0.v() * (d0[r].v() * d0[j].v()), c1.v() * (d@[r].v() * d@[j].v()), ct);
                        lemma_prod3(c1.v(), d@[r].v(), d@[j].v(), ct);
                    }
                    assert forall|j: int| 0 <= j < q0.len() implies (#[trigger] q@[j]).v() * (c0.v() * d0[j].v()) == q0[j].v() * (equil.c.v() * d@[j].v()) by {
                        lemma_rel3(q2[j].v(), q0[j].v(), c0.v() * d0[j].v(), c1.v() * d@[j].v(), ct);
                        assert((c1.v() * d@[j].v()) * ct == (c1.v() * ct) * d@[j].v()) by(nonlinear_arith);
                    }
                }
//@loop 2
                invariant r14_n1 == nn, d@.len() == nn, dwork@.len() == nn,
                    lo == scale_min.v(), hi == scale_max.v(), 0real < lo <= 1real, 1real <= hi, within(d@, lo, hi),
                    forall|k: int| 0 <= k < r14_i1 ==> lo <= d@[k].v() * (#[trigger] dwork@[k]).v() <= hi,
//@body_start 2
                broadcast use real_arith;
                let ghost dw0 = dwork@[r14_i1 as int].v();
                let ghost dd = d@[r14_i1 as int].v();
//@body_end 2
                proof {
                    // (inside the body `dwork` / `d` name the current elements: rule R14 bindings)
                    lemma_clip_keeps_bounds(dw0, dd, lo, hi, (*dwork).v());
                    assert(lo <= dd * (*dwork).v() <= hi);
                }
//@loop 3
                invariant r14_n2 == mm, e@.len() == mm, ework@.len() == mm,
                    lo == scale_min.v(), hi == scale_max.v(), 0real < lo <= 1real, 1real <= hi, within(e@, lo, hi),
                    forall|k: int| 0 <= k < r14_i2 ==> lo <= e@[k].v() * (#[trigger] ework@[k]).v() <= hi,
//@body_start 3
                broadcast use real_arith;
                let ghost ew0 = ework@[r14_i2 as int].v();
                let ghost ee = e@[r14_i2 as int].v();
//@body_end 3
                proof {
                    lemma_clip_keeps_bounds(ew0, ee, lo, hi, (*ework).v());
                    assert(lo <= ee * (*ework).v() <= hi);
                }
//@before "if cones.rectify_equilibration(ework, e)"
        let ghost e_before = e@;
        let ghost A3 = *A; let ghost b3 = b@;
//@before "equil.dinv.scalarop_from(F::recip, d);"
            proof {
                assert forall|k: int, j: int| #[trigger] A0.in_col(k, j) implies
                    A.nzval@[k].v() * (e0[A0.rowval@[k] as int].v() * d0[j].v()) == A0.nzval@[k].v() * (e@[A0.rowval@[k] as int].v() * d@[j].v()) by {
                    let r = A0.rowval@[k] as int;
                    lemma_rel3(A3.nzval@[k].v(), A0.nzval@[k].v(), e0[r].v() * d0[j].v(), e_before[r].v() * d@[j].v(), ework@[r].v());
                    assert((e_before[r].v() * d@[j].v()) * ework@[r].v() == (e_before[r].v() * ework@[r].v()) * d@[j].v()) by(nonlinear_arith);
                }
                assert forall|i: int| 0 <= i < b0.len() implies (#[trigger] b@[i]).v() * e0[i].v() == b0[i].v() * e@[i].v() by {
                    lemma_rel3(b3[i].v(), b0[i].v(), e0[i].v(), e_before[i].v(), ework@[i].v());
                }
            }
//@after "if cones.rectify_equilibration(ework, e)"
        proof {
            assert forall|i: int| 0 <= i < e@.len() implies lo <= (#[trigger] e@[i]).v() <= hi by {
                if e@[i] != e_before[i] {
                    assert(rect_ok(e_before, ework@, i));
                    let j1 = choose|j: int| 0 <= j < e_before.len() && (#[trigger] e_before[j]).v() <= e_before[i].v() * ework@[i].v();
                    let j2 = choose|j: int| 0 <= j < e_before.len() && e_before[i].v() * ework@[i].v() <= (#[trigger] e_before[j]).v();
                    assert(lo <= e_before[j1].v() && e_before[j2].v() <= hi);
                }
            }
        }
//@before "let ctmp = F::clip(&ctmp"
                let ghost ct0 = ctmp.v();
                let ghost cc = equil.c.v();
//@after "let ctmp = F::clip(&ctmp"
                proof { lemma_clip_keeps_bounds(ct0, cc, lo, hi, ctmp.v()); }
//@end
}


// ------------------------------------------------------------------ residuals of the homogeneous embedding (residuals.rs), F-real
//@struct file=src/algebra/matrix_types.rs name=Adjoint rules=R12
//@struct file=src/algebra/matrix_types.rs name=Symmetric rules=R12
//@struct file=src/solver/implementations/default/variables.rs name=DefaultVariables rules=R2
//@struct file=src/solver/implementations/default/residuals.rs name=DefaultResiduals rules=R2
// real value of the dot kernel (vm_dot is the float-symbol fold the kernel computes, unit vecmath)
pub open spec fn rdot(a: Seq<F>, b: Seq<F>, k: int) -> real decreases k { if k <= 0 { 0real } else { rdot(a, b, k - 1) + a[k - 1].v() * b[k - 1].v() } }
pub proof fn lemma_fold_dot_real(a: Seq<F>, b: Seq<F>, k: int)
    ensures fold_dot(a, b, k).v() == rdot(a, b, k),
    decreases k,
{
    broadcast use real_arith;
    if k > 0 { lemma_fold_dot_real(a, b, k - 1); }
}
pub proof fn lemma_dot_real(a: Seq<F>, b: Seq<F>)
    requires a.len() == b.len(),
    ensures vm_dot(a, b).v() == rdot(a, b, a.len() as int),
{ reveal(vm_dot); lemma_fold_dot_real(a, b, a.len() as int); }

impl<'a> CscMatrix<F> {
//@fn file=src/algebra/csc/core.rs in="impl<T> CscMatrix<T>" name=t rules=R1 ret=r
//@contract
    ensures r.src == self,
//@end
//@fn file=src/algebra/csc/core.rs in="impl<T> CscMatrix<T>" name=sym rules=R1,drop:debug_assert!( ret=r
//@contract
    ensures r.src == self,
//@end
//@fn file=src/algebra/csc/matrix_math.rs in="MatrixVectorMultiply<T> for CscMatrix<T>" name=gemv rules=R1
//@contract
    requires self.colptr_ok(), x@.len() == self.n, rows_below(*self, old(y)@.len() as int),
    ensures
        final(y)@.len() == old(y)@.len(),
        forall|r: int| 0 <= r < old(y)@.len() ==> (#[trigger] final(y)@[r]).v() == b.v() * old(y)@[r].v() + a.v() * total_n(*self, x@, r, self.n as int),
//@end
}
impl<'a> Adjoint<'a, CscMatrix<F>> {
//@fn file=src/algebra/csc/matrix_math.rs in="MatrixVectorMultiply<T> for Adjoint<'_, CscMatrix<T>>" name=gemv rules=R1
//@contract
    requires self.src.colptr_ok(), x@.len() == self.src.m, rows_below(*self.src, x@.len() as int), old(y)@.len() >= self.src.n,
    ensures
        final(y)@.len() == old(y)@.len(),
        forall|c: int| 0 <= c < self.src.n ==> (#[trigger] final(y)@[c]).v() == b.v() * old(y)@[c].v() + a.v() * col_t(*self.src, x@, c),
        forall|c: int| self.src.n <= c < old(y)@.len() ==> (#[trigger] final(y)@[c]).v() == b.v() * old(y)@[c].v(),
//@end
}
impl<'a> Symmetric<'a, CscMatrix<F>> {
//@fn file=src/algebra/csc/matrix_math.rs in="SymMatrixVectorMultiply<T> for Symmetric<'_, CscMatrix<T>>" name=symv rules=R1
//@contract
    requires self.src.colptr_ok(), self.src.n == self.src.m, x@.len() == self.src.n, old(y)@.len() == self.src.n, rows_below(*self.src, self.src.n as int),
    ensures
        final(y)@.len() == old(y)@.len(),
        forall|r: int| 0 <= r < self.src.n ==> (#[trigger] final(y)@[r]).v() == b.v() * old(y)@[r].v() + a.v() * sv_total(*self.src, x@, r, self.src.n as int),
//@end
}

pub open spec fn resid_dims(r: DefaultResiduals<F>, v: DefaultVariables<F>, d: DefaultProblemData<F>) -> bool {
    let n = d.P.n as int; let m = d.A.m as int;
    &&& d.P.colptr_ok() && d.P.m == d.P.n && rows_below(d.P, n)
    &&& d.A.colptr_ok() && d.A.n == d.P.n && rows_below(d.A, m)
    &&& v.x@.len() == n && v.z@.len() == m && v.s@.len() == m && d.q@.len() == n && d.b@.len() == m
    &&& r.rx@.len() == n && r.rx_inf@.len() == n && r.Px@.len() == n && r.rz@.len() == m && r.rz_inf@.len() == m
}
impl DefaultResiduals<F> {
//@fn file=src/solver/implementations/default/residuals.rs in="Residuals<T> for DefaultResiduals<T>" name=update rules=R1,R2 params=variables,data
//@contract
    requires resid_dims(*old(self), *variables, *data), variables.tau.v() != 0real,
    ensures
        resid_dims(*final(self), *variables, *data),
        // C01 / C02 / C03: the residual vectors and inner products are the documented quantities of the homogeneous
        // embedding, over the dense meaning of the stored P (symmetric from its upper triangle) and A (real arithmetic)
        final(self).dot_qx.v() == rdot(data.q@, variables.x@, data.q@.len() as int),
        final(self).dot_bz.v() == rdot(data.b@, variables.z@, data.b@.len() as int),
        final(self).dot_sz.v() == rdot(variables.s@, variables.z@, variables.s@.len() as int),
        final(self).dot_xPx.v() == rdot(variables.x@, final(self).Px@, variables.x@.len() as int),
        forall|i: int| 0 <= i < data.P.n ==> {
            &&& (#[trigger] final(self).Px@[i]).v() == sv_total(data.P, variables.x@, i, data.P.n as int)                 // Px = sym(P) x
            &&& final(self).rx_inf@[i].v() == -col_t(data.A, variables.z@, i)                                              // rx_inf = -A'z
            &&& final(self).rx@[i].v() == final(self).rx_inf@[i].v() - final(self).Px@[i].v() - variables.tau.v() * data.q@[i].v()  // rx = -A'z - Px - q tau
        },
        forall|r: int| 0 <= r < data.A.m ==> {
            &&& (#[trigger] final(self).rz_inf@[r]).v() == variables.s@[r].v() + total_n(data.A, variables.x@, r, data.A.n as int)   // rz_inf = Ax + s
            &&& final(self).rz@[r].v() == final(self).rz_inf@[r].v() - variables.tau.v() * data.b@[r].v()                  // rz = Ax + s - b tau
        },
        // r_tau = q'x + b'z + kappa + x'Px / tau
        final(self).rtau.v() == final(self).dot_qx.v() + final(self).dot_bz.v() + variables.kappa.v() + final(self).dot_xPx.v() / variables.tau.v(),
//@pre
        broadcast use real_arith;
        proof {
            lemma_dot_real(data.q@, variables.x@); lemma_dot_real(data.b@, variables.z@); lemma_dot_real(variables.s@, variables.z@);
        }
//@before "symP.symv("
        let ghost n = data.P.n as int;
        let ghost m = data.A.m as int;
        let ghost px0 = self.Px@;
//@after "symP.symv("
        proof {
            assert forall|i: int| 0 <= i < n implies (#[trigger] self.Px@[i]).v() == sv_total(data.P, variables.x@, i, n) by {
                let t = sv_total(data.P, variables.x@, i, n); let o = px0[i].v();
                assert(0real * o + 1real * t == t) by(nonlinear_arith);
            }
        }
//@after "let xPx = variables.x.dot(&self.Px);"
        proof { lemma_dot_real(variables.x@, self.Px@); }
        let ghost rxi0 = self.rx_inf@;
//@after "At.gemv("
        proof {
            assert forall|i: int| 0 <= i < n implies (#[trigger] self.rx_inf@[i]).v() == -col_t(data.A, variables.z@, i) by {
                let t = col_t(data.A, variables.z@, i); let o = rxi0[i].v();
                assert(0real * o + (-1real) * t == -t) by(nonlinear_arith);
            }
        }
//@after "A.gemv("
        proof {
            assert forall|r: int| 0 <= r < m implies (#[trigger] self.rz_inf@[r]).v() == variables.s@[r].v() + total_n(data.A, variables.x@, r, data.A.n as int) by {
                let t = total_n(data.A, variables.x@, r, data.A.n as int); let o = variables.s@[r].v();
                assert(1real * o + 1real * t == o + t) by(nonlinear_arith);
            }
        }
//@after "self.rx.waxpby("
        let ghost rx1 = self.rx@;
        proof {
            assert forall|i: int| 0 <= i < n implies (#[trigger] rx1[i]).v() == -self.Px@[i].v() - variables.tau.v() * data.q@[i].v() by {
                let a = self.Px@[i].v(); let t = variables.tau.v(); let q = data.q@[i].v();
                assert((-1real) * a + (-t) * q == -a - t * q) by(nonlinear_arith);
            }
        }
//@after "self.rx.axpby("
        proof {
            assert forall|i: int| 0 <= i < n implies (#[trigger] self.rx@[i]).v() == self.rx_inf@[i].v() - self.Px@[i].v() - variables.tau.v() * data.q@[i].v() by {
                let a = self.rx_inf@[i].v(); let c = rx1[i].v();
                assert(1real * a + 1real * c == a + c) by(nonlinear_arith);
            }
        }
//@before "self.rtau = qx"
        proof {
            assert forall|r: int| 0 <= r < m implies (#[trigger] self.rz@[r]).v() == self.rz_inf@[r].v() - variables.tau.v() * data.b@[r].v() by {
                let a = self.rz_inf@[r].v(); let t = variables.tau.v(); let c = data.b@[r].v();
                assert(1real * a + (-t) * c == a - t * c) by(nonlinear_arith);
            }
        }
//@end
}
} // verus!
fn main() {}
