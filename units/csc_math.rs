// unit `csc_math` : diagonal scalings of CSC matrices, scale_data, clip (C10, C16)
// float model: F-opaque (entry-wise products are stated in the float symbols: exact, no arithmetic assumption)
use vstd::prelude::*;
verus! {
//@include prelude/float_opaque.rs
//@include prelude/vecmath_assumed.rs
//@include prelude/std_assumed.rs
//@include units/inc/csc_scalings.rs

// ------------------------------------------------------------------ scalar clip (scalarmath.rs)
pub trait ScalarMath { fn clip(&self, min_thresh: Self, max_thresh: Self) -> Self where Self: Sized; }
impl ScalarMath for F {
//@fn file=src/algebra/scalarmath.rs in="ScalarMath for T" name=clip rules=tparam:Self>F ret=r
//@contract
    ensures
        // the result is the argument or one of the bounds ...
        r == *self || r == min_thresh || r == max_thresh,
        // ... chosen by the two comparisons, in this order (NaN compares false => passes through)
        f_lt(*self, min_thresh) ==> r == min_thresh,
        !f_lt(*self, min_thresh) && f_lt(max_thresh, *self) ==> r == max_thresh,
        !f_lt(*self, min_thresh) && !f_lt(max_thresh, *self) ==> r == *self,
//@end
}

// ------------------------------------------------------------------ scale_data (problemdata.rs)
pub open spec fn rows_below(a: CscMatrix<F>, bound: int) -> bool {
    forall|k: int| 0 <= k < a.rowval@.len() ==> a.rowval@[k] < bound
}
//@fn file=src/solver/implementations/default/problemdata.rs name=scale_data rules=R1
//@contract
    requires
        old(P).colptr_ok(), old(A).colptr_ok(), rows_below(*old(A), e@.len() as int),
        d matches Some(dv) ==> dv@.len() == old(P).n && dv@.len() == old(A).n && rows_below(*old(P), dv@.len() as int),
    ensures
        final(P).same_pattern(old(P)), final(A).same_pattern(old(A)),
        final(q)@.len() == old(q)@.len(), final(b)@.len() == old(b)@.len(),
        // C10: b <- E b
        forall|i: int| 0 <= i < old(b)@.len() ==> #[trigger] final(b)@[i] == (if i < e@.len() { f_mul(old(b)@[i], e@[i]) } else { old(b)@[i] }),
        d matches Some(dv) ==> {
            // C10: P <- D P D,  A <- E A D,  q <- D q   (entry for entry)
            &&& forall|k: int, j: int| #[trigger] old(P).in_col(k, j) ==>
                    final(P).nzval@[k] == f_mul(old(P).nzval@[k], f_mul(dv@[old(P).rowval@[k] as int], dv@[j]))
            &&& forall|k: int, j: int| #[trigger] old(A).in_col(k, j) ==>
                    final(A).nzval@[k] == f_mul(old(A).nzval@[k], f_mul(e@[old(A).rowval@[k] as int], dv@[j]))
            &&& forall|i: int| 0 <= i < old(q)@.len() ==> #[trigger] final(q)@[i] == (if i < dv@.len() { f_mul(old(q)@[i], dv@[i]) } else { old(q)@[i] })
        },
        d is None ==> {
            // rectification pass: A <- E A only; P and q untouched
            &&& final(P).nzval@ == old(P).nzval@ && final(q)@ == old(q)@
            &&& forall|k: int| 0 <= k < old(A).nzval@.len() ==> #[trigger] final(A).nzval@[k] == f_mul(old(A).nzval@[k], e@[old(A).rowval@[k] as int])
        },
//@end

// ------------------------------------------------------------------ Ruiz equilibration (problemdata.rs)
//@struct file=src/solver/implementations/default/equilibration.rs name=DefaultEquilibrationData
//@struct file=src/solver/implementations/default/settings.rs name=DefaultSettings rules=R1f
//@struct file=src/solver/implementations/default/problemdata.rs name=DefaultProblemData keep=P,q,A,b,n,m,equilibration
// stand-in for CompositeCone (enum_dispatch over the cone types); rectify_equilibration: ASSUMED to keep lengths
pub struct CompositeCone<T> { pub _p: Option<T> }
impl CompositeCone<F> {
    #[verifier::external_body]
    pub fn rectify_equilibration(&self, delta: &mut [F], e: &[F]) -> (r: bool)
        ensures final(delta)@.len() == old(delta)@.len(),
    { unimplemented!() }
}
// norm kernels of MatrixMath (fold / closure based): ASSUMED to write only the output vector
impl CscMatrix<F> {
    #[verifier::external_body] pub fn col_norms(&self, norms: &mut [F]) ensures final(norms)@.len() == old(norms)@.len() { unimplemented!() }
    #[verifier::external_body] pub fn col_norms_sym(&self, norms: &mut [F]) ensures final(norms)@.len() == old(norms)@.len() { unimplemented!() }
    #[verifier::external_body] pub fn col_norms_no_reset(&self, norms: &mut [F]) ensures final(norms)@.len() == old(norms)@.len() { unimplemented!() }
    #[verifier::external_body] pub fn row_norms(&self, norms: &mut [F]) ensures final(norms)@.len() == old(norms)@.len() { unimplemented!() }
}
//@fn file=src/solver/implementations/default/problemdata.rs name=kkt_col_norms rules=R1
//@contract
    ensures final(norm_LHS)@.len() == old(norm_LHS)@.len(), final(norm_RHS)@.len() == old(norm_RHS)@.len(),
//@end

impl DefaultProblemData<F> {
    // dimensions as established by DefaultProblemData::new: P is n x n, A is m x n, q: n, b: m, scalings d: n, e: m
    pub open spec fn shape_ok(&self) -> bool {
        let eq = self.equilibration;
        &&& self.P.colptr_ok() && self.A.colptr_ok()
        &&& self.P.n == eq.d@.len() && self.A.n == eq.d@.len()
        &&& rows_below(self.P, eq.d@.len() as int) && rows_below(self.A, eq.e@.len() as int)
        &&& self.q@.len() == eq.d@.len() && self.b@.len() == eq.e@.len()
        &&& eq.dinv@.len() == eq.d@.len() && eq.einv@.len() == eq.e@.len()
    }
//@fn file=src/solver/implementations/default/problemdata.rs in="ProblemData<T> for DefaultProblemData<T>" name=equilibrate rules=R1,zipidx:*
//@contract
    requires old(self).shape_ok(),
    ensures
        // C10: "With equilibration disabled the data are untouched"
        !settings.equilibrate_enable ==> *final(self) == *old(self),
        // the sparsity patterns and all lengths are never changed
        final(self).shape_ok(), final(self).P.same_pattern(&old(self).P), final(self).A.same_pattern(&old(self).A),
        final(self).n == old(self).n, final(self).m == old(self).m,
//@before_loop 1
        let ghost P0 = *P;
        let ghost A0 = *A;
        let ghost nn = d@.len();
        let ghost mm = e@.len();
//@loop 1
            invariant
                P.same_pattern(&P0), A.same_pattern(&A0), P0.colptr_ok(), A0.colptr_ok(),
                P0.n == nn, A0.n == nn, rows_below(P0, nn as int), rows_below(A0, mm as int),
                q@.len() == nn, b@.len() == mm, d@.len() == nn, dwork@.len() == nn, e@.len() == mm, ework@.len() == mm,
//@loop 2
                invariant r14_n1 == nn, d@.len() == nn, dwork@.len() == nn,
//@loop 3
                invariant r14_n2 == mm, e@.len() == mm, ework@.len() == mm,
//@end
}

} // verus!
fn main() {}
