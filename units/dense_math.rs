#![feature(allocator_api)]
#![allow(non_snake_case)]
// unit `dense_math` : the dense column-major matrix type, its views and its arithmetic (C18: scaled vectorisation of PSD blocks, dual completion)
// (`#![feature(allocator_api)]` only so that the std impls `AsRef<[T]> / AsMut<[T]> for Vec<T, A>` can be named in an assume_specification.)
//
// PROVED (real text, unbounded; panic-freedom = every index / overflow / assert! obligation, plus the clause given):
//   algebra/dense/types.rs (storage instantiated at S = Vec<T>, i.e. `Matrix<T>`): index_linear (r + m*c, inside `data`), data, data_mut,
//     Index::index and IndexMut::index_mut (entry (r, c); index_mut: exactly that entry can change - the injectivity of (r, c) -> r + m*c is
//     proved once here, every client reasons entry-wise), col_slice / col_slice_mut (column c = data[m*c .. m*c + m], the other columns
//     untouched), size; the default methods nrows / ncols / is_square of trait ShapedMatrix (matrix_traits.rs);
//     the views Adjoint (entry (r, c) = source (c, r)) and Symmetric (entry (r, c) = source (min, max): the lower triangle is never read):
//     size, index_linear, data, index, checked against the same `DenseMatrix` contract as the matrix itself
//   algebra/dense/core.rs: Matrix::new, Matrix::zeros
//   algebra/dense/matrix_math.rs:
//     svec_to_mat  packed entry tri(col) + row (row <= col) lands in (row, col) AND (col, row), times FRAC_1_SQRT_2 off the diagonal, unscaled
//                  on it; a square matrix is overwritten completely (sv_val)
//     mat_to_svec  (generic over the DenseMatrix trait: Matrix, Adjoint, Symmetric) x[tri(col) + row] = M[col, col] resp.
//                  (M[row, col] + M[col, row]) * FRAC_1_SQRT_2; nothing beyond tri(n) is written (ms_val)
//     lemma_mat_svec_mat / lemma_svec_mat_svec  (F-real) the two round trips are the identity on symmetric matrices resp. on vectors, under the
//                  explicit HYPOTHESIS 2 * FRAC_1_SQRT_2^2 == 1 (not an axiom of the prelude)
//     symmetric_part  both off-diagonal positions get 0.5 * (lower + upper), diagonal untouched, returns self
//     col_sums, row_sums (sums as the left folds the code performs), col_norms(_no_reset) (max(old, norm_inf of the column)),
//     row_norms(_no_reset) (running max of |entry| along the row), col_norms_sym(_no_reset) (see D1), quad_form (F-real: y' sym(M) x over the
//     upper triangle, the lower one is never read), scale, negate, lscale, rscale, lrscale (entry for entry, incl. the zip semantics of
//     hadamard / enumerate: rows resp. columns beyond the scaling vector are left alone)
//   solver/chordal/decomp/psd_completion.rs: complete (z -> Z0 = svec_to_mat(z) -> Z1 = psd_complete(Z0) -> z = mat_to_svec(Z1); entries of z beyond
//     the packed triangle untouched)
// ASSUMED (hand-written, not verified here):
//   `AsRef<[T]>::as_ref` / `AsMut<[T]>::as_mut` of Vec are the identity views (std); the borrowed storages `&[T]` / `&mut [T]` of
//     BorrowedMatrix(Mut) are NOT instantiated (the generic code touches the storage only through these two calls);
//   trait `DenseMatrix<T>` is a stand-in for `DenseMatrix<T>: ShapedMatrix + Index<(usize, usize), Output = T>` (Verus does not model user Index
//     impls): `index` is a method of the stand-in, with the contract `*r == at(idx)` for idx inside the shape; rule `tupidx` writes `M[(r, c)]`
//     as `*M.index((r, c))` / `*M.index_mut((r, c))` (the definition of the operator), rule `selfout` writes `Self::Output` as `F`;
//   VectorMath kernels sum / norm_inf / scale / negate / hadamard (prelude/vecmath_assumed.rs, proved in unit vecmath), `<[T]>::fill` (std_assumed);
//   psd_complete: keeps the shape; its effect is the uninterpreted relation `psd_completed` (Cholesky / SVD / gemm are outside the verifier);
//   F-real axioms (prelude/float_real_axioms.rs) in quad_form and the two round-trip lemmas only.
// PRECONDITIONS and the call sites:
//   svec_to_mat / mat_to_svec `square, x.len() >= triangular_number(n)`: psdtrianglecone.rs and psd_completion::complete pass n x n work
//     matrices and vectors of length triangular_number(n) (by inspection); mat_to_svec(x, &X.sym()) relies on the Symmetric view proved above;
//   col_sums / row_sums length equalities, quad_form / symmetric_part squareness: the functions assert them themselves (documented panics);
//   col_norms*: `norms.len() <= ncols` is needed (col_slice asserts col < ncols): the dense variants have no caller in the solver (the
//     equilibration works on CscMatrix); rscale `r.len() <= ncols`, lrscale `l.len() >= nrows, r.len() >= ncols`: psdtrianglecone.rs passes
//     vectors of length n for n x n matrices (by inspection).
// DEFECT CANDIDATE D1: `col_norms_sym_no_reset` feeds the raw entry, not its absolute value, into the running max (`T::max(norms[r], tmp)` with
//   `tmp = self[(r, c)]`; the CSC twin uses `T::abs`).  For M = [-5] the "symmetric column infinity norm" comes out as max(0, -5) = 0 instead of 5.
//   The contract below (dsymstep) states what the code computes; with f_abs in it the obligation fails.  No caller in the solver (dead code today).
// DROPPED: subsref / subsasgn (generic `IntoIterator<Item = &usize> + Copy` arguments with enumerate), set_identity, is_triu, resize, pack_triu,
//   copy_from_slice, `From<I> for Matrix` (map / collect), Display; psd_completion (outer loop: collect of an iterator of ranges, sub-slice of
//   variables.z) and psd_complete (LAPACK engines, filter / collect closure); kron.rs, block_concatenate.rs, blas/*.
use vstd::prelude::*;
verus! {
global size_of usize == 8;
//@include prelude/float_opaque.rs
//@include prelude/float_real_axioms.rs
//@include prelude/vecmath_assumed.rs
//@include prelude/std_assumed.rs

// ASSUMED std: a Vec viewed through AsRef<[T]> / AsMut<[T]> is its own slice
pub assume_specification<T, A: core::alloc::Allocator> [<Vec<T, A> as AsRef<[T]>>::as_ref] (v: &Vec<T, A>) -> (r: &[T]) ensures r@ == v@;
pub assume_specification<T, A: core::alloc::Allocator> [<Vec<T, A> as AsMut<[T]>>::as_mut] (v: &mut Vec<T, A>) -> (r: &mut [T]) ensures r@ == old(v)@, final(v)@ == final(r)@;

//@struct file=src/algebra/dense/types.rs name=DenseStorageMatrix

//@trait file=src/algebra/matrix_traits.rs name=ShapedMatrix header="pub trait ShapedMatrix" keep=size,nrows,ncols,is_square
//@extra
    spec fn sz(&self) -> (usize, usize);
//@sig size
ret=r
    ensures r == self.sz()
//@sig nrows
ret=r
    ensures r == self.sz().0
//@sig ncols
ret=r
    ensures r == self.sz().1
//@sig is_square
ret=r
    ensures r == (self.sz().0 == self.sz().1)
//@end

// stand-in for `trait DenseMatrix<T>: ShapedMatrix + Index<(usize, usize), Output = T>`
pub trait DenseMatrix<T>: ShapedMatrix {
    spec fn dm_wf(&self) -> bool;
    spec fn at(&self, r: int, c: int) -> T;
    fn index(&self, idx: (usize, usize)) -> (r: &T)
        requires self.dm_wf(), idx.0 < self.sz().0, idx.1 < self.sz().1,
        ensures *r == self.at(idx.0 as int, idx.1 as int);
}

pub proof fn lemma_lin(m: int, n: int, r: int, c: int)
    requires 0 <= r < m, 0 <= c < n,
    ensures 0 <= m * c, m * c + m <= m * n, 0 <= r + m * c < m * n,
{
    assert(m * c + m <= m * n) by(nonlinear_arith) requires c + 1 <= n, m >= 0;
    assert(m * c >= 0) by(nonlinear_arith) requires c >= 0, m >= 0;
}
pub proof fn lemma_colb(m: int, n: int, c: int)
    requires 0 <= m, 0 <= c < n,
    ensures 0 <= m * c, c * m == m * c, (c + 1) * m == m * c + m, m * c + m <= m * n,
{
    assert(m * c + m <= m * n) by(nonlinear_arith) requires c + 1 <= n, m >= 0;
    assert(m * c >= 0) by(nonlinear_arith) requires c >= 0, m >= 0;
    assert(c * m == m * c) by(nonlinear_arith);
    assert((c + 1) * m == m * c + m) by(nonlinear_arith);
}
pub proof fn lemma_lin_sep(m: int, a: int, b: int, c: int)
    requires 0 <= a < m, 0 <= b, 0 <= c, b != c,
    ensures a + m * b < m * c || a + m * b >= m * c + m,
{
    if b < c { assert(m * c >= m * b + m) by(nonlinear_arith) requires c >= b + 1, m >= 0; }
    if c < b { assert(m * b >= m * c + m) by(nonlinear_arith) requires b >= c + 1, m >= 0; }
}
pub proof fn lemma_lin_inj(m: int, r1: int, c1: int, r2: int, c2: int)
    requires 0 <= r1 < m, 0 <= r2 < m, 0 <= c1, 0 <= c2, r1 + m * c1 == r2 + m * c2,
    ensures r1 == r2, c1 == c2,
{
    if c1 < c2 { assert(m * c2 >= m * c1 + m) by(nonlinear_arith) requires c2 >= c1 + 1, m >= 0; }
    if c2 < c1 { assert(m * c1 >= m * c2 + m) by(nonlinear_arith) requires c1 >= c2 + 1, m >= 0; }
}

pub type MatrixF = DenseStorageMatrix<Vec<F>, F>;
impl DenseStorageMatrix<Vec<F>, F> {
    pub open spec fn wf(&self) -> bool { self.size.0 * self.size.1 == self.data@.len() }
    pub open spec fn e(&self, r: int, c: int) -> F { self.data@[r + self.size.0 * c] }
    pub open spec fn inb(&self, r: int, c: int) -> bool { 0 <= r < self.size.0 && 0 <= c < self.size.1 }
    // column c as a sequence
    pub open spec fn colseq(&self, c: int) -> Seq<F> { Seq::new(self.size.0 as nat, |i: int| self.e(i, c)) }
//@fn file=src/algebra/dense/types.rs in="DenseMatrix<T> for DenseStorageMatrix<S, T>" name=index_linear rules=R1 ret=r
//@contract
    requires self.wf(), idx.0 < self.size.0, idx.1 < self.size.1,
    ensures r == idx.0 + self.size.0 * idx.1, r < self.data@.len(),
//@pre
    proof { lemma_lin(self.size.0 as int, self.size.1 as int, idx.0 as int, idx.1 as int); assert(self.data@.len() == self.data.len()); }
//@end
//@fn file=src/algebra/dense/types.rs in="DenseMatrix<T> for DenseStorageMatrix<S, T>" name=data rules=R1 ret=r
//@contract
    ensures r@ == self.data@,
//@end
//@fn file=src/algebra/dense/types.rs in="DenseMatrixMut<T> for DenseStorageMatrix<S, T>" name=data_mut rules=R1 ret=r
//@contract
    ensures r@ == old(self).data@, final(self).data@ == final(r)@, final(self).size == old(self).size,
//@end
//@fn file=src/algebra/dense/types.rs in="IndexMut<(usize, usize)> for DenseStorageMatrix<S, T>" name=index_mut rules=R1,selfout ret=r
//@contract
    requires old(self).wf(), idx.0 < old(self).size.0, idx.1 < old(self).size.1,
    ensures *r == old(self).e(idx.0 as int, idx.1 as int),
        final(self).size == old(self).size, final(self).wf(),
        final(self).e(idx.0 as int, idx.1 as int) == *final(r),
        forall|a: int, b: int| old(self).inb(a, b) && !(a == idx.0 && b == idx.1) ==> #[trigger] final(self).e(a, b) == old(self).e(a, b),
//@pre
    proof {
        let m = self.size.0 as int;
        assert forall|a: int, b: int| self.inb(a, b) implies 0 <= a + m * b < self.data@.len() && (!(a == idx.0 && b == idx.1) ==> a + m * b != idx.0 + m * idx.1) by {
            lemma_lin(m, self.size.1 as int, a, b);
            if a + m * b == idx.0 + m * idx.1 { lemma_lin_inj(m, a, b, idx.0 as int, idx.1 as int); }
        }
    }
//@end
//@fn file=src/algebra/dense/types.rs in="impl<S, T> DenseStorageMatrix<S, T>" name=col_slice rules=R1 ret=r
//@contract
    requires self.wf(), col < self.size.1,
    ensures r@.len() == self.size.0, forall|i: int| 0 <= i < self.size.0 ==> #[trigger] r@[i] == self.e(i, col as int), r@ == self.colseq(col as int),
//@pre
    proof { lemma_colb(self.size.0 as int, self.size.1 as int, col as int); assert(self.data@.len() == self.data.len()); }
//@end
//@fn file=src/algebra/dense/types.rs in="impl<S, T> DenseStorageMatrix<S, T>" name=col_slice_mut rules=R1 ret=r
//@contract
    requires old(self).wf(), col < old(self).size.1,
    ensures r@.len() == old(self).size.0, forall|i: int| 0 <= i < old(self).size.0 ==> #[trigger] r@[i] == old(self).e(i, col as int),
        final(self).size == old(self).size, final(self).wf(),
        final(r)@.len() == r@.len() ==> forall|i: int| 0 <= i < old(self).size.0 ==> #[trigger] final(self).e(i, col as int) == final(r)@[i],
        forall|a: int, b: int| old(self).inb(a, b) && b != col ==> #[trigger] final(self).e(a, b) == old(self).e(a, b),
//@pre
    proof {
        let m0 = self.size.0 as int;
        lemma_colb(m0, self.size.1 as int, col as int); assert(self.data@.len() == self.data.len());
        assert forall|a: int, b: int| self.inb(a, b) && b != col implies 0 <= a + m0 * b < self.data@.len() && (a + m0 * b < m0 * col || a + m0 * b >= m0 * col + m0) by {
            lemma_lin(m0, self.size.1 as int, a, b); lemma_lin_sep(m0, a, b, col as int);
        }
    }
//@end
}
impl ShapedMatrix for DenseStorageMatrix<Vec<F>, F> {
    open spec fn sz(&self) -> (usize, usize) { self.size }
//@fn file=src/algebra/dense/types.rs in="ShapedMatrix for DenseStorageMatrix<S, T>" name=size
//@end
}
impl DenseMatrix<F> for DenseStorageMatrix<Vec<F>, F> {
    open spec fn dm_wf(&self) -> bool { self.wf() }
    open spec fn at(&self, r: int, c: int) -> F { self.e(r, c) }
//@fn file=src/algebra/dense/types.rs in="Index<(usize, usize)> for DenseStorageMatrix<S, T>" name=index rules=R1
//@end
}

// ------------------------------------------------------------------ sums and norms (impl MatrixMath<T> for Matrix<T>), float symbols
// sum of row r over the columns 0..k, in column order
pub open spec fn drowsum(M: MatrixF, r: int, k: int) -> F decreases k { if k <= 0 { f_zero() } else { f_add(drowsum(M, r, k - 1), M.e(r, k - 1)) } }
impl DenseStorageMatrix<Vec<F>, F> {
//@fn file=src/algebra/dense/matrix_math.rs in="MatrixMath<T> for Matrix<T>" name=col_sums rules=R1,R6,R3,zipidx:1=m
//@contract
    requires self.wf(),
        // assert_eq!(self.ncols(), sums.len()): documented panic otherwise
        old(sums)@.len() == self.size.1,
    ensures final(sums)@.len() == old(sums)@.len(),
        // sums[c] = sum of column c, top to bottom
        forall|c: int| 0 <= c < self.size.1 ==> #[trigger] final(sums)@[c] == fold_sum(self.colseq(c), self.size.0 as int),
//@loop 1
        invariant
            self.wf(), col_ctr == r14_i1, r14_n1 == self.size.1, sums@.len() == self.size.1,
            forall|c: int| 0 <= c < r14_i1 ==> #[trigger] sums@[c] == fold_sum(self.colseq(c), self.size.0 as int),
//@end
//@fn file=src/algebra/dense/matrix_math.rs in="MatrixMath<T> for Matrix<T>" name=row_sums rules=R1,R6,R3,R5
//@contract
    requires self.wf(),
        // assert_eq!(self.nrows(), sums.len()): documented panic otherwise
        old(sums)@.len() == self.size.0,
    ensures final(sums)@.len() == old(sums)@.len(),
        // sums[r] = sum of row r, left to right
        forall|r: int| 0 <= r < self.size.0 ==> #[trigger] final(sums)@[r] == drowsum(*self, r, self.size.1 as int),
//@loop 1
        invariant
            self.wf(), sums@.len() == self.size.0,
            forall|r: int| 0 <= r < self.size.0 ==> #[trigger] sums@[r] == drowsum(*self, r, $var1 as int),
//@iter 2
it2
//@loop 2
            invariant
                self.wf(), sums@.len() == self.size.0, $var1 < self.size.1, row_ctr == it2.index@,
                it2.seq().len() == self.size.0, forall|i: int| 0 <= i < self.size.0 ==> *(#[trigger] it2.seq()[i]) == self.e(i, $var1 as int),
                forall|r: int| 0 <= r < it2.index@ ==> #[trigger] sums@[r] == drowsum(*self, r, $var1 + 1),
                forall|r: int| it2.index@ <= r < self.size.0 ==> #[trigger] sums@[r] == drowsum(*self, r, $var1 as int),
//@end
}

// running max of |entry| along row r over the columns 0..k, starting from `init`
pub open spec fn drowmax(M: MatrixF, r: int, k: int, init: F) -> F decreases k { if k <= 0 { init } else { f_max(drowmax(M, r, k - 1, init), f_abs(M.e(r, k - 1))) } }
// "symmetric column norms" as the code computes them from the upper triangle: entry (r, c), r <= c, feeds norms[r] and then norms[c]
// (twice the same cell on the diagonal).  NOTE: the entry itself is fed, NOT its absolute value - see the header (defect candidate D1)
pub open spec fn dsymstep(x: F, t: F, r: int, c: int, k: int) -> F { let x1 = if r == k { f_max(x, t) } else { x }; if c == k { f_max(x1, t) } else { x1 } }
pub open spec fn dsymcol(M: MatrixF, k: int, c: int, hi: int, x: F) -> F decreases hi { if hi <= 0 { x } else { dsymstep(dsymcol(M, k, c, hi - 1, x), M.e(hi - 1, c), hi - 1, c, k) } }
pub open spec fn dsymall(M: MatrixF, k: int, c: int, x: F) -> F decreases c { if c <= 0 { x } else { dsymcol(M, k, c - 1, c, dsymall(M, k, c - 1, x)) } }
impl DenseStorageMatrix<Vec<F>, F> {
//@fn file=src/algebra/dense/matrix_math.rs in="MatrixMath<T> for Matrix<T>" name=col_norms_no_reset rules=R1,R3,zipidx:1=m
//@contract
    requires self.wf(),
        // col_slice asserts col < ncols: a longer `norms` panics
        old(norms)@.len() <= self.size.1,
    ensures final(norms)@.len() == old(norms)@.len(),
        // norms[c] <- max(norms[c], ||column c||_inf)
        forall|c: int| 0 <= c < old(norms)@.len() ==> #[trigger] final(norms)@[c] == f_max(old(norms)@[c], vm_norm_inf(self.colseq(c))),
//@loop 1
        invariant
            self.wf(), i_ctr == r14_i1, r14_n1 == norms@.len(), norms@.len() == old(norms)@.len(), norms@.len() <= self.size.1,
            forall|c: int| 0 <= c < r14_i1 ==> #[trigger] norms@[c] == f_max(old(norms)@[c], vm_norm_inf(self.colseq(c))),
            forall|c: int| r14_i1 <= c < norms@.len() ==> #[trigger] norms@[c] == old(norms)@[c],
//@end
//@fn file=src/algebra/dense/matrix_math.rs in="MatrixMath<T> for Matrix<T>" name=col_norms rules=R1
//@contract
    requires self.wf(), old(norms)@.len() <= self.size.1,
    ensures final(norms)@.len() == old(norms)@.len(),
        forall|c: int| 0 <= c < old(norms)@.len() ==> #[trigger] final(norms)@[c] == f_max(f_zero(), vm_norm_inf(self.colseq(c))),
//@end
//@fn file=src/algebra/dense/matrix_math.rs in="MatrixMath<T> for Matrix<T>" name=row_norms_no_reset rules=R1,tupidx
//@contract
    requires self.wf(), old(norms)@.len() >= self.size.0,
    ensures final(norms)@.len() == old(norms)@.len(),
        // norms[r] <- max(norms[r], max |entry| of row r), entries taken left to right; nothing else changes
        forall|r: int| 0 <= r < self.size.0 ==> #[trigger] final(norms)@[r] == drowmax(*self, r, self.size.1 as int, old(norms)@[r]),
        forall|r: int| self.size.0 <= r < old(norms)@.len() ==> #[trigger] final(norms)@[r] == old(norms)@[r],
//@loop 1
        invariant
            self.wf(), norms@.len() == old(norms)@.len(), norms@.len() >= self.size.0,
            forall|q: int| 0 <= q < $var1 ==> #[trigger] norms@[q] == drowmax(*self, q, self.size.1 as int, old(norms)@[q]),
            forall|q: int| $var1 <= q < norms@.len() ==> #[trigger] norms@[q] == old(norms)@[q],
//@loop 2
            invariant
                self.wf(), norms@.len() == old(norms)@.len(), norms@.len() >= self.size.0, $var1 < self.size.0,
                forall|q: int| 0 <= q < $var1 ==> #[trigger] norms@[q] == drowmax(*self, q, self.size.1 as int, old(norms)@[q]),
                forall|q: int| $var1 < q < norms@.len() ==> #[trigger] norms@[q] == old(norms)@[q],
                norms@[$var1 as int] == drowmax(*self, $var1 as int, $var2 as int, old(norms)@[$var1 as int]),
//@end
//@fn file=src/algebra/dense/matrix_math.rs in="MatrixMath<T> for Matrix<T>" name=row_norms rules=R1
//@contract
    requires self.wf(), old(norms)@.len() >= self.size.0,
    ensures final(norms)@.len() == old(norms)@.len(),
        forall|r: int| 0 <= r < self.size.0 ==> #[trigger] final(norms)@[r] == drowmax(*self, r, self.size.1 as int, f_zero()),
        forall|r: int| self.size.0 <= r < old(norms)@.len() ==> #[trigger] final(norms)@[r] == f_zero(),
//@end
//@fn file=src/algebra/dense/matrix_math.rs in="MatrixMath<T> for Matrix<T>" name=col_norms_sym_no_reset rules=R1,tupidx,R20
//@contract
    requires self.wf(),
        // the loop reads (r, c) for r <= c < ncols and writes norms[c]: needs nrows >= ncols (a symmetric matrix is square) and ncols slots
        self.size.0 >= self.size.1, old(norms)@.len() >= self.size.1,
    ensures final(norms)@.len() == old(norms)@.len(),
        forall|k: int| 0 <= k < self.size.1 ==> #[trigger] final(norms)@[k] == dsymall(*self, k, self.size.1 as int, old(norms)@[k]),
        forall|k: int| self.size.1 <= k < old(norms)@.len() ==> #[trigger] final(norms)@[k] == old(norms)@[k],
//@loop 1
        invariant
            self.wf(), self.size.0 >= self.size.1, norms@.len() == old(norms)@.len(), norms@.len() >= self.size.1,
            forall|k: int| 0 <= k < self.size.1 ==> #[trigger] norms@[k] == dsymall(*self, k, $var1 as int, old(norms)@[k]),
            forall|k: int| self.size.1 <= k < norms@.len() ==> #[trigger] norms@[k] == old(norms)@[k],
//@loop 2
            invariant
                self.wf(), self.size.0 >= self.size.1, norms@.len() == old(norms)@.len(), norms@.len() >= self.size.1, $var1 < self.size.1,
                forall|k: int| 0 <= k < self.size.1 ==> #[trigger] norms@[k] == dsymcol(*self, k, $var1 as int, $var2 as int, dsymall(*self, k, $var1 as int, old(norms)@[k])),
                forall|k: int| self.size.1 <= k < norms@.len() ==> #[trigger] norms@[k] == old(norms)@[k],
//@body_start 2
                let ghost nm1 = norms@;
//@body_end 2
                proof {
                    assert forall|k: int| 0 <= k < self.size.1 implies #[trigger] norms@[k] == dsymcol(*self, k, $var1 as int, $var2 + 1, dsymall(*self, k, $var1 as int, old(norms)@[k])) by {
                        assert(nm1[k] == dsymcol(*self, k, $var1 as int, $var2 as int, dsymall(*self, k, $var1 as int, old(norms)@[k])));
                    }
                }
//@end
//@fn file=src/algebra/dense/matrix_math.rs in="MatrixMath<T> for Matrix<T>" name=col_norms_sym rules=R1
//@contract
    requires self.wf(), self.size.0 >= self.size.1, old(norms)@.len() >= self.size.1,
    ensures final(norms)@.len() == old(norms)@.len(),
        forall|k: int| 0 <= k < self.size.1 ==> #[trigger] final(norms)@[k] == dsymall(*self, k, self.size.1 as int, f_zero()),
        forall|k: int| self.size.1 <= k < old(norms)@.len() ==> #[trigger] final(norms)@[k] == f_zero(),
//@end
}

// ------------------------------------------------------------------ quadratic form  y' sym(M) x  from the upper triangle, F-real
// sum over r < k of M[r, c] * w[r]
pub open spec fn dq_t(M: MatrixF, w: Seq<F>, c: int, k: int) -> real decreases k { if k <= 0 { 0real } else { dq_t(M, w, c, k - 1) + M.e(k - 1, c).v() * w[k - 1].v() } }
// what column c of the upper triangle contributes: its diagonal entry once, every entry above it for (r, c) and for (c, r)
pub open spec fn dq_col(M: MatrixF, y: Seq<F>, x: Seq<F>, c: int) -> real { M.e(c, c).v() * x[c].v() * y[c].v() + (dq_t(M, x, c, c) * y[c].v() + dq_t(M, y, c, c) * x[c].v()) }
pub open spec fn dq_total(M: MatrixF, y: Seq<F>, x: Seq<F>, j: int) -> real decreases j { if j <= 0 { 0real } else { dq_total(M, y, x, j - 1) + dq_col(M, y, x, j - 1) } }
impl DenseStorageMatrix<Vec<F>, F> {
//@fn file=src/algebra/dense/matrix_math.rs in="MatrixMath<T> for Matrix<T>" name=quad_form rules=R1,tupidx,R20 ret=res
//@contract
    requires self.wf(),
        // assert!(self.is_square()): documented panic otherwise
        self.size.0 == self.size.1, x@.len() >= self.size.1, y@.len() >= self.size.1,
    ensures
        // the value is y' sym(M) x with sym(M) read off the upper triangle (real arithmetic); the lower triangle is never read
        res.v() == dq_total(*self, y@, x@, self.size.1 as int),
//@pre
    broadcast use real_arith;
//@loop 1
        invariant
            self.wf(), self.size.0 == self.size.1, x@.len() >= self.size.1, y@.len() >= self.size.1,
            out.v() == dq_total(*self, y@, x@, $var1 as int),
//@body_start 1
        broadcast use real_arith;
        let ghost out0 = out.v();
//@loop 2
            invariant
                self.wf(), self.size.0 == self.size.1, x@.len() >= self.size.1, y@.len() >= self.size.1, $var1 < self.size.1,
                tmp1.v() == dq_t(*self, x@, $var1 as int, (if $var2 <= $var1 { $var2 as int } else { $var1 as int })),
                tmp2.v() == dq_t(*self, y@, $var1 as int, (if $var2 <= $var1 { $var2 as int } else { $var1 as int })),
                out.v() == out0 + (if $var2 <= $var1 { 0real } else { self.e($var1 as int, $var1 as int).v() * x@[$var1 as int].v() * y@[$var1 as int].v() }),
//@body_start 2
            broadcast use real_arith;
//@end
}

// ------------------------------------------------------------------ scalings (impl MatrixMathMut<T> for Matrix<T>), float symbols
impl DenseStorageMatrix<Vec<F>, F> {
//@fn file=src/algebra/dense/matrix_math.rs in="MatrixMathMut<T> for Matrix<T>" name=scale rules=R1
//@contract
    ensures final(self).size == old(self).size, final(self).data@.len() == old(self).data@.len(),
        forall|k: int| 0 <= k < old(self).data@.len() ==> #[trigger] final(self).data@[k] == f_mul(old(self).data@[k], c),
//@end
//@fn file=src/algebra/dense/matrix_math.rs in="MatrixMathMut<T> for Matrix<T>" name=negate rules=R1
//@contract
    ensures final(self).size == old(self).size, final(self).data@.len() == old(self).data@.len(),
        forall|k: int| 0 <= k < old(self).data@.len() ==> #[trigger] final(self).data@[k] == f_neg(old(self).data@[k]),
//@end
//@fn file=src/algebra/dense/matrix_math.rs in="MatrixMathMut<T> for Matrix<T>" name=lscale rules=R1
//@contract
    requires old(self).wf(),
    ensures final(self).size == old(self).size, final(self).wf(),
        // M <- diag(l) M entry for entry; rows beyond l.len() are left alone (hadamard zips)
        forall|a: int, b: int| old(self).inb(a, b) ==> #[trigger] final(self).e(a, b) == (if a < l@.len() { f_mul(old(self).e(a, b), l@[a]) } else { old(self).e(a, b) }),
//@loop 1
        invariant
            self.size == old(self).size, self.wf(),
            forall|a: int, b: int| old(self).inb(a, b) && b < $var1 ==> #[trigger] self.e(a, b) == (if a < l@.len() { f_mul(old(self).e(a, b), l@[a]) } else { old(self).e(a, b) }),
            forall|a: int, b: int| old(self).inb(a, b) && b >= $var1 ==> #[trigger] self.e(a, b) == old(self).e(a, b),
//@end
//@fn file=src/algebra/dense/matrix_math.rs in="MatrixMathMut<T> for Matrix<T>" name=rscale rules=R1,R3 params=rv
//@contract
    requires old(self).wf(),
        // col_slice_mut asserts col < ncols: a longer `r` panics
        rv@.len() <= old(self).size.1,
    ensures final(self).size == old(self).size, final(self).wf(),
        // M <- M diag(r) entry for entry; columns beyond r.len() are left alone
        forall|a: int, b: int| old(self).inb(a, b) ==> #[trigger] final(self).e(a, b) == (if b < rv@.len() { f_mul(old(self).e(a, b), rv@[b]) } else { old(self).e(a, b) }),
//@iter 1
it
//@loop 1
        invariant
            self.size == old(self).size, self.wf(), rv@.len() <= self.size.1, col_ctr == it.index@,
            it.seq().len() == rv@.len(), forall|k: int| 0 <= k < rv@.len() ==> *(#[trigger] it.seq()[k]) == rv@[k],
            forall|a: int, b: int| old(self).inb(a, b) && b < it.index@ ==> #[trigger] self.e(a, b) == f_mul(old(self).e(a, b), rv@[b]),
            forall|a: int, b: int| old(self).inb(a, b) && b >= it.index@ ==> #[trigger] self.e(a, b) == old(self).e(a, b),
//@end
//@fn file=src/algebra/dense/matrix_math.rs in="MatrixMathMut<T> for Matrix<T>" name=lrscale rules=R1,tupidx params=l,rv
//@contract
    requires old(self).wf(), l@.len() >= old(self).size.0, rv@.len() >= old(self).size.1,
    ensures final(self).size == old(self).size, final(self).wf(),
        // M <- diag(l) M diag(r) entry for entry
        forall|a: int, b: int| old(self).inb(a, b) ==> #[trigger] final(self).e(a, b) == f_mul(old(self).e(a, b), f_mul(l@[a], rv@[b])),
//@iter 1
it1
//@loop 1
        invariant
            it1.iter.end == self.size.0, self.size == old(self).size, self.wf(), l@.len() >= self.size.0, rv@.len() >= self.size.1,
            forall|a: int, b: int| old(self).inb(a, b) && a < $var1 ==> #[trigger] self.e(a, b) == f_mul(old(self).e(a, b), f_mul(l@[a], rv@[b])),
            forall|a: int, b: int| old(self).inb(a, b) && a >= $var1 ==> #[trigger] self.e(a, b) == old(self).e(a, b),
//@iter 2
it2
//@loop 2
            invariant
                it2.iter.end == self.size.1, self.size == old(self).size, self.wf(), l@.len() >= self.size.0, rv@.len() >= self.size.1, $var1 < self.size.0,
                forall|a: int, b: int| old(self).inb(a, b) && (a < $var1 || (a == $var1 && b < $var2)) ==> #[trigger] self.e(a, b) == f_mul(old(self).e(a, b), f_mul(l@[a], rv@[b])),
                forall|a: int, b: int| old(self).inb(a, b) && !(a < $var1 || (a == $var1 && b < $var2)) ==> #[trigger] self.e(a, b) == old(self).e(a, b),
//@end
}

// ------------------------------------------------------------------ symmetric part, float symbols
pub open spec fn imax(a: int, b: int) -> int { if a >= b { a } else { b } }
pub open spec fn imin(a: int, b: int) -> int { if a <= b { a } else { b } }
// off-diagonal entry (a, b) of (M + M')/2 as the code computes it: half * (lower entry + upper entry)
pub open spec fn sp_val(M: MatrixF, a: int, b: int) -> F { f_mul(f_lit(0.5f64), f_add(M.e(imax(a, b), imin(a, b)), M.e(imin(a, b), imax(a, b)))) }
// the off-diagonal pairs handled when the loops stand at row r, column c (c < r)
pub open spec fn sp_done(a: int, b: int, r: int, c: int) -> bool { a != b && (imax(a, b) < r || (imax(a, b) == r && imin(a, b) < c)) }
impl DenseStorageMatrix<Vec<F>, F> {
//@fn file=src/algebra/dense/matrix_math.rs in="impl<S,T> DenseStorageMatrix<S, T>" name=symmetric_part rules=R1,tupidx ret=res
//@contract
    requires old(self).wf(),
        // assert!(self.is_square()): documented panic otherwise
        old(self).size.0 == old(self).size.1,
    ensures res.size == old(self).size, res.wf(), *final(self) == *final(res),
        // M <- (M + M')/2 entry for entry: both off-diagonal positions get half * (lower + upper), the diagonal is untouched
        forall|a: int, b: int| old(self).inb(a, b) && a != b ==> #[trigger] res.e(a, b) == sp_val(*old(self), a, b),
        forall|a: int| 0 <= a < old(self).size.0 ==> #[trigger] res.e(a, a) == old(self).e(a, a),
//@iter 1
it1
//@loop 1
        invariant
            it1.iter.end == self.size.0, self.size == old(self).size, self.wf(), self.size.0 == self.size.1, half == f_lit(0.5f64),
            forall|a: int, b: int| old(self).inb(a, b) ==> #[trigger] self.e(a, b) == (if sp_done(a, b, $var1 as int, 0) { sp_val(*old(self), a, b) } else { old(self).e(a, b) }),
//@loop 2
            invariant
                self.size == old(self).size, self.wf(), self.size.0 == self.size.1, half == f_lit(0.5f64), $var1 < self.size.0,
                forall|a: int, b: int| old(self).inb(a, b) ==> #[trigger] self.e(a, b) == (if sp_done(a, b, $var1 as int, $var2 as int) { sp_val(*old(self), a, b) } else { old(self).e(a, b) }),
//@body_start 2
                proof { assert(old(self).inb($var1 as int, $var2 as int) && old(self).inb($var2 as int, $var1 as int)); }
//@end
}

// ------------------------------------------------------------------ scaled vectorisation of a symmetric matrix, float symbols
pub open spec fn tri(k: int) -> int { k * (k + 1) / 2 }
pub proof fn lemma_consec_even(k: int) requires k >= 0 ensures k * (k + 1) % 2 == 0 decreases k
{
    if k > 0 {
        lemma_consec_even(k - 1);
        assert(k * (k + 1) == (k - 1) * k + 2 * k) by (nonlinear_arith);
    } else {
        assert(k * (k + 1) == 0) by (nonlinear_arith) requires k == 0;
    }
}
pub proof fn lemma_tri_step(k: int) requires k >= 0 ensures tri(k + 1) == tri(k) + k + 1, tri(k) >= 0
{
    assert(k * (k + 1) >= 0) by (nonlinear_arith) requires k >= 0;
    assert((k + 1) * (k + 2) == k * (k + 1) + 2 * (k + 1)) by (nonlinear_arith);
    lemma_consec_even(k);
}
pub proof fn lemma_tri_mono(a: int, b: int) requires 0 <= a <= b ensures tri(a) <= tri(b) decreases b - a
{
    if a < b { lemma_tri_step(b - 1); lemma_tri_mono(a, b - 1); }
}
// packed column-major index of the entry (a, b) of a symmetric matrix stored by its upper triangle (= coord_to_upper_triangular_index, unit scalarmath)
pub open spec fn packed(a: int, b: int) -> int { tri(imax(a, b)) + imin(a, b) }
// entry (a, b) of the matrix that svec_to_mat builds from x: diagonal entries as they are, off-diagonal ones times 1/sqrt(2)
pub open spec fn sv_val(x: Seq<F>, a: int, b: int) -> F { if a == b { x[packed(a, b)] } else { f_mul(x[packed(a, b)], f_frac_1_sqrt_2()) } }
// entry tri(b) + a, a <= b, of the vector that mat_to_svec builds from M: the diagonal as it is, (upper + lower) * 1/sqrt(2) otherwise
pub open spec fn ms_val<MATM: DenseMatrix<F>>(M: MATM, a: int, b: int) -> F { if a == b { M.at(a, b) } else { f_mul(f_add(M.at(a, b), M.at(b, a)), f_frac_1_sqrt_2()) } }
// names the (a, b) entry (a trigger)
pub open spec fn tslot(a: int, b: int) -> bool { true }
// the positions written when the loops stand at column c, row r
pub open spec fn sv_done(a: int, b: int, c: int, r: int) -> bool { imax(a, b) < c || (imax(a, b) == c && imin(a, b) < r) }
pub type VecF = Vec<F>;

//@fn file=src/algebra/dense/matrix_math.rs name=svec_to_mat rules=R1,tupidx,R20,tparam:S>VecF params=Mm,x
//@contract
    requires old(Mm).wf(),
        // every call site passes an n x n matrix and a vector of length triangular_number(n)
        old(Mm).size.0 == old(Mm).size.1, x@.len() >= tri(old(Mm).size.1 as int),
    ensures final(Mm).size == old(Mm).size, final(Mm).wf(),
        // C18 (svec -> matrix): packed entry tri(col) + row, row <= col, lands in (row, col) AND in (col, row), scaled by 1/sqrt(2) off the
        // diagonal and unscaled on it; a square matrix is overwritten completely
        forall|a: int, b: int| old(Mm).inb(a, b) ==> #[trigger] final(Mm).e(a, b) == sv_val(x@, a, b),
//@pre
    proof { lemma_tri_step(0); assert(tri(0) == 0); assert(x@.len() == x.len()); }
//@iter 1
it1
//@loop 1
        invariant
            it1.iter.end == Mm.size.1, Mm.size == old(Mm).size, Mm.wf(), Mm.size.0 == Mm.size.1, x@.len() >= tri(Mm.size.1 as int), x@.len() <= usize::MAX,
            idx == tri($var1 as int),
            forall|a: int, b: int| old(Mm).inb(a, b) && sv_done(a, b, $var1 as int, 0) ==> #[trigger] Mm.e(a, b) == sv_val(x@, a, b),
//@body_start 1
        proof { lemma_tri_step($var1 as int); lemma_tri_mono($var1 + 1, Mm.size.1 as int); }
//@loop 2
            invariant
                Mm.size == old(Mm).size, Mm.wf(), Mm.size.0 == Mm.size.1, x@.len() >= tri(Mm.size.1 as int), x@.len() <= usize::MAX, $var1 < Mm.size.1,
                tri($var1 + 1) == tri($var1 as int) + $var1 + 1, tri($var1 + 1) <= tri(Mm.size.1 as int),
                idx == tri($var1 as int) + $var2,
                forall|a: int, b: int| old(Mm).inb(a, b) && sv_done(a, b, $var1 as int, $var2 as int) ==> #[trigger] Mm.e(a, b) == sv_val(x@, a, b),
//@body_start 2
            proof { assert(old(Mm).inb($var2 as int, $var1 as int) && old(Mm).inb($var1 as int, $var2 as int)); }
//@end

//@fn file=src/algebra/dense/matrix_math.rs name=mat_to_svec rules=R1,tupidx,R20 params=x,Mm
//@contract
    requires Mm.dm_wf(),
        // reads (row, col) and (col, row) for row <= col < ncols: needs nrows >= ncols (call sites: square)
        Mm.sz().0 >= Mm.sz().1, old(x)@.len() >= tri(Mm.sz().1 as int),
    ensures final(x)@.len() == old(x)@.len(),
        // C18 (matrix -> svec): x[tri(col) + row] = M[col, col] on the diagonal, (M[row, col] + M[col, row]) / sqrt(2) above it;
        // nothing beyond the packed triangle is written
        forall|a: int, b: int| #[trigger] tslot(a, b) && 0 <= a <= b < Mm.sz().1 ==> final(x)@[tri(b) + a] == ms_val(*Mm, a, b),
        forall|k: int| tri(Mm.sz().1 as int) <= k < old(x)@.len() ==> #[trigger] final(x)@[k] == old(x)@[k],
//@pre
    proof { lemma_tri_step(0); assert(tri(0) == 0); assert(x@.len() == x.len()); }
    let ghost n = Mm.sz().1 as int;
//@loop 1
        invariant
            Mm.dm_wf(), Mm.sz().0 >= Mm.sz().1, n == Mm.sz().1, x@.len() == old(x)@.len(), x@.len() >= tri(n), x@.len() <= usize::MAX,
            idx == tri($var1 as int),
            forall|a: int, b: int| #[trigger] tslot(a, b) && 0 <= a <= b < $var1 ==> x@[tri(b) + a] == ms_val(*Mm, a, b),
            forall|k: int| tri($var1 as int) <= k < x@.len() ==> #[trigger] x@[k] == old(x)@[k],
//@body_start 1
        proof { lemma_tri_step($var1 as int); lemma_tri_mono($var1 + 1, n); }
        let ghost gc = $var1 as int;
//@loop 2
            invariant
                Mm.dm_wf(), Mm.sz().0 >= Mm.sz().1, n == Mm.sz().1, x@.len() == old(x)@.len(), x@.len() >= tri(n), x@.len() <= usize::MAX, gc == $var1, gc < n,
                tri(gc + 1) == tri(gc) + gc + 1, tri(gc + 1) <= tri(n), tri(gc) >= 0,
                idx == tri(gc) + $var2,
                forall|a: int, b: int| #[trigger] tslot(a, b) && 0 <= a <= b < gc ==> x@[tri(b) + a] == ms_val(*Mm, a, b),
                forall|a: int| 0 <= a < $var2 ==> #[trigger] x@[tri(gc) + a] == ms_val(*Mm, a, gc),
                forall|k: int| tri(gc) + $var2 <= k < x@.len() ==> #[trigger] x@[k] == old(x)@[k],
//@body_start 2
            let ghost x1 = x@;
//@body_end 2
            proof {
                assert forall|a: int, b: int| #[trigger] tslot(a, b) && 0 <= a <= b < gc implies x@[tri(b) + a] == ms_val(*Mm, a, b) by {
                    lemma_tri_step(b); lemma_tri_mono(b + 1, gc);
                    assert(x@[tri(b) + a] == x1[tri(b) + a]);
                }
                assert forall|a: int| 0 <= a < $var2 + 1 implies #[trigger] x@[tri(gc) + a] == ms_val(*Mm, a, gc) by {
                    if a < $var2 { assert(x@[tri(gc) + a] == x1[tri(gc) + a]); }
                }
            }
//@body_end 1
        proof {
            assert forall|a: int, b: int| #[trigger] tslot(a, b) && 0 <= a <= b < gc + 1 implies x@[tri(b) + a] == ms_val(*Mm, a, b) by {
                if b == gc { assert(x@[tri(gc) + a] == ms_val(*Mm, a, gc)); }
            }
        }
//@end

// ------------------------------------------------------------------ the read-only views Adjoint and Symmetric of a dense matrix (types.rs)
//@struct file=src/algebra/matrix_types.rs name=Adjoint
//@struct file=src/algebra/matrix_types.rs name=Symmetric
impl<'a> Adjoint<'a, MatrixF> {
//@fn file=src/algebra/dense/types.rs in="DenseMatrix<T> for Adjoint<'_, DenseStorageMatrix<S, T>>" name=index_linear rules=R1 ret=r
//@contract
    requires self.src.wf(), idx.0 < self.src.size.1, idx.1 < self.src.size.0,
    ensures r == idx.1 + self.src.size.0 * idx.0, r < self.src.data@.len(),
//@end
//@fn file=src/algebra/dense/types.rs in="DenseMatrix<T> for Adjoint<'_, DenseStorageMatrix<S, T>>" name=data rules=R1 ret=r
//@contract
    ensures r@ == self.src.data@,
//@end
}
impl<'a> ShapedMatrix for Adjoint<'a, MatrixF> {
    open spec fn sz(&self) -> (usize, usize) { (self.src.size.1, self.src.size.0) }
//@fn file=src/algebra/matrix_types.rs in="ShapedMatrix for Adjoint<'_, M>" name=size
//@end
}
impl<'a> DenseMatrix<F> for Adjoint<'a, MatrixF> {
    open spec fn dm_wf(&self) -> bool { self.src.wf() }
    // entry (r, c) of the adjoint is entry (c, r) of the source
    open spec fn at(&self, r: int, c: int) -> F { self.src.e(c, r) }
//@fn file=src/algebra/dense/types.rs in="Index<(usize, usize)> for Adjoint<'_, DenseStorageMatrix<S, T>>" name=index rules=R1
//@end
}
impl<'a> Symmetric<'a, MatrixF> {
//@fn file=src/algebra/dense/types.rs in="DenseMatrix<T> for Symmetric<'_, DenseStorageMatrix<S, T>>" name=index_linear rules=R1 ret=r
//@contract
    requires self.src.wf(), self.src.size.0 == self.src.size.1, idx.0 < self.src.size.0, idx.1 < self.src.size.0,
    ensures r == imin(idx.0 as int, idx.1 as int) + self.src.size.0 * imax(idx.0 as int, idx.1 as int), r < self.src.data@.len(),
//@end
//@fn file=src/algebra/dense/types.rs in="DenseMatrix<T> for Symmetric<'_, DenseStorageMatrix<S, T>>" name=data rules=R1 ret=r
//@contract
    ensures r@ == self.src.data@,
//@end
}
impl<'a> ShapedMatrix for Symmetric<'a, MatrixF> {
    open spec fn sz(&self) -> (usize, usize) { (self.src.size.1, self.src.size.0) }
//@fn file=src/algebra/matrix_types.rs in="ShapedMatrix for Symmetric<'_, M>" name=size
//@end
}
impl<'a> DenseMatrix<F> for Symmetric<'a, MatrixF> {
    // a symmetric view only makes sense on a square source (for a non-square one an index inside the view's shape falls outside the source)
    open spec fn dm_wf(&self) -> bool { self.src.wf() && self.src.size.0 == self.src.size.1 }
    // entry (r, c) of the view is the upper-triangle entry (min, max) of the source: the lower triangle is never read
    open spec fn at(&self, r: int, c: int) -> F { self.src.e(imin(r, c), imax(r, c)) }
//@fn file=src/algebra/dense/types.rs in="Index<(usize, usize)> for Symmetric<'_, DenseStorageMatrix<S, T>>" name=index rules=R1
//@end
}

// ------------------------------------------------------------------ constructors (dense/core.rs) and psd_completion::complete
//@type file=src/algebra/dense/types.rs name=Matrix
impl DenseStorageMatrix<Vec<F>, F> {
//@fn file=src/algebra/dense/core.rs in="impl<T> Matrix<T>" name=new rules=R1 ret=res
//@contract
    requires
        // assert!(size.0 * size.1 == data.len()): documented panic otherwise (the product itself must not overflow either)
        size.0 * size.1 == data@.len(),
    ensures res.size == size, res.data@ == data@, res.wf(),
//@pre
    proof { assert(data@.len() == data.len()); assert(size.0 * size.1 <= usize::MAX); }
//@end
//@fn file=src/algebra/dense/core.rs in="impl<T> Matrix<T>" name=zeros rules=R1 ret=res
//@contract
    requires size.0 * size.1 <= usize::MAX,
    ensures res.size == size, res.wf(), forall|k: int| 0 <= k < res.data@.len() ==> #[trigger] res.data@[k] == f_zero(),
//@end
}
//@struct file=src/solver/chordal/sparsity_pattern.rs name=SparsityPattern keep=ordering,orig_index
// ASSUMED stand-in for psd_complete (dense/blas: Cholesky, SVD, gemm are outside the verifier's reach): keeps the shape; what it does to the
// entries is the uninterpreted relation `psd_completed`
pub uninterp spec fn psd_completed(A0: MatrixF, A1: MatrixF, pattern: SparsityPattern) -> bool;
#[verifier::external_body]
fn psd_complete(A: &mut MatrixF, pattern: &SparsityPattern)
    ensures final(A).size == old(A).size, final(A).wf(), psd_completed(*old(A), *final(A), *pattern),
{ unimplemented!() }
//@fn file=src/solver/chordal/decomp/psd_completion.rs name=complete rules=R1
//@contract
    requires
        // z is the block of the dual belonging to the PSD cone of order n = |ordering| (psd_completion slices it by the cone's row range)
        pattern.ordering@.len() < 0x1_0000_0000, old(z)@.len() >= tri(pattern.ordering@.len() as int),
    ensures
        final(z)@.len() == old(z)@.len(),
        // C18 (dual completion, index level): z is unpacked into a full symmetric matrix Z0 (svec_to_mat), completed to Z1, and Z1 is
        // packed back (mat_to_svec); entries beyond the packed triangle are not touched
        exists|Z0: MatrixF, Z1: MatrixF| {
            &&& Z0.size == (pattern.ordering@.len() as usize, pattern.ordering@.len() as usize) && Z1.size == Z0.size
            &&& (forall|a: int, b: int| Z0.inb(a, b) ==> #[trigger] Z0.e(a, b) == sv_val(old(z)@, a, b))
            &&& psd_completed(Z0, Z1, *pattern)
            &&& (forall|a: int, b: int| #[trigger] tslot(a, b) && 0 <= a <= b < pattern.ordering@.len() ==> final(z)@[tri(b) + a] == ms_val(Z1, a, b)) },
        forall|k: int| tri(pattern.ordering@.len() as int) <= k < old(z)@.len() ==> #[trigger] final(z)@[k] == old(z)@[k],
//@pre
    proof { assert(pattern.ordering@.len() * pattern.ordering@.len() <= usize::MAX) by(nonlinear_arith) requires pattern.ordering@.len() < 0x1_0000_0000; }
//@after "svec_to_mat(&mut Z, z);"
    let ghost gz0 = Z;
//@after "psd_complete(&mut Z, pattern);"
    let ghost gz1 = Z;
//@end

// ------------------------------------------------------------------ the two round trips, F-real.  Hypotheses: the postconditions of mat_to_svec and
// svec_to_mat (proved above) and  2 * (1/sqrt 2)^2 == 1  in the real model, which is NOT among the admitted axioms: it is a hypothesis of the lemmas
pub proof fn lemma_half(m1: real, m2: real, h: real)
    requires m1 == m2, 2real * h * h == 1real,
    ensures ((m1 + m2) * h) * h == m1,
{
    assert(((m1 + m2) * h) * h == m1 * (2real * h * h)) by(nonlinear_arith) requires m1 == m2;
    assert(m1 * (2real * h * h) == m1) by(nonlinear_arith) requires 2real * h * h == 1real;
}
// matrix -> svec -> matrix gives back a symmetric matrix
pub proof fn lemma_mat_svec_mat(M: MatrixF, x: Seq<F>, Z: MatrixF)
    requires
        M.size.0 == M.size.1, Z.size == M.size,
        forall|a: int, b: int| #[trigger] tslot(a, b) && 0 <= a <= b < M.size.1 ==> x[tri(b) + a] == ms_val(M, a, b),
        forall|a: int, b: int| M.inb(a, b) ==> #[trigger] Z.e(a, b) == sv_val(x, a, b),
        forall|a: int, b: int| M.inb(a, b) ==> #[trigger] M.e(a, b).v() == M.e(b, a).v(),
        2real * f_frac_1_sqrt_2().v() * f_frac_1_sqrt_2().v() == 1real,
    ensures forall|a: int, b: int| M.inb(a, b) ==> #[trigger] Z.e(a, b).v() == M.e(a, b).v(),
{
    broadcast use real_arith;
    assert forall|a: int, b: int| M.inb(a, b) implies #[trigger] Z.e(a, b).v() == M.e(a, b).v() by {
        let lo = imin(a, b); let hi = imax(a, b);
        assert(tslot(lo, hi));
        assert(x[tri(hi) + lo] == ms_val(M, lo, hi));
        assert(M.inb(lo, hi) && M.inb(hi, lo));
        assert(M.e(lo, hi).v() == M.e(hi, lo).v());
        if a != b { lemma_half(M.e(lo, hi).v(), M.e(hi, lo).v(), f_frac_1_sqrt_2().v()); }
    }
}
// svec -> matrix -> svec gives back the vector (psd_completion::complete without the completion step)
pub proof fn lemma_svec_mat_svec(x: Seq<F>, Z: MatrixF, x2: Seq<F>)
    requires
        Z.size.0 == Z.size.1,
        forall|a: int, b: int| Z.inb(a, b) ==> #[trigger] Z.e(a, b) == sv_val(x, a, b),
        forall|a: int, b: int| #[trigger] tslot(a, b) && 0 <= a <= b < Z.size.1 ==> x2[tri(b) + a] == ms_val(Z, a, b),
        2real * f_frac_1_sqrt_2().v() * f_frac_1_sqrt_2().v() == 1real,
    ensures forall|a: int, b: int| #[trigger] tslot(a, b) && 0 <= a <= b < Z.size.1 ==> x2[tri(b) + a].v() == x[tri(b) + a].v(),
{
    broadcast use real_arith;
    assert forall|a: int, b: int| #[trigger] tslot(a, b) && 0 <= a <= b < Z.size.1 implies x2[tri(b) + a].v() == x[tri(b) + a].v() by {
        assert(Z.inb(a, b) && Z.inb(b, a));
        assert(Z.e(a, b) == sv_val(x, a, b) && Z.e(b, a) == sv_val(x, b, a));
        if a != b {
            let h = f_frac_1_sqrt_2().v(); let xv = x[tri(b) + a].v();
            assert(((xv * h + xv * h) * h) == xv * (2real * h * h)) by(nonlinear_arith);
            assert(xv * (2real * h * h) == xv) by(nonlinear_arith) requires 2real * h * h == 1real;
        }
    }
}

} // verus!
fn main() {}
