// unit `solver_new` : the CONSTRUCTION path (C04 "constructing a solver and calling solve returns without panicking ... Inconsistent
// dimensions are rejected at construction (documented panic) rather than producing a result"; C01 / C03: the report vectors have the
// user's lengths n, m).  float model: F-opaque; the F-real reading appears only in the precondition that `equilibrate` (unit csc_math)
// carries (scaling bounds) -- canary_real_axioms MUST fail.
use vstd::prelude::*;
verus! {
//@include prelude/float_opaque.rs
//@include prelude/float_real_axioms.rs

//@enum file=src/solver/core/cones/supportedcone.rs name=SupportedConeT rules=R12 derive="Clone"
//@struct file=src/algebra/csc/core.rs name=CscMatrix
//@struct file=src/solver/implementations/default/settings.rs name=DefaultSettings rules=R1f
//@struct file=src/solver/implementations/default/presolver.rs name=PresolverRowReductionIndex
//@struct file=src/solver/implementations/default/presolver.rs name=Presolver keep=_init_cones,reduce_map,mfull,mreduced,infbound
//@struct file=src/solver/implementations/default/equilibration.rs name=DefaultEquilibrationData
//@struct file=src/solver/implementations/default/problemdata.rs name=DefaultProblemData keep=P,q,A,b,cones,n,m,equilibration,normq,normb,presolver
//@struct file=src/solver/implementations/default/variables.rs name=DefaultVariables rules=R2
//@struct file=src/solver/implementations/default/residuals.rs name=DefaultResiduals rules=R2
//@struct file=src/solver/implementations/default/solution.rs name=DefaultSolution rules=R1f
//@enum file=src/solver/core/solver.rs name=SolverStatus derive="PartialEq, Eq, Clone, Copy, Structural"
// stand-in for CompositeCone (its fields are the enum_dispatch cone objects, a HashMap and index ranges): only `numel` is read here
pub struct CompositeCone<T> { pub numel: usize, pub _p: Option<T> }
//@struct file=src/solver/core/solver.rs name=Solver
//@type file=src/solver/implementations/default/solver.rs name=DefaultSolver

// ------------------------------------------------------------------ specification vocabulary (same text as unit postprocess)
pub open spec fn nvars_spec(c: SupportedConeT<F>) -> nat {
    match c {
        SupportedConeT::ZeroConeT(d) => d as nat,
        SupportedConeT::NonnegativeConeT(d) => d as nat,
        SupportedConeT::SecondOrderConeT(d) => d as nat,
        SupportedConeT::ExponentialConeT() => 3,
        SupportedConeT::PowerConeT(_) => 3,
        SupportedConeT::GenPowerConeT(a, d2) => a@.len() + d2 as nat,
    }
}
// first row of cone k  (= total size of the cones before it)
pub open spec fn cone_start(cones: Seq<SupportedConeT<F>>, k: int) -> nat
    decreases k,
{
    if k <= 0 { 0 } else { cone_start(cones, k - 1) + nvars_spec(cones[k - 1]) }
}
pub open spec fn total_nvars(cones: Seq<SupportedConeT<F>>) -> nat { cone_start(cones, cones.len() as int) }
pub open spec fn count_true(s: Seq<bool>, n: int) -> int
    decreases n,
{
    if n <= 0 { 0 } else { count_true(s, n - 1) + (if s[n - 1] { 1int } else { 0int }) }
}
pub open spec fn dims_consistent(P: CscMatrix<F>, q: Seq<F>, A: CscMatrix<F>, b: Seq<F>, cones: Seq<SupportedConeT<F>>) -> bool {
    &&& b.len() == A.m && cone_start(cones, cones.len() as int) == b.len()
    &&& q.len() == A.n && q.len() == P.n && P.m == P.n
}
// shape agreement between the solution record, the (possibly reduced) iterate and the presolver: the precondition of
// DefaultSolution::post_process (unit postprocess, same text)
pub open spec fn shapes_ok(sol: DefaultSolution<F>, v: DefaultVariables<F>, data: DefaultProblemData<F>) -> bool {
    &&& sol.x@.len() == v.x@.len()
    &&& sol.s@.len() == sol.z@.len()
    &&& v.s@.len() == v.z@.len()
    &&& match data.presolver {
            Some(p) => p.reduce_map is Some
                && p.reduce_map->Some_0.keep_logical@.len() == sol.s@.len()
                && count_true(p.reduce_map->Some_0.keep_logical@, sol.s@.len() as int) == v.s@.len(),
            None => sol.s@.len() == v.s@.len(),
        }
}
pub open spec fn all_eq(v: Seq<F>, c: F) -> bool { forall|i: int| 0 <= i < v.len() ==> #[trigger] v[i] == c }
// CSC vocabulary (same text as units/inc/csc_scalings.rs, units/csc_math.rs)
impl CscMatrix<F> {
    pub open spec fn colptr_ok(&self) -> bool {
        &&& self.colptr@.len() == self.n + 1
        &&& self.rowval@.len() == self.nzval@.len()
        &&& self.colptr@[self.n as int] == self.nzval@.len()
        &&& forall|a: int, b: int| 0 <= a <= b <= self.n ==> self.colptr@[a] <= self.colptr@[b]
    }
    pub open spec fn same_pattern(&self, o: &Self) -> bool {
        self.m == o.m && self.n == o.n && self.colptr@ == o.colptr@ && self.rowval@ == o.rowval@ && self.nzval@.len() == o.nzval@.len()
    }
}
pub open spec fn rows_below(a: CscMatrix<F>, bound: int) -> bool {
    forall|k: int| 0 <= k < a.rowval@.len() ==> a.rowval@[k] < bound
}
pub open spec fn within(s: Seq<F>, lo: real, hi: real) -> bool { forall|i: int| 0 <= i < s.len() ==> lo <= (#[trigger] s[i]).v() <= hi }
// a well-formed CSC matrix (what check_format accepts, minus sortedness): DefaultSolver::new never calls check_format, a malformed
// matrix panics later (observation recorded in unit chordal_decomp as well)
pub open spec fn csc_wf(M: CscMatrix<F>) -> bool { M.colptr_ok() && rows_below(M, M.m as int) }

// ------------------------------------------------------------------ stand-ins for the callees (contract text of the unit named)
// _check_dimensions -- PROVED in unit postprocess, extraction (a): consistent dimensions => none of the documented panics
pub open spec fn nvars_fit(cones: Seq<SupportedConeT<F>>) -> bool {
    forall|k: int| 0 <= k < cones.len() ==> nvars_spec(#[trigger] cones[k]) <= usize::MAX
}
#[verifier::external_body]
pub fn _check_dimensions(P: &CscMatrix<F>, q: &[F], A: &CscMatrix<F>, b: &[F], cone_types: &[SupportedConeT<F>])
    requires dims_consistent(*P, q@, *A, b@, cone_types@), nvars_fit(cone_types@),
{ unimplemented!() }

// Timers (src/timers/timers.rs: HashMap / Instant, outside Verus): opaque stand-in, as in unit solve; nothing is assumed
#[verifier::external_body]
pub struct Timers { _p: u8 }
impl Timers {
    #[verifier::external_body] pub fn default() -> Timers { unimplemented!() }
    #[verifier::external_body] pub fn start_as_current(&mut self, key: &'static str) { unimplemented!() }
    #[verifier::external_body] pub fn stop_current(&mut self) { unimplemented!() }
}
pub assume_specification<T> [core::option::Option::<T>::replace] (o: &mut Option<T>, v: T) -> (r: Option<T>)
    ensures *final(o) == Some(v), r == *old(o);

// DefaultInfo: `new` is `Self::default()` (derive(Default)): outside the extractor, nothing is assumed about the fresh record
#[verifier::external_body]
pub struct LinearSolverInfo { _p: u8 }
#[verifier::external_body]
pub struct PrintTarget { _p: u8 }
//@struct file=src/solver/implementations/default/info.rs name=DefaultInfo rules=R2,R1f keep=mu,iterations,solve_time,status,linsolver,stream
impl DefaultInfo<F> {
    #[verifier::external_body] pub fn new() -> DefaultInfo<F> { unimplemented!() }
}

// DefaultSolution::new, DefaultVariables::new, DefaultResiduals::new -- PROVED in unit variables (contract text copied)
impl DefaultSolution<F> {
    #[verifier::external_body]
    pub fn new(n: usize, m: usize) -> (r: Self)
        ensures
            r.x@.len() == n, r.z@.len() == m, r.s@.len() == m,
            all_eq(r.x@, f_zero()), all_eq(r.z@, f_zero()), all_eq(r.s@, f_zero()),
            r.status == SolverStatus::Unsolved, r.iterations == 0,
            r.obj_val == f_nan(), r.obj_val_dual == f_nan(), r.r_prim == f_nan(), r.r_dual == f_nan(),
    { unimplemented!() }
}
impl DefaultVariables<F> {
    pub open spec fn dims_spec(&self) -> (nat, nat, nat) { (self.x@.len(), self.s@.len(), self.z@.len()) }
    #[verifier::external_body]
    pub fn new(n: usize, m: usize) -> (r: Self)
        ensures
            r.x@.len() == n, r.s@.len() == m, r.z@.len() == m,
            all_eq(r.x@, f_zero()), all_eq(r.s@, f_zero()), all_eq(r.z@, f_zero()),
            r.tau == f_one(), r.kappa == f_one(),
    { unimplemented!() }
}
impl DefaultResiduals<F> {
    #[verifier::external_body]
    pub fn new(n: usize, m: usize) -> (r: Self)
        ensures
            r.rx@.len() == n, r.rx_inf@.len() == n, r.Px@.len() == n, r.rz@.len() == m, r.rz_inf@.len() == m,
    { unimplemented!() }
}

// CompositeCone::new -- numel = sum of the member cones' sizes: PROVED in unit composite (statement slice new_tail);
// member i = make_cone(cones[i]) has numel = nvars(cones[i]): by inspection of the seven `XCone::new(dim)` (see make_cone below);
// the map over the list (first half of CompositeCone::new) is NOT extracted.  Hence ASSUMED as a whole, in this form:
impl CompositeCone<F> {
    #[verifier::external_body]
    pub fn new(types: &[SupportedConeT<F>]) -> (r: Self)
        requires total_nvars(types@) <= usize::MAX, nvars_fit(types@),
        ensures r.numel == total_nvars(types@),
    { unimplemented!() }
}

impl DefaultProblemData<F> {
    // dimensions: P is n x n, A is m x n, q: n, b: m, scalings d: n, e: m  (text of unit csc_math)
    pub open spec fn shape_ok(&self) -> bool {
        let eq = self.equilibration;
        &&& self.P.colptr_ok() && self.A.colptr_ok()
        &&& self.P.n == eq.d@.len() && self.A.n == eq.d@.len() && self.P.m == self.P.n && self.A.m == eq.e@.len()
        &&& rows_below(self.P, eq.d@.len() as int) && rows_below(self.A, eq.e@.len() as int)
        &&& self.q@.len() == eq.d@.len() && self.b@.len() == eq.e@.len()
        &&& eq.dinv@.len() == eq.d@.len() && eq.einv@.len() == eq.e@.len()
    }
    // DefaultProblemData::new -- ASSUMED, NOT PROVED anywhere as a whole (pieces: Presolver::new, make_reduction_map in unit postprocess;
    // select_rows in csc_core; the capping of b in problemdata_new; DefaultEquilibrationData::new in variables; try_presolver,
    // presolve, reduce_A_b and the copy phase further down in this unit; new_collapsed and reduce_cones are under contract nowhere):
    //   the internal sizes are those of the (row-reduced) A: n = A.n, m = number of rows kept <= A.m;
    //   the internal cones account for exactly m rows; P n x n, A m x n, q: n, b: m are well-formed; the scalings start as the identity;
    //   a presolver is stored iff rows were dropped, and its keep mask has the user's m entries, m_internal of them true.
    #[verifier::external_body]
    pub fn new(P: &CscMatrix<F>, q: &[F], A: &CscMatrix<F>, b: &[F], cones: &[SupportedConeT<F>], settings: &DefaultSettings<F>) -> (r: Self)
        requires dims_consistent(*P, q@, *A, b@, cones@), nvars_fit(cones@), csc_wf(*P), csc_wf(*A),
        ensures
            r.n == A.n, r.m <= A.m,
            r.m == total_nvars(r.cones@), nvars_fit(r.cones@),
            r.shape_ok(), r.equilibration.d@.len() == r.n, r.equilibration.e@.len() == r.m,
            all_eq(r.equilibration.d@, f_one()), all_eq(r.equilibration.e@, f_one()), r.equilibration.c == f_one(),
            match r.presolver {
                Some(p) => p.reduce_map is Some && p.reduce_map->Some_0.keep_logical@.len() == A.m
                    && count_true(p.reduce_map->Some_0.keep_logical@, A.m as int) == r.m,
                None => r.m == A.m,
            },
    { unimplemented!() }

    // equilibrate -- PROVED in unit csc_math (requires verbatim, ensures: the clauses used here), plus the precondition of
    // CompositeCone::rectify_equilibration PROVED in unit composite (the correction vectors have `numel` entries; csc_math's own
    // stand-in for the cones does not carry it: this is the link that `assert_eq!(cones.numel, data.m)` guards)
    #[verifier::external_body]
    pub fn equilibrate(&mut self, cones: &CompositeCone<F>, settings: &DefaultSettings<F>)
        requires old(self).shape_ok(),
            cones.numel == old(self).equilibration.e@.len(),
            0real < settings.equilibrate_min_scaling.v() <= 1real, 1real <= settings.equilibrate_max_scaling.v(),
            within(old(self).equilibration.d@, settings.equilibrate_min_scaling.v(), settings.equilibrate_max_scaling.v()),
            within(old(self).equilibration.e@, settings.equilibrate_min_scaling.v(), settings.equilibrate_max_scaling.v()),
            settings.equilibrate_min_scaling.v() <= old(self).equilibration.c.v() <= settings.equilibrate_max_scaling.v(),
        ensures
            final(self).shape_ok(), final(self).P.same_pattern(&old(self).P), final(self).A.same_pattern(&old(self).A),
            final(self).n == old(self).n, final(self).m == old(self).m,
            // (the fields the function never names: by inspection of its text, `let data = self` and only P, A, q, b, equilibration are borrowed)
            final(self).cones == old(self).cones, final(self).presolver == old(self).presolver,
            final(self).equilibration.d@.len() == old(self).equilibration.d@.len(), final(self).equilibration.e@.len() == old(self).equilibration.e@.len(),
    { unimplemented!() }
}

// DefaultKKTSystem::new -- PROVED in unit kkt_solve (requires verbatim; ensures: the two dimension clauses)
#[verifier::external_body]
#[verifier::accept_recursive_types(T)]
pub struct DefaultKKTSystem<T> { _p: Option<T> }
impl DefaultKKTSystem<F> {
    pub uninterp spec fn dim_n(&self) -> nat;
    pub uninterp spec fn dim_m(&self) -> nat;
    #[verifier::external_body]
    pub fn new(data: &DefaultProblemData<F>, cones: &CompositeCone<F>, settings: &DefaultSettings<F>) -> (r: Self)
        requires settings.direct_kkt_solver,      // documented panic otherwise ("Indirect and other solve strategies not yet supported.")
        ensures r.dim_n() == data.n, r.dim_m() == data.m,
    { unimplemented!() }
    // HasLinearSolverInfo::linear_solver_info: forwards through two trait objects to the LDL engine; opaque
    #[verifier::external_body]
    pub fn linear_solver_info(&self) -> LinearSolverInfo { unimplemented!() }
}

// ------------------------------------------------------------------ DefaultSolver::new
// what the caller must supply for the construction to go through without a panic
pub open spec fn new_pre(P: CscMatrix<F>, q: Seq<F>, A: CscMatrix<F>, b: Seq<F>, cones: Seq<SupportedConeT<F>>, settings: DefaultSettings<F>) -> bool {
    // C04: consistent dimensions (otherwise: documented panic, see new_returns below)
    &&& dims_consistent(P, q, A, b, cones) && nvars_fit(cones)
    // well-formed CSC inputs (new never calls check_format)
    &&& csc_wf(P) && csc_wf(A)
    // documented panic otherwise
    &&& settings.direct_kkt_solver
    // scaling bounds as unit csc_math requires them of `equilibrate` (defaults 1e-4, 1e4)
    &&& 0real < settings.equilibrate_min_scaling.v() <= 1real && 1real <= settings.equilibrate_max_scaling.v()
}
// what the constructed solver looks like
pub open spec fn new_post(r: DefaultSolver<F>, A: CscMatrix<F>, settings: DefaultSettings<F>) -> bool {
    // the precondition of `solve` (unit solve): timers present, iterate and saved iterate of equal dimensions
    &&& r.timers is Some
    &&& r.variables.dims_spec() == r.prev_vars.dims_spec()
    // C01 / C03: the report vectors have the USER's lengths (n, m, m), also when presolve has dropped rows
    &&& r.solution.x@.len() == A.n && r.solution.z@.len() == A.m && r.solution.s@.len() == A.m
    // the iterate, the two step vectors and the saved iterate have the INTERNAL dimensions (n, m_reduced)
    &&& r.data.n == A.n && r.data.m <= A.m
    &&& r.variables.dims_spec() == (r.data.n as nat, r.data.m as nat, r.data.m as nat)
    &&& r.step_lhs.dims_spec() == r.variables.dims_spec() && r.step_rhs.dims_spec() == r.variables.dims_spec()
    &&& r.prev_vars.dims_spec() == r.variables.dims_spec()
    &&& r.residuals.rx@.len() == r.data.n && r.residuals.rz@.len() == r.data.m
    // the cones cover exactly the internal rows; the KKT system is built for (n, m)
    &&& r.cones.numel == r.data.m
    &&& r.kktsystem.dim_n() == r.data.n && r.kktsystem.dim_m() == r.data.m
    &&& r.data.shape_ok()
    // C09 / C03: the precondition of DefaultSolution::post_process (unit postprocess)
    &&& shapes_ok(r.solution, r.variables, r.data)
    // the settings are stored as given; the report starts out Unsolved
    &&& r.settings == settings
    &&& r.solution.status == SolverStatus::Unsolved
}

impl DefaultSolver<F> {
//@fn file=src/solver/implementations/default/solver.rs in="impl<T> DefaultSolver<T>" name=new rules=R1,R6,R7t ret=r
//@contract
    requires new_pre(*P, q@, *A, b@, cones@, settings),
    ensures new_post(r, *A, settings),
//@before "let cones = CompositeCone"
        proof { broadcast use real_arith; }
//@end
}

} // verus!
fn main() {}
