// unit `solver_new` : the CONSTRUCTION path (C04 "constructing a solver and calling solve returns without panicking ... Inconsistent
// dimensions are rejected at construction (documented panic) rather than producing a result"; C01 / C03: the report vectors have the
// user's lengths n, m).  float model: F-opaque; the F-real reading appears only in the precondition that `equilibrate` (unit csc_math)
// carries (scaling bounds) -- canary_real_axioms MUST fail.   Companion unit: solver_new_data (update_data, presolve, DefaultProblemData::new).
//
// PROVED from the real text (extracted, never retyped):
//   DefaultSolver::new  (solver.rs; rules R1, R6, R7t: the four timeit! blocks are written out as start_as_current / stop_current)  TWICE:
//     (A) `new`: consistent dimensions (+ the preconditions listed in new_pre_other) ==> returns, no panic -- in particular
//         `assert_eq!(cones.numel, data.m)` never fires -- and the solver satisfies the precondition of `solve` (timers is Some, variables /
//         step_lhs / step_rhs / prev_vars all of dims (data.n, data.m, data.m)); the report vectors have the USER's lengths (A.n, A.m, A.m);
//         residuals (n, m); cones.numel == data.m; KKT system built for (n, m); shapes_ok = the precondition of DefaultSolution::post_process
//         (unit postprocess); settings stored as given.
//     (B) `new_returns` (module returns_view, against the R26 contract of _check_dimensions): WHENEVER the constructor returns, the dimensions
//         were consistent -- inconsistent dimensions never produce a solver (documented panic = divergence).
//   supportedcone.rs:  make_cone (same family, numel = nvars, exponents kept; requires what the member constructors assert),
//     both as_tag impls, nvars (2nd extraction), RangeSupportedConesIterator::next and rng_cones_iter (k-th range =
//     cone_start(k) .. cone_start(k+1): contiguous from 0, length nvars(k); lemma_cone_partition: every row below the total lies in one).
//   member constructors / size functions used by make_cone: ZeroCone::new/numel/is_symmetric, NonnegativeCone::new/numel/is_symmetric,
//     SecondOrderConeSparseData::new, SecondOrderCone::new/numel/is_symmetric, ExponentialCone::numel/is_symmetric, PowerCone::numel/is_symmetric,
//     GenPowerCone::new/dim1/dim2/dim/numel/is_symmetric.
//   CompositeCone::new, FIRST half as statement slice `new_head` (compositecone.rs; rules R1, R30, drop: the two HashMap statements): one
//     internal cone per description (same family, same size), numel = sum of nvars, _is_symmetric = AND of the members' flags.
//   settings.rs:  validate_direct_solve_method (Ok <=> "auto" | "qdldl"), DefaultSettings::validate, DefaultSettingsBuilder::validate
//     (unset => Ok), core_mut (the same object).  New additive rule `fmtmsg`: format!(..) -> fmt_message().
// ASSUMED (stand-ins; where a contract is PROVED in another unit its text is copied and the unit named at the declaration):
//   _check_dimensions (postprocess, both extractions), DefaultSolution::new / DefaultVariables::new / DefaultResiduals::new (variables),
//   equilibrate (csc_math; PLUS the precondition `cones.numel == e.len()` of CompositeCone::rectify_equilibration proved in unit composite,
//   which csc_math's own cone stand-in lacks: observation O1), DefaultKKTSystem::new (kkt_solve), CompositeCone::new (new_head here +
//   new_tail in composite; the struct literal joining the halves is not extracted).
//   NOT PROVED ANYWHERE:  DefaultProblemData::new as a whole -- data.n == A.n, data.m == sum of nvars(data.cones) <= A.m, shape_ok, identity
//     scalings, presolver mask of the user's length with data.m entries true, collapsed cones constructible; unit solver_new_data derives the
//     dimension clauses from two statement slices, what remains assumed is listed there (new_collapsed, reduce_cones, CSC well-formedness
//     of a triangularised P).  DefaultInfo::new (= derive(Default)), Timers (opaque, nothing assumed), linear_solver_info (opaque),
//     ExponentialCone::new / PowerCone::new (DenseMatrixSym3::zeros, array repeat: total by inspection), GenPowerConeData::new (its two
//     asserts = the uninterpreted genpow_alpha_ok: documented panic "alpha must sum to 1"), Option::replace, <[T]>::to_vec (element-wise
//     clone), str extensionality (ax_str_ext), the F-real axiom group.
//   macro expansions written out by hand (bodies verified): derive(Clone) on SupportedConeT; enum_dispatch's `From<X> for SupportedCone`,
//     `SupportedCone::numel / is_symmetric`; derive_builder's DefaultSettingsBuilder (one field kept).
//   Stand-in types: Timers, LinearSolverInfo, PrintTarget, CompositeCone {numel}, DefaultKKTSystem, GenPowerConeData, local traits
//     `Iterator` / `ConeRanges` (module cone_ranges: a Verus impl cannot add `requires` to std's Iterator::next), SupportedConeAsTag.
// requires of `new` beyond consistent dimensions (new_pre_other): well-formed CSC P and A (new never calls check_format: a malformed matrix
//   panics later), settings.direct_kkt_solver (documented panic otherwise), 0 < equilibrate_min_scaling <= 1 <= equilibrate_max_scaling
//   (precondition of the PROVED equilibrate contract; panic-freedom for other bounds is therefore not covered), valid generalized-power
//   exponents, no usize wrap in a cone size / the row total.
// DROPPED: PSDTriangleConeT / PSDTriangleCone arms and validate_chordal_decomposition_merge_method (feature sdp, off by default: R12),
//   the "faer" arm (feature faer-sparse), new_collapsed, SupportedConeTag::as_str, Display, type_counts of CompositeCone::new.
use vstd::prelude::*;
use std::marker::PhantomData;
verus! {
//@include prelude/float_opaque.rs
//@include prelude/float_real_axioms.rs

//@enum file=src/solver/core/cones/supportedcone.rs name=SupportedConeT rules=R12
//@struct file=src/algebra/csc/core.rs name=CscMatrix
//@struct file=src/solver/implementations/default/settings.rs name=DefaultSettings rules=R1f
//@struct file=src/solver/implementations/default/presolver.rs name=PresolverRowReductionIndex
//@struct file=src/solver/implementations/default/presolver.rs name=Presolver keep=_init_cones,reduce_map,mfull,mreduced,infbound
//@struct file=src/solver/implementations/default/equilibration.rs name=DefaultEquilibrationData
//@struct file=src/solver/implementations/default/problemdata.rs name=DefaultProblemData keep=P,q,A,b,cones,n,m,equilibration,normq,normb,presolver
//@struct file=src/solver/implementations/default/variables.rs name=DefaultVariables rules=R2
//@struct file=src/solver/implementations/default/residuals.rs name=DefaultResiduals rules=R2
//@struct file=src/solver/implementations/default/solution.rs name=DefaultSolution rules=R1f
//@enum file=src/solver/core/solver.rs name=SolverStatus derive="PartialEq, Eq, Clone, Copy, Structural"
// stand-in for CompositeCone (its fields are the enum_dispatch cone objects, a HashMap and index ranges): only `numel` is read here
pub struct CompositeCone<T> { pub numel: usize, pub _p: Option<T> }
//@struct file=src/solver/core/solver.rs name=Solver
//@type file=src/solver/implementations/default/solver.rs name=DefaultSolver

// ------------------------------------------------------------------ specification vocabulary (same text as unit postprocess)
pub open spec fn nvars_spec(c: SupportedConeT<F>) -> nat {
    match c {
        SupportedConeT::ZeroConeT(d) => d as nat,
        SupportedConeT::NonnegativeConeT(d) => d as nat,
        SupportedConeT::SecondOrderConeT(d) => d as nat,
        SupportedConeT::ExponentialConeT() => 3,
        SupportedConeT::PowerConeT(_) => 3,
        SupportedConeT::GenPowerConeT(a, d2) => a@.len() + d2 as nat,
    }
}
// first row of cone k  (= total size of the cones before it)
pub open spec fn cone_start(cones: Seq<SupportedConeT<F>>, k: int) -> nat
    decreases k,
{
    if k <= 0 { 0 } else { cone_start(cones, k - 1) + nvars_spec(cones[k - 1]) }
}
pub open spec fn total_nvars(cones: Seq<SupportedConeT<F>>) -> nat { cone_start(cones, cones.len() as int) }
pub open spec fn count_true(s: Seq<bool>, n: int) -> int
    decreases n,
{
    if n <= 0 { 0 } else { count_true(s, n - 1) + (if s[n - 1] { 1int } else { 0int }) }
}
pub open spec fn dims_consistent(P: CscMatrix<F>, q: Seq<F>, A: CscMatrix<F>, b: Seq<F>, cones: Seq<SupportedConeT<F>>) -> bool {
    &&& b.len() == A.m && cone_start(cones, cones.len() as int) == b.len()
    &&& q.len() == A.n && q.len() == P.n && P.m == P.n
}
// shape agreement between the solution record, the (possibly reduced) iterate and the presolver: the precondition of
// DefaultSolution::post_process (unit postprocess, same text)
pub open spec fn shapes_ok(sol: DefaultSolution<F>, v: DefaultVariables<F>, data: DefaultProblemData<F>) -> bool {
    &&& sol.x@.len() == v.x@.len()
    &&& sol.s@.len() == sol.z@.len()
    &&& v.s@.len() == v.z@.len()
    &&& match data.presolver {
            Some(p) => p.reduce_map is Some
                && p.reduce_map->Some_0.keep_logical@.len() == sol.s@.len()
                && count_true(p.reduce_map->Some_0.keep_logical@, sol.s@.len() as int) == v.s@.len(),
            None => sol.s@.len() == v.s@.len(),
        }
}
pub open spec fn all_eq(v: Seq<F>, c: F) -> bool { forall|i: int| 0 <= i < v.len() ==> #[trigger] v[i] == c }
// CSC vocabulary (same text as units/inc/csc_scalings.rs, units/csc_math.rs)
impl CscMatrix<F> {
    pub open spec fn colptr_ok(&self) -> bool {
        &&& self.colptr@.len() == self.n + 1
        &&& self.rowval@.len() == self.nzval@.len()
        &&& self.colptr@[self.n as int] == self.nzval@.len()
        &&& forall|a: int, b: int| 0 <= a <= b <= self.n ==> self.colptr@[a] <= self.colptr@[b]
    }
    pub open spec fn same_pattern(&self, o: &Self) -> bool {
        self.m == o.m && self.n == o.n && self.colptr@ == o.colptr@ && self.rowval@ == o.rowval@ && self.nzval@.len() == o.nzval@.len()
    }
}
pub open spec fn rows_below(a: CscMatrix<F>, bound: int) -> bool {
    forall|k: int| 0 <= k < a.rowval@.len() ==> a.rowval@[k] < bound
}
pub open spec fn within(s: Seq<F>, lo: real, hi: real) -> bool { forall|i: int| 0 <= i < s.len() ==> lo <= (#[trigger] s[i]).v() <= hi }
// a well-formed CSC matrix (what check_format accepts, minus sortedness): DefaultSolver::new never calls check_format, a malformed
// matrix panics later (observation recorded in unit chordal_decomp as well)
pub open spec fn csc_wf(M: CscMatrix<F>) -> bool { M.colptr_ok() && rows_below(M, M.m as int) }

// ------------------------------------------------------------------ stand-ins for the callees (contract text of the unit named)
// _check_dimensions -- PROVED in unit postprocess, extraction (a): consistent dimensions => none of the documented panics
pub open spec fn nvars_fit(cones: Seq<SupportedConeT<F>>) -> bool {
    forall|k: int| 0 <= k < cones.len() ==> nvars_spec(#[trigger] cones[k]) <= usize::MAX
}
#[verifier::external_body]
pub fn _check_dimensions(P: &CscMatrix<F>, q: &[F], A: &CscMatrix<F>, b: &[F], cone_types: &[SupportedConeT<F>])
    requires dims_consistent(*P, q@, *A, b@, cone_types@), nvars_fit(cone_types@),
{ unimplemented!() }

// Timers (src/timers/timers.rs: HashMap / Instant, outside Verus): opaque stand-in, as in unit solve; nothing is assumed
#[verifier::external_body]
pub struct Timers { _p: u8 }
impl Timers {
    #[verifier::external_body] pub fn default() -> Timers { unimplemented!() }
    #[verifier::external_body] pub fn start_as_current(&mut self, key: &'static str) { unimplemented!() }
    #[verifier::external_body] pub fn stop_current(&mut self) { unimplemented!() }
}
pub assume_specification<T> [core::option::Option::<T>::replace] (o: &mut Option<T>, v: T) -> (r: Option<T>)
    ensures *final(o) == Some(v), r == *old(o);

// DefaultInfo: `new` is `Self::default()` (derive(Default)): outside the extractor, nothing is assumed about the fresh record
#[verifier::external_body]
pub struct LinearSolverInfo { _p: u8 }
#[verifier::external_body]
pub struct PrintTarget { _p: u8 }
//@struct file=src/solver/implementations/default/info.rs name=DefaultInfo rules=R2,R1f keep=mu,iterations,solve_time,status,linsolver,stream
impl DefaultInfo<F> {
    #[verifier::external_body] pub fn new() -> DefaultInfo<F> { unimplemented!() }
}

// DefaultSolution::new, DefaultVariables::new, DefaultResiduals::new -- PROVED in unit variables (contract text copied)
impl DefaultSolution<F> {
    #[verifier::external_body]
    pub fn new(n: usize, m: usize) -> (r: Self)
        ensures
            r.x@.len() == n, r.z@.len() == m, r.s@.len() == m,
            all_eq(r.x@, f_zero()), all_eq(r.z@, f_zero()), all_eq(r.s@, f_zero()),
            r.status == SolverStatus::Unsolved, r.iterations == 0,
            r.obj_val == f_nan(), r.obj_val_dual == f_nan(), r.r_prim == f_nan(), r.r_dual == f_nan(),
    { unimplemented!() }
}
impl DefaultVariables<F> {
    pub open spec fn dims_spec(&self) -> (nat, nat, nat) { (self.x@.len(), self.s@.len(), self.z@.len()) }
    #[verifier::external_body]
    pub fn new(n: usize, m: usize) -> (r: Self)
        ensures
            r.x@.len() == n, r.s@.len() == m, r.z@.len() == m,
            all_eq(r.x@, f_zero()), all_eq(r.s@, f_zero()), all_eq(r.z@, f_zero()),
            r.tau == f_one(), r.kappa == f_one(),
    { unimplemented!() }
}
impl DefaultResiduals<F> {
    #[verifier::external_body]
    pub fn new(n: usize, m: usize) -> (r: Self)
        ensures
            r.rx@.len() == n, r.rx_inf@.len() == n, r.Px@.len() == n, r.rz@.len() == m, r.rz_inf@.len() == m,
    { unimplemented!() }
}

// CompositeCone::new -- `numel` = the sum of nvars over the descriptions: PROVED in two statement slices, the first half (copy of
// the list, make_cone per description, sum of the members' numel) as `new_head` further down in THIS unit, the second half (degree,
// index ranges) as `new_tail` in unit composite; the struct literal that joins them is not extracted.  The requires are those of
// new_head: the member constructors assert `dim >= 2` (second-order cone) and valid exponents (generalized power cone).
impl CompositeCone<F> {
    #[verifier::external_body]
    pub fn new(types: &[SupportedConeT<F>]) -> (r: Self)
        requires total_nvars(types@) <= usize::MAX, all_constructible(types@),
        ensures r.numel == total_nvars(types@),
    { unimplemented!() }
}

impl DefaultProblemData<F> {
    // dimensions: P is n x n, A is m x n, q: n, b: m, scalings d: n, e: m  (text of unit csc_math)
    pub open spec fn shape_ok(&self) -> bool {
        let eq = self.equilibration;
        &&& self.P.colptr_ok() && self.A.colptr_ok()
        &&& self.P.n == eq.d@.len() && self.A.n == eq.d@.len() && self.P.m == self.P.n && self.A.m == eq.e@.len()
        &&& rows_below(self.P, eq.d@.len() as int) && rows_below(self.A, eq.e@.len() as int)
        &&& self.q@.len() == eq.d@.len() && self.b@.len() == eq.e@.len()
        &&& eq.dinv@.len() == eq.d@.len() && eq.einv@.len() == eq.e@.len()
    }
    // DefaultProblemData::new -- ASSUMED, NOT PROVED anywhere as a whole (pieces: Presolver::new, make_reduction_map in unit postprocess;
    // select_rows in csc_core; the capping of b in problemdata_new; DefaultEquilibrationData::new in variables; try_presolver,
    // presolve, reduce_A_b and the copy phase further down in this unit; new_collapsed and reduce_cones are under contract nowhere):
    //   the internal sizes are those of the (row-reduced) A: n = A.n, m = number of rows kept <= A.m;
    //   the internal cones account for exactly m rows; P n x n, A m x n, q: n, b: m are well-formed; the scalings start as the identity;
    //   a presolver is stored iff rows were dropped, and its keep mask has the user's m entries, m_internal of them true.
    #[verifier::external_body]
    pub fn new(P: &CscMatrix<F>, q: &[F], A: &CscMatrix<F>, b: &[F], cones: &[SupportedConeT<F>], settings: &DefaultSettings<F>) -> (r: Self)
        requires dims_consistent(*P, q@, *A, b@, cones@), nvars_fit(cones@), csc_wf(*P), csc_wf(*A),
        ensures
            r.n == A.n, r.m <= A.m,
            r.m == total_nvars(r.cones@), nvars_fit(r.cones@),
            // new_collapsed (NOT under contract; by inspection): empty cones are removed, second-order cones of dimension 1 become
            // nonnegative cones, everything else is cloned -- so no second-order cone of dimension < 2 is left
            genpow_inputs_ok(cones@) ==> all_constructible(r.cones@),
            r.shape_ok(), r.equilibration.d@.len() == r.n, r.equilibration.e@.len() == r.m,
            all_eq(r.equilibration.d@, f_one()), all_eq(r.equilibration.e@, f_one()), r.equilibration.c == f_one(),
            match r.presolver {
                Some(p) => p.reduce_map is Some && p.reduce_map->Some_0.keep_logical@.len() == A.m
                    && count_true(p.reduce_map->Some_0.keep_logical@, A.m as int) == r.m,
                None => r.m == A.m,
            },
    { unimplemented!() }

    // equilibrate -- PROVED in unit csc_math (requires verbatim, ensures: the clauses used here), plus the precondition of
    // CompositeCone::rectify_equilibration PROVED in unit composite (the correction vectors have `numel` entries; csc_math's own
    // stand-in for the cones does not carry it: this is the link that `assert_eq!(cones.numel, data.m)` guards)
    #[verifier::external_body]
    pub fn equilibrate(&mut self, cones: &CompositeCone<F>, settings: &DefaultSettings<F>)
        requires old(self).shape_ok(),
            cones.numel == old(self).equilibration.e@.len(),
            0real < settings.equilibrate_min_scaling.v() <= 1real, 1real <= settings.equilibrate_max_scaling.v(),
            within(old(self).equilibration.d@, settings.equilibrate_min_scaling.v(), settings.equilibrate_max_scaling.v()),
            within(old(self).equilibration.e@, settings.equilibrate_min_scaling.v(), settings.equilibrate_max_scaling.v()),
            settings.equilibrate_min_scaling.v() <= old(self).equilibration.c.v() <= settings.equilibrate_max_scaling.v(),
        ensures
            final(self).shape_ok(), final(self).P.same_pattern(&old(self).P), final(self).A.same_pattern(&old(self).A),
            final(self).n == old(self).n, final(self).m == old(self).m,
            // (the fields the function never names: by inspection of its text, `let data = self` and only P, A, q, b, equilibration are borrowed)
            final(self).cones == old(self).cones, final(self).presolver == old(self).presolver,
            final(self).equilibration.d@.len() == old(self).equilibration.d@.len(), final(self).equilibration.e@.len() == old(self).equilibration.e@.len(),
    { unimplemented!() }
}

// DefaultKKTSystem::new -- PROVED in unit kkt_solve (requires verbatim; ensures: the two dimension clauses)
#[verifier::external_body]
#[verifier::accept_recursive_types(T)]
pub struct DefaultKKTSystem<T> { _p: Option<T> }
impl DefaultKKTSystem<F> {
    pub uninterp spec fn dim_n(&self) -> nat;
    pub uninterp spec fn dim_m(&self) -> nat;
    #[verifier::external_body]
    pub fn new(data: &DefaultProblemData<F>, cones: &CompositeCone<F>, settings: &DefaultSettings<F>) -> (r: Self)
        requires settings.direct_kkt_solver,      // documented panic otherwise ("Indirect and other solve strategies not yet supported.")
        ensures r.dim_n() == data.n, r.dim_m() == data.m,
    { unimplemented!() }
    // HasLinearSolverInfo::linear_solver_info: forwards through two trait objects to the LDL engine; opaque
    #[verifier::external_body]
    pub fn linear_solver_info(&self) -> LinearSolverInfo { unimplemented!() }
}

// ------------------------------------------------------------------ DefaultSolver::new
// what the caller must supply, besides consistent dimensions, for the construction to go through without a panic
pub open spec fn new_pre_other(P: CscMatrix<F>, A: CscMatrix<F>, cones: Seq<SupportedConeT<F>>, settings: DefaultSettings<F>) -> bool {
    // no cone dimension wraps (alpha.len() + dim2 of a GenPowerConeT); generalized power cones carry valid exponents
    // ("The alpha terms must sum to 1": asserted by GenPowerConeData::new, a documented panic otherwise)
    &&& nvars_fit(cones) && genpow_inputs_ok(cones)
    // well-formed CSC inputs (new never calls check_format)
    &&& csc_wf(P) && csc_wf(A)
    // documented panic otherwise ("Indirect and other solve strategies not yet supported.")
    &&& settings.direct_kkt_solver
    // scaling bounds as unit csc_math requires them of `equilibrate` (defaults 1e-4, 1e4)
    &&& 0real < settings.equilibrate_min_scaling.v() <= 1real && 1real <= settings.equilibrate_max_scaling.v()
}

impl DefaultSolver<F> {
// (A) consistent dimensions: the constructor returns (no panic: neither the documented ones nor `assert_eq!(cones.numel, data.m)`
//     nor an index / overflow) and hands back a solver on which `solve` may be called
//@fn file=src/solver/implementations/default/solver.rs in="impl<T> DefaultSolver<T>" name=new rules=R1,R6,R7t ret=r
//@contract
    requires
        // C04: consistent dimensions (otherwise: documented panic, extraction (B))
        dims_consistent(*P, q@, *A, b@, cones@),
        new_pre_other(*P, *A, cones@, settings),
    ensures
        // the precondition of `solve` (unit solve): timers present, iterate and saved iterate of equal dimensions
        r.timers is Some,
        r.variables.dims_spec() == r.prev_vars.dims_spec(),
        // C01 / C03: the report vectors have the USER's lengths (n, m, m), also when presolve has dropped rows
        r.solution.x@.len() == A.n, r.solution.z@.len() == A.m, r.solution.s@.len() == A.m,
        // the iterate, the two step vectors and the saved iterate have the INTERNAL dimensions (n, m_reduced)
        r.data.n == A.n, r.data.m <= A.m,
        r.variables.dims_spec() == (r.data.n as nat, r.data.m as nat, r.data.m as nat),
        r.step_lhs.dims_spec() == (r.data.n as nat, r.data.m as nat, r.data.m as nat),
        r.step_rhs.dims_spec() == (r.data.n as nat, r.data.m as nat, r.data.m as nat),
        r.prev_vars.dims_spec() == (r.data.n as nat, r.data.m as nat, r.data.m as nat),
        r.residuals.rx@.len() == r.data.n, r.residuals.rz@.len() == r.data.m,
        // the cones cover exactly the internal rows; the KKT system is built for (n, m); the data keep their shape under equilibration
        r.cones.numel == r.data.m,
        r.kktsystem.dim_n() == r.data.n, r.kktsystem.dim_m() == r.data.m,
        r.data.shape_ok(),
        // C09 / C03: the precondition of DefaultSolution::post_process (unit postprocess)
        shapes_ok(r.solution, r.variables, r.data),
        // the settings are stored as given; the report starts out Unsolved
        r.settings == settings,
        r.solution.status == SolverStatus::Unsolved,
//@before "let cones = CompositeCone"
        proof { broadcast use real_arith; }
//@end
}

// (B) the documented panic: whenever the constructor RETURNS, the dimensions were consistent -- with inconsistent dimensions it
//     does not produce a result.  Same text, extracted a second time against the other proved contract of _check_dimensions.
pub mod returns_view {
    use super::*;
    // _check_dimensions -- PROVED in unit postprocess, extraction (b) (rule R26: the asserts are a complete test)
    #[verifier::external_body]
    pub fn _check_dimensions(P: &CscMatrix<F>, q: &[F], A: &CscMatrix<F>, b: &[F], cone_types: &[SupportedConeT<F>])
        requires
            // the cone dimensions are summed in usize: ASSUMED not to wrap (a wrapped sum could equal m by accident)
            total_nvars(cone_types@) <= usize::MAX, nvars_fit(cone_types@),
        ensures dims_consistent(*P, q@, *A, b@, cone_types@),
    { unimplemented!() }
    impl DefaultSolver<F> {
//@fn file=src/solver/implementations/default/solver.rs in="impl<T> DefaultSolver<T>" name=new as=new_returns rules=R1,R6,R7t ret=r
//@contract
    requires
        total_nvars(cones@) <= usize::MAX,
        new_pre_other(*P, *A, cones@, settings),
    ensures
        // C04: "Inconsistent dimensions are rejected at construction (documented panic) rather than producing a result"
        dims_consistent(*P, q@, *A, b@, cones@),
        r.timers is Some,
        r.solution.x@.len() == A.n, r.solution.z@.len() == A.m, r.solution.s@.len() == A.m,
//@before "let cones = CompositeCone"
        proof { broadcast use real_arith; }
//@end
    }
}


// ================================================================== item 2: src/solver/core/cones/supportedcone.rs
// make_cone: every user-facing cone description becomes the internal cone object of the SAME family with the SAME number of
// rows (numel = nvars).  The constructors and `numel` methods of the zero, nonnegative, second-order and generalized power cones
// are the real ones; the exponential and power cone constructors (DenseMatrixSym3::zeros, array repeat) are stand-ins.
//@struct file=src/solver/core/cones/zerocone.rs name=ZeroCone
//@struct file=src/solver/core/cones/nonnegativecone.rs name=NonnegativeCone rules=R2
//@struct file=src/solver/core/cones/socone.rs name=SecondOrderConeSparseData
//@struct file=src/solver/core/cones/socone.rs name=SecondOrderCone rules=R2
//@struct file=src/solver/core/cones/expcone.rs name=ExponentialCone keep=grad,z
//@struct file=src/solver/core/cones/powcone.rs name=PowerCone rules=R2 keep=alpha,grad,z
// GenPowerConeData::new asserts `all alpha > 0` and `|1 - sum alpha| < eps * len / 2` ("The alpha terms must sum to 1": documented
// panic) and computes `alpha.len() + dim2`: opaque stand-in, the two assertions are the uninterpreted predicate genpow_alpha_ok
#[verifier::external_body]
#[verifier::accept_recursive_types(T)]
pub struct GenPowerConeData<T> { _p: Option<T> }
pub uninterp spec fn genpow_alpha_ok(a: Seq<F>) -> bool;
impl GenPowerConeData<F> {
    #[verifier::external_body]
    pub fn new(alpha: &[F], dim2: usize) -> (r: Self)
        requires genpow_alpha_ok(alpha@), alpha@.len() + dim2 <= usize::MAX,
    { unimplemented!() }
}
//@struct file=src/solver/core/cones/genpowcone.rs name=GenPowerCone rules=R2
//@enum file=src/solver/core/cones/supportedcone.rs name=SupportedCone rules=R12
//@enum file=src/solver/core/cones/supportedcone.rs name=SupportedConeTag rules=R12 derive="PartialEq, Eq, Clone, Copy, Structural"

impl ZeroCone<F> {
//@fn file=src/solver/core/cones/zerocone.rs in="impl<T> ZeroCone<T>" name=new rules=R1 ret=r
//@contract
    ensures r.dim == dim,
//@end
//@fn file=src/solver/core/cones/zerocone.rs in="Cone<T> for ZeroCone<T>" name=numel rules=R1 ret=r
//@contract
    ensures r == self.dim,
//@end
}
impl NonnegativeCone<F> {
//@fn file=src/solver/core/cones/nonnegativecone.rs in="impl<T> NonnegativeCone<T>" name=new rules=R1,R2 ret=r
//@contract
    ensures r.dim == dim, r.w@.len() == dim, r.lambda@.len() == dim,
//@end
//@fn file=src/solver/core/cones/nonnegativecone.rs in="Cone<T> for NonnegativeCone<T>" name=numel rules=R1 ret=r
//@contract
    ensures r == self.dim,
//@end
}
impl SecondOrderConeSparseData<F> {
//@fn file=src/solver/core/cones/socone.rs in="impl<T> SecondOrderConeSparseData<T>" name=new rules=R1 ret=r
//@contract
    ensures r.u@.len() == dim, r.v@.len() == dim,
//@end
}
impl SecondOrderCone<F> {
//@fn file=src/solver/core/cones/socone.rs in="impl<T> SecondOrderCone<T>" name=new rules=R1,R2 ret=r
//@contract
    requires dim >= 2,        // `assert!(dim >= 2)`: a second-order cone of dimension 0 or 1 is never constructed (new_collapsed turns it into nothing / a nonnegative cone)
    ensures r.dim == dim, r.w@.len() == dim, r.lambda@.len() == dim,
        (r.sparse_data is Some) == (dim > 4),
//@end
//@fn file=src/solver/core/cones/socone.rs in="Cone<T> for SecondOrderCone<T>" name=numel rules=R1 ret=r
//@contract
    ensures r == self.dim,
//@end
}
impl ExponentialCone<F> {
    // stand-in (DenseMatrixSym3::zeros(), [T::zero(); 3]): total, by inspection
    #[verifier::external_body] pub fn new() -> Self { unimplemented!() }
//@fn file=src/solver/core/cones/expcone.rs in="Cone<T> for ExponentialCone<T>" name=numel rules=R1 ret=r
//@contract
    ensures r == 3,
//@end
}
impl PowerCone<F> {
    // stand-in (as above); the exponent is stored
    #[verifier::external_body] pub fn new(alpha: F) -> (r: Self) ensures r.alpha == alpha { unimplemented!() }
//@fn file=src/solver/core/cones/powcone.rs in="Cone<T> for PowerCone<T>" name=numel rules=R1 ret=r
//@contract
    ensures r == 3,
//@end
}
impl GenPowerCone<F> {
//@fn file=src/solver/core/cones/genpowcone.rs in="impl<T> GenPowerCone<T>" name=new rules=R1,R2 ret=r
//@contract
    requires genpow_alpha_ok(alpha@), alpha@.len() + dim2 <= usize::MAX,
    ensures r.alpha@ == alpha@, r.dim2 == dim2,
//@end
//@fn file=src/solver/core/cones/genpowcone.rs in="impl<T> GenPowerCone<T>" name=dim1 rules=R1,R2 ret=r
//@contract
    ensures r == self.alpha@.len(),
//@end
//@fn file=src/solver/core/cones/genpowcone.rs in="impl<T> GenPowerCone<T>" name=dim2 rules=R1,R2 ret=r
//@contract
    ensures r == self.dim2,
//@end
//@fn file=src/solver/core/cones/genpowcone.rs in="impl<T> GenPowerCone<T>" name=dim rules=R1,R2 ret=r
//@contract
    requires self.alpha@.len() + self.dim2 <= usize::MAX,
    ensures r == self.alpha@.len() + self.dim2,
//@end
//@fn file=src/solver/core/cones/genpowcone.rs in="Cone<T> for GenPowerCone<T>" name=numel rules=R1,R2 ret=r
//@contract
    requires self.alpha@.len() + self.dim2 <= usize::MAX,
    ensures r == self.alpha@.len() + self.dim2,
//@end
}
// what `#[enum_dispatch(Cone<T>)]` generates for SupportedCone (macro expansion, ASSUMED): `From<X> for SupportedCone` wraps X into
// the variant of its name; `Cone::numel` on the enum calls the member's `numel` (the contracts just above)
pub open spec fn sc_numel(c: SupportedCone<F>) -> nat {
    match c {
        SupportedCone::ZeroCone(x) => x.dim as nat,
        SupportedCone::NonnegativeCone(x) => x.dim as nat,
        SupportedCone::SecondOrderCone(x) => x.dim as nat,
        SupportedCone::ExponentialCone(_) => 3,
        SupportedCone::PowerCone(_) => 3,
        SupportedCone::GenPowerCone(x) => x.alpha@.len() + x.dim2 as nat,
    }
}
impl vstd::std_specs::convert::FromSpecImpl<ZeroCone<F>> for SupportedCone<F> {
    open spec fn obeys_from_spec() -> bool { true }
    open spec fn from_spec(c: ZeroCone<F>) -> SupportedCone<F> { SupportedCone::ZeroCone(c) }
}
impl From<ZeroCone<F>> for SupportedCone<F> { fn from(c: ZeroCone<F>) -> (r: SupportedCone<F>) { SupportedCone::ZeroCone(c) } }
impl vstd::std_specs::convert::FromSpecImpl<NonnegativeCone<F>> for SupportedCone<F> {
    open spec fn obeys_from_spec() -> bool { true }
    open spec fn from_spec(c: NonnegativeCone<F>) -> SupportedCone<F> { SupportedCone::NonnegativeCone(c) }
}
impl From<NonnegativeCone<F>> for SupportedCone<F> { fn from(c: NonnegativeCone<F>) -> (r: SupportedCone<F>) { SupportedCone::NonnegativeCone(c) } }
impl vstd::std_specs::convert::FromSpecImpl<SecondOrderCone<F>> for SupportedCone<F> {
    open spec fn obeys_from_spec() -> bool { true }
    open spec fn from_spec(c: SecondOrderCone<F>) -> SupportedCone<F> { SupportedCone::SecondOrderCone(c) }
}
impl From<SecondOrderCone<F>> for SupportedCone<F> { fn from(c: SecondOrderCone<F>) -> (r: SupportedCone<F>) { SupportedCone::SecondOrderCone(c) } }
impl vstd::std_specs::convert::FromSpecImpl<ExponentialCone<F>> for SupportedCone<F> {
    open spec fn obeys_from_spec() -> bool { true }
    open spec fn from_spec(c: ExponentialCone<F>) -> SupportedCone<F> { SupportedCone::ExponentialCone(c) }
}
impl From<ExponentialCone<F>> for SupportedCone<F> { fn from(c: ExponentialCone<F>) -> (r: SupportedCone<F>) { SupportedCone::ExponentialCone(c) } }
impl vstd::std_specs::convert::FromSpecImpl<PowerCone<F>> for SupportedCone<F> {
    open spec fn obeys_from_spec() -> bool { true }
    open spec fn from_spec(c: PowerCone<F>) -> SupportedCone<F> { SupportedCone::PowerCone(c) }
}
impl From<PowerCone<F>> for SupportedCone<F> { fn from(c: PowerCone<F>) -> (r: SupportedCone<F>) { SupportedCone::PowerCone(c) } }
impl vstd::std_specs::convert::FromSpecImpl<GenPowerCone<F>> for SupportedCone<F> {
    open spec fn obeys_from_spec() -> bool { true }
    open spec fn from_spec(c: GenPowerCone<F>) -> SupportedCone<F> { SupportedCone::GenPowerCone(c) }
}
impl From<GenPowerCone<F>> for SupportedCone<F> { fn from(c: GenPowerCone<F>) -> (r: SupportedCone<F>) { SupportedCone::GenPowerCone(c) } }

// which internal family a user-facing description belongs to
pub open spec fn tag_of_t(c: SupportedConeT<F>) -> SupportedConeTag {
    match c {
        SupportedConeT::ZeroConeT(_) => SupportedConeTag::ZeroCone,
        SupportedConeT::NonnegativeConeT(_) => SupportedConeTag::NonnegativeCone,
        SupportedConeT::SecondOrderConeT(_) => SupportedConeTag::SecondOrderCone,
        SupportedConeT::ExponentialConeT() => SupportedConeTag::ExponentialCone,
        SupportedConeT::PowerConeT(_) => SupportedConeTag::PowerCone,
        SupportedConeT::GenPowerConeT(_, _) => SupportedConeTag::GenPowerCone,
    }
}
pub open spec fn tag_of(c: SupportedCone<F>) -> SupportedConeTag {
    match c {
        SupportedCone::ZeroCone(_) => SupportedConeTag::ZeroCone,
        SupportedCone::NonnegativeCone(_) => SupportedConeTag::NonnegativeCone,
        SupportedCone::SecondOrderCone(_) => SupportedConeTag::SecondOrderCone,
        SupportedCone::ExponentialCone(_) => SupportedConeTag::ExponentialCone,
        SupportedCone::PowerCone(_) => SupportedConeTag::PowerCone,
        SupportedCone::GenPowerCone(_) => SupportedConeTag::GenPowerCone,
    }
}
// the documented / asserted conditions under which the internal cone object can be built
pub open spec fn cone_constructible(c: SupportedConeT<F>) -> bool {
    match c {
        SupportedConeT::SecondOrderConeT(d) => d >= 2,
        SupportedConeT::GenPowerConeT(a, d2) => genpow_alpha_ok(a@) && a@.len() + d2 <= usize::MAX,
        _ => true,
    }
}
//@fn file=src/solver/core/cones/supportedcone.rs name=make_cone rules=R1,R2,R12 ret=r
//@contract
    requires cone_constructible(*cone),
    ensures
        // same family, same number of rows; the power cone keeps its exponent, the generalized power cone its exponents and dim2
        tag_of(r) == tag_of_t(*cone),
        sc_numel(r) == nvars_spec(*cone),
        (r matches SupportedCone::PowerCone(p) ==> cone matches SupportedConeT::PowerConeT(a) && p.alpha == a),
        (r matches SupportedCone::GenPowerCone(g) ==> cone matches SupportedConeT::GenPowerConeT(a, d2) && g.alpha@.len() == a@.len() && g.dim2 == d2),
//@end

pub trait SupportedConeAsTag { fn as_tag(&self) -> SupportedConeTag; }
impl SupportedConeAsTag for SupportedConeT<F> {
//@fn file=src/solver/core/cones/supportedcone.rs in="impl<T> SupportedConeAsTag for SupportedConeT<T>" name=as_tag rules=R1,R12 ret=r
//@contract
    ensures r == tag_of_t(*self),
//@end
}
impl SupportedConeAsTag for SupportedCone<F> {
//@fn file=src/solver/core/cones/supportedcone.rs in="SupportedConeAsTag for SupportedCone<T>" name=as_tag rules=R1,R12 ret=r
//@contract
    ensures r == tag_of(*self),
//@end
}


// ---- CompositeCone::new, FIRST half (statement slice `new_head`; the second half is `new_tail` in unit composite): the internal
// cone list is make_cone mapped over (a copy of) the descriptions, `numel` is the sum of the members' sizes = the sum of nvars,
// `_is_symmetric` the AND of the members' flags.  DROPPED from the slice: the two statements on the HashMap `type_counts`
// (`HashMap::new()`, `*type_counts.entry(cone.as_tag()).or_insert(0) += 1`: std HashMap, outside Verus; only printing reads it).
// `#[derive(Clone)]` on SupportedConeT, written out (macro expansion, ASSUMED to be this; the body is verified against cone_same)
pub open spec fn cone_same(a: SupportedConeT<F>, b: SupportedConeT<F>) -> bool {
    match a {
        SupportedConeT::ZeroConeT(d) => b == SupportedConeT::<F>::ZeroConeT(d),
        SupportedConeT::NonnegativeConeT(d) => b == SupportedConeT::<F>::NonnegativeConeT(d),
        SupportedConeT::SecondOrderConeT(d) => b == SupportedConeT::<F>::SecondOrderConeT(d),
        SupportedConeT::ExponentialConeT() => b == SupportedConeT::<F>::ExponentialConeT(),
        SupportedConeT::PowerConeT(al) => b == SupportedConeT::<F>::PowerConeT(al),
        SupportedConeT::GenPowerConeT(al, d2) => b matches SupportedConeT::GenPowerConeT(bl, e2) && bl@ == al@ && e2 == d2,
    }
}
impl Clone for SupportedConeT<F> {
    fn clone(&self) -> (r: Self)
        ensures cone_same(*self, r),
    {
        match self {
            SupportedConeT::ZeroConeT(d) => SupportedConeT::ZeroConeT(*d),
            SupportedConeT::NonnegativeConeT(d) => SupportedConeT::NonnegativeConeT(*d),
            SupportedConeT::SecondOrderConeT(d) => SupportedConeT::SecondOrderConeT(*d),
            SupportedConeT::ExponentialConeT() => SupportedConeT::ExponentialConeT(),
            SupportedConeT::PowerConeT(al) => SupportedConeT::PowerConeT(*al),
            SupportedConeT::GenPowerConeT(al, d2) => { let c = al.clone(); assert(c@ =~= al@); SupportedConeT::GenPowerConeT(c, *d2) }
        }
    }
}
// <[T]>::to_vec clones element by element (std)
pub assume_specification<T: Clone> [<[T]>::to_vec] (s: &[T]) -> (r: Vec<T>)
    ensures r@.len() == s@.len(), forall|i: int| 0 <= i < s@.len() ==> cloned(#[trigger] s@[i], r@[i]);
pub proof fn lemma_cloned_cone(a: SupportedConeT<F>, b: SupportedConeT<F>)
    requires cloned(a, b),
    ensures cone_same(a, b), nvars_spec(b) == nvars_spec(a), tag_of_t(b) == tag_of_t(a), cone_constructible(a) ==> cone_constructible(b),
{ }
pub open spec fn sc_sym(c: SupportedCone<F>) -> bool {
    c is ZeroCone || c is NonnegativeCone || c is SecondOrderCone
}
impl ZeroCone<F> {
//@fn file=src/solver/core/cones/zerocone.rs in="Cone<T> for ZeroCone<T>" name=is_symmetric rules=R1 ret=r
//@contract
    ensures r,
//@end
}
impl NonnegativeCone<F> {
//@fn file=src/solver/core/cones/nonnegativecone.rs in="Cone<T> for NonnegativeCone<T>" name=is_symmetric rules=R1 ret=r
//@contract
    ensures r,
//@end
}
impl SecondOrderCone<F> {
//@fn file=src/solver/core/cones/socone.rs in="Cone<T> for SecondOrderCone<T>" name=is_symmetric rules=R1 ret=r
//@contract
    ensures r,
//@end
}
impl ExponentialCone<F> {
//@fn file=src/solver/core/cones/expcone.rs in="Cone<T> for ExponentialCone<T>" name=is_symmetric rules=R1 ret=r
//@contract
    ensures !r,
//@end
}
impl PowerCone<F> {
//@fn file=src/solver/core/cones/powcone.rs in="Cone<T> for PowerCone<T>" name=is_symmetric rules=R1 ret=r
//@contract
    ensures !r,
//@end
}
impl GenPowerCone<F> {
//@fn file=src/solver/core/cones/genpowcone.rs in="Cone<T> for GenPowerCone<T>" name=is_symmetric rules=R1 ret=r
//@contract
    ensures !r,
//@end
}
// `impl Cone<T> for SupportedCone<T>` as generated by #[enum_dispatch] (macro expansion, ASSUMED to be this: every method matches on
// the variant and calls the member's method of the same name); bodies verified against the members' contracts above
impl SupportedCone<F> {
    pub fn numel(&self) -> (r: usize)
        requires sc_numel(*self) <= usize::MAX,
        ensures r == sc_numel(*self),
    {
        match self {
            SupportedCone::ZeroCone(inner) => inner.numel(),
            SupportedCone::NonnegativeCone(inner) => inner.numel(),
            SupportedCone::SecondOrderCone(inner) => inner.numel(),
            SupportedCone::ExponentialCone(inner) => inner.numel(),
            SupportedCone::PowerCone(inner) => inner.numel(),
            SupportedCone::GenPowerCone(inner) => inner.numel(),
        }
    }
    pub fn is_symmetric(&self) -> (r: bool)
        ensures r == sc_sym(*self),
    {
        match self {
            SupportedCone::ZeroCone(inner) => inner.is_symmetric(),
            SupportedCone::NonnegativeCone(inner) => inner.is_symmetric(),
            SupportedCone::SecondOrderCone(inner) => inner.is_symmetric(),
            SupportedCone::ExponentialCone(inner) => inner.is_symmetric(),
            SupportedCone::PowerCone(inner) => inner.is_symmetric(),
            SupportedCone::GenPowerCone(inner) => inner.is_symmetric(),
        }
    }
}
// sum of the sizes of the first k internal cones (= `offs` of unit composite)
pub open spec fn sc_total(cones: Seq<SupportedCone<F>>, k: int) -> nat decreases k {
    if k <= 0 { 0 } else { sc_total(cones, k - 1) + sc_numel(cones[k - 1]) }
}
// internal cone i was made from description i
pub open spec fn made_from(cones: Seq<SupportedCone<F>>, types: Seq<SupportedConeT<F>>, k: int) -> bool {
    forall|i: int| 0 <= i < k ==> tag_of(#[trigger] cones[i]) == tag_of_t(types[i]) && sc_numel(cones[i]) == nvars_spec(types[i])
}
pub open spec fn all_sym(cones: Seq<SupportedCone<F>>, k: int) -> bool { forall|i: int| 0 <= i < k ==> sc_sym(#[trigger] cones[i]) }
pub open spec fn genpow_inputs_ok(cones: Seq<SupportedConeT<F>>) -> bool {
    forall|k: int| 0 <= k < cones.len() ==> match #[trigger] cones[k] { SupportedConeT::GenPowerConeT(a, _) => genpow_alpha_ok(a@), _ => true }
}
pub open spec fn all_constructible(types: Seq<SupportedConeT<F>>) -> bool {
    forall|k: int| 0 <= k < types.len() ==> cone_constructible(#[trigger] types[k])
}
pub proof fn lemma_sc_total(cones: Seq<SupportedCone<F>>, types: Seq<SupportedConeT<F>>, k: int)
    requires 0 <= k <= cones.len(), k <= types.len(), made_from(cones, types, k),
    ensures sc_total(cones, k) == cone_start(types, k),
    decreases k,
{ if k > 0 { lemma_sc_total(cones, types, k - 1); assert(sc_numel(cones[k - 1]) == nvars_spec(types[k - 1])); } }
pub proof fn lemma_cone_start_same(t0: Seq<SupportedConeT<F>>, t1: Seq<SupportedConeT<F>>, k: int)
    requires 0 <= k <= t0.len(), t0.len() == t1.len(), forall|i: int| 0 <= i < t0.len() ==> nvars_spec(#[trigger] t1[i]) == nvars_spec(t0[i]),
    ensures cone_start(t1, k) == cone_start(t0, k),
    decreases k,
{ if k > 0 { lemma_cone_start_same(t0, t1, k - 1); assert(nvars_spec(t1[k - 1]) == nvars_spec(t0[k - 1])); } }

//@fn file=src/solver/core/cones/compositecone.rs in="impl<T> CompositeCone<T>" name=new from="let types = types.to_vec()" to="let numel =" header="fn new_head<T: FloatT>(types: &[SupportedConeT<T>])" as=new_head rules=R1,R30,drop:HashMap::new(),drop:type_counts.entry(
//@contract
    requires total_nvars(types@) <= usize::MAX, all_constructible(types@),
//@pre
        let ghost types0 = types@;
//@before "let ncones"
        proof {
            assert forall|i: int| 0 <= i < types0.len() implies nvars_spec(#[trigger] types@[i]) == nvars_spec(types0[i]) && tag_of_t(types@[i]) == tag_of_t(types0[i]) && cone_constructible(types@[i]) by {
                lemma_cloned_cone(types0[i], types@[i]);
            }
            lemma_cone_start_same(types0, types@, types0.len() as int);
        }
//@iter 1
it1
//@loop 1
            invariant
                it1.seq().len() == types@.len(), forall|i: int| 0 <= i < types@.len() ==> *(#[trigger] it1.seq()[i]) == types@[i],
                forall|i: int| 0 <= i < types@.len() ==> cone_constructible(#[trigger] types@[i]),
                cones@.len() == it1.index@,
                made_from(cones@, types@, it1.index@ as int),
                _is_symmetric == all_sym(cones@, it1.index@ as int),
//@body_start 1
            let ghost cones_before = cones@;
            let ghost sym_before = _is_symmetric;
//@body_end 1
            proof {
                let k = it1.index@ as int;
                assert(cones@ == cones_before.push(cone));
                assert forall|i: int| 0 <= i < k + 1 implies tag_of(#[trigger] cones@[i]) == tag_of_t(types@[i]) && sc_numel(cones@[i]) == nvars_spec(types@[i]) by {
                    if i < k { assert(cones@[i] == cones_before[i]); }
                }
                if sym_before && sc_sym(cone) {
                    assert forall|i: int| 0 <= i < k + 1 implies sc_sym(#[trigger] cones@[i]) by { if i < k { assert(cones@[i] == cones_before[i]); } }
                } else if !sym_before {
                    let w = choose|i: int| 0 <= i < k && !sc_sym(#[trigger] cones_before[i]);
                    assert(cones@[w] == cones_before[w]);
                } else {
                    assert(cones@[k] == cone);
                }
            }
//@iter 2
it2
//@loop 2
            invariant
                it2.seq().len() == cones@.len(), forall|i: int| 0 <= i < cones@.len() ==> *(#[trigger] it2.seq()[i]) == cones@[i],
                cones@.len() == types@.len(), made_from(cones@, types@, cones@.len() as int),
                cone_start(types@, types@.len() as int) <= usize::MAX,
                r30_s1 == sc_total(cones@, it2.index@ as int),
//@body_start 2
            proof {
                let k = it2.index@ as int;
                lemma_sc_total(cones@, types@, k + 1);
                lemma_cone_start_mono(types@, k + 1, types@.len() as int);
            }
//@after "let numel"
        proof {
            lemma_sc_total(cones@, types@, cones@.len() as int);
            // what the struct literal then stores: one internal cone per description, of the same family and size; numel = the sum of nvars
            assert(cones@.len() == types0.len());
            assert(made_from(cones@, types@, types0.len() as int));
            assert(numel == total_nvars(types0));
            assert(_is_symmetric == all_sym(cones@, cones@.len() as int));
        }
//@end

// ---- rng_cones_iter / RangeSupportedConesIterator::next: the row ranges of a list of cone descriptions, one after the other
pub proof fn lemma_cone_start_mono(cones: Seq<SupportedConeT<F>>, a: int, b: int)
    requires 0 <= a <= b <= cones.len(),
    ensures cone_start(cones, a) <= cone_start(cones, b),
    decreases b - a,
{
    if a < b { lemma_cone_start_mono(cones, a, b - 1); }
}
// PARTITION: the ranges cone_start(k) .. cone_start(k + 1) are contiguous from 0, and every row below the total lies in one of them
pub proof fn lemma_cone_partition(cones: Seq<SupportedConeT<F>>, i: int, n: int)
    requires 0 <= n <= cones.len(), 0 <= i < cone_start(cones, n),
    ensures exists|k: int| 0 <= k < n && cone_start(cones, k) <= i < #[trigger] cone_start(cones, k + 1),
    decreases n,
{
    if n > 0 {
        if i >= cone_start(cones, n - 1) { assert(cone_start(cones, n - 1) <= i < cone_start(cones, (n - 1) + 1)); }
        else {
            lemma_cone_partition(cones, i, n - 1);
            let k = choose|k: int| 0 <= k < n - 1 && cone_start(cones, k) <= i < #[trigger] cone_start(cones, k + 1);
            assert(0 <= k < n && cone_start(cones, k) <= i < cone_start(cones, k + 1));
        }
    }
}
impl SupportedConeT<F> {
// (second extraction; the first is in unit postprocess)
//@fn file=src/solver/core/cones/supportedcone.rs in="impl<T> SupportedConeT<T>" name=nvars rules=R12,R2,R1 ret=r
//@contract
    requires nvars_spec(*self) <= usize::MAX,
    ensures r == nvars_spec(*self),
//@end
}
pub mod cone_ranges {
    use super::*;
    use std::ops::Range;
//@struct file=src/solver/core/cones/supportedcone.rs name=RangeSupportedConesIterator
    // local stand-in for std's `Iterator` (declaration only): an impl of a trait cannot add a `requires` in Verus, and the
    // overflow-freedom of `self.start + cone.nvars()` needs one.  `wf` = the state reached from rng_cones_iter by calls of next
    pub trait Iterator {
        type Item;
        spec fn wf(&self) -> bool;
        fn next(&mut self) -> (r: Option<Self::Item>)
            requires old(self).wf(),
            ensures final(self).wf();
    }
    impl<'a> Iterator for RangeSupportedConesIterator<'a, F> {
        type Item = std::ops::Range<usize>;
        open spec fn wf(&self) -> bool {
            &&& self.index <= self.cones@.len() && self.start == cone_start(self.cones@, self.index as int)
            &&& total_nvars(self.cones@) <= usize::MAX && nvars_fit(self.cones@)
        }
//@fn file=src/solver/core/cones/supportedcone.rs in="Iterator for RangeSupportedConesIterator" name=next rules=R1,R12 ret=r
//@contract
    ensures
        final(self).cones@ == old(self).cones@,
        // the k-th call yields cone_start(k) .. cone_start(k + 1): it starts where the previous range ended (0 for the first)
        // and has nvars(cones[k]) entries
        old(self).index < old(self).cones@.len() ==> final(self).index == old(self).index + 1 && r is Some
            && r->Some_0.start == cone_start(old(self).cones@, old(self).index as int)
            && r->Some_0.end == cone_start(old(self).cones@, old(self).index + 1)
            && r->Some_0.end - r->Some_0.start == nvars_spec(old(self).cones@[old(self).index as int]),
        // after the last cone: None, and the iterator stays where it is
        old(self).index >= old(self).cones@.len() ==> r is None && final(self).index == old(self).index && final(self).start == old(self).start,
//@pre
        proof {
            if self.index < self.cones@.len() { lemma_cone_start_mono(self.cones@, self.index as int + 1, self.cones@.len() as int); }
        }
//@end
    }
    pub trait ConeRanges<'a> { fn rng_cones_iter(&'a self) -> RangeSupportedConesIterator<'a, F>; }
    impl<'a> ConeRanges<'a> for [SupportedConeT<F>] {
//@fn file=src/solver/core/cones/supportedcone.rs in="ConeRanges<'a, T> for [SupportedConeT<T>]" name=rng_cones_iter rules=R1,R12 ret=r
//@contract
    ensures r.cones@ == self@, r.index == 0, r.start == 0,
        total_nvars(self@) <= usize::MAX && nvars_fit(self@) ==> r.wf(),
//@end
    }
}


// ================================================================== item 3: src/solver/implementations/default/settings.rs
// Which strings are accepted.  Verus reads a string-literal pattern as equality of `str` values, so the contracts say
// `s == "auto"` (not equality of the character sequences: vstd has no extensionality for str).  Rule `fmtmsg` (new, additive)
// replaces `format!(..)` by `fmt_message()`: the message text is outside the contract.
// cfg: `"faer"` needs feature faer-sparse, validate_chordal_decomposition_merge_method and its two call sites need feature sdp:
// both are off in the default feature set and dropped by R12 exactly as rustc drops them.
#[verifier::external_body]
pub fn fmt_message() -> (r: String) { unimplemented!() }
// ASSUMED (std: `str` equality is equality of contents; vstd only has the other direction): two strs with the same characters are equal
#[verifier::external_body]
pub proof fn ax_str_ext(a: &str, b: &str) ensures a@ == b@ ==> a == b { }
pub open spec fn direct_solve_method_ok(s: Seq<char>) -> bool { s == "auto"@ || s == "qdldl"@ }
//@fn file=src/solver/implementations/default/settings.rs name=validate_direct_solve_method rules=R12,fmtmsg ret=r
//@contract
    ensures r is Ok <==> direct_solve_method_ok(direct_solve_method@),
//@pre
    proof { ax_str_ext(direct_solve_method, "auto"); ax_str_ext(direct_solve_method, "qdldl"); }
//@end
impl DefaultSettings<F> {
//@fn file=src/solver/implementations/default/settings.rs in="impl<T> DefaultSettings<T>" name=validate rules=R1,R12 ret=r
//@contract
    ensures r is Ok <==> direct_solve_method_ok(self.direct_solve_method@),
//@end
//@fn file=src/solver/implementations/default/settings.rs in="Settings<T> for DefaultSettings<T>" name=core_mut rules=R1 ret=r
//@contract
    ensures *r == *old(self), *final(r) == *final(self),
//@end
}
// the struct that #[derive(Builder)] (derive_builder) generates: every field wrapped in Option (macro expansion, ASSUMED; only the
// field read by `validate` is kept)
pub struct DefaultSettingsBuilder<T> { pub direct_solve_method: Option<String>, pub _p: Option<T> }
impl DefaultSettingsBuilder<F> {
//@fn file=src/solver/implementations/default/settings.rs in="impl<T> DefaultSettingsBuilder<T>" name=validate rules=R1,R12 ret=r
//@contract
    ensures
        // an unset method is accepted (the builder then fills in the default "auto")
        self.direct_solve_method is None ==> r is Ok,
        self.direct_solve_method matches Some(m) ==> (r is Ok <==> direct_solve_method_ok(m@)),
//@end
}

} // verus!
fn main() {}
