// unit `qdldl_factor` : symbolic + numeric LDL' factorisation of the engine (C12) -- `_etree` (second, stronger contract than the one in
// qdldl_kernels), `_factor_inner`, `QDLDLWorkspace::new`, `_factor`; all four extracted from src/qdldl/qdldl.rs, unbounded (Verus).
//
// PROVED
//  _etree         memory safety + termination as before, and: parents are later columns (etree_wf); Lnz[c] is EXACTLY the number of rows j
//                 whose elimination path (from an off-diagonal entry of column j of A, along the tree just computed, staying below j) passes
//                 through c (lnz_exact / cnt) -- i.e. the column counts of L for the spec `in_v` below.
//  _factor_inner  from  triu_o (= triu_wf, folded) + etree_wf + lnz_covers (Lnz >= cnt; what _etree establishes, with equality) + the array sizes of the
//                 call sites (Lp n+1, Li/Lx >= sum Lnz, D/Dinv/bwork/fwork/Dsigns n, iwork 3n), and NO assumption on empty columns:
//                 * memory safety of every access: all indexings, the slice ranges Lx[f..l] / Li[f..l] (rule zipidx keeps their bounds check as an
//                   assert!), split_at_mut / copy_from_slice sizes, and the four `get_unchecked(_mut)` sites (rule R10: y_vals[Lij], Dinv[cidx],
//                   Lx[tmp_idx], D[k]) -- in particular Lij < n because every slot Lp[c] .. next_colspace[c] holds a row r with c < r < k;
//                 * no arithmetic overflow (cumsum of Lnz, counters, next_colspace[cidx] += 1, nnz_e / nnz_y);
//                 * termination of the three while loops (the tree walk climbs: parents are later columns);
//                 * y_idx / elim_buffer never overflow: the marked nodes are pairwise distinct nodes < k (pigeonhole, lemma_room);
//                 * result: Ok(count <= n) or Err(ZeroPivot), the latter only for a numeric factorisation; regularize_count <= n;
//                 * Lp = cumsum(Lnz) (lp_ok); every fill pointer stays inside its column (cols_ok); the filled part is strictly lower triangular
//                   with rows < n (filled_ok); on Ok column c holds exactly cnt(c, n) entries (filled_cnt: marking is sound AND complete);
//                   with the exact counts of _etree every column is then full and L satisfies l_wf and l_strict (l_complete) -- what the triangular
//                   solves of unit qdldl_kernels require for their unchecked accesses, with no assumption on L's previous contents;
//                 * NUMERIC run returning Ok(count) (opaque floats, pure data flow): every pivot passed the zero test and Dinv[k] == f_recip(D[k])
//                   (pivots_ok); count == number of k with D[k] > 0 (pos_cnt); there is `pre` (the pivots before the regularisation step, kept as a
//                   ghost history in the column loop) with D[k] == delta*sign_k if regularize_enable && pre[k]*sign_k < eps, else D[k] == pre[k],
//                   sign_k = from_i8(Dsigns[k]), and *regularize_count == number of perturbed k (reg_ok / reg_cnt); D[j], j < k, is not touched by column k;
//                   LOGICAL run: always Ok(0), regularize_count 0, Lx / Dinv untouched;
//                 * frame: a row index of L is a fresh row < n or unchanged (so l_wf holds also after Err if it held before, l_wf_if_rows_ok);
//                   a logical factorisation leaves Lx and Dinv alone; n == 0 changes nothing.
//  QDLDLWorkspace::new   allocates iwork 3n / bwork n / fwork n, runs _etree on triuA's own pattern; the result satisfies ws_ok (never Err).
//  _factor        hands triuA / Lnz / etree / the work arrays of the workspace unchanged to _factor_inner (its precondition is discharged from ws_ok);
//                 keeps ws_ok and everything static in the workspace (fit for the next refactor); Ok only if _factor_inner returned Ok, then L is l_complete.
//                 exposes the numeric facts above for !logical (positive_inertia = pos_cnt, regularize_count = reg_cnt) and, for logical, Ok with
//                 L.nzval / Dinv all f_one() and both counters 0 -- so a caller's contract can tell the two modes apart.
// NOT PROVED here: L D L' = A (the VALUES of the pivots `pre` and of Lx): floats are uninterpreted symbols.
//
// ASSUMED (hand written, trusted):
//  prelude/float_opaque.rs (F = the crate's T; every operation an uninterpreted symbol), prelude/std_assumed.rs (<[T]>::fill);
//  F::from_i8(a) returns Some(f_from_i8(a)), f_from_i8 uninterpreted (num_traits FromPrimitive on a float never fails)                               -- external_body, below;
//  axiom_usize_add_assign_ref: `usize += &usize` is `usize += *rhs` with the overflow panic (core's forward_ref_op_assign!) -- external_body, below
//    (Verus has no spec for AddAssign<&usize>; used for `acc += Lnz` in the cumsum loop, whose overflow check is thereby kept as an obligation).
// Verifier settings that matter: `#[verifier::loop_isolation(false)]` on the column loop of _factor_inner ONLY (inserted by //@before_loop 2):
//  the `return Err(..)` inside that loop has to know how y_markers / y_idx / elim_buffer / next_colspace / y_vals (a move and two split_at_mut made
//  before the loop) make up the final bwork / iwork / fwork; an isolated loop body cannot express that (the parameter iwork is shadowed).
//  All inner loops are isolated as usual.  triu_wf, l_wf/l_strict are used FOLDED (opaque triu_o, l_complete, l_wf_if_rows_ok: same definitions,
//  revealed by the lemmas next to them) because their two-variable monotonicity clauses cost 10^5 instantiations inside the big loops.
use vstd::prelude::*;
use vstd::set_lib::*;
verus! {
//@include prelude/float_opaque.rs
//@include prelude/std_assumed.rs
//@enum file=src/qdldl/qdldl.rs name=QDLDLError
//@const file=src/qdldl/qdldl.rs name=QDLDL_UNKNOWN
//@const file=src/qdldl/qdldl.rs name=QDLDL_USED
//@const file=src/qdldl/qdldl.rs name=QDLDL_UNUSED

// upper-triangular n x n pattern in CSC form (what check_structure / permute_symmetric hand to the engine) -- as in qdldl_kernels
pub open spec fn triu_wf(n: usize, ap: Seq<usize>, ai: Seq<usize>) -> bool {
    &&& ap.len() == n + 1
    &&& ap[0] == 0
    &&& ap[n as int] == ai.len()
    &&& forall|c: int, d: int| 0 <= c <= d <= n ==> ap[c] <= ap[d]
    &&& forall|c: int, k: int| #![trigger ap[c], ai[k]] 0 <= c < n && ap[c] <= k < ap[c + 1] ==> ai[k] <= c
}
pub open spec fn range_is(sq: Seq<usize>) -> bool { forall|k: int| 0 <= k < sq.len() ==> #[trigger] sq[k] == k }
// the same predicate, kept folded inside the loops (its two-variable monotonicity clause is expensive to carry around);
// the facts about one column are taken out by lemma_triu_col
#[verifier::opaque]
pub open spec fn triu_o(n: usize, ap: Seq<usize>, ai: Seq<usize>) -> bool { triu_wf(n, ap, ai) }
pub proof fn lemma_triu_hide(n: usize, ap: Seq<usize>, ai: Seq<usize>)
    requires triu_wf(n, ap, ai),
    ensures triu_o(n, ap, ai),
{ reveal(triu_o); }
pub proof fn lemma_triu_col(n: usize, ap: Seq<usize>, ai: Seq<usize>, k: int)
    requires triu_o(n, ap, ai), 0 <= k < n,
    ensures ap.len() == n + 1, ap[k] <= ap[k + 1] <= ai.len(), forall|p: int| ap[k] <= p < ap[k + 1] ==> #[trigger] ai[p] <= k,
{
    reveal(triu_o);
    assert(ap[k] <= ap[k + 1]);
    assert(ap[k + 1] <= ap[n as int]);
}

// ------------------------------------------------------------------ the symbolic factorisation, as a specification
// c is reached from node i by following parent links while staying below j
pub open spec fn on_path(etree: Seq<usize>, j: int, i: int, c: int) -> bool
    decreases j - i
{
    0 <= i < j && i < etree.len() && (c == i || (i < etree[i] < j && on_path(etree, j, etree[i] as int, c)))
}
// entry p of A (in column j, strictly above the diagonal) puts an entry into column c of row j of L
pub open spec fn in_v_at(ap: Seq<usize>, ai: Seq<usize>, etree: Seq<usize>, j: int, c: int, p: int) -> bool {
    ap[j] <= p < ap[j + 1] && ai[p] < j && on_path(etree, j, ai[p] as int, c)
}
// row j of L has an entry in column c
pub open spec fn in_v(ap: Seq<usize>, ai: Seq<usize>, etree: Seq<usize>, j: int, c: int) -> bool {
    exists|p: int| #[trigger] in_v_at(ap, ai, etree, j, c, p)
}
// number of entries of column c of L in the rows < k
pub open spec fn cnt(ap: Seq<usize>, ai: Seq<usize>, etree: Seq<usize>, c: int, k: int) -> int
    decreases k
{
    if k <= 0 { 0 } else { cnt(ap, ai, etree, c, k - 1) + (if in_v(ap, ai, etree, k - 1, c) { 1int } else { 0int }) }
}
// two parent arrays that agree on every link that ends below k
pub open spec fn same_below(e1: Seq<usize>, e2: Seq<usize>, k: int) -> bool {
    &&& e1.len() == e2.len()
    &&& forall|x: int| #![trigger e1[x]] #![trigger e2[x]] 0 <= x < e1.len() ==> ((e1[x] < k || e2[x] < k) ==> e1[x] == e2[x])
}
pub proof fn lemma_on_path_stable(e1: Seq<usize>, e2: Seq<usize>, j: int, i: int, c: int)
    requires same_below(e1, e2, j),
    ensures on_path(e1, j, i, c) == on_path(e2, j, i, c),
    decreases j - i,
{
    if 0 <= i < j && i < e1.len() {
        assert((e1[i] < j || e2[i] < j) ==> e1[i] == e2[i]);
        if i < e1[i] < j { lemma_on_path_stable(e1, e2, j, e1[i] as int, c); }
    }
}
pub proof fn lemma_in_v_stable(ap: Seq<usize>, ai: Seq<usize>, e1: Seq<usize>, e2: Seq<usize>, j: int, c: int)
    requires same_below(e1, e2, j),
    ensures in_v(ap, ai, e1, j, c) == in_v(ap, ai, e2, j, c),
{
    if in_v(ap, ai, e1, j, c) {
        let p = choose|p: int| #[trigger] in_v_at(ap, ai, e1, j, c, p);
        lemma_on_path_stable(e1, e2, j, ai[p] as int, c);
        assert(in_v_at(ap, ai, e2, j, c, p));
    }
    if in_v(ap, ai, e2, j, c) {
        let p = choose|p: int| #[trigger] in_v_at(ap, ai, e2, j, c, p);
        lemma_on_path_stable(e1, e2, j, ai[p] as int, c);
        assert(in_v_at(ap, ai, e1, j, c, p));
    }
}
pub proof fn lemma_cnt_stable(ap: Seq<usize>, ai: Seq<usize>, e1: Seq<usize>, e2: Seq<usize>, c: int, k: int)
    requires same_below(e1, e2, k),
    ensures cnt(ap, ai, e1, c, k) == cnt(ap, ai, e2, c, k),
    decreases k,
{
    if k > 0 {
        assert(same_below(e1, e2, k - 1));
        lemma_cnt_stable(ap, ai, e1, e2, c, k - 1);
        lemma_in_v_stable(ap, ai, e1, e2, k - 1, c);
    }
}
pub proof fn lemma_cnt_mono(ap: Seq<usize>, ai: Seq<usize>, etree: Seq<usize>, c: int, k1: int, k2: int)
    requires k1 <= k2,
    ensures cnt(ap, ai, etree, c, k1) <= cnt(ap, ai, etree, c, k2),
    decreases k2 - k1,
{
    if k1 < k2 { lemma_cnt_mono(ap, ai, etree, c, k1, k2 - 1); }
}
pub proof fn lemma_cnt_range(ap: Seq<usize>, ai: Seq<usize>, etree: Seq<usize>, c: int, k: int)
    ensures 0 <= cnt(ap, ai, etree, c, k), k >= 0 ==> cnt(ap, ai, etree, c, k) <= k,
    decreases k,
{
    if k > 0 { lemma_cnt_range(ap, ai, etree, c, k - 1); }
}

// ---- pass j of _etree: the nodes below j that carry the mark j
pub open spec fn visited(work: Seq<usize>, j: int, c: int) -> bool { 0 <= c < j && c < work.len() && work[c] == j }
// every marked node has its parent link set, and the parent is j, marked, or the node `cur` the walk is standing on
pub open spec fn closed_except(etree: Seq<usize>, work: Seq<usize>, j: int, cur: int) -> bool {
    // (trigger etree[x], not work[x]: the body mentions work[etree[x]], which would re-trigger the quantifier along the whole path)
    forall|x: int| #![trigger etree[x]] 0 <= x < j && x < work.len() && x < etree.len() ==> (work[x] == j ==> x < etree[x] <= j && etree[x] < work.len()
        && (work[etree[x] as int] == j || etree[x] == cur))
}
pub proof fn lemma_closed_path(etree: Seq<usize>, work: Seq<usize>, j: int, x: int, c: int)
    requires closed_except(etree, work, j, j), visited(work, j, x), on_path(etree, j, x, c), j < work.len(),
    ensures visited(work, j, c),
    decreases j - x,
{
    if c != x { lemma_closed_path(etree, work, j, etree[x] as int, c); }
}
pub proof fn lemma_pass_done(n: int, ap: Seq<usize>, ai: Seq<usize>, e0: Seq<usize>, etree: Seq<usize>, work: Seq<usize>, lnz0: Seq<usize>, lnz: Seq<usize>, j: int)
    requires
        0 <= j < n, work.len() >= n, etree.len() == n, work[j] == j,
        ap.len() == n + 1, ap[j] <= ap[j + 1] <= ai.len(),
        lnz0.len() == n, forall|c: int| 0 <= c < n ==> #[trigger] lnz0[c] == cnt(ap, ai, e0, c, j),
        same_below(e0, etree, j), lnz.len() == n,
        // every node marked in this pass was counted once, no other node was
        forall|c: int| 0 <= c < n ==> #[trigger] lnz[c] == lnz0[c] + (if c < j && work[c] == j { 1int } else { 0int }),
        // marked nodes lie on the elimination path of an entry of column j (soundness) ...
        forall|c: int| 0 <= c < j ==> (#[trigger] work[c] == j ==> in_v(ap, ai, e0, j, c)),
        // ... and all of them are marked (completeness): closure under parent links + every entry's row marked
        closed_except(etree, work, j, j),
        forall|p: int| ap[j] <= p < ap[j + 1] ==> #[trigger] ai[p] <= j,
        forall|p: int| ap[j] <= p < ap[j + 1] ==> work[#[trigger] ai[p] as int] == j,
    ensures lnz_exact(n, ap, ai, etree, lnz, j + 1),
{
    assert forall|c: int| 0 <= c < n implies #[trigger] lnz[c] == cnt(ap, ai, etree, c, j + 1) by {
        lemma_cnt_stable(ap, ai, e0, etree, c, j);
        lemma_in_v_stable(ap, ai, e0, etree, j, c);
        assert(lnz0[c] == cnt(ap, ai, e0, c, j));
        if in_v(ap, ai, etree, j, c) {
            let p = choose|p: int| #[trigger] in_v_at(ap, ai, etree, j, c, p);
            assert(work[ai[p] as int] == j);
            assert(visited(work, j, ai[p] as int));
            lemma_closed_path(etree, work, j, ai[p] as int, c);
        } else {
            if c < j && work[c] == j { assert(in_v(ap, ai, e0, j, c)); }
        }
    }
}
pub open spec fn etree_wf(n: int, etree: Seq<usize>) -> bool {
    etree.len() == n && forall|i: int| 0 <= i < n ==> etree[i] == QDLDL_UNKNOWN || i < #[trigger] etree[i] < n
}
// Lnz has room for the column counts of the symbolic factor
pub open spec fn lnz_covers(n: int, ap: Seq<usize>, ai: Seq<usize>, etree: Seq<usize>, lnz: Seq<usize>, k: int) -> bool {
    lnz.len() == n && forall|c: int| 0 <= c < n ==> #[trigger] lnz[c] >= cnt(ap, ai, etree, c, k)
}

// Lnz is exactly the column count of the symbolic factor
pub open spec fn lnz_exact(n: int, ap: Seq<usize>, ai: Seq<usize>, etree: Seq<usize>, lnz: Seq<usize>, k: int) -> bool {
    lnz.len() == n && forall|c: int| 0 <= c < n ==> #[trigger] lnz[c] == cnt(ap, ai, etree, c, k)
}
//@fn file=src/qdldl/qdldl.rs name=_etree ret=r
//@contract
    requires
        triu_o(n, Ap@, Ai@), n < usize::MAX,   // triu_o is triu_wf, folded (lemma_triu_hide)
        old(work).len() >= n, old(Lnz).len() == n, old(etree).len() == n,
    ensures
        r == Ok::<usize, QDLDLError>(0),
        final(work).len() == old(work).len(), final(Lnz).len() == n, final(etree).len() == n,
        // every node's parent (if any) is a later column: the elimination tree is a forest ordered by index
        etree_wf(n as int, final(etree)@),
        // column counts of L are bounded by the dimension (no overflow of the counters)
        forall|i: int| 0 <= i < n ==> final(Lnz)[i] <= n,
        // Lnz[c] is exactly the number of rows whose elimination path (in the tree just computed) passes through c:
        // the number of entries of column c of L
        lnz_exact(n as int, Ap@, Ai@, final(etree)@, final(Lnz)@, n as int),
//@iter 1
it0
//@loop 1
        invariant
            triu_o(n, Ap@, Ai@), n < usize::MAX,
            work.len() == old(work).len(), work.len() >= n, Lnz.len() == n, etree.len() == n,
            it0.seq().len() == n, range_is(it0.seq()),
            forall|i: int| 0 <= i < n ==> etree[i] == QDLDL_UNKNOWN || (i < etree[i] < n && etree[i] < it0.index@),
            forall|i: int| 0 <= i < n ==> Lnz[i] <= it0.index@,
            forall|i: int| 0 <= i < n ==> (it0.index@ > 0 ==> #[trigger] work[i] < it0.index@),
            forall|i: int| 0 <= i < n ==> (it0.index@ == 0 ==> #[trigger] work[i] == 0),
            forall|i: int| 0 <= i < n ==> (it0.index@ == 0 ==> #[trigger] Lnz[i] == 0),
            lnz_exact(n as int, Ap@, Ai@, etree@, Lnz@, it0.index@ as int),
//@body_start 1
        let ghost e0 = etree@;
        let ghost lnz0 = Lnz@;
        let ghost gj = j as int;
        proof { lemma_triu_col(n, Ap@, Ai@, gj); }
//@iter 2
it
//@loop 2
            invariant
                triu_o(n, Ap@, Ai@), n < usize::MAX, j < n, gj == j, Ap.len() == n + 1, Ap[j as int] <= Ap[j + 1] <= Ai.len(),
                forall|p: int| Ap[j as int] <= p < Ap[j + 1] ==> #[trigger] Ai[p] <= j,
                work.len() == old(work).len(), work.len() >= n, Lnz.len() == n, etree.len() == n,
                it.seq().len() == Ap[j + 1] - Ap[j as int],
                forall|k: int| 0 <= k < it.seq().len() ==> *it.seq()[k] == Ai[Ap[j as int] + k],
                forall|i: int| 0 <= i < n ==> etree[i] == QDLDL_UNKNOWN || (i < etree[i] < n && etree[i] <= j),
                forall|i: int| 0 <= i < n ==> #[trigger] Lnz[i] <= j + 1,
                forall|i: int| 0 <= i < n ==> (work[i] != j ==> #[trigger] Lnz[i] <= j),
                forall|i: int| 0 <= i < n ==> work[i] <= j,
                work[j as int] == j,
                lnz0.len() == n, same_below(e0, etree@, gj),
                e0.len() == n,
                forall|c: int| 0 <= c < n ==> #[trigger] Lnz[c] == lnz0[c] + (if c < j && work[c] == j { 1int } else { 0int }),
                forall|c: int| 0 <= c < j ==> (#[trigger] work[c] == j ==> in_v(Ap@, Ai@, e0, gj, c)),
                closed_except(etree@, work@, gj, gj),
                forall|p: int| Ap[j as int] <= p < Ap[j as int] + it.index@ ==> work[#[trigger] Ai[p] as int] == j,
//@body_start 2
            let ghost row = *istart as int;
            let ghost prow = Ap[j as int] + it.index@;
            proof { assert(row == Ai[prow]); assert(row <= j); }
//@loop 3
                invariant
                    n < usize::MAX, j < n, i <= j, gj == j,
                    work.len() == old(work).len(), work.len() >= n, Lnz.len() == n, etree.len() == n,
                    forall|q: int| 0 <= q < n ==> etree[q] == QDLDL_UNKNOWN || (q < etree[q] < n && etree[q] <= j),
                    forall|q: int| 0 <= q < n ==> #[trigger] Lnz[q] <= j + 1,
                    forall|q: int| 0 <= q < n ==> (work[q] != j ==> #[trigger] Lnz[q] <= j),
                    forall|q: int| 0 <= q < n ==> work[q] <= j,
                    work[j as int] == j,
                    lnz0.len() == n, same_below(e0, etree@, gj),
                    e0.len() == n,
                    forall|c: int| 0 <= c < n ==> #[trigger] Lnz[c] == lnz0[c] + (if c < j && work[c] == j { 1int } else { 0int }),
                    forall|c: int| 0 <= c < j ==> (#[trigger] work[c] == j ==> in_v(Ap@, Ai@, e0, gj, c)),
                    i < j ==> on_path(e0, gj, row, i as int),
                    closed_except(etree@, work@, gj, i as int),
                    forall|p: int| Ap[j as int] <= p < Ap[j as int] + it.index@ ==> work[#[trigger] Ai[p] as int] == j,
                    0 <= row <= j, Ap[j as int] <= prow < Ap[j + 1] <= Ai.len(), prow == Ap[j as int] + it.index@, row == Ai[prow], Ap.len() == n + 1,
                    forall|p: int| Ap[j as int] <= p < Ap[j + 1] ==> #[trigger] Ai[p] <= j,
                    work[row] == j || i == row,
                decreases j - i,
//@body_start 3
                let ghost i0 = i as int;
//@body_end 3
                proof {
                    assert(in_v_at(Ap@, Ai@, e0, gj, i0, prow));
                    if etree@[i0] < j { lemma_on_path_extend(e0, gj, row, i0); }
                }
//@body_end 1
        proof { lemma_pass_done(n as int, Ap@, Ai@, e0, etree@, work@, lnz0, Lnz@, gj); }
//@end

// ------------------------------------------------------------------ numeric factorisation: memory safety and structure
// ASSUMED (std): `impl AddAssign<&usize> for usize` is `*self += *rhs` (core's forward_ref_op_assign), panicking on overflow
#[verifier::external_body]
pub proof fn axiom_usize_add_assign_ref()
    ensures
        <usize as vstd::std_specs::ops::AddAssignSpec<&usize>>::obeys_add_assign_spec(),
        forall|a: usize, b: &usize| #[trigger] <usize as vstd::std_specs::ops::AddAssignSpec<&usize>>::add_assign_req(&a, b) == (a + *b <= usize::MAX),
        forall|a: usize, b: &usize| *(#[trigger] <usize as vstd::std_specs::ops::AddAssignSpec<&usize>>::add_assign_spec(&a, b)) == (a + *b) as usize,
{}
// ASSUMED (num_traits): FromPrimitive::from_i8 on a float type never fails
impl F {
    #[verifier::external_body] pub fn from_i8(a: i8) -> (r: Option<F>) ensures r == Some(f_from_i8(a)) { unimplemented!() }
}
pub uninterp spec fn f_from_i8(a: i8) -> F;

// ---- the pivots of a numeric factorisation (opaque floats: pure data flow, no arithmetic law is used)
// the signed pivot p falls below the regularisation threshold
pub open spec fn perturbed(p: F, s: i8, enable: bool, eps: F) -> bool { enable && f_lt(f_mul(p, f_from_i8(s)), eps) }
// the regularisation rule: a perturbed pivot is replaced by delta * sign, every other pivot is kept
pub open spec fn reg_val(p: F, s: i8, enable: bool, eps: F, delta: F) -> F { if perturbed(p, s, enable, eps) { f_mul(delta, f_from_i8(s)) } else { p } }
// number of positive pivots among the first k
pub open spec fn pos_cnt(d: Seq<F>, k: int) -> int
    decreases k
{
    if k <= 0 { 0 } else { pos_cnt(d, k - 1) + (if f_lt(f_zero(), d[k - 1]) { 1int } else { 0int }) }
}
// number of perturbed pivots among the first k
pub open spec fn reg_cnt(pre: Seq<F>, ds: Seq<i8>, enable: bool, eps: F, k: int) -> int
    decreases k
{
    if k <= 0 { 0 } else { reg_cnt(pre, ds, enable, eps, k - 1) + (if perturbed(pre[k - 1], ds[k - 1], enable, eps) { 1int } else { 0int }) }
}
// the first k pivots passed the zero test, Dinv holds their reciprocals, count = number of positive ones
pub open spec fn pivots_ok(k: int, d: Seq<F>, dinv: Seq<F>, count: int) -> bool {
    &&& forall|j: int| 0 <= j < k ==> #[trigger] dinv[j] == f_recip(d[j])
    &&& forall|j: int| 0 <= j < k ==> !f_eq(#[trigger] d[j], f_zero())
    &&& count == pos_cnt(d, k)
}
// pre = the pivots as computed, before the regularisation step: D is pre with exactly the perturbed ones replaced, regcount counts them
pub open spec fn reg_ok(k: int, pre: Seq<F>, d: Seq<F>, ds: Seq<i8>, enable: bool, eps: F, delta: F, regcount: int) -> bool {
    &&& forall|j: int| 0 <= j < k ==> #[trigger] d[j] == reg_val(pre[j], ds[j], enable, eps, delta)
    &&& regcount == reg_cnt(pre, ds, enable, eps, k)
}
pub proof fn lemma_pos_cnt_frame(d1: Seq<F>, d2: Seq<F>, k: int)
    requires forall|j: int| 0 <= j < k ==> d1[j] == d2[j],
    ensures pos_cnt(d1, k) == pos_cnt(d2, k),
    decreases k,
{ if k > 0 { lemma_pos_cnt_frame(d1, d2, k - 1); } }
pub proof fn lemma_reg_cnt_frame(p1: Seq<F>, p2: Seq<F>, ds: Seq<i8>, enable: bool, eps: F, k: int)
    requires forall|j: int| 0 <= j < k ==> p1[j] == p2[j],
    ensures reg_cnt(p1, ds, enable, eps, k) == reg_cnt(p2, ds, enable, eps, k),
    decreases k,
{ if k > 0 { lemma_reg_cnt_frame(p1, p2, ds, enable, eps, k - 1); } }
// column k done: the facts about pivot k extend the record of the first k pivots (which column k did not touch)
pub proof fn lemma_numeric_step(k: int, pre0: Seq<F>, pre1: Seq<F>, d0: Seq<F>, d1: Seq<F>, dinv0: Seq<F>, dinv1: Seq<F>, ds: Seq<i8>,
                                enable: bool, eps: F, delta: F, c0: int, c1: int, r0: int, r1: int)
    requires k >= 0, pivots_ok(k, d0, dinv0, c0), reg_ok(k, pre0, d0, ds, enable, eps, delta, r0),
        forall|j: int| 0 <= j < k ==> pre1[j] == pre0[j] && d1[j] == d0[j] && dinv1[j] == dinv0[j],
        d1[k] == reg_val(pre1[k], ds[k], enable, eps, delta), dinv1[k] == f_recip(d1[k]), !f_eq(d1[k], f_zero()),
        c1 == c0 + (if f_lt(f_zero(), d1[k]) { 1int } else { 0int }),
        r1 == r0 + (if perturbed(pre1[k], ds[k], enable, eps) { 1int } else { 0int }),
    ensures pivots_ok(k + 1, d1, dinv1, c1), reg_ok(k + 1, pre1, d1, ds, enable, eps, delta, r1),
{
    lemma_pos_cnt_frame(d0, d1, k);
    lemma_reg_cnt_frame(pre0, pre1, ds, enable, eps, k);
}

pub open spec fn psum(l: Seq<usize>, c: int) -> int
    decreases c
{
    if c <= 0 { 0 } else { psum(l, c - 1) + l[c - 1] }
}
pub proof fn lemma_psum_mono(l: Seq<usize>, a: int, b: int)
    requires 0 <= a <= b <= l.len(),
    ensures 0 <= psum(l, a) <= psum(l, b),
    decreases b,
{
    if a < b { lemma_psum_mono(l, a, b - 1); } else if a > 0 { lemma_psum_mono(l, a - 1, a - 1); }
}
// what _etree hands over: pattern, tree and column counts
pub open spec fn factor_pre(n: usize, ap: Seq<usize>, ai: Seq<usize>, etree: Seq<usize>, lnz: Seq<usize>) -> bool {
    triu_o(n, ap, ai) && etree_wf(n as int, etree) && lnz_covers(n as int, ap, ai, etree, lnz, n as int)
}
// Lp = cumsum(Lnz), and it fits the allocated L
pub open spec fn lp_ok(n: int, lp: Seq<usize>, lnz: Seq<usize>, cap: int) -> bool {
    &&& lp.len() == n + 1 && lnz.len() == n
    &&& forall|c: int| 0 <= c <= n ==> #[trigger] lp[c] == psum(lnz, c)
    &&& lp[n] <= cap
}
pub open spec fn lp_mono(n: int, lp: Seq<usize>) -> bool { forall|c: int, d: int| 0 <= c <= d <= n ==> lp[c] <= lp[d] }
pub proof fn lemma_lp_mono(n: int, lp: Seq<usize>, lnz: Seq<usize>, cap: int)
    requires lp_ok(n, lp, lnz, cap), n >= 0,
    ensures lp_mono(n, lp),
{
    assert forall|c: int, d: int| 0 <= c <= d <= n implies lp[c] <= lp[d] by { lemma_psum_mono(lnz, c, d); }
}
pub proof fn lemma_lp_ok(n: int, lp: Seq<usize>, lnz: Seq<usize>, cap: int)
    requires lp.len() == n + 1, lnz.len() == n, n >= 0, forall|c: int| 0 <= c <= n ==> #[trigger] lp[c] == psum(lnz, c), psum(lnz, n) <= cap,
    ensures lp_ok(n, lp, lnz, cap),
{
}
pub proof fn lemma_on_path_extend(etree: Seq<usize>, j: int, i: int, c: int)
    requires on_path(etree, j, i, c), 0 <= c < etree.len(), c < etree[c] < j, etree[c] < etree.len(),
    ensures on_path(etree, j, i, etree[c] as int),
    decreases j - i,
{
    if c != i { lemma_on_path_extend(etree, j, etree[i] as int, c); }
    else { assert(on_path(etree, j, etree[i] as int, etree[i] as int)); }
}
pub proof fn lemma_pigeon(s: Seq<int>, k: int)
    requires s.no_duplicates(), forall|i: int| 0 <= i < s.len() ==> 0 <= #[trigger] s[i] < k, k >= 0,
    ensures s.len() <= k,
{
    s.unique_seq_to_set();
    let r = set_int_range(0, k);
    lemma_int_range(0, k);
    assert(s.to_set().subset_of(r)) by {
        assert forall|v: int| s.to_set().contains(v) implies #[trigger] r.contains(v) by {
            assert(s.contains(v));
            let i = choose|i: int| 0 <= i < s.len() && s[i] == v;
            assert(0 <= s[i] < k);
        }
    }
    lemma_len_subset(s.to_set(), r);
}
// ---- the marking phase of row k.  wh[c]: 0 = not marked, 1 = in y_idx, 2 = in elim_buffer;  pos[c]: where
pub open spec fn marks_ok(n: int, ym: Seq<bool>, yi: Seq<usize>, ny: int, eb: Seq<usize>, ne: int, wh: Seq<int>, pos: Seq<int>) -> bool {
    &&& wh.len() == n && pos.len() == n && ym.len() == n && yi.len() == n && eb.len() == n && 0 <= ny <= n && 0 <= ne <= n
    &&& forall|c: int| 0 <= c < n ==> (#[trigger] ym[c] <==> wh[c] != 0)
    &&& forall|c: int| 0 <= c < n ==> (#[trigger] wh[c] == 0 || (wh[c] == 1 && 0 <= pos[c] < ny && yi[pos[c]] == c) || (wh[c] == 2 && 0 <= pos[c] < ne && eb[pos[c]] == c))
}
// the first len entries of a work list: nodes below k, recorded in wh/pos (hence pairwise distinct), each a column with an entry in row k of L
pub open spec fn list_ok(k: int, ap: Seq<usize>, ai: Seq<usize>, etree: Seq<usize>, s: Seq<usize>, len: int, tag: int, wh: Seq<int>, pos: Seq<int>) -> bool {
    forall|a: int| 0 <= a < len ==> (#[trigger] s[a]) < k && wh[s[a] as int] == tag && pos[s[a] as int] == a && in_v(ap, ai, etree, k, s[a] as int)
}
// the two work lists hold distinct nodes below k (and x, if given, is a further one): so there was room for them
pub proof fn lemma_room(k: int, ap: Seq<usize>, ai: Seq<usize>, etree: Seq<usize>, yi: Seq<usize>, ny: int, eb: Seq<usize>, ne: int, wh: Seq<int>, pos: Seq<int>, extra: bool, x: int)
    requires 0 <= ny <= yi.len(), 0 <= ne <= eb.len(), k >= 0,
        list_ok(k, ap, ai, etree, yi, ny, 1, wh, pos), list_ok(k, ap, ai, etree, eb, ne, 2, wh, pos),
        extra ==> 0 <= x < k && wh[x] == 0,
    ensures ny + ne + (if extra { 1int } else { 0int }) <= k,
{
    let m = ny + ne + (if extra { 1int } else { 0int });
    let s = Seq::new(m as nat, |t: int| if t < ny { yi[t] as int } else if t < ny + ne { eb[t - ny] as int } else { x });
    assert forall|i: int, j: int| 0 <= i < s.len() && 0 <= j < s.len() && i != j implies s[i] != s[j] by {
        if i < ny { let _ = yi[i]; } else if i < ny + ne { let _ = eb[i - ny]; }
        if j < ny { let _ = yi[j]; } else if j < ny + ne { let _ = eb[j - ny]; }
    }
    assert forall|i: int| 0 <= i < s.len() implies 0 <= #[trigger] s[i] < k by {
        if i < ny { let _ = yi[i]; } else if i < ny + ne { let _ = eb[i - ny]; }
    }
    lemma_pigeon(s, k);
}
// the marked nodes are closed under parent links that stay below k, except possibly for the link into `cur`
pub open spec fn mclosed(n: int, etree: Seq<usize>, wh: Seq<int>, k: int, cur: int) -> bool {
    // (trigger etree[x], not wh[x]: the body mentions wh[etree[x]], which would re-trigger the quantifier along the whole path)
    forall|x: int| #![trigger etree[x]] 0 <= x < n ==> (wh[x] != 0 ==> etree[x] == QDLDL_UNKNOWN || etree[x] >= k || wh[etree[x] as int] != 0 || etree[x] == cur)
}
pub proof fn lemma_mclosed_path(n: int, etree: Seq<usize>, wh: Seq<int>, k: int, x: int, c: int)
    requires mclosed(n, etree, wh, k, -1), etree.len() == n, wh.len() == n, 0 <= k <= n <= usize::MAX, 0 <= x < n, wh[x] != 0, on_path(etree, k, x, c),
    ensures 0 <= c < k, wh[c] != 0,
    decreases k - x,
{
    if c != x { lemma_mclosed_path(n, etree, wh, k, etree[x] as int, c); }
}
// closure + every off-diagonal entry of column k marked  ==>  every column with an entry in row k of L is marked
pub proof fn lemma_marking_complete(n: int, ap: Seq<usize>, ai: Seq<usize>, etree: Seq<usize>, wh: Seq<int>, k: int)
    requires mclosed(n, etree, wh, k, -1), etree.len() == n, wh.len() == n, 0 <= k < n <= usize::MAX,
        forall|p: int| ap[k] <= p < ap[k + 1] && (#[trigger] ai[p]) < k ==> wh[ai[p] as int] != 0,
    ensures forall|c: int| 0 <= c < n ==> (#[trigger] wh[c] == 0 ==> !in_v(ap, ai, etree, k, c)),
{
    assert forall|c: int| 0 <= c < n && in_v(ap, ai, etree, k, c) implies #[trigger] wh[c] != 0 by {
        let p = choose|p: int| #[trigger] in_v_at(ap, ai, etree, k, c, p);
        assert(wh[ai[p] as int] != 0);
        lemma_mclosed_path(n, etree, wh, k, ai[p] as int, c);
    }
}
pub proof fn lemma_cnt1(ap: Seq<usize>, ai: Seq<usize>, etree: Seq<usize>, c: int)
    ensures cnt(ap, ai, etree, c, 1) == 0,
{
    assert(cnt(ap, ai, etree, c, 0) == 0);
    assert(!in_v(ap, ai, etree, 0, c)) by {
        if in_v(ap, ai, etree, 0, c) { let p = choose|p: int| #[trigger] in_v_at(ap, ai, etree, 0, c, p); }
    }
}
// column c holds exactly the entries of the rows < rows
pub open spec fn filled_cnt(n: int, ap: Seq<usize>, ai: Seq<usize>, etree: Seq<usize>, lp: Seq<usize>, nc: Seq<usize>, rows: int) -> bool {
    forall|c: int| 0 <= c < n ==> #[trigger] nc[c] - lp[c] == cnt(ap, ai, etree, c, rows)
}
// L is n x n in CSC form with row indices inside the matrix (what the triangular solves of unit qdldl_kernels require)
pub open spec fn l_wf(n: int, lp: Seq<usize>, li: Seq<usize>, lx: Seq<F>) -> bool {
    &&& lp.len() == n + 1
    &&& forall|c: int, d: int| 0 <= c <= d <= n ==> lp[c] <= lp[d]
    &&& lp[n] <= li.len() && lp[n] <= lx.len()
    &&& forall|k: int| 0 <= k < lp[n] ==> #[trigger] li[k] < n
}
// L is fit for the triangular solves provided the row indices were in range before (spalloc's zeros, or an earlier factorisation).
// Folded (opaque) because l_wf's two-variable monotonicity clause is expensive inside _factor_inner; a caller reveals it.
#[verifier::opaque]
pub open spec fn l_wf_if_rows_ok(n: int, li0: Seq<usize>, lp: Seq<usize>, li: Seq<usize>, lx: Seq<F>) -> bool {
    (forall|j: int| 0 <= j < li0.len() ==> #[trigger] li0[j] < n) ==> l_wf(n, lp, li, lx)
}
pub proof fn lemma_post_lwf(n: int, lp: Seq<usize>, lnz: Seq<usize>, li: Seq<usize>, lx: Seq<F>, li0: Seq<usize>)
    requires n > 0, lp_ok(n, lp, lnz, li.len() as int), lx.len() == li.len(), li0.len() == li.len(),
        forall|j: int| 0 <= j < li.len() ==> #[trigger] li[j] < n || li[j] == li0[j],
    ensures l_wf_if_rows_ok(n, li0, lp, li, lx),
{
    reveal(l_wf_if_rows_ok);
    lemma_lp_mono(n, lp, lnz, li.len() as int);
    if forall|j: int| 0 <= j < li0.len() ==> #[trigger] li0[j] < n {
        assert forall|k: int| 0 <= k < lp[n] implies #[trigger] li[k] < n by { let _ = li0[k]; }
    }
}
// strict lower triangularity as the solves of unit qdldl_kernels state it (same definitions)
pub open spec fn l_in_col(n: int, lp: Seq<usize>, c: int, j: int) -> bool { 0 <= c < n && lp[c] <= j < lp[c + 1] }
pub open spec fn l_strict(n: int, lp: Seq<usize>, li: Seq<usize>) -> bool {
    forall|c: int, j: int| #[trigger] l_in_col(n, lp, c, j) ==> li[j] > c
}
// what the triangular solves need, without any assumption on the previous contents of L.  Folded (see l_wf_if_rows_ok).
#[verifier::opaque]
pub open spec fn l_complete(n: int, lp: Seq<usize>, li: Seq<usize>, lx: Seq<F>) -> bool { l_wf(n, lp, li, lx) && l_strict(n, lp, li) }
pub proof fn lemma_find_col(lp: Seq<usize>, k: int, m: int) -> (c: int)
    requires 0 < m < lp.len(), lp[0] == 0, 0 <= k < lp[m],
    ensures 0 <= c < m, lp[c] <= k < lp[c + 1],
    decreases m,
{
    if lp[m - 1] <= k { m - 1 } else { lemma_find_col(lp, k, m - 1) }
}
// exact counts + every structural entry placed  ==>  every column of L is full, so all of L's row indices are fresh ones
pub proof fn lemma_l_complete(n: int, ap: Seq<usize>, ai: Seq<usize>, etree: Seq<usize>, lnz: Seq<usize>, lp: Seq<usize>, nc: Seq<usize>, li: Seq<usize>, lx: Seq<F>)
    requires n > 0, lp_ok(n, lp, lnz, li.len() as int), lx.len() == li.len(), nc.len() == n,
        lnz_exact(n, ap, ai, etree, lnz, n), filled_cnt(n, ap, ai, etree, lp, nc, n), filled_ok(n, lp, nc, li, n),
    ensures forall|c: int| 0 <= c < n ==> #[trigger] nc[c] == lp[c + 1], l_complete(n, lp, li, lx),
{
    reveal(l_complete);
    lemma_lp_mono(n, lp, lnz, li.len() as int);
    assert forall|c: int| 0 <= c < n implies #[trigger] nc[c] == lp[c + 1] by {
        assert(lp[c + 1] == psum(lnz, c + 1));
        assert(lp[c] == psum(lnz, c));
        assert(lnz[c] == cnt(ap, ai, etree, c, n));
    }
    assert(lp[0] == psum(lnz, 0));
    assert forall|k: int| 0 <= k < lp[n] implies #[trigger] li[k] < n by {
        let c = lemma_find_col(lp, k, n);
        assert(nc[c] == lp[c + 1]);
    }
    assert forall|c: int, j: int| #[trigger] l_in_col(n, lp, c, j) implies li[j] > c by {
        assert(nc[c] == lp[c + 1]);
    }
}
// column c of L owns the slots lp[c] .. lp[c+1]; nc[c] is its next free slot
pub open spec fn cols_ok(n: int, lp: Seq<usize>, nc: Seq<usize>) -> bool {
    nc.len() == n && forall|c: int| 0 <= c < n ==> lp[c] <= #[trigger] nc[c] <= lp[c + 1]
}
// the slots filled so far hold rows strictly below the diagonal and above row `rows`
pub open spec fn filled_ok(n: int, lp: Seq<usize>, nc: Seq<usize>, li: Seq<usize>, rows: int) -> bool {
    forall|c: int, j: int| #![trigger nc[c], li[j]] 0 <= c < n && lp[c] <= j < nc[c] ==> c < li[j] < rows
}

//@fn file=src/qdldl/qdldl.rs name=_factor_inner rules=R1,R10,R11,zipidx:1=mi;7 ret=r
//@contract
    requires
        // what _etree establishes for the pattern it was given (triu_o is triu_wf, folded: lemma_triu_hide)
        triu_o(n, Ap@, Ai@), etree_wf(n as int, etree@), lnz_covers(n as int, Ap@, Ai@, etree@, Lnz@, n as int),
        Ax@.len() == Ai@.len(),
        old(Lp)@.len() == n + 1, old(Li)@.len() == old(Lx)@.len(), psum(Lnz@, n as int) <= old(Li)@.len(),
        old(D)@.len() == n, old(Dinv)@.len() == n, old(bwork)@.len() == n, old(iwork)@.len() == 3 * n, old(fwork)@.len() == n, Dsigns@.len() == n,
    ensures
        final(Lp)@.len() == n + 1, final(Li)@.len() == old(Li)@.len(), final(Lx)@.len() == old(Lx)@.len(), final(D)@.len() == n, final(Dinv)@.len() == n,
        final(bwork)@.len() == n, final(iwork)@.len() == 3 * n, final(fwork)@.len() == n,
        // the only error is a zero pivot, and only a numeric factorisation reports it
        match r { Ok(c) => c <= n, Err(e) => e == QDLDLError::ZeroPivot && !logical_factor && n > 0 },
        *final(regularize_count) <= n,
        // column pointers of L are the running sums of the column counts
        n > 0 ==> lp_ok(n as int, final(Lp)@, Lnz@, old(Li)@.len() as int),
        // every column's fill pointer (third part of iwork) stays inside the column, and what was filled is strictly lower triangular
        n > 0 ==> cols_ok(n as int, final(Lp)@, final(iwork)@.subrange(2 * n, 3 * n)),
        n > 0 ==> filled_ok(n as int, final(Lp)@, final(iwork)@.subrange(2 * n, 3 * n), final(Li)@, n as int),
        // a completed factorisation has put every structural entry of L into its column: exactly the rows whose elimination path passes through c
        r is Ok ==> filled_cnt(n as int, Ap@, Ai@, etree@, final(Lp)@, final(iwork)@.subrange(2 * n, 3 * n), n as int),
        // ... and with the exact column counts of _etree every column of L is then full: L is strictly lower triangular with all row
        // indices < n, which is what the triangular solves (unit qdldl_kernels: l_wf, l_strict) rely on for their unchecked accesses
        r is Ok && n > 0 && lnz_exact(n as int, Ap@, Ai@, etree@, Lnz@, n as int) ==> l_complete(n as int, final(Lp)@, final(Li)@, final(Lx)@)
            && forall|c: int| 0 <= c < n ==> #[trigger] final(iwork)@[2 * n + c] == final(Lp)@[c + 1],
        // a row index of L is either a freshly written row (< n) or what was there before
        forall|j: int| 0 <= j < old(Li)@.len() ==> #[trigger] final(Li)@[j] < n || final(Li)@[j] == old(Li)@[j],
        // so L is fit for the triangular solves if the row indices were in range before (spalloc zeros, or an earlier factorisation)
        n > 0 ==> l_wf_if_rows_ok(n as int, old(Li)@, final(Lp)@, final(Li)@, final(Lx)@),
        // a logical factorisation leaves the numeric arrays Lx, Dinv alone, counts no pivot and perturbs none
        logical_factor ==> final(Lx)@ == old(Lx)@ && final(Dinv)@ == old(Dinv)@ && r == Ok::<usize, QDLDLError>(0) && *final(regularize_count) == 0,
        // C12, a completed NUMERIC factorisation: every pivot passed the zero test and Dinv holds its reciprocal; the returned count is the
        // number of positive pivots; and there are pivots `pre` (as computed, before the regularisation step; pre[0] is the stored A[0,0] or zero)
        // such that D is pre with exactly the pivots whose signed value is below regularize_eps replaced by regularize_delta * sign, and
        // regularize_count is their number (regularisation off: D == pre, count 0)
        !logical_factor ==> (match r {
            Ok(c) => pivots_ok(n as int, final(D)@, final(Dinv)@, c as int)
                && exists|pre: Seq<F>| pre.len() == n && (n > 0 ==> pre[0] == (if Ap@[1] > 0 { Ax@[0] } else { f_zero() }))
                    && #[trigger] reg_ok(n as int, pre, final(D)@, Dsigns@, regularize_enable, regularize_eps, regularize_delta, *final(regularize_count) as int),
            Err(_) => true }),
        n == 0 ==> final(Lp)@ == old(Lp)@ && final(Li)@ == old(Li)@ && final(Lx)@ == old(Lx)@ && final(D)@ == old(D)@ && final(Dinv)@ == old(Dinv)@
            && final(bwork)@ == old(bwork)@ && final(iwork)@ == old(iwork)@ && final(fwork)@ == old(fwork)@,
//@pre
    let ghost lnz = Lnz@;
    let ghost gn = n as int;
    let ghost mut pre: Seq<F> = Seq::new(n as nat, |j: int| f_zero());
    proof {
        axiom_usize_add_assign_ref(); assert(Li@.len() == Li.len()); if n > 0 { lemma_triu_col(n, Ap@, Ai@, 0); }
        // n == 0: the empty record
        assert(reg_ok(0, pre, D@, Dsigns@, regularize_enable, regularize_eps, regularize_delta, 0));
    }
//@before "if regularize_enable {" #1
        proof { pre = pre.update(0, D@[0]); }
//@before "if regularize_enable {" #2
            proof { pre = pre.update(gk, D@[gk]); lemma_post_lwf(gn, Lp@, lnz, Li@, Lx@, old(Li)@); }
//@loop 1
        invariant
            Lp@.len() == n + 1, lnz == Lnz@, lnz.len() == n, r14_lo1_0 == 1, r14_n1 == n, psum(lnz, gn) <= usize::MAX, gn == n,
            acc == psum(lnz, r14_i1 as int),
            forall|c: int| 0 <= c <= r14_i1 ==> #[trigger] Lp@[c] == psum(lnz, c),
//@body_start 1
        proof { axiom_usize_add_assign_ref(); lemma_psum_mono(lnz, r14_i1 + 1, gn); }
//@before "y_markers.fill(QDLDL_UNUSED);"
    proof { lemma_lp_ok(gn, Lp@, lnz, Li@.len() as int); lemma_post_lwf(gn, Lp@, lnz, Li@, Lx@, old(Li)@); }
//@before_loop 2
    proof {
        assert forall|c: int| 0 <= c < n implies #[trigger] next_colspace@[c] - Lp@[c] == cnt(Ap@, Ai@, etree@, c, 1) by { lemma_cnt1(Ap@, Ai@, etree@, c); }
        lemma_post_lwf(gn, Lp@, lnz, Li@, Lx@, old(Li)@);
        if n == 1 && lnz_exact(gn, Ap@, Ai@, etree@, lnz, gn) { lemma_l_complete(gn, Ap@, Ai@, etree@, lnz, Lp@, next_colspace@, Li@, Lx@); }
        if !logical_factor {
            lemma_numeric_step(0, pre, pre, D@, D@, Dinv@, Dinv@, Dsigns@, regularize_enable, regularize_eps, regularize_delta,
                0, positiveValuesInD as int, 0, *regularize_count as int);
        }
    }
    // loop_isolation(false) on the column loop only: the `return Err(..)` inside it must still know how the pieces y_markers / y_idx /
    // elim_buffer / next_colspace / y_vals (moved and split_at_mut borrows made before the loop) make up the final bwork / iwork / fwork
    #[verifier::loop_isolation(false)]
//@body_end 2
        proof {
            lemma_post_lwf(gn, Lp@, lnz, Li@, Lx@, old(Li)@);
            if k + 1 == n && lnz_exact(gn, Ap@, Ai@, etree@, lnz, gn) { lemma_l_complete(gn, Ap@, Ai@, etree@, lnz, Lp@, next_colspace@, Li@, Lx@); }
            if !logical_factor {
                lemma_numeric_step(gk, pre0, pre, D0, D@, Dinv0, Dinv@, Dsigns@, regularize_enable, regularize_eps, regularize_delta,
                    cnt0, positiveValuesInD as int, rc0, *regularize_count as int);
            }
        }
//@iter 2
it2
//@loop 2
        invariant
            n > 0, gn == n, lnz == Lnz@, factor_pre(n, Ap@, Ai@, etree@, Lnz@), Ax@.len() == Ai@.len(),
            Li@.len() == old(Li)@.len(), Lx@.len() == Li@.len(), D@.len() == n, Dinv@.len() == n, y_markers@.len() == n, y_idx@.len() == n,
            elim_buffer@.len() == n, next_colspace@.len() == n, y_vals@.len() == n, Dsigns@.len() == n, etree@.len() == n,
            it2.seq().len() == n - 1, forall|q: int| 0 <= q < it2.seq().len() ==> #[trigger] it2.seq()[q] == q + 1,
            lp_ok(gn, Lp@, lnz, Li@.len() as int),
            forall|c: int| 0 <= c < n ==> !#[trigger] y_markers@[c],
            cols_ok(gn, Lp@, next_colspace@),
            filled_cnt(gn, Ap@, Ai@, etree@, Lp@, next_colspace@, it2.index@ + 1),
            filled_ok(gn, Lp@, next_colspace@, Li@, it2.index@ + 1),
            l_wf_if_rows_ok(gn, old(Li)@, Lp@, Li@, Lx@),
            it2.index@ + 1 == n && lnz_exact(gn, Ap@, Ai@, etree@, lnz, gn) ==> l_complete(gn, Lp@, Li@, Lx@)
                && forall|c: int| 0 <= c < n ==> #[trigger] next_colspace@[c] == Lp@[c + 1],
            forall|j: int| 0 <= j < Li@.len() ==> #[trigger] Li@[j] < n || Li@[j] == old(Li)@[j],
            *regularize_count <= it2.index@ + 1, positiveValuesInD <= it2.index@ + 1,
            logical_factor ==> Lx@ == old(Lx)@ && Dinv@ == old(Dinv)@ && positiveValuesInD == 0 && *regularize_count == 0,
            pre.len() == n,
            !logical_factor ==> pivots_ok(it2.index@ + 1, D@, Dinv@, positiveValuesInD as int)
                && reg_ok(it2.index@ + 1, pre, D@, Dsigns@, regularize_enable, regularize_eps, regularize_delta, *regularize_count as int)
                && pre[0] == (if Ap@[1] > 0 { Ax@[0] } else { f_zero() }),
//@body_start 2
        let ghost gk = k as int;
        let ghost pre0 = pre;
        let ghost D0 = D@;
        let ghost Dinv0 = Dinv@;
        let ghost cnt0 = positiveValuesInD as int;
        let ghost rc0 = *regularize_count as int;
        let ghost mut wh: Seq<int> = Seq::new(n as nat, |c: int| 0int);
        let ghost mut pos: Seq<int> = Seq::new(n as nat, |c: int| 0int);
        proof { lemma_triu_col(n, Ap@, Ai@, gk); }
//@loop 3
            invariant
                n > 0, gn == n, gk == k, 1 <= k < n, factor_pre(n, Ap@, Ai@, etree@, Lnz@), Ax@.len() == Ai@.len(),
                D@.len() == n, y_vals@.len() == n, etree@.len() == n,
                forall|j: int| 0 <= j < k ==> #[trigger] D@[j] == D0[j],
                Ap@[gk] <= r11_it1 <= r11_end1, r11_end1 == Ap@[gk + 1], r11_end1 <= Ai@.len(),
                forall|p: int| Ap@[gk] <= p < Ap@[gk + 1] ==> #[trigger] Ai@[p] <= k,
                marks_ok(gn, y_markers@, y_idx@, nnz_y as int, elim_buffer@, 0, wh, pos),
                list_ok(gk, Ap@, Ai@, etree@, y_idx@, nnz_y as int, 1, wh, pos),
                nnz_y <= k,
                mclosed(gn, etree@, wh, gk, -1),
                forall|p: int| Ap@[gk] <= p < r11_it1 && (#[trigger] Ai@[p]) < k ==> wh[Ai@[p] as int] != 0,
            decreases r11_end1 - r11_it1,
//@after "let mut nnz_e = 1;"
                proof {
                    lemma_room(gk, Ap@, Ai@, etree@, y_idx@, nnz_y as int, elim_buffer@, 0, wh, pos, true, bidx as int);
                    assert(in_v_at(Ap@, Ai@, etree@, gk, bidx as int, i as int));
                    wh = wh.update(bidx as int, 2);
                    pos = pos.update(bidx as int, 0);
                }
//@before_loop 4
                proof {
                    if etree@[bidx as int] != QDLDL_UNKNOWN && etree@[bidx as int] < k { lemma_on_path_extend(etree@, gk, bidx as int, bidx as int); }
                }
//@loop 4
                    invariant
                        n > 0, gn == n, gk == k, 1 <= k < n, factor_pre(n, Ap@, Ai@, etree@, Lnz@),
                        etree@.len() == n, Ap@[gk] <= i < Ap@[gk + 1], Ap@[gk + 1] <= Ai@.len(), bidx == Ai@[i as int], bidx < k,
                        1 <= nnz_e,
                        marks_ok(gn, y_markers@, y_idx@, nnz_y as int, elim_buffer@, nnz_e as int, wh, pos),
                        list_ok(gk, Ap@, Ai@, etree@, y_idx@, nnz_y as int, 1, wh, pos),
                        list_ok(gk, Ap@, Ai@, etree@, elim_buffer@, nnz_e as int, 2, wh, pos),
                        (nnz_y as int) + (nnz_e as int) <= k,
                        next_idx != QDLDL_UNKNOWN && next_idx < k ==> on_path(etree@, gk, bidx as int, next_idx as int),
                        mclosed(gn, etree@, wh, gk, next_idx as int),
                        forall|p: int| Ap@[gk] <= p <= i && (#[trigger] Ai@[p]) < k ==> wh[Ai@[p] as int] != 0,
                    ensures
                        mclosed(gn, etree@, wh, gk, -1),
                    decreases (if next_idx < k { k - next_idx } else { 0 }),
//@body_start 4
                    let ghost x = next_idx as int;
//@before "elim_buffer[nnz_e] = next_idx;"
                    proof { lemma_room(gk, Ap@, Ai@, etree@, y_idx@, nnz_y as int, elim_buffer@, nnz_e as int, wh, pos, true, x); }
//@body_end 4
                    proof {
                        assert(in_v_at(Ap@, Ai@, etree@, gk, x, i as int));
                        if etree@[x] != QDLDL_UNKNOWN && etree@[x] < k { lemma_on_path_extend(etree@, gk, bidx as int, x); }
                        wh = wh.update(x, 2);
                        pos = pos.update(x, nnz_e - 1);
                    }
//@loop 5
                    invariant
                        n > 0, gn == n, gk == k, 1 <= k < n,
                        marks_ok(gn, y_markers@, y_idx@, nnz_y as int, elim_buffer@, nnz_e as int, wh, pos),
                        list_ok(gk, Ap@, Ai@, etree@, y_idx@, nnz_y as int, 1, wh, pos),
                        list_ok(gk, Ap@, Ai@, etree@, elim_buffer@, nnz_e as int, 2, wh, pos),
                        (nnz_y as int) + (nnz_e as int) <= k,
                        mclosed(gn, etree@, wh, gk, -1), etree@.len() == n, Ap@[gk] <= i < Ap@[gk + 1], Ap@[gk + 1] <= Ai@.len(),
                        forall|p: int| Ap@[gk] <= p <= i && (#[trigger] Ai@[p]) < k ==> wh[Ai@[p] as int] != 0,
                    decreases nnz_e,
//@body_end 5
                    proof {
                        let x = elim_buffer@[nnz_e as int] as int;
                        wh = wh.update(x, 1);
                        pos = pos.update(x, nnz_y - 1);
                    }
//@before_loop 6
        proof {
            lemma_marking_complete(gn, Ap@, Ai@, etree@, wh, gk);
            assert forall|c: int| 0 <= c < n implies #[trigger] next_colspace@[c] - Lp@[c] == (if wh[c] == 1 && pos[c] < nnz_y { cnt(Ap@, Ai@, etree@, c, gk) } else { cnt(Ap@, Ai@, etree@, c, gk + 1) }) by {
                if wh[c] == 0 { assert(!in_v(Ap@, Ai@, etree@, gk, c)); }
            }
        }
//@iter 6
it6
//@loop 6
            invariant
                n > 0, gn == n, gk == k, 1 <= k < n, lnz == Lnz@, factor_pre(n, Ap@, Ai@, etree@, Lnz@),
                Li@.len() == old(Li)@.len(), Lx@.len() == Li@.len(), D@.len() == n, Dinv@.len() == n, y_markers@.len() == n, y_idx@.len() == n,
                next_colspace@.len() == n, y_vals@.len() == n,
                forall|j: int| 0 <= j < k ==> #[trigger] D@[j] == D0[j],
                it6.seq().len() == nnz_y, forall|q: int| 0 <= q < it6.seq().len() ==> #[trigger] it6.seq()[q] == nnz_y - 1 - q,
                lp_ok(gn, Lp@, lnz, Li@.len() as int),
                cols_ok(gn, Lp@, next_colspace@),
                filled_ok(gn, Lp@, next_colspace@, Li@, gk + 1),
                forall|j: int| 0 <= j < Li@.len() ==> #[trigger] Li@[j] < n || Li@[j] == old(Li)@[j],
                logical_factor ==> Lx@ == old(Lx)@ && Dinv@ == old(Dinv)@,
                wh.len() == n, pos.len() == n, nnz_y <= n,
                forall|c: int| 0 <= c < n ==> (#[trigger] wh[c] == 0 || (wh[c] == 1 && 0 <= pos[c] < nnz_y && y_idx@[pos[c]] == c)),
                list_ok(gk, Ap@, Ai@, etree@, y_idx@, nnz_y as int, 1, wh, pos),
                forall|c: int| 0 <= c < n ==> (#[trigger] y_markers@[c] <==> (wh[c] == 1 && pos[c] < nnz_y - it6.index@)),
                forall|c: int| 0 <= c < n ==> #[trigger] next_colspace@[c] - Lp@[c]
                    == (if wh[c] == 1 && pos[c] < nnz_y - it6.index@ { cnt(Ap@, Ai@, etree@, c, gk) } else { cnt(Ap@, Ai@, etree@, c, gk + 1) }),
//@body_start 6
            let ghost gc = y_idx@[i as int] as int;
            proof {
                assert(wh[gc] == 1 && pos[gc] == i);
                lemma_cnt_mono(Ap@, Ai@, etree@, gc, gk + 1, gn);
                assert(in_v(Ap@, Ai@, etree@, gk, gc));
                assert(cnt(Ap@, Ai@, etree@, gc, gk + 1) == cnt(Ap@, Ai@, etree@, gc, gk) + 1);
                assert(Lp@[gc + 1] == Lp@[gc] + lnz[gc]);
                assert(lnz[gc] >= cnt(Ap@, Ai@, etree@, gc, gn));
                lemma_psum_mono(lnz, gc + 1, gn);
                assert(Lp@[gc + 1] <= Lp@[gn]);
            }
//@iter 7
it7
//@loop 7
                        invariant
                            y_vals@.len() == n, r14_lo2_0 == f, r14_lo2_1 == f, r14_n2 <= l - f, f <= l, l <= Lx@.len(), l <= Li@.len(),
                            forall|j: int| f <= j < l ==> #[trigger] Li@[j] < n,
//@end

// ------------------------------------------------------------------ plumbing: the workspace carries what _etree computed to _factor_inner
//@struct file=src/algebra/csc/core.rs name=CscMatrix
//@struct file=src/qdldl/qdldl.rs name=QDLDLWorkspace
impl CscMatrix<F> {
//@fn file=src/algebra/csc/core.rs in="ShapedMatrix for CscMatrix<T>" name=nrows rules=R1 ret=r
//@contract
    ensures r == self.m
//@end
//@fn file=src/algebra/csc/core.rs in="ShapedMatrix for CscMatrix<T>" name=ncols rules=R1 ret=r
//@contract
    ensures r == self.n
//@end
}
// the workspace belongs to its matrix: symbolic factorisation (tree, column counts) of triuA's pattern, work arrays of the right sizes
pub open spec fn ws_ok(w: QDLDLWorkspace<F>) -> bool {
    let n = w.triuA.n;
    &&& w.triuA.m == n
    &&& triu_o(n, w.triuA.colptr@, w.triuA.rowval@) && w.triuA.nzval@.len() == w.triuA.rowval@.len()
    &&& etree_wf(n as int, w.etree@) && lnz_exact(n as int, w.triuA.colptr@, w.triuA.rowval@, w.etree@, w.Lnz@, n as int)
    &&& w.iwork@.len() == 3 * n && w.bwork@.len() == n && w.fwork@.len() == n && w.Dsigns@.len() == n
}
impl QDLDLWorkspace<F> {
//@fn file=src/qdldl/qdldl.rs in="impl<T> QDLDLWorkspace<T>" name=new rules=R1 ret=r
//@contract
    requires
        // what permute_symmetric / check_structure deliver: a square upper triangular pattern
        triuA.m == triuA.n, triu_o(triuA.n, triuA.colptr@, triuA.rowval@), triuA.nzval@.len() == triuA.rowval@.len(),
        3 * triuA.n <= usize::MAX, Dsigns@.len() == triuA.n,
    ensures
        r matches Ok(w) && ws_ok(w) && w.triuA == triuA && w.AtoPAPt == AtoPAPt && w.Dsigns == Dsigns
            && w.regularize_enable == regularize_enable && w.regularize_eps == regularize_eps && w.regularize_delta == regularize_delta
            && w.regularize_count == 0 && w.positive_inertia == 0,
//@end
}
// everything of the workspace that a factorisation must not touch
pub open spec fn ws_static_same(w0: QDLDLWorkspace<F>, w1: QDLDLWorkspace<F>) -> bool {
    w1.triuA == w0.triuA && w1.etree == w0.etree && w1.Lnz == w0.Lnz && w1.AtoPAPt == w0.AtoPAPt && w1.Dsigns == w0.Dsigns
        && w1.regularize_enable == w0.regularize_enable && w1.regularize_eps == w0.regularize_eps && w1.regularize_delta == w0.regularize_delta
}

//@fn file=src/qdldl/qdldl.rs name=_factor rules=R1 ret=r
//@contract
    requires
        ws_ok(*old(workspace)),
        // L as allocated by _qdldl_new: spalloc((n, n), sum(Lnz)); D, Dinv of length n
        old(L).colptr@.len() == old(workspace).triuA.n + 1, old(L).rowval@.len() == old(L).nzval@.len(),
        psum(old(workspace).Lnz@, old(workspace).triuA.n as int) <= old(L).rowval@.len(),
        old(D)@.len() == old(workspace).triuA.n, old(Dinv)@.len() == old(workspace).triuA.n,
    ensures
        // the workspace stays fit for the next refactorisation, its matrix / tree / counts / settings are untouched
        ws_ok(*final(workspace)), ws_static_same(*old(workspace), *final(workspace)),
        final(L).m == old(L).m, final(L).n == old(L).n,
        final(L).colptr@.len() == old(L).colptr@.len(), final(L).rowval@.len() == old(L).rowval@.len(), final(L).nzval@.len() == old(L).nzval@.len(),
        final(D)@.len() == old(D)@.len(), final(Dinv)@.len() == old(Dinv)@.len(),
        // errors of the engine are passed on, never swallowed: Ok only if _factor_inner returned Ok
        match r { Ok(_) => final(workspace).positive_inertia <= old(workspace).triuA.n, Err(e) => e == QDLDLError::ZeroPivot && !logical },
        final(workspace).regularize_count <= old(workspace).triuA.n,
        old(workspace).triuA.n > 0 ==> lp_ok(old(workspace).triuA.n as int, final(L).colptr@, old(workspace).Lnz@, old(L).rowval@.len() as int),
        old(workspace).triuA.n > 0 ==> l_wf_if_rows_ok(old(workspace).triuA.n as int, old(L).rowval@, final(L).colptr@, final(L).rowval@, final(L).nzval@),
        // C12: a factorisation that reports success has filled every column of L completely with rows strictly below the diagonal and
        // inside the matrix: l_wf and l_strict (folded in l_complete) are exactly what QDLDLFactorisation::solve / _solve require
        r is Ok && old(workspace).triuA.n > 0 ==> l_complete(old(workspace).triuA.n as int, final(L).colptr@, final(L).rowval@, final(L).nzval@),
        // C12, numeric mode and Ok: no zero pivot, Dinv = 1/D entry by entry, the recorded positive inertia is the number of positive pivots,
        // pivots are perturbed exactly when their signed value is below the threshold and regularize_count counts them (see _factor_inner)
        !logical && r is Ok ==> pivots_ok(old(workspace).triuA.n as int, final(D)@, final(Dinv)@, final(workspace).positive_inertia as int)
            && exists|pre: Seq<F>| pre.len() == old(workspace).triuA.n
                && #[trigger] reg_ok(old(workspace).triuA.n as int, pre, final(D)@, old(workspace).Dsigns@, old(workspace).regularize_enable,
                    old(workspace).regularize_eps, old(workspace).regularize_delta, final(workspace).regularize_count as int),
        // logical mode: always Ok, every numeric entry of L and Dinv is the placeholder 1, nothing is counted
        logical ==> r is Ok && final(workspace).positive_inertia == 0 && final(workspace).regularize_count == 0
            && (forall|k: int| 0 <= k < final(Dinv)@.len() ==> #[trigger] final(Dinv)@[k] == f_one())
            && (forall|j: int| 0 <= j < final(L).nzval@.len() ==> #[trigger] final(L).nzval@[j] == f_one()),
//@end
} // verus!
fn main() {}
