// unit `qdldl_safe` : the bounds-checked triangular solves of the LDL engine, `_lsolve_safe` / `_ltsolve_safe` (src/qdldl/qdldl.rs), against the
// SAME functional contracts as the unchecked versions proved in unit qdldl_kernels (C12).  They are not called by `_solve` (which uses the
// unchecked versions); they are the reference the comment in `_solve` points to.
// PROVED: from l_wf (the shape _factor leaves L in: unit qdldl_factor) no index / slice-range panic; in F-real, for a strictly lower triangular L:
//   _lsolve_safe  (I + L) x = b exactly, row by row;   _ltsolve_safe  (I + L)' x = b exactly, row by row.
// ASSUMED: prelude/float_opaque.rs, prelude/float_real_axioms.rs (admitted axiom group, guarded by canary_real_axioms which MUST fail),
//   prelude/std_assumed.rs.  Spec vocabulary (l_wf, l_strict, lcol, ltot, ltdot, frame lemmas) copied verbatim from unit qdldl_kernels; the lemmas
//   are re-proved here.
// Rewrite rules: R1, zipidx (the zip over the two sub-slices `&Lx[f..l]`, `&Li[f..l]` becomes an index loop over them; the two slice expressions
//   themselves are real text, their range checks are proof obligations).
// MEASURED (verus --rlimit 50 = 150 M units): 29 obligations + the canary (must fail), 2 s; _ltsolve_safe 0.93 M (0.6 %), _lsolve_safe 0.75 M; seeds 1..4 stable.
// MUTATION ROUND (7 wrong edits, one at a time): all fail a named obligation (`+=` for `-=`, Lp[i] + 1 for Lp[i + 1], x[Lij] for xi, forward order in the
//  transposed solve, `x[i] += s`, s accumulated from x[i], slice f..l+1).
use vstd::prelude::*;
verus! {
//@include prelude/float_opaque.rs
//@include prelude/float_real_axioms.rs
//@include prelude/std_assumed.rs
// L is n x n strictly lower triangular in CSC form with row indices inside the matrix (what _factor_inner produces)
pub open spec fn l_wf(n: int, lp: Seq<usize>, li: Seq<usize>, lx: Seq<F>) -> bool {
    &&& lp.len() == n + 1
    &&& forall|c: int, d: int| 0 <= c <= d <= n ==> lp[c] <= lp[d]
    &&& lp[n] <= li.len() && lp[n] <= lx.len()
    &&& forall|k: int| 0 <= k < lp[n] ==> #[trigger] li[k] < n
}

// ---- what the solves compute, in real arithmetic (F-real): products with the strictly lower triangular L read off its CSC arrays
pub open spec fn l_strict(n: int, lp: Seq<usize>, li: Seq<usize>) -> bool {
    forall|c: int, j: int| #[trigger] l_in_col(n, lp, c, j) ==> li[j] > c
}
pub open spec fn l_in_col(n: int, lp: Seq<usize>, c: int, j: int) -> bool { 0 <= c < n && lp[c] <= j < lp[c + 1] }
// contribution of the entries lp[c]..hi of column c to row r of L*y
pub open spec fn lcol(lp: Seq<usize>, li: Seq<usize>, lx: Seq<F>, y: Seq<F>, r: int, c: int, hi: int) -> real decreases hi - lp[c] {
    if hi <= lp[c] { 0real } else { lcol(lp, li, lx, y, r, c, hi - 1) + (if li[hi - 1] == r { lx[hi - 1].v() * y[c].v() } else { 0real }) }
}
// (L y)_r restricted to the columns < i
pub open spec fn ltot(lp: Seq<usize>, li: Seq<usize>, lx: Seq<F>, y: Seq<F>, r: int, i: int) -> real decreases i {
    if i <= 0 { 0real } else { ltot(lp, li, lx, y, r, i - 1) + lcol(lp, li, lx, y, r, i - 1, lp[i] as int) }
}
// (L' y)_i over the entries lp[i]..hi of column i
pub open spec fn ltdot(lp: Seq<usize>, li: Seq<usize>, lx: Seq<F>, y: Seq<F>, i: int, hi: int) -> real decreases hi - lp[i] {
    if hi <= lp[i] { 0real } else { ltdot(lp, li, lx, y, i, hi - 1) + lx[hi - 1].v() * y[li[hi - 1] as int].v() }
}
pub proof fn lemma_lcol_frame(lp: Seq<usize>, li: Seq<usize>, lx: Seq<F>, y1: Seq<F>, y2: Seq<F>, r: int, c: int, hi: int)
    requires y1[c] == y2[c],
    ensures lcol(lp, li, lx, y1, r, c, hi) == lcol(lp, li, lx, y2, r, c, hi),
    decreases hi - lp[c],
{ if hi > lp[c] { lemma_lcol_frame(lp, li, lx, y1, y2, r, c, hi - 1); } }
pub proof fn lemma_ltot_frame(lp: Seq<usize>, li: Seq<usize>, lx: Seq<F>, y1: Seq<F>, y2: Seq<F>, r: int, i: int)
    requires forall|c: int| 0 <= c < i ==> y1[c] == y2[c],
    ensures ltot(lp, li, lx, y1, r, i) == ltot(lp, li, lx, y2, r, i),
    decreases i,
{ if i > 0 { lemma_ltot_frame(lp, li, lx, y1, y2, r, i - 1); lemma_lcol_frame(lp, li, lx, y1, y2, r, i - 1, lp[i] as int); } }
pub proof fn lemma_ltdot_frame(lp: Seq<usize>, li: Seq<usize>, lx: Seq<F>, y1: Seq<F>, y2: Seq<F>, i: int, hi: int)
    requires forall|j: int| lp[i] <= j < hi ==> y1[li[j] as int] == y2[li[j] as int],
    ensures ltdot(lp, li, lx, y1, i, hi) == ltdot(lp, li, lx, y2, i, hi),
    decreases hi - lp[i],
{ if hi > lp[i] { lemma_ltdot_frame(lp, li, lx, y1, y2, i, hi - 1); } }
pub open spec fn solve_witness(lp: Seq<usize>, li: Seq<usize>, lx: Seq<F>, dinv: Seq<F>, b: Seq<F>, z: Seq<F>, x: Seq<F>) -> bool {
    let n = b.len() as int;
    &&& z.len() == n && x.len() == n
    &&& forall|r: int| 0 <= r < n ==> (#[trigger] z[r]).v() + ltot(lp, li, lx, z, r, n) == b[r].v()
    &&& forall|r: int| 0 <= r < n ==> (#[trigger] x[r]).v() + ltdot(lp, li, lx, x, r, lp[r + 1] as int) == dinv[r].v() * z[r].v()
}
pub open spec fn range_from0(sq: Seq<usize>) -> bool { forall|k: int| 0 <= k < sq.len() ==> #[trigger] sq[k] == k }

//@fn file=src/qdldl/qdldl.rs name=_lsolve_safe rules=R1,zipidx:2=ii
//@contract
    requires l_wf(old(x)@.len() as int, Lp@, Li@, Lx@),
    ensures final(x)@.len() == old(x)@.len(),
        // C12 (real arithmetic): the result solves (I + L) x = b exactly, row by row
        l_strict(old(x)@.len() as int, Lp@, Li@) ==> forall|r: int| 0 <= r < old(x)@.len() ==>
            (#[trigger] final(x)@[r]).v() + ltot(Lp@, Li@, Lx@, final(x)@, r, old(x)@.len() as int) == old(x)@[r].v(),
//@pre
        broadcast use real_arith;
        let ghost b0 = x@;
        let ghost n = x@.len() as int;
        let ghost gLp = Lp@; let ghost gLi = Li@; let ghost gLx = Lx@;
        let ghost strict = l_strict(n, gLp, gLi);
//@iter 1
it0
//@loop 1
        invariant x@.len() == old(x)@.len(), l_wf(x@.len() as int, gLp, gLi, gLx), gLp == Lp@, gLi == Li@, gLx == Lx@,
            it0.seq().len() == n, range_from0(it0.seq()), n == x@.len(), b0 == old(x)@, strict == l_strict(n, gLp, gLi),
            strict ==> forall|r: int| 0 <= r < n ==> (#[trigger] x@[r]).v() + ltot(gLp, gLi, gLx, x@, r, it0.index@ as int) == b0[r].v(),
//@body_start 1
            broadcast use real_arith;
            let ghost gi = i as int;
            let ghost x1 = x@;
            proof { assert(gLp[gi] <= gLp[gi + 1] <= gLp[n]); }
//@iter 2
it1
//@loop 2
            invariant x@.len() == old(x)@.len(), l_wf(x@.len() as int, gLp, gLi, gLx), i < x@.len(), f == gLp[i as int], l == gLp[i + 1], f <= l, l <= gLi.len(), l <= gLx.len(),
                Li@ == gLi.subrange(f as int, l as int), Lx@ == gLx.subrange(f as int, l as int),
                it1.seq().len() == r14_n1, range_from0(it1.seq()), r14_n1 == l - f, gi == i, n == x@.len(), xi == x1[gi], strict == l_strict(n, gLp, gLi), x1.len() == n,
                strict ==> forall|c: int| 0 <= c <= gi ==> #[trigger] x@[c] == x1[c],
                strict ==> forall|r: int| 0 <= r < n ==> (#[trigger] x@[r]).v() + ltot(gLp, gLi, gLx, x1, r, gi) + lcol(gLp, gLi, gLx, x1, r, gi, f + it1.index@) == b0[r].v(),
//@body_start 2
                broadcast use real_arith;
                let ghost gj = f as int + r14_i1 as int;
                let ghost x2 = x@;
                proof {
                    assert(Li@[r14_i1 as int] == gLi[gj]); assert(Lx@[r14_i1 as int] == gLx[gj]);
                    assert(gLi[gj] < n);
                    if strict { assert(l_in_col(n, gLp, gi, gj)); assert(gLi[gj] > gi); }
                    assert(forall|r: int| 0 <= r < n ==> lcol(gLp, gLi, gLx, x1, r, gi, gj + 1) == lcol(gLp, gLi, gLx, x1, r, gi, gj) + (if gLi[gj] == r { gLx[gj].v() * x1[gi].v() } else { 0real }));
                }
//@body_end 1
            proof {
                if strict {
                    assert forall|r: int| 0 <= r < n implies (#[trigger] x@[r]).v() + ltot(gLp, gLi, gLx, x@, r, gi + 1) == b0[r].v() by {
                        lemma_ltot_frame(gLp, gLi, gLx, x1, x@, r, gi);
                        lemma_lcol_frame(gLp, gLi, gLx, x1, x@, r, gi, gLp[gi + 1] as int);
                    }
                }
            }
//@end

//@fn file=src/qdldl/qdldl.rs name=_ltsolve_safe rules=R1,zipidx:2=ii
//@contract
    requires l_wf(old(x)@.len() as int, Lp@, Li@, Lx@),
    ensures final(x)@.len() == old(x)@.len(),
        // C12 (real arithmetic): the result solves (I + L)' x = b exactly, row by row
        l_strict(old(x)@.len() as int, Lp@, Li@) ==> forall|r: int| 0 <= r < old(x)@.len() ==>
            (#[trigger] final(x)@[r]).v() + ltdot(Lp@, Li@, Lx@, final(x)@, r, Lp@[r + 1] as int) == old(x)@[r].v(),
//@pre
        broadcast use real_arith;
        let ghost b0 = x@;
        let ghost n = x@.len() as int;
        let ghost gLp = Lp@; let ghost gLi = Li@; let ghost gLx = Lx@;
        let ghost strict = l_strict(n, gLp, gLi);
//@iter 1
it0
//@loop 1
        invariant x@.len() == old(x)@.len(), l_wf(x@.len() as int, gLp, gLi, gLx), gLp == Lp@, gLi == Li@, gLx == Lx@,
            it0.seq().len() == n, (forall|k: int| 0 <= k < n ==> #[trigger] it0.seq()[k] == n - 1 - k), n == x@.len(), b0 == old(x)@, strict == l_strict(n, gLp, gLi),
            forall|r: int| 0 <= r < n - it0.index@ ==> #[trigger] x@[r] == b0[r],
            strict ==> forall|r: int| n - it0.index@ <= r < n ==> (#[trigger] x@[r]).v() + ltdot(gLp, gLi, gLx, x@, r, gLp[r + 1] as int) == b0[r].v(),
//@body_start 1
            broadcast use real_arith;
            let ghost gi = i as int;
            let ghost x1 = x@;
            proof { assert(gLp[gi] <= gLp[gi + 1] <= gLp[n]); }
//@iter 2
it1
//@loop 2
            invariant x@.len() == old(x)@.len(), l_wf(x@.len() as int, gLp, gLi, gLx), i < x@.len(), f == gLp[i as int], l == gLp[i + 1], f <= l, l <= gLi.len(), l <= gLx.len(),
                Li@ == gLi.subrange(f as int, l as int), Lx@ == gLx.subrange(f as int, l as int),
                it1.seq().len() == r14_n1, range_from0(it1.seq()), r14_n1 == l - f, gi == i, n == x@.len(), x@ == x1,
                s.v() == ltdot(gLp, gLi, gLx, x1, gi, f + it1.index@),
//@body_start 2
                broadcast use real_arith;
                proof {
                    let gj = f as int + r14_i1 as int;
                    assert(Li@[r14_i1 as int] == gLi[gj]); assert(Lx@[r14_i1 as int] == gLx[gj]);
                    assert(gLi[gj] < n);
                    assert(ltdot(gLp, gLi, gLx, x1, gi, gj + 1) == ltdot(gLp, gLi, gLx, x1, gi, gj) + gLx[gj].v() * x1[gLi[gj] as int].v());
                }
//@body_end 1
            proof {
                if strict {
                    assert forall|r: int| gi <= r < n implies (#[trigger] x@[r]).v() + ltdot(gLp, gLi, gLx, x@, r, gLp[r + 1] as int) == b0[r].v() by {
                        assert forall|j: int| gLp[r] <= j < gLp[r + 1] implies x1[gLi[j] as int] == x@[gLi[j] as int] by {
                            assert(l_in_col(n, gLp, r, j)); assert(gLi[j] > r);
                        }
                        lemma_ltdot_frame(gLp, gLi, gLx, x1, x@, r, gLp[r + 1] as int);
                    }
                }
            }
//@end
} // verus!
fn main() {}
