#![allow(non_snake_case)]
// unit `chordal_sntree` : SuperNodeTree::reorder_snode_consecutively, ChordalInfo::new / find_sparsity_patterns, try_chordal_info (C17 / C18)
// (feature `sdp`: `//@features serde,sdp`).  No floats except the comparison `b[i] != 0` inside an assumed callee.
//
// PROVED (real text, unbounded; panic-freedom = every index / overflow / unwrap / assert! obligation, plus the clause given):
//   supernode_tree.rs
//     reorder_snode_consecutively   with koff(j) = total size of the supernodes of order < j and pcat = the supernodes in post order, each sorted, concatenated:
//         p == pcat is a PERMUTATION of 0..n (lemma_pcat: duplicate-free, in range, length n) => both assert!s of invperm hold and p_inv is its
//         inverse, itself injective (lemma_inv_injective, pigeonhole);  the supernode of order j becomes the consecutive range koff(j) .. koff(j) + |snode|
//         (in this order), unlisted (merged-away) supernodes are untouched;  EVERY separator is mapped through p_inv (member k -> p_inv[member k], same
//         order; `assert!(p.len() >= sp.len())` holds by pigeonhole);  ordering'[p_inv[i]] == ordering[i] for every i;  snode_post, snode_parent,
//         snode_children, post, nblk, n_cliques untouched
//   chordal_info.rs
//     find_sparsity_patterns        exactly the PSDTriangleConeT cones are analysed (NO size threshold here: the `dim > 3` test of try_chordal_info only asks
//         whether ANY cone is large), each with ITS rows of the aggregate mask and its own index; the patterns appended have strictly increasing
//         orig_index, each names a PSD cone (sp_sorted / sp_psd); nothing else of self changes
//     ChordalInfo::new              init_dims = (A.n, A.m); H, cone_maps None; init_cones = the cones iff at least one pattern was recorded, else empty;
//         the patterns as above
//   implementations/default/problemdata.rs
//     try_chordal_info              None if the feature is disabled, if no PSD cone has dim > 3 (then nothing is analysed), or if nothing was decomposed;
//         Some(ci) otherwise with the contract of ChordalInfo::new and at least one pattern
// ASSUMED (hand-written stand-ins):
//   analyse_psdtriangle_sparsity_pattern   contract text of unit chordal_merge (PROVED there): requires nz_mask.len() == tri(conedim) and a merge method
//       string; ensures either nothing or exactly one pattern with orig_index = coneidx is appended, nothing else of self changes
//   find_aggregate_sparsity_mask           contract of unit chordal_decomp (PROVED there), abbreviated to its length clause + precondition
//   rng_cones_iter / next (unit solver_new), ChordalInfo::is_decomposed (unit chordal_merge), invperm (unit csc_build), ipermute (unit alg_utils),
//   CscMatrix::{ncols, nrows} (unit chordal_tree), VertexSet (units/inc/chordal_sets.rs) + the two `extend` instances (a range; a slice: insert in order)
//   std: `<[usize]>::sort` on a window (usize_sort_range = sorted_of(window), outside untouched), <[T]>::to_vec, derived Clone (String::as_str: vstd's own specification)
//   EXTRACTOR (additive): rules rangesort:NAMES, setextend:NAMES (tools/extract.py docstrings)
// PRECONDITIONS and the call sites:
//   reorder_snode_consecutively `reorder_pre`: the supernodes listed in snode_post are distinct cliques, duplicate-free, pairwise disjoint, members < n
//     = |post|, and their sizes add up to n (=> they PARTITION 0..n); separators duplicate-free with members < n; |ordering| == n.  Established by
//     SuperNodeTree::new + the merge (unit chordal_merge: tree_ok has sn_partition / sep_ok; post order of the n_cliques active cliques) - the
//     composition SuperNodeTree::new is still ASSUMED there.  If a supernode were listed twice or the sizes did not add up, invperm's assert! panics.
//   find_sparsity_patterns / ChordalInfo::new / try_chordal_info `rows of the cones == b.len()` (== A.m): _check_dimensions of DefaultSolver::new.
//     `is_merge_method(settings...)`: NOT established (O18 / D1 of unit chordal_merge).
//   O7 RE-EXAMINED: DefaultProblemData::new calls try_chordal_info(A, b, &cones, settings) with the ORIGINAL A, b and the collapsed ORIGINAL cones -
//     this call is consistent in itself (its precondition row_off(cones) == b.len() holds).  What is violated is downstream: decomp_augment is then
//     called with A_new / b_new of the PRESOLVER (rows with b >= 1e20 of nonnegative cones removed) while ci.init_cones / init_dims still describe
//     the un-presolved data: the violated preconditions are `b@.len() == cm_m(ci)` of find_compact_A_b_and_cones (compact) resp. `A.m == aug_m(ci)` of
//     decomp_augment_standard (standard), i.e. "rows of init_cones == rows of the A handed to decomp_augment".  Concretely: cones
//     [NonnegativeConeT(1), PSDTriangleConeT(4)] (non-dense chordal pattern), b[0] = 1e20, presolve_enable and chordal_decomposition_enable (defaults).
//     A repair would run try_chordal_info on the presolved data (A_new.as_ref().unwrap_or(A), .., cones_new.as_ref().unwrap_or(&cones)).
// DROPPED (ran out of time, not of method): SuperNodeTree::new (composition of proved pieces; post_order / find_supernodes / pothen_sun are proved
//   only as statement slices, their closures position / retain / sort_by / position_all still need rules), psd_completion / psd_complete.
// MUTATION ROUND (scratch copy, one edit at a time, each fails the named function): separators not mapped (`tmp[i] = x`), ipermute with p instead of p_inv,
//   `k += n` dropped, `p[j] = v`, `snode.extend(0..n)`, window sort dropped, scratch window `0..sp.len() + 1` (reorder_snode_consecutively); non-PSD cones
//   analysed (`if let NonnegativeConeT(dim)`), `coneidx + 1`, `*dim + 1` (find_sparsity_patterns); cones copied when NOT decomposed, init_dims swapped
//   (ChordalInfo::new); `dim >= 3`, undecomposed result returned, enable flag inverted (try_chordal_info): 15 of 15 caught.  The literal edit
//   `tmp[i] = p[x]` does not compile (p is mutably borrowed as tmp) - not a possible change.  First run: `k += n` dropped and the dropped window sort
//   ended as lost anchors -> hints moved off the deleted statements.
// rlimit: reorder_snode_consecutively 2.0-2.2 M (spinoff_prover), everything else below 0.9 M; seeds 0-3 stable
use vstd::prelude::*;
use std::ops::Range;
use crate::SupportedConeT::{PSDTriangleConeT, ZeroConeT, NonnegativeConeT, SecondOrderConeT};
verus! {
global size_of usize == 8;
//@features serde,sdp
//@include prelude/float_opaque.rs
//@include prelude/std_assumed.rs
//@include units/inc/chordal_sets.rs
//@struct file=src/algebra/csc/core.rs name=CscMatrix
//@enum file=src/solver/core/cones/supportedcone.rs name=SupportedConeT rules=R12
//@struct file=src/solver/chordal/supernode_tree.rs name=SuperNodeTree
//@struct file=src/solver/chordal/sparsity_pattern.rs name=SparsityPattern
//@struct file=src/solver/chordal/chordal_info.rs name=ConeMapEntry
//@struct file=src/solver/chordal/chordal_info.rs name=ChordalInfo
//@struct file=src/solver/implementations/default/settings.rs name=DefaultSettings rules=R1f keep=max_step_fraction,chordal_decomposition_enable,chordal_decomposition_merge_method,chordal_decomposition_compact,chordal_decomposition_complete_dual
pub type CoreSettings<T> = DefaultSettings<T>;
pub type Cone = SupportedConeT<F>;
// ASSUMED: the derived Clone of the cone enum returns an equal value (used by to_vec)
impl Clone for SupportedConeT<F> { #[verifier::external_body] fn clone(&self) -> (r: Self) ensures r == *self { unimplemented!() } }

// ---- ASSUMED std / indexmap pieces ----
pub uninterp spec fn sorted_of(s: Seq<usize>) -> Seq<usize>;
// `v[a..b].sort()`: the window becomes sorted_of(window) (same members, nondecreasing, ascending for distinct members), the rest is untouched
#[verifier::external_body]
pub fn usize_sort_range(v: &mut Vec<usize>, a: usize, b: usize)
    requires a <= b <= old(v)@.len(),
    ensures final(v)@.len() == old(v)@.len(),
        final(v)@.subrange(a as int, b as int) == sorted_of(old(v)@.subrange(a as int, b as int)),
        same_members(sorted_of(old(v)@.subrange(a as int, b as int)), old(v)@.subrange(a as int, b as int)),
        old(v)@.subrange(a as int, b as int).no_duplicates() ==> sorted_of(old(v)@.subrange(a as int, b as int)).no_duplicates() && ascending(sorted_of(old(v)@.subrange(a as int, b as int))),
        forall|k: int| 0 <= k < old(v)@.len() && !(a <= k < b) ==> #[trigger] final(v)@[k] == old(v)@[k],
{ v[a..b].sort() }
pub proof fn ax_sorted_of(s: Seq<usize>)
    ensures same_members(sorted_of(s), s), s.no_duplicates() ==> sorted_of(s).no_duplicates() && ascending(sorted_of(s)),
{ admit(); }
// vacuity guard for the admitted axiom: this lemma MUST FAIL
pub proof fn canary_sort_axiom(s: Seq<usize>) ensures false { ax_sorted_of(s); }
pub open spec fn range_seq(a: int, n: int) -> Seq<usize> { Seq::new(n as nat, |i: int| (a + i) as usize) }
impl VertexSet {
    // IndexSet::extend = insert every yielded item, in order (indexmap documentation)
    #[verifier::external_body] pub fn extend_range(&mut self, a: usize, b: usize)
        ensures final(self)@ == ins_all(old(self)@, range_seq(a as int, if b >= a { b - a } else { 0 }), if b >= a { b - a } else { 0 }),
    { unimplemented!() }
    #[verifier::external_body] pub fn extend_slice(&mut self, s: &[usize])
        ensures final(self)@ == ins_all(old(self)@, s@, s@.len() as int),
    { unimplemented!() }
}
pub assume_specification<T: Clone> [<[T]>::to_vec] (s: &[T]) -> (r: Vec<T>) ensures r@ == s@;   // used at T = usize (Copy)
pub open spec fn in_range(p: Seq<usize>, n: int) -> bool { forall|i: int| 0 <= i < p.len() ==> #[trigger] p[i] < n }
pub open spec fn injective(p: Seq<usize>) -> bool { forall|i: int, j: int| 0 <= i < j < p.len() ==> #[trigger] p[i] != #[trigger] p[j] }
// ASSUMED here, PROVED in unit csc_build (same contract; `injective` is opaque there)
#[verifier::external_body]
fn invperm(p: &[usize]) -> (r: Vec<usize>)
    requires forall|i: int| 0 <= i < p@.len() ==> #[trigger] p@[i] < p@.len(), injective(p@),
    ensures r@.len() == p@.len(), forall|i: int| 0 <= i < p@.len() ==> #[trigger] r@[p@[i] as int] == i,
{ unimplemented!() }
// ASSUMED here, PROVED in unit alg_utils (same contract text)
#[verifier::external_body]
fn ipermute<T: Copy>(x: &mut [T], b: &[T], p: &[usize])
    requires in_range(p@, old(x)@.len() as int),
    ensures
        final(x)@.len() == old(x)@.len(),
        forall|i: int| 0 <= i < p@.len() && i < b@.len() && (forall|i2: int| i < i2 < p@.len() && i2 < b@.len() ==> p@[i2] != p@[i])
            ==> final(x)@[#[trigger] p@[i] as int] == b@[i],
        forall|s: int| 0 <= s < old(x)@.len() && (forall|i: int| 0 <= i < p@.len() && i < b@.len() ==> p@[i] != s) ==> #[trigger] final(x)@[s] == old(x)@[s],
{ unimplemented!() }

// ---- reorder_snode_consecutively ----
pub open spec fn nv(t: SuperNodeTree) -> int { t.post@.len() as int }
pub open spec fn sn_of(t: SuperNodeTree, j: int) -> Seq<usize> { t.snode@[t.snode_post@[j] as int]@ }
// total size of the supernodes of order < j
pub open spec fn koff(t: SuperNodeTree, j: int) -> int decreases j { if j <= 0 { 0 } else { koff(t, j - 1) + sn_of(t, j - 1).len() } }
// the permutation vector: the supernodes in post order, each sorted, one after the other
pub open spec fn pcat(t: SuperNodeTree, j: int) -> Seq<usize> decreases j { if j <= 0 { Seq::empty() } else { pcat(t, j - 1) + sorted_of(sn_of(t, j - 1)) } }
pub open spec fn reorder_pre(t: SuperNodeTree, ord_len: int) -> bool {
    let np = t.snode_post@.len() as int;
    &&& t.separators@.len() <= usize::MAX && nv(t) < 0x8000_0000 && ord_len == nv(t)
    &&& forall|j: int| 0 <= j < np ==> #[trigger] t.snode_post@[j] < t.snode@.len()
    &&& forall|i: int, j: int| 0 <= i < j < np ==> t.snode_post@[i] != t.snode_post@[j]
    // the listed supernodes partition the vertices 0..n
    &&& forall|j: int| 0 <= j < np ==> (#[trigger] sn_of(t, j)).no_duplicates()
    &&& forall|j: int, k: int| 0 <= j < np && 0 <= k < sn_of(t, j).len() ==> (#[trigger] sn_of(t, j)[k]) < nv(t)
    &&& forall|i: int, j: int| 0 <= i < j < np ==> disjoint(#[trigger] sn_of(t, i), #[trigger] sn_of(t, j))
    &&& koff(t, np) == nv(t)
    // separators name vertices, once each
    &&& forall|c: int| 0 <= c < t.separators@.len() ==> (#[trigger] t.separators@[c])@.no_duplicates()
    &&& forall|c: int, k: int| 0 <= c < t.separators@.len() && 0 <= k < t.separators@[c]@.len() ==> (#[trigger] t.separators@[c]@[k]) < nv(t)
}
pub open spec fn is_inverse(pinv: Seq<usize>, p: Seq<usize>) -> bool { pinv.len() == p.len() && forall|i: int| 0 <= i < p.len() ==> #[trigger] pinv[p[i] as int] == i }
pub open spec fn map_inv(s: Seq<usize>, pinv: Seq<usize>) -> Seq<usize> { Seq::new(s.len(), |k: int| pinv[s[k] as int]) }
pub open spec fn reorder_post(t0: SuperNodeTree, t1: SuperNodeTree, ord0: Seq<usize>, ord1: Seq<usize>, pinv: Seq<usize>) -> bool {
    let np = t0.snode_post@.len() as int;
    // p_inv is the inverse of the permutation pcat (supernodes in post order, each sorted) and is itself a permutation of 0..n
    &&& is_inverse(pinv, pcat(t0, np)) && injective(pinv) && in_range(pinv, nv(t0))
    // after it the supernode of order j is the consecutive range koff(j) .. koff(j) + |snode| ...
    &&& t1.snode@.len() == t0.snode@.len()
    &&& forall|j: int| 0 <= j < np ==> (#[trigger] t1.snode@[t0.snode_post@[j] as int])@ == range_seq(koff(t0, j), sn_of(t0, j).len() as int)
    // ... supernodes that are not listed (merged away) are untouched
    &&& forall|c: int| 0 <= c < t0.snode@.len() && (forall|j: int| 0 <= j < np ==> t0.snode_post@[j] != c) ==> #[trigger] t1.snode@[c] == t0.snode@[c]
    // separators and `ordering` are mapped through p_inv
    &&& t1.separators@.len() == t0.separators@.len()
    &&& forall|c: int| 0 <= c < t0.separators@.len() ==> (#[trigger] t1.separators@[c])@ == map_inv(t0.separators@[c]@, pinv)
    &&& ord1.len() == ord0.len() && forall|i: int| 0 <= i < ord0.len() ==> #[trigger] ord1[pinv[i] as int] == ord0[i]
    // nothing else changes
    &&& t1.snode_post == t0.snode_post && t1.snode_parent == t0.snode_parent && t1.snode_children == t0.snode_children && t1.post == t0.post
    &&& t1.nblk == t0.nblk && t1.n_cliques == t0.n_cliques
}
pub proof fn lemma_koff_mono(t: SuperNodeTree, a: int, b: int)
    requires 0 <= a <= b,
    ensures 0 <= koff(t, a) <= koff(t, b), a < b ==> koff(t, a) + sn_of(t, a).len() <= koff(t, b),
    decreases b,
{ if a < b { lemma_koff_mono(t, a, b - 1); if a < b - 1 { } } else if a > 0 { lemma_koff_mono(t, a - 1, a - 1); } }
// pcat(j) has koff(j) entries, no repetitions, entries < n, and its members are exactly the members of the supernodes of order < j
pub proof fn lemma_pcat(t: SuperNodeTree, j: int)
    requires reorder_pre(t, nv(t)), 0 <= j <= t.snode_post@.len(),
    ensures
        pcat(t, j).len() == koff(t, j), pcat(t, j).no_duplicates(), in_range(pcat(t, j), nv(t)),
        forall|x: usize| #[trigger] pcat(t, j).contains(x) <==> exists|i: int| 0 <= i < j && #[trigger] sn_of(t, i).contains(x),
    decreases j,
{
    if j > 0 {
        lemma_pcat(t, j - 1);
        let a = pcat(t, j - 1); let sn = sn_of(t, j - 1); let b = sorted_of(sn);
        ax_sorted_of(sn);
        lemma_concat_contains(a, b);
        assert(disjoint(a, b)) by {
            assert forall|x: usize| !(a.contains(x) && b.contains(x)) by {
                if a.contains(x) && b.contains(x) {
                    let i = choose|i: int| 0 <= i < j - 1 && #[trigger] sn_of(t, i).contains(x);
                    assert(disjoint(sn_of(t, i), sn_of(t, j - 1)));
                }
            }
        }
        lemma_concat_nodup(a, b);
        assert forall|q: int| 0 <= q < (a + b).len() implies #[trigger] (a + b)[q] < nv(t) by {
            if q >= a.len() {
                assert(b.contains(b[q - a.len()])); assert(sn.contains(b[q - a.len()]));
                let k = choose|k: int| 0 <= k < sn.len() && sn[k] == b[q - a.len()];
                assert(sn_of(t, j - 1)[k] < nv(t));
            }
        }
        assert forall|x: usize| #[trigger] pcat(t, j).contains(x) <==> exists|i: int| 0 <= i < j && #[trigger] sn_of(t, i).contains(x) by {
            if pcat(t, j).contains(x) {
                if a.contains(x) { let i = choose|i: int| 0 <= i < j - 1 && #[trigger] sn_of(t, i).contains(x); assert(0 <= i < j && sn_of(t, i).contains(x)); }
                else { assert(b.contains(x)); assert(sn_of(t, j - 1).contains(x)); }
            }
            if exists|i: int| 0 <= i < j && #[trigger] sn_of(t, i).contains(x) {
                let i = choose|i: int| 0 <= i < j && #[trigger] sn_of(t, i).contains(x);
                if i < j - 1 { assert(a.contains(x)); } else { assert(b.contains(x)); }
            }
        }
    }
}
// a duplicate-free list of n numbers below n contains every number below n (pigeonhole)
pub proof fn lemma_perm_surjective(p: Seq<usize>, x: usize)
    requires p.no_duplicates(), in_range(p, p.len() as int), x < p.len(), p.len() <= usize::MAX,
    ensures p.contains(x),
{
    if !p.contains(x) {
        let n = p.len() as int;
        let full = Seq::new(n as nat, |i: int| i as usize);
        assert(full.no_duplicates());
        lemma_rm(full, x);
        let b = rm(full, x);
        assert(full[x as int] == x); assert(full.contains(x));
        assert forall|i: int| 0 <= i < p.len() implies b.contains(#[trigger] p[i]) by {
            assert(p.contains(p[i])); assert(full[p[i] as int] == p[i]); assert(full.contains(p[i]));
        }
        lemma_nodup_sub_len(p, b);
    }
}
// the inverse of a permutation is injective and in range
pub proof fn lemma_inv_injective(pinv: Seq<usize>, p: Seq<usize>)
    requires is_inverse(pinv, p), p.no_duplicates(), in_range(p, p.len() as int), p.len() <= usize::MAX,
    ensures injective(pinv), in_range(pinv, p.len() as int),
{
    assert forall|i: int, j: int| 0 <= i < j < pinv.len() implies #[trigger] pinv[i] != #[trigger] pinv[j] by {
        lemma_perm_surjective(p, i as usize); lemma_perm_surjective(p, j as usize);
        let a = choose|a: int| 0 <= a < p.len() && p[a] == i as usize;
        let b = choose|b: int| 0 <= b < p.len() && p[b] == j as usize;
        assert(pinv[p[a] as int] == a && pinv[p[b] as int] == b);
    }
    assert forall|i: int| 0 <= i < pinv.len() implies #[trigger] pinv[i] < p.len() by {
        lemma_perm_surjective(p, i as usize);
        let a = choose|a: int| 0 <= a < p.len() && p[a] == i as usize;
        assert(pinv[p[a] as int] == a);
    }
}
// inserting the images of distinct members one after the other gives the mapped list itself
pub proof fn lemma_map_inv_ins(s: Seq<usize>, pinv: Seq<usize>)
    requires s.no_duplicates(), injective(pinv), in_range(s, pinv.len() as int),
    ensures ins_all(Seq::<usize>::empty(), map_inv(s, pinv), s.len() as int) == map_inv(s, pinv),
{
    let m = map_inv(s, pinv);
    assert forall|a: int, b: int| 0 <= a < m.len() && 0 <= b < m.len() && a != b implies m[a] != m[b] by {
        assert(s[a] != s[b]);
        if s[a] < s[b] { assert(pinv[s[a] as int] != pinv[s[b] as int]); } else { assert(pinv[s[b] as int] != pinv[s[a] as int]); }
    }
    lemma_ins_all_full(Seq::<usize>::empty(), m);
    assert(Seq::<usize>::empty() + m =~= m);
}
impl SuperNodeTree {
//@fn file=src/solver/chordal/supernode_tree.rs in="impl SuperNodeTree" name=reorder_snode_consecutively rules=R3,R5,zipidx:3=m,rangesort:p,R15:p,setextend:snode|sp attrs="#[verifier::spinoff_prover]"
//@contract
    requires reorder_pre(*old(self), old(ordering)@.len() as int),
    ensures exists|pinv: Seq<usize>| #[trigger] reorder_post(*old(self), *final(self), old(ordering)@, final(ordering)@, pinv),
//@pre
    let ghost t0 = *self;
    let ghost ord0 = ordering@;
    let ghost nn = self.post@.len() as int;
    let ghost np = self.snode_post@.len() as int;
    proof { lemma_pcat(t0, np); lemma_koff_mono(t0, 0, np); }
//@iter 1
it1
//@loop 1
        invariant
            nn == nv(t0), np == t0.snode_post@.len(), reorder_pre(t0, nn), ordering@ == ord0,
            it1.seq().len() == np, forall|j: int| 0 <= j < np ==> *(#[trigger] it1.seq()[j]) == t0.snode_post@[j],
            self.snode_post == t0.snode_post && self.snode_parent == t0.snode_parent && self.snode_children == t0.snode_children && self.post == t0.post,
            self.nblk == t0.nblk && self.n_cliques == t0.n_cliques && self.separators == t0.separators,
            self.snode@.len() == t0.snode@.len(),
            p@.len() == nn, k == koff(t0, it1.index@ as int), 0 <= k <= nn, p@.subrange(0, k as int) == pcat(t0, it1.index@ as int),
            forall|j: int| 0 <= j < it1.index@ ==> (#[trigger] self.snode@[t0.snode_post@[j] as int])@ == range_seq(koff(t0, j), sn_of(t0, j).len() as int),
            forall|c: int| 0 <= c < t0.snode@.len() && (forall|j: int| 0 <= j < it1.index@ ==> t0.snode_post@[j] != c) ==> #[trigger] self.snode@[c] == t0.snode@[c],
//@body_start 1
            let ghost gj = it1.index@ as int;
            let ghost sn = sn_of(t0, gj);
            let ghost gk: int = koff(t0, gj);
            let ghost p1 = p@;
            let ghost snodes1 = self.snode@;
            proof {
                assert(*i_r == t0.snode_post@[gj]);
                lemma_koff_mono(t0, gj, np); lemma_koff_mono(t0, 0, gj);
                assert(self.snode@[*i_r as int] == t0.snode@[*i_r as int]) by {
                    assert forall|j: int| 0 <= j < gj implies t0.snode_post@[j] != *i_r by { }
                }
            }
//@iter 2
it2
//@loop 2
                invariant
                    snode@ == sn, it2.seq().len() == sn.len(), forall|q: int| 0 <= q < sn.len() ==> *(#[trigger] it2.seq()[q]) == sn[q],
                    j_ctr == it2.index@, k == gk, gk + sn.len() <= nn, nn < 0x8000_0000, p@.len() == nn, nn == p1.len(), gk >= 0,
                    forall|q: int| 0 <= q < it2.index@ ==> #[trigger] p@[gk + q] == sn[q],
                    forall|q: int| 0 <= q < nn && !(gk <= q < gk + it2.index@) ==> #[trigger] p@[q] == p1[q],
//@body_start 2
                proof { assert(*v_r == sn[it2.index@ as int]); }
//@after "for v_r in snode.iter()"
            let ghost p2 = p@;
            proof {
                assert(j_ctr == sn.len());
                assert forall|q: int| 0 <= q < sn.len() implies p2.subrange(gk, gk + sn.len())[q] == sn[q] by { assert(p2[gk + q] == sn[q]); }
                assert(p2.subrange(gk, gk + sn.len()) =~= sn);
            }
//@before "snode.clear();"
            proof {
                assert(p@.subrange(0, gk + sn.len()) =~= pcat(t0, gj) + sorted_of(sn)) by {
                    assert forall|q: int| 0 <= q < gk + sn.len() implies p@.subrange(0, gk + sn.len())[q] == (pcat(t0, gj) + sorted_of(sn))[q] by {
                        if q < gk { assert(p@[q] == p2[q] && p2[q] == p1[q]); assert(p1.subrange(0, gk)[q] == p1[q]); }
                        else { assert(p@.subrange(gk, gk + sn.len())[q - gk] == p@[q]); }
                    }
                }
            }
//@after "snode.extend_range("
            proof {
                lemma_ins_all_full(Seq::<usize>::empty(), range_seq(gk, sn.len() as int));
                assert(Seq::<usize>::empty() + range_seq(gk, sn.len() as int) =~= range_seq(gk, sn.len() as int));
                assert(snode@ == range_seq(gk, sn.len() as int));
            }
//@body_end 1
            proof {
                assert forall|j: int| 0 <= j < gj + 1 implies (#[trigger] self.snode@[t0.snode_post@[j] as int])@ == range_seq(koff(t0, j), sn_of(t0, j).len() as int) by {
                    if j < gj { assert(t0.snode_post@[j] != t0.snode_post@[gj]); assert(self.snode@[t0.snode_post@[j] as int] == snodes1[t0.snode_post@[j] as int]); }
                }
                assert forall|c: int| 0 <= c < t0.snode@.len() && (forall|j: int| 0 <= j < gj + 1 ==> t0.snode_post@[j] != c) implies #[trigger] self.snode@[c] == t0.snode@[c] by {
                    assert(t0.snode_post@[gj] != c);
                    assert(self.snode@[c] == snodes1[c]);
                    assert forall|j: int| 0 <= j < gj implies t0.snode_post@[j] != c by { }
                }
            }
//@before "let p_inv ="
        let ghost t1 = *self;
        proof {
            assert(p@ =~= p@.subrange(0, nn));
            assert(p@ == pcat(t0, np));
            assert(injective(p@));
        }
//@after "let p_inv ="
        let ghost pinv = p_inv@;
        proof { lemma_inv_injective(pinv, pcat(t0, np)); }
//@loop 3
            invariant
                nn == nv(t0), reorder_pre(t0, nn), ordering@ == ord0, p@.len() == nn, p_inv@ == pinv, pinv.len() == nn, injective(pinv), in_range(pinv, nn),
                self.snode_post == t0.snode_post && self.snode_parent == t0.snode_parent && self.snode_children == t0.snode_children && self.post == t0.post,
                self.nblk == t0.nblk && self.n_cliques == t0.n_cliques && self.snode == t1.snode,
                r14_n1 == t0.separators@.len(), self.separators@.len() == t0.separators@.len(),
                forall|c: int| 0 <= c < r14_i1 ==> (#[trigger] self.separators@[c])@ == map_inv(t0.separators@[c]@, pinv),
                forall|c: int| r14_i1 <= c < t0.separators@.len() ==> #[trigger] self.separators@[c] == t0.separators@[c],
//@body_start 3
                let ghost gc = r14_i1 as int;
                let ghost sp0 = t0.separators@[gc]@;
                let ghost seps1 = self.separators@;
                proof {
                    assert(self.separators@[gc]@ == sp0);
                    assert(in_range(sp0, nn)) by { assert forall|q: int| 0 <= q < sp0.len() implies #[trigger] sp0[q] < nn by { assert(t0.separators@[gc]@[q] < nv(t0)); } }
                    lemma_nodup_bounded(sp0, nn);
                }
//@iter 4
it4
//@loop 4
                    invariant
                        sp@ == sp0, it4.seq().len() == sp0.len(), forall|q: int| 0 <= q < sp0.len() ==> *(#[trigger] it4.seq()[q]) == sp0[q],
                        i_ctr == it4.index@, sp0.len() <= nn, nn < 0x8000_0000, tmp@.len() == sp0.len(), p_inv@ == pinv, pinv.len() == nn, in_range(sp0, nn),
                        forall|q: int| 0 <= q < it4.index@ ==> #[trigger] tmp@[q] == pinv[sp0[q] as int],
//@body_start 4
                    proof { assert(*x_r == sp0[it4.index@ as int]); }
//@before "sp.clear();"
                proof { assert(tmp@ =~= map_inv(sp0, pinv)); lemma_map_inv_ins(sp0, pinv); }
//@body_end 3
                proof {
                    assert forall|c: int| 0 <= c < gc + 1 implies (#[trigger] self.separators@[c])@ == map_inv(t0.separators@[c]@, pinv) by {
                        if c < gc { assert(self.separators@[c] == seps1[c]); }
                    }
                    assert forall|c: int| gc + 1 <= c < t0.separators@.len() implies #[trigger] self.separators@[c] == t0.separators@[c] by { assert(self.separators@[c] == seps1[c]); }
                }
//@after "ipermute(ordering, &tmp, &p_inv);"
    proof {
        assert forall|i: int| 0 <= i < ord0.len() implies #[trigger] ordering@[pinv[i] as int] == ord0[i] by {
            assert forall|i2: int| i < i2 < pinv.len() && i2 < ord0.len() implies pinv[i2] != pinv[i] by { }
        }
        assert(reorder_post(t0, *self, ord0, ordering@, pinv));
    }
//@end
}

// ================= ChordalInfo::new, find_sparsity_patterns, try_chordal_info =================
pub open spec fn tri(k: int) -> int { k * (k + 1) / 2 }
pub proof fn lemma_tri_nonneg(k: int) requires k >= 0 ensures tri(k) >= 0
{ assert(k * (k + 1) >= 0) by (nonlinear_arith) requires k >= 0; }
pub open spec fn nvars_spec(c: Cone) -> int {
    match c {
        SupportedConeT::ZeroConeT(d) => d as int,
        SupportedConeT::NonnegativeConeT(d) => d as int,
        SupportedConeT::SecondOrderConeT(d) => d as int,
        SupportedConeT::ExponentialConeT() => 3,
        SupportedConeT::PowerConeT(_) => 3,
        SupportedConeT::GenPowerConeT(a, d2) => a@.len() + d2,
        SupportedConeT::PSDTriangleConeT(d) => tri(d as int),
    }
}
pub open spec fn row_off(cones: Seq<Cone>, i: int) -> int decreases i { if i <= 0 { 0 } else { row_off(cones, i - 1) + nvars_spec(cones[i - 1]) } }
pub proof fn lemma_row_off_mono(cones: Seq<Cone>, a: int, b: int)
    requires 0 <= a <= b,
    ensures 0 <= row_off(cones, a) <= row_off(cones, b),
    decreases b,
{
    if a < b { lemma_row_off_mono(cones, a, b - 1); match cones[b - 1] { SupportedConeT::PSDTriangleConeT(d) => { lemma_tri_nonneg(d as int); }, _ => {} } }
    else if a > 0 { lemma_row_off_mono(cones, a - 1, a - 1); match cones[a - 1] { SupportedConeT::PSDTriangleConeT(d) => { lemma_tri_nonneg(d as int); }, _ => {} } }
}
// row ranges of a cone list.  Stand-in for RangeSupportedConesIterator; contract text of unit solver_new (PROVED there)
pub struct RangeSupportedConesIterator { pub st: Ghost<(Seq<Cone>, int)> }
impl RangeSupportedConesIterator {
    pub open spec fn cones(&self) -> Seq<Cone> { self.st@.0 }
    pub open spec fn idx(&self) -> int { self.st@.1 }
    #[verifier::external_body] pub fn next(&mut self) -> (r: Option<Range<usize>>)
        requires row_off(old(self).cones(), old(self).cones().len() as int) <= usize::MAX, 0 <= old(self).idx(),
        ensures final(self).cones() == old(self).cones(),
            old(self).idx() < old(self).cones().len() ==> final(self).idx() == old(self).idx() + 1 && r is Some
                && r->0.start == row_off(old(self).cones(), old(self).idx()) && r->0.end == row_off(old(self).cones(), old(self).idx() + 1),
            old(self).idx() >= old(self).cones().len() ==> r is None && final(self).idx() == old(self).idx(),
    { unimplemented!() }
}
pub trait ConeRanges {
    spec fn cone_seq(&self) -> Seq<Cone>;
    fn rng_cones_iter(&self) -> (r: RangeSupportedConesIterator) ensures r.cones() == self.cone_seq(), r.idx() == 0;
}
impl ConeRanges for [Cone] {
    open spec fn cone_seq(&self) -> Seq<Cone> { self@ }
    #[verifier::external_body] fn rng_cones_iter(&self) -> (r: RangeSupportedConesIterator) { unimplemented!() }
}
// the three strings SparsityPattern::new accepts (text of unit chordal_merge)
pub open spec fn is_merge_method(s: Seq<char>) -> bool { s == "none"@ || s == "parent_child"@ || s == "clique_graph"@ }
// what unit chordal_merge proves of every recorded pattern (out_ok of its tree, >= 2 cliques): carried here as one uninterpreted predicate per pattern
pub uninterp spec fn pat_good(p: SparsityPattern) -> bool;
pub open spec fn patterns_ok(sp: Seq<SparsityPattern>) -> bool { forall|i: int| 0 <= i < sp.len() ==> pat_good(#[trigger] sp[i]) }
// ASSUMED here, PROVED in unit chordal_decomp (length clause and precondition of its contract; the marking clause is not needed here)
#[verifier::external_body]
fn find_aggregate_sparsity_mask(A: &CscMatrix<F>, b: &[F]) -> (r: Vec<bool>)
    requires forall|k: int| 0 <= k < A.rowval@.len() ==> #[trigger] A.rowval@[k] < b@.len(),
    ensures r@.len() == b@.len(),
{ unimplemented!() }
impl CscMatrix<F> {
    // ASSUMED here, PROVED in unit chordal_tree
    #[verifier::external_body] pub fn ncols(&self) -> (r: usize) ensures r == self.n { unimplemented!() }
    #[verifier::external_body] pub fn nrows(&self) -> (r: usize) ensures r == self.m { unimplemented!() }
}
// the patterns recorded for a cone list: strictly increasing orig_index, each naming a PSD cone of the list
pub open spec fn sp_sorted(sp: Seq<SparsityPattern>) -> bool { forall|a: int, b: int| 0 <= a < b < sp.len() ==> (#[trigger] sp[a]).orig_index < (#[trigger] sp[b]).orig_index }
pub open spec fn sp_psd(sp: Seq<SparsityPattern>, cones: Seq<Cone>, upto: int) -> bool {
    forall|k: int| 0 <= k < sp.len() ==> (#[trigger] sp[k]).orig_index < upto && upto <= cones.len() && cones[sp[k].orig_index as int] is PSDTriangleConeT
        && sp[k].sntree.n_cliques >= 2 && sp[k].sntree.nblk is Some
}
impl ChordalInfo<F> {
    // ASSUMED here, PROVED in unit chordal_merge.  Contract text of that unit except: the clause about the VALUES of the mask (diagonal forced
    // on, nothing else changes) and `all_true ==> nothing recorded` are omitted (not needed), patterns_ok is the abbreviation above
    #[verifier::external_body] fn analyse_psdtriangle_sparsity_pattern(&mut self, nz_mask: &mut [bool], conedim: usize, coneidx: usize, merge_method: &str)
        requires
            old(nz_mask)@.len() == tri(conedim as int), conedim < 0x8000_0000, is_merge_method(merge_method@),
            patterns_ok(old(self).spatterns@),
        ensures
            final(nz_mask)@.len() == old(nz_mask)@.len(),
            final(self).spatterns@ == old(self).spatterns@ || (final(self).spatterns@.len() == old(self).spatterns@.len() + 1
                && final(self).spatterns@.subrange(0, old(self).spatterns@.len() as int) == old(self).spatterns@
                && final(self).spatterns@.last().orig_index == coneidx && final(self).spatterns@.last().sntree.n_cliques >= 2
                && final(self).spatterns@.last().sntree.nblk is Some),
            patterns_ok(final(self).spatterns@),
            final(self).init_dims == old(self).init_dims, final(self).init_cones == old(self).init_cones, final(self).H == old(self).H, final(self).cone_maps == old(self).cone_maps,
    { unimplemented!() }
    // ASSUMED here, PROVED in unit chordal_merge (same contract text)
    #[verifier::external_body] pub fn is_decomposed(&self) -> (r: bool) ensures r == (self.spatterns@.len() > 0) { unimplemented!() }
//@fn file=src/solver/chordal/chordal_info.rs in="impl<T> ChordalInfo<T>" name=find_sparsity_patterns rules=R1,R3,zipnext:rng_cones,R15r:nz_mask
//@contract
    requires
        old(self).spatterns@.len() == 0,
        // [A; b] and the cones describe the same rows (_check_dimensions of DefaultSolver::new); row indices of A in range (NOT validated, see chordal_decomp)
        row_off(cones@, cones@.len() as int) == b@.len(), forall|k: int| 0 <= k < A.rowval@.len() ==> #[trigger] A.rowval@[k] < b@.len(),
        forall|i: int| 0 <= i < cones@.len() ==> (#[trigger] cones@[i] matches SupportedConeT::PSDTriangleConeT(d) ==> d < 0x8000_0000),
        // O18 / D1: nothing on the path from DefaultSolver::new validates the string
        is_merge_method(merge_method@),
    ensures
        // C17: only PSD triangle cones are analysed (each with its own rows and index); the recorded patterns name PSD cones, in increasing order
        sp_sorted(final(self).spatterns@), sp_psd(final(self).spatterns@, cones@, cones@.len() as int), patterns_ok(final(self).spatterns@),
        final(self).init_dims == old(self).init_dims, final(self).init_cones == old(self).init_cones, final(self).H == old(self).H, final(self).cone_maps == old(self).cone_maps,
//@pre
    let ghost nc = cones@.len() as int;
    let ghost cs = cones@;
    proof { assert(cones@.len() == cones.len()); assert(b@.len() == b.len()); }
//@iter 1
it
//@loop 1
        invariant
            cs == cones@, nc == cs.len(), nc <= usize::MAX, row_off(cs, nc) == b@.len(), b@.len() <= usize::MAX, nz_mask@.len() == b@.len(), is_merge_method(merge_method@),
            forall|i: int| 0 <= i < nc ==> (#[trigger] cs[i] matches SupportedConeT::PSDTriangleConeT(d) ==> d < 0x8000_0000),
            it.seq().len() == nc, forall|k: int| 0 <= k < nc ==> *(#[trigger] it.seq()[k]) == cs[k],
            coneidx_ctr == it.index@, rng_cones.cones() == cs, rng_cones.idx() == it.index@,
            sp_sorted(self.spatterns@), sp_psd(self.spatterns@, cs, it.index@ as int), patterns_ok(self.spatterns@),
            self.init_dims == old(self).init_dims, self.init_cones == old(self).init_cones, self.H == old(self).H, self.cone_maps == old(self).cone_maps,
//@body_start 1
        let ghost gi = it.index@ as int;
        let ghost sp1 = self.spatterns@;
        proof {
            assert(*cone == cs[gi]);
            lemma_row_off_mono(cs, gi, gi + 1); lemma_row_off_mono(cs, gi + 1, nc); lemma_row_off_mono(cs, 0, gi);
        }
//@body_end 1
        proof {
            let sp2 = self.spatterns@;
            if sp2 != sp1 {
                assert forall|k: int| 0 <= k < sp1.len() implies #[trigger] sp2[k] == sp1[k] by { assert(sp2.subrange(0, sp1.len() as int)[k] == sp2[k]); }
                assert(sp2[sp1.len() as int] == sp2.last());
                assert forall|a: int, b: int| 0 <= a < b < sp2.len() implies (#[trigger] sp2[a]).orig_index < (#[trigger] sp2[b]).orig_index by {
                    if b < sp1.len() { assert(sp1[a].orig_index < sp1[b].orig_index); } else { assert(sp1[a].orig_index < gi); }
                }
                assert forall|k: int| 0 <= k < sp2.len() implies (#[trigger] sp2[k]).orig_index < gi + 1 && gi + 1 <= cs.len() && cs[sp2[k].orig_index as int] is PSDTriangleConeT
                    && sp2[k].sntree.n_cliques >= 2 && sp2[k].sntree.nblk is Some by { if k < sp1.len() { assert(sp1[k].orig_index < gi); } }
            } else {
                assert forall|k: int| 0 <= k < sp2.len() implies (#[trigger] sp2[k]).orig_index < gi + 1 && gi + 1 <= cs.len() && cs[sp2[k].orig_index as int] is PSDTriangleConeT
                    && sp2[k].sntree.n_cliques >= 2 && sp2[k].sntree.nblk is Some by { assert(sp1[k].orig_index < gi); }
            }
        }
//@end
//@fn file=src/solver/chordal/chordal_info.rs in="impl<T> ChordalInfo<T>" name=new rules=R1 ret=r
//@contract
    requires
        row_off(cones@, cones@.len() as int) == b@.len(), forall|k: int| 0 <= k < A.rowval@.len() ==> #[trigger] A.rowval@[k] < b@.len(),
        forall|i: int| 0 <= i < cones@.len() ==> (#[trigger] cones@[i] matches SupportedConeT::PSDTriangleConeT(d) ==> d < 0x8000_0000),
        is_merge_method(settings.chordal_decomposition_merge_method@),
    ensures
        // the sketch of the ORIGINAL problem: (n, m) of the A that was analysed; no H, no cone_maps yet
        r.init_dims == (A.n, A.m), r.H is None, r.cone_maps is None,
        // the cones are copied only if something was decomposed ("otherwise this object is going to be dropped anyway")
        r.spatterns@.len() > 0 ==> r.init_cones@ == cones@, r.spatterns@.len() == 0 ==> r.init_cones@.len() == 0,
        sp_sorted(r.spatterns@), sp_psd(r.spatterns@, cones@, cones@.len() as int), patterns_ok(r.spatterns@),
//@end
}
//@fn file=src/solver/implementations/default/problemdata.rs name=try_chordal_info rules=R12,R1,R21 ret=r
//@contract
    requires
        row_off(cones@, cones@.len() as int) == b@.len(), forall|k: int| 0 <= k < A.rowval@.len() ==> #[trigger] A.rowval@[k] < b@.len(),
        forall|i: int| 0 <= i < cones@.len() ==> (#[trigger] cones@[i] matches SupportedConeT::PSDTriangleConeT(d) ==> d < 0x8000_0000),
        is_merge_method(settings.chordal_decomposition_merge_method@),
    ensures
        !settings.chordal_decomposition_enable ==> r is None,
        // "nothing to do if there are no PSD cones or they are all small": the threshold only decides whether the analysis runs at all
        (forall|i: int| 0 <= i < cones@.len() ==> !(#[trigger] cones@[i] matches SupportedConeT::PSDTriangleConeT(d) && d > 3)) ==> r is None,
        r matches Some(ci) ==> ci.spatterns@.len() > 0 && ci.init_dims == (A.n, A.m) && ci.H is None && ci.cone_maps is None && ci.init_cones@ == cones@
            && sp_sorted(ci.spatterns@) && sp_psd(ci.spatterns@, cones@, cones@.len() as int) && patterns_ok(ci.spatterns@),
//@iter 1
it
//@loop 1
        invariant
            it.seq().len() == cones@.len(), forall|k: int| 0 <= k < cones@.len() ==> *(#[trigger] it.seq()[k]) == cones@[k],
            r21_k1 == (exists|i: int| 0 <= i < it.index@ && (#[trigger] cones@[i] matches SupportedConeT::PSDTriangleConeT(d) && d > 3)),
//@end

} // verus!
fn main() {}
