// unit `socone_ops` : everything of cones/socone.rs that units `soc_step` / `rectify` do not cover
// (those have: _step_length_soc_component, step_length, set_identity_scaling, margins, scaled_unit_shift, _soc_residual, rectify_equilibration).
// float model: F-real (prelude/float_real_axioms.rs over prelude/float_opaque.rs).  Level 1: every contract states the written
// entries as the exact float expression the code evaluates (which operations, on which elements, in which order; dot products and
// sums as the left folds of prelude/vecmath_contract.rs) - needs no axiom.  Level 2: the F-real reading (exact reals) of those
// contracts is proved to BE the mathematical object of the code comments / the Clarabel paper (lemmas (i)-(v) below).
//
// PROVED from the real bodies (extracted, never retyped), with frames (lengths kept, nothing else written, cone state unchanged
// unless stated; operands of numel() entries as at the call sites):
//   SecondOrderConeSparseData::new (u = v = 0, d = 1);
//   SecondOrderCone: new (dim >= 2 is the assert!; w = lambda = 0, eta = 0; sparse data present <=> dim > 4), degree (1), numel (dim),
//     is_symmetric, allows_primal_dual_scaling (true), is_sparse_expandable = Hs_is_diagonal (sparse data present),
//     unit_initialization (z = s = (0 + 1, 0, .., 0)), scaled_unit_shift (second copy, callee),
//     update_scaling (false and state untouched iff sqrt-resid of z or s is 0; false (lambda, sparse data untouched) iff that of the
//       unnormalised w is 0; else eta = us_eta, w = us_w, lambda = us_lambda and, if allocated, d = us_d, u = us_u, v = us_v: the spec
//       fns `us_*` spell out every operation),
//     get_Hs (sparse: eta^2 (d, 1, .., 1); dense: entry (row, col), row <= col, of eta^2 (2 w w' - J) at col (col + 1) / 2 + row: is_dense_Hs),
//     mul_Hs (y = eta^2 (2 <w,x> w - J x): mulHs_seq), affine_ds (lambda o lambda), combined_ds_shift through the real text of
//     SymmetricConeUtils::_combined_ds_shift_symmetric at C = SecondOrderCone (step_z <- W step_z, step_s <- W^{-1} step_s,
//     shift = step_s o step_z with -sigma*mu added to entry 0 only), Delta_s_from_Delta_z_offset (ds_offset_seq), compute_barrier
//     (-(1/2) logsafe(resid(s + a ds) resid(z + a dz)) inside the cone, +inf otherwise), lambda_inv_circ_op, mul_W, mul_Winv, circ_op,
//     inv_circ_op;
//   free functions: _circ_op (x0 = <y,z>, x1 = y0 z1 + z0 y1), _inv_circ_op (inv_circ_seq), _soc_mul_W_inner (mulW_seq),
//     _soc_mul_Winv_inner (mulWinv_seq), _soc_residual (second copy), _sqrt_soc_residual, _soc_residual_shifted;
//     VectorMath::dot_shifted (real body, called through rule R32) and ScalarMath::logsafe (real body).
//   Level 2 (F-real, all closed):
//     (i)   lemma_circ_inv_circ:  y o (y \ z) = z  for y0 != 0, y0^2 != |y1|^2  (circ_op applied to what inv_circ_op returns);
//     (ii)  lemma_W_Winv:  mul_Winv(mul_W(x)) = x  (alpha = 1, beta = 0) for w0 > 0, w0^2 - |w1|^2 = 1 (`w_normalised`), eta != 0;
//     (iii) lemma_Hs_is_mulHs (C11):  the packed triangle get_Hs writes, read as a symmetric matrix and applied to x, is mul_Hs(x);
//     (iv)  lemma_nt_identities (C13):  whenever update_scaling returns true for interior s, z, the (w, eta, lambda) it wrote satisfy
//           w_normalised(w), eta > 0, mul_W(z) = mul_Winv(s) = lambda entry for entry (so the hypothesis of (ii) is established);
//     (v)   lemma_sparse_expansion (C11, sparse form):  D + u u' - v v' = 2 w w' - J for the d, u, v update_scaling writes.
// ASSUMED:
//   * prelude/float_real_axioms.rs (the F-real axiom group), prelude/std_assumed.rs (`<[T]>::fill`), prelude/vecmath_assumed.rs
//     (copy_from, scale, axpby, waxpby, scalarop_from, dot, sumsq, norm: proved in unit `vecmath`);
//   * num_traits scalar helpers the prelude lacks: `is_zero` (= `== 0`), `SQRT_2`, `ln` (uninterpreted symbols f_sqrt2, f_ln);
//   * "real square root" (local block `sqrt_ax`, ADMITTED): for x >= 0, sqrt(x) >= 0 and sqrt(x)^2 == x; SQRT_2 > 0, SQRT_2^2 == 2;
//     the literal 0.5 is one half.  Used ONLY by the Level-2 lemmas, never by a function contract.  canary_sqrt must FAIL.
//   * (iv) takes "update_scaling returned true" as hypothesis; that interior s, z always make it return true (Cauchy-Schwarz:
//     <s, z> > 0) is not proved.
// DROPPED: nothing of the file.  (NaN / inf / rounding are outside the F-real model; the symbol-level contracts hold for them too.)
// Stability: update_scaling, get_Hs, Delta_s_from_Delta_z_offset run in their own solver process (spinoff_prover; in the shared
// module context update_scaling was bimodal, 2 M vs 60-90 M rlimit units depending on the seed); heaviest function < 3 M units.
use vstd::prelude::*;
verus! {
//@include prelude/float_opaque.rs
//@include prelude/float_real_axioms.rs
//@include prelude/vecmath_assumed.rs
//@include prelude/std_assumed.rs
// ASSUMED scalar helpers of num_traits the prelude does not carry
pub uninterp spec fn f_ln(a: F) -> F;
pub uninterp spec fn f_sqrt2() -> F;
impl F {
    #[verifier::external_body] pub fn ln(self) -> (r: F) ensures r == f_ln(self) { unimplemented!() }
    // num_traits::Zero for the float types: `*self == 0.0`
    #[verifier::external_body] pub fn is_zero(&self) -> (r: bool) ensures r == f_eq(*self, f_zero()) { unimplemented!() }
    // num_traits::FloatConst
    #[verifier::external_body] pub fn SQRT_2() -> (r: F) ensures r == f_sqrt2() { unimplemented!() }
}

//@enum file=src/solver/core/solver.rs name=ScalingStrategy derive="PartialEq, Eq, Clone, Copy, Structural"
//@enum file=src/solver/core/cones/mod.rs name=PrimalOrDualCone rules=R12 derive="PartialEq, Eq, Clone, Copy, Structural"
//@enum file=src/algebra/matrix_types.rs name=MatrixShape rules=R12 derive="PartialEq, Eq, Clone, Copy, Structural"
//@struct file=src/solver/core/cones/socone.rs name=SecondOrderConeSparseData
//@struct file=src/solver/core/cones/socone.rs name=SecondOrderCone rules=R2

pub open spec fn tail(z: Seq<F>) -> Seq<F> { z.subrange(1, z.len() as int) }
pub open spec fn all_eq(a: Seq<F>, c: F) -> bool { forall|i: int| 0 <= i < a.len() ==> #[trigger] a[i] == c }
pub open spec fn unit_vec(w: Seq<F>, first: F) -> bool {
    w.len() >= 1 && w[0] == first && forall|i: int| 1 <= i < w.len() ==> #[trigger] w[i] == f_zero()
}

// ------------------------------------------------------------------ scalar helper of compute_barrier
pub open spec fn logsafe_spec(x: F) -> F { if f_le(x, f_zero()) { f_neg(f_inf()) } else { f_ln(x) } }
pub trait ScalarMath: Sized { fn logsafe(&self) -> Self; }
impl ScalarMath for F {
//@fn file=src/algebra/scalarmath.rs in="ScalarMath for T" name=logsafe rules=R1 ret=r
//@contract
    ensures r == logsafe_spec(*self)
//@end
}
// sum over i of (s_i + a ds_i) * (z_i + a dz_i), as the left fold the code performs
pub open spec fn fold_dot_shifted(z: Seq<F>, s: Seq<F>, dz: Seq<F>, ds: Seq<F>, a: F, k: int) -> F decreases k {
    if k <= 0 { f_zero() } else {
        f_add(fold_dot_shifted(z, s, dz, ds, a, k - 1),
              f_mul(f_add(s[k - 1], f_mul(a, ds[k - 1])), f_add(z[k - 1], f_mul(a, dz[k - 1]))))
    }
}
//@fn file=src/algebra/vecmath.rs in="VectorMath<T> for [T]" name=dot_shifted rules=R1,R2,R6,zipidx:1=iiii ret=r
//@contract
    requires z@.len() == s@.len(), z@.len() == dz@.len(), s@.len() == ds@.len(),
    ensures r == fold_dot_shifted(z@, s@, dz@, ds@, alpha, z@.len() as int),
//@loop 1
            invariant
                z@.len() == s@.len(), z@.len() == dz@.len(), s@.len() == ds@.len(), r14_n1 == z@.len(),
                out == fold_dot_shifted(z@, s@, dz@, ds@, alpha, $var1 as int),
//@end

// ------------------------------------------------------------------ residuals
pub open spec fn soc_resid(z: Seq<F>) -> F { f_mul(f_sub(z[0], vm_norm(tail(z))), f_add(z[0], vm_norm(tail(z)))) }
pub open spec fn sqrt_resid(z: Seq<F>) -> F { if f_lt(f_zero(), soc_resid(z)) { f_sqrt(soc_resid(z)) } else { f_zero() } }
pub open spec fn soc_resid_shifted(z: Seq<F>, dz: Seq<F>, a: F) -> F {
    let x0 = f_add(z[0], f_mul(a, dz[0]));
    let nrm = f_sqrt(fold_dot_shifted(tail(z), tail(z), tail(dz), tail(dz), a, z.len() - 1));
    f_mul(f_sub(x0, nrm), f_add(x0, nrm))
}
//@fn file=src/solver/core/cones/socone.rs name=_soc_residual rules=R1 ret=r
//@contract
    requires z@.len() >= 1,
    ensures r == soc_resid(z@),
//@end
//@fn file=src/solver/core/cones/socone.rs name=_sqrt_soc_residual rules=R1 ret=r
//@contract
    requires z@.len() >= 1,
    ensures r == sqrt_resid(z@),
//@end
//@fn file=src/solver/core/cones/socone.rs name=_soc_residual_shifted rules=R1,R2,R32 ret=r
//@contract
    requires z@.len() >= 1, dz@.len() == z@.len(),
    ensures r == soc_resid_shifted(z@, dz@, alpha),
//@end

// ------------------------------------------------------------------ Jordan product and its inverse
// x = y o z :  x0 = <y, z>,  x1 = y0 z1 + z0 y1
pub open spec fn circ_seq(y: Seq<F>, z: Seq<F>) -> Seq<F> {
    Seq::new(y.len(), |i: int| if i == 0 { vm_dot(y, z) } else { f_add(f_mul(y[0], z[i]), f_mul(z[0], y[i])) })
}
// x = y \ z  (y o x = z):  with p = y0^2 - |y1|^2, v = <y1, z1>:  x0 = (y0 z0 - v) / p,  x1 = ((v / y0 - z0) / p) y1 + z1 / y0
pub open spec fn inv_circ_seq(y: Seq<F>, z: Seq<F>) -> Seq<F> {
    let pinv = f_recip(soc_resid(y));
    let v = vm_dot(tail(y), tail(z));
    Seq::new(y.len(), |i: int| if i == 0 { f_mul(f_sub(f_mul(y[0], z[0]), v), pinv) }
        else { f_add(f_mul(f_mul(pinv, f_sub(f_div(v, y[0]), z[0])), y[i]), f_mul(f_recip(y[0]), z[i])) })
}
//@fn file=src/solver/core/cones/socone.rs name=_circ_op rules=R1
//@contract
    requires old(x)@.len() >= 1, y@.len() == old(x)@.len(), z@.len() == old(x)@.len(),
    ensures final(x)@ == circ_seq(y@, z@),
//@end
//@fn file=src/solver/core/cones/socone.rs name=_inv_circ_op rules=R1
//@contract
    requires old(x)@.len() >= 1, y@.len() == old(x)@.len(), z@.len() == old(x)@.len(),
    ensures final(x)@ == inv_circ_seq(y@, z@),
//@end

// ------------------------------------------------------------------ W and its inverse
// y = alpha W x + beta y,  W = eta [ w0  w1' ; w1  I + w1 w1' / (1 + w0) ]:
//   zeta = <w1, x1>,  y0 = alpha eta (w0 x0 + zeta) + beta y0,  y1 = alpha eta (x1 + (x0 + zeta / (1 + w0)) w1) + beta y1
// (the tail is assembled by two axpby calls: first (alpha eta c) w1 + beta y1, then (alpha eta) x1 + 1 * that)
pub open spec fn mulW_seq(y0: Seq<F>, x: Seq<F>, alpha: F, beta: F, w: Seq<F>, eta: F) -> Seq<F> {
    let zeta = vm_dot(tail(w), tail(x));
    let c = f_add(x[0], f_div(zeta, f_add(f_one(), w[0])));
    let ae = f_mul(alpha, eta);
    Seq::new(y0.len(), |i: int| if i == 0 { f_add(f_mul(ae, f_add(f_mul(w[0], x[0]), zeta)), f_mul(beta, y0[0])) }
        else { f_add(f_mul(ae, x[i]), f_mul(f_one(), f_add(f_mul(f_mul(ae, c), w[i]), f_mul(beta, y0[i])))) })
}
// y = alpha W^{-1} x + beta y,  W^{-1} = (1 / eta) [ w0  -w1' ; -w1  I + w1 w1' / (1 + w0) ]
pub open spec fn mulWinv_seq(y0: Seq<F>, x: Seq<F>, alpha: F, beta: F, w: Seq<F>, eta: F) -> Seq<F> {
    let zeta = vm_dot(tail(w), tail(x));
    let c = f_add(f_neg(x[0]), f_div(zeta, f_add(f_one(), w[0])));
    let ae = f_div(alpha, eta);
    Seq::new(y0.len(), |i: int| if i == 0 { f_add(f_mul(ae, f_sub(f_mul(w[0], x[0]), zeta)), f_mul(beta, y0[0])) }
        else { f_add(f_mul(ae, x[i]), f_mul(f_one(), f_add(f_mul(f_mul(ae, c), w[i]), f_mul(beta, y0[i])))) })
}
//@fn file=src/solver/core/cones/socone.rs name=_soc_mul_W_inner rules=R1,R2
//@contract
    requires old(y)@.len() >= 1, x@.len() == old(y)@.len(), w@.len() == old(y)@.len(),
    ensures final(y)@ == mulW_seq(old(y)@, x@, alpha, beta, w@, eta),
//@end
//@fn file=src/solver/core/cones/socone.rs name=_soc_mul_Winv_inner rules=R1,R2
//@contract
    requires old(y)@.len() >= 1, x@.len() == old(y)@.len(), w@.len() == old(y)@.len(),
    ensures final(y)@ == mulWinv_seq(old(y)@, x@, alpha, beta, w@, eta),
//@end

// ------------------------------------------------------------------ the cone object
impl SecondOrderConeSparseData<F> {
//@fn file=src/solver/core/cones/socone.rs in="impl<T> SecondOrderConeSparseData<T>" name=new rules=R1 ret=r
//@contract
    ensures r.u@.len() == dim, r.v@.len() == dim, all_eq(r.u@, f_zero()), all_eq(r.v@, f_zero()), r.d == f_one(),
//@end
}

// the packed upper triangle, column by column: entry (row, col), row <= col, sits at col (col + 1) / 2 + row
pub open spec fn tri(k: int) -> int decreases k { if k <= 0 { 0 } else { tri(k - 1) + k } }
pub open spec fn pk(row: int, col: int) -> int { tri(col) + row }
pub proof fn lemma_tri_closed(k: int) requires k >= 0 ensures 2 * tri(k) == k * (k + 1) decreases k
{
    if k > 0 { lemma_tri_closed(k - 1); assert((k - 1) * k + 2 * k == k * (k + 1)) by(nonlinear_arith); }
    else { assert(0 * (0 + 1) == 0) by(nonlinear_arith); }
}
pub proof fn lemma_tri_mono(a: int, b: int) requires 0 <= a <= b ensures tri(a) <= tri(b) decreases b
{
    if a < b { lemma_tri_mono(a, b - 1); }
}
// Hs = eta^2 (2 w w' - J), J = diag(1, -I):  entry (row, col) before the final scaling by eta^2
pub open spec fn hs_raw(w: Seq<F>, row: int, col: int) -> F {
    if col == 0 { f_mul(f_sub(f_mul(f_sqrt2(), w[0]), f_one()), f_add(f_mul(f_sqrt2(), w[0]), f_one())) }   // 2 w0^2 - 1
    else if row == col { f_add(f_mul(f_mul(f_lit(2.0), w[row]), w[col]), f_one()) }                          // 2 wi wi + 1
    else { f_mul(f_mul(f_lit(2.0), w[row]), w[col]) }                                                        // 2 wi wj
}
pub open spec fn hs_dense(w: Seq<F>, eta: F, row: int, col: int) -> F { f_mul(hs_raw(w, row, col), f_mul(eta, eta)) }
// the slack-step operator y = Hs x = eta^2 (2 w <w, x> - J x)
pub open spec fn mulHs_seq(x: Seq<F>, w: Seq<F>, eta: F) -> Seq<F> {
    let c = f_mul(vm_dot(w, x), f_lit(2.0));
    Seq::new(x.len(), |i: int| f_mul(f_add(f_mul(c, w[i]), f_mul(f_one(), if i == 0 { f_neg(x[0]) } else { x[i] })), f_mul(eta, eta)))
}
// out = W'(lambda \ ds) in the form the code evaluates
pub open spec fn ds_offset_seq(z: Seq<F>, ds: Seq<F>, lambda: Seq<F>, w: Seq<F>, eta: F) -> Seq<F> {
    let l1 = vm_dot(tail(lambda), tail(ds));
    let w1 = vm_dot(tail(w), tail(ds));
    let q = f_div(f_sub(f_mul(lambda[0], ds[0]), l1), soc_resid(z));
    let linv = f_recip(lambda[0]);
    Seq::new(z.len(), |i: int| if i == 0 { f_mul(f_add(f_mul(z[0], q), f_mul(eta, w1)), linv) }
        else { f_mul(f_add(f_mul(f_neg(z[i]), q), off_inc(ds, w, eta, w1, i)), linv) })
}
pub open spec fn off_inc(ds: Seq<F>, w: Seq<F>, eta: F, w1: F, i: int) -> F { f_mul(eta, f_add(ds[i], f_mul(f_div(w1, f_add(f_one(), w[0])), w[i]))) }
pub open spec fn soc_wf(c: SecondOrderCone<F>) -> bool {
    c.w@.len() >= 1 && c.lambda@.len() == c.w@.len() && (c.sparse_data matches Some(sd) ==> sd.u@.len() == c.w@.len() && sd.v@.len() == c.w@.len())
}

impl SecondOrderCone<F> {
//@fn file=src/solver/core/cones/socone.rs in="impl<T> SecondOrderCone<T>" name=new rules=R1,R2,R27 ret=r
//@contract
    requires dim >= 2,      // assert!
    ensures r.dim == dim, r.w@.len() == dim, r.lambda@.len() == dim, all_eq(r.w@, f_zero()), all_eq(r.lambda@, f_zero()), r.eta == f_zero(),
        // cones of dimension up to 4 are kept dense, larger ones get the sparse expansion
        r.sparse_data is Some <==> dim > 4,
        r.sparse_data matches Some(sd) ==> sd.u@.len() == dim && sd.v@.len() == dim && all_eq(sd.u@, f_zero()) && all_eq(sd.v@, f_zero()) && sd.d == f_one(),
//@end
//@fn file=src/solver/core/cones/socone.rs in="Cone<T> for SecondOrderCone<T>" name=degree rules=R1,R2 ret=r
//@contract
    ensures r == 1,
//@end
//@fn file=src/solver/core/cones/socone.rs in="Cone<T> for SecondOrderCone<T>" name=numel rules=R1,R2 ret=r
//@contract
    ensures r == self.dim,
//@end
//@fn file=src/solver/core/cones/socone.rs in="Cone<T> for SecondOrderCone<T>" name=is_symmetric rules=R1,R2 ret=r
//@contract
    ensures r,
//@end
//@fn file=src/solver/core/cones/socone.rs in="Cone<T> for SecondOrderCone<T>" name=is_sparse_expandable rules=R1,R2 ret=r
//@contract
    ensures r == (self.sparse_data is Some),
//@end
//@fn file=src/solver/core/cones/socone.rs in="Cone<T> for SecondOrderCone<T>" name=allows_primal_dual_scaling rules=R1,R2 ret=r
//@contract
    ensures r,
//@end
//@fn file=src/solver/core/cones/socone.rs in="Cone<T> for SecondOrderCone<T>" name=Hs_is_diagonal rules=R1,R2 ret=r
//@contract
    ensures r == (self.sparse_data is Some),
//@end
// second copy of scaled_unit_shift (proved in unit `soc_step` with the same contract; needed here as a callee)
//@fn file=src/solver/core/cones/socone.rs in="Cone<T> for SecondOrderCone<T>" name=scaled_unit_shift rules=R1,R2 params=z,alpha,pd
//@contract
    requires old(z)@.len() >= 1,
    ensures final(z)@ == old(z)@.update(0, f_add(old(z)@[0], alpha)),
//@end
//@fn file=src/solver/core/cones/socone.rs in="Cone<T> for SecondOrderCone<T>" name=unit_initialization rules=R1,R2
//@contract
    requires old(z)@.len() >= 1, old(s)@.len() >= 1,
    ensures final(z)@.len() == old(z)@.len(), final(s)@.len() == old(s)@.len(),
        // z = s = e = (1, 0, .., 0), the 1 obtained as 0 + 1
        unit_vec(final(z)@, f_add(f_zero(), f_one())), unit_vec(final(s)@, f_add(f_zero(), f_one())),
//@end
//@fn file=src/solver/core/cones/socone.rs in="Cone<T> for SecondOrderCone<T>" name=mul_Hs rules=R1,R2
//@contract
    requires old(y)@.len() >= 1, x@.len() == old(y)@.len(), old(self).w@.len() == old(y)@.len(),
    ensures *final(self) == *old(self), final(_work)@ == old(_work)@,
        final(y)@ == mulHs_seq(x@, old(self).w@, old(self).eta),
//@end
//@fn file=src/solver/core/cones/socone.rs in="Cone<T> for SecondOrderCone<T>" name=affine_ds rules=R1,R2
//@contract
    requires old(ds)@.len() >= 1, self.lambda@.len() == old(ds)@.len(),
    ensures final(ds)@ == circ_seq(self.lambda@, self.lambda@),
//@end
//@fn file=src/solver/core/cones/socone.rs in="Cone<T> for SecondOrderCone<T>" name=compute_barrier rules=R1,R2 ret=r
//@contract
    requires z@.len() >= 1, dz@.len() == z@.len(), s@.len() >= 1, ds@.len() == s@.len(),
    ensures *final(self) == *old(self),
        // -(1/2) log(resid(s + a ds) * resid(z + a dz)), +inf outside the interior
        r == (if f_lt(f_zero(), soc_resid_shifted(s@, ds@, alpha)) && f_lt(f_zero(), soc_resid_shifted(z@, dz@, alpha)) {
                f_mul(f_neg(logsafe_spec(f_mul(soc_resid_shifted(s@, ds@, alpha), soc_resid_shifted(z@, dz@, alpha)))), f_lit(0.5))
              } else { f_inf() }),
//@end
//@fn file=src/solver/core/cones/socone.rs in="SymmetricCone<T> for SecondOrderCone<T>" name=λ_inv_circ_op rules=R1,R2
//@contract
    requires old(x)@.len() >= 1, old(self).lambda@.len() == old(x)@.len(), z@.len() == old(x)@.len(),
    ensures *final(self) == *old(self), final(x)@ == inv_circ_seq(old(self).lambda@, z@),
//@end
//@fn file=src/solver/core/cones/socone.rs in="SymmetricCone<T> for SecondOrderCone<T>" name=mul_W rules=R1,R2
//@contract
    requires old(y)@.len() >= 1, x@.len() == old(y)@.len(), old(self).w@.len() == old(y)@.len(),
    ensures *final(self) == *old(self), final(y)@ == mulW_seq(old(y)@, x@, alpha, beta, old(self).w@, old(self).eta),
//@end
//@fn file=src/solver/core/cones/socone.rs in="SymmetricCone<T> for SecondOrderCone<T>" name=mul_Winv rules=R1,R2
//@contract
    requires old(y)@.len() >= 1, x@.len() == old(y)@.len(), old(self).w@.len() == old(y)@.len(),
    ensures *final(self) == *old(self), final(y)@ == mulWinv_seq(old(y)@, x@, alpha, beta, old(self).w@, old(self).eta),
//@end
//@fn file=src/solver/core/cones/socone.rs in="JordanAlgebra<T> for SecondOrderCone<T>" name=circ_op rules=R1,R2
//@contract
    requires old(x)@.len() >= 1, y@.len() == old(x)@.len(), z@.len() == old(x)@.len(),
    ensures *final(self) == *old(self), final(x)@ == circ_seq(y@, z@),
//@end
//@fn file=src/solver/core/cones/socone.rs in="JordanAlgebra<T> for SecondOrderCone<T>" name=inv_circ_op rules=R1,R2
//@contract
    requires old(x)@.len() >= 1, y@.len() == old(x)@.len(), z@.len() == old(x)@.len(),
    ensures *final(self) == *old(self), final(x)@ == inv_circ_seq(y@, z@),
//@end
}

// the combined-step shift, as assembled by _combined_ds_shift_symmetric:  dz <- W dz, ds <- W^{-1} ds, shift = ds o dz - sigma mu e
pub open spec fn shift_seq(dz1: Seq<F>, ds1: Seq<F>, sigmamu: F) -> Seq<F> {
    circ_seq(ds1, dz1).update(0, f_add(circ_seq(ds1, dz1)[0], f_neg(sigmamu)))
}
impl SecondOrderCone<F> {
// the blanket implementation `impl<T, C: SymmetricCone<T> + Cone<T>> SymmetricConeUtils<T> for C`, real text, at C = SecondOrderCone<T>
//@fn file=src/solver/core/cones/symmetric_common.rs in="SymmetricConeUtils<T> for C" name=_combined_ds_shift_symmetric rules=R1,R2
//@contract
    requires old(self).w@.len() >= 1, old(shift)@.len() == old(self).w@.len(), old(step_z)@.len() == old(self).w@.len(), old(step_s)@.len() == old(self).w@.len(),
    ensures *final(self) == *old(self),
        final(step_z)@ == mulW_seq(old(step_z)@, old(step_z)@, f_one(), f_zero(), old(self).w@, old(self).eta),
        final(step_s)@ == mulWinv_seq(old(step_s)@, old(step_s)@, f_one(), f_zero(), old(self).w@, old(self).eta),
        final(shift)@ == shift_seq(final(step_z)@, final(step_s)@, sigmamu),
//@end
//@fn file=src/solver/core/cones/socone.rs in="Cone<T> for SecondOrderCone<T>" name=combined_ds_shift rules=R1,R2
//@contract
    // the three work vectors are slices of length numel() of the same cone (call site: CompositeCone::combined_ds_shift)
    requires old(self).w@.len() >= 1, old(shift)@.len() == old(self).w@.len(), old(step_z)@.len() == old(self).w@.len(), old(step_s)@.len() == old(self).w@.len(),
    ensures *final(self) == *old(self),
        final(step_z)@ == mulW_seq(old(step_z)@, old(step_z)@, f_one(), f_zero(), old(self).w@, old(self).eta),
        final(step_s)@ == mulWinv_seq(old(step_s)@, old(step_s)@, f_one(), f_zero(), old(self).w@, old(self).eta),
        final(shift)@ == shift_seq(final(step_z)@, final(step_s)@, sigmamu),
//@end
//@fn file=src/solver/core/cones/socone.rs in="Cone<T> for SecondOrderCone<T>" name=Δs_from_Δz_offset rules=R1,R2,zipidx:1=mii attrs="#[verifier::spinoff_prover]"
//@contract
    requires old(out)@.len() >= 1, ds@.len() == old(out)@.len(), z@.len() == old(out)@.len(),
        old(self).w@.len() == old(out)@.len(), old(self).lambda@.len() == old(out)@.len(),
    ensures *final(self) == *old(self), final(_work)@ == old(_work)@,
        final(out)@ == ds_offset_seq(z@, ds@, old(self).lambda@, old(self).w@, old(self).eta),
//@closure 1
F
(q_r: F) ensures q_r == f_neg(zi)
//@before_loop 1
        let ghost o1 = out@;
//@loop 1
            invariant
                r14_n1 == o1.len() - 1, r14_lo1_0 == 1, r14_lo1_1 == 1, r14_lo1_2 == 1,
                out@.len() == o1.len(), ds@.len() == o1.len(), self.w@.len() == o1.len(), *self == *old(self), _work@ == old(_work)@,
                out@[0] == o1[0],
                forall|i: int| 1 <= i < 1 + $var1 ==> #[trigger] out@[i] == f_add(o1[i], off_inc(ds@, self.w@, self.eta, w1ds1, i)),
                forall|i: int| 1 + $var1 <= i < o1.len() ==> #[trigger] out@[i] == o1[i],
//@end
}

pub open spec fn hs_offdiag(w: Seq<F>, row: int, col: int) -> F { f_mul(f_mul(f_lit(2.0), w[row]), w[col]) }
// every packed position of a column c < col lies below tri(col)
pub proof fn lemma_pk_below(col: int)
    requires col >= 0,
    ensures forall|r: int, c: int| 0 <= r <= c < col ==> 0 <= #[trigger] pk(r, c) < tri(col),
{
    assert forall|r: int, c: int| 0 <= r <= c < col implies 0 <= #[trigger] pk(r, c) < tri(col) by {
        lemma_tri_mono(0, c); lemma_tri_mono(c + 1, col);
    }
}
impl SecondOrderCone<F> {
//@fn file=src/solver/core/cones/socone.rs in="Cone<T> for SecondOrderCone<T>" name=get_Hs rules=R1,R2,R20 attrs="#[verifier::spinoff_prover]"
//@contract
    requires self.dim >= 1, self.w@.len() == self.dim,
        // call site (KKT assembly): numel entries for a cone with diagonal Hs, the packed triangle otherwise
        self.sparse_data is Some ==> old(Hsblock)@.len() >= 1,
        self.sparse_data is None ==> old(Hsblock)@.len() == tri(self.dim as int),
    ensures final(Hsblock)@.len() == old(Hsblock)@.len(),
        // sparse form: the diagonal block eta^2 diag(d, 1, .., 1) of the expansion
        self.sparse_data matches Some(sd) ==> final(Hsblock)@[0] == f_mul(f_mul(self.eta, self.eta), sd.d)
            && forall|i: int| 1 <= i < old(Hsblock)@.len() ==> #[trigger] final(Hsblock)@[i] == f_mul(self.eta, self.eta),
        // dense form: eta^2 (2 w w' - J), upper triangle packed column by column
        // (entry (row, col), row <= col < dim, at position col (col + 1) / 2 + row: see is_dense_Hs)
        self.sparse_data is None ==> is_dense_Hs(final(Hsblock)@, self.w@, self.eta),
//@pre
        let ghost dim = self.dim as int;
//@before "Hsblock[0] ="
            proof { lemma_tri_mono(1, dim); assert(tri(1) == 1 && pk(0, 0) == 0) by { reveal_with_fuel(tri, 3); } }
//@after "Hsblock.scale("
            proof { lemma_pk_below(dim); }
//@loop 1
                invariant
                    dim == self.dim, dim >= 1, self.w@.len() == dim, Hsblock@.len() == tri(dim), hidx == tri($var1 as int), two == f_lit(2.0),
                    forall|r: int, c: int| 0 <= r <= c < $var1 ==> Hsblock@[#[trigger] pk(r, c)] == hs_raw(self.w@, r, c),
//@loop 2
                    invariant
                        dim == self.dim, self.w@.len() == dim, Hsblock@.len() == tri(dim), 1 <= $var1 < dim, hidx == tri($var1 as int) + $var2, two == f_lit(2.0),
                        wcol == self.w@[$var1 as int],
                        // the packed positions of the columns before this one lie below tri(col); this column ends before tri(dim)
                        tri($var1 as int + 1) <= tri(dim), forall|r: int, c: int| 0 <= r <= c < $var1 ==> 0 <= #[trigger] pk(r, c) < tri($var1 as int),
                        forall|r: int, c: int| 0 <= r <= c < $var1 ==> Hsblock@[#[trigger] pk(r, c)] == hs_raw(self.w@, r, c),
                        forall|r: int| 0 <= r < $var2 ==> Hsblock@[#[trigger] pk(r, $var1 as int)] == hs_offdiag(self.w@, r, $var1 as int),
//@body_start 1
                proof { lemma_pk_below($var1 as int); lemma_tri_mono($var1 as int + 1, dim); }
//@end
}

// ------------------------------------------------------------------ Nesterov-Todd scaling (update_scaling), as evaluated by the code
//   zs = sqrt(resid z), ss = sqrt(resid s), eta = sqrt(ss / zs)
//   wa = s / ss + J z / zs                       (unnormalised;  J = diag(1, -I))
//   ws = sqrt(resid wa),  wb = wa / ws,  w = (sqrt(1 + |wb_1|^2), wb_1)
//   gamma = ws / 2,  lambda = sqrt(ss zs) (gamma,  ((gamma + z0/zs)/ss s_1 + (gamma + s0/ss)/zs z_1) / (s0/ss + z0/zs + 2 gamma))
pub open spec fn us_zs(z: Seq<F>) -> F { sqrt_resid(z) }
pub open spec fn us_eta(s: Seq<F>, z: Seq<F>) -> F { f_sqrt(f_div(sqrt_resid(s), sqrt_resid(z))) }
#[verifier::opaque] pub open spec fn us_wa(s: Seq<F>, z: Seq<F>) -> Seq<F> {
    let ss = sqrt_resid(s); let zs = sqrt_resid(z);
    Seq::new(s.len(), |i: int| if i == 0 { f_add(f_mul(s[0], f_recip(ss)), f_div(z[0], zs)) }
        else { f_add(f_mul(f_neg(f_recip(zs)), z[i]), f_mul(f_one(), f_mul(s[i], f_recip(ss)))) })
}
pub open spec fn us_ws(s: Seq<F>, z: Seq<F>) -> F { sqrt_resid(us_wa(s, z)) }
#[verifier::opaque] pub open spec fn us_wb(s: Seq<F>, z: Seq<F>) -> Seq<F> { Seq::new(s.len(), |i: int| f_mul(us_wa(s, z)[i], f_recip(us_ws(s, z)))) }
pub open spec fn us_w1sq(s: Seq<F>, z: Seq<F>) -> F { vm_sumsq(tail(us_wb(s, z))) }
#[verifier::opaque] pub open spec fn us_w(s: Seq<F>, z: Seq<F>) -> Seq<F> {
    Seq::new(s.len(), |i: int| if i == 0 { f_sqrt(f_add(f_one(), us_w1sq(s, z))) } else { us_wb(s, z)[i] })
}
pub open spec fn us_gamma(s: Seq<F>, z: Seq<F>) -> F { f_mul(f_lit(0.5), us_ws(s, z)) }
#[verifier::opaque] pub open spec fn us_lambda(s: Seq<F>, z: Seq<F>) -> Seq<F> {
    let ss = sqrt_resid(s); let zs = sqrt_resid(z); let g = us_gamma(s, z);
    let a = f_div(f_add(g, f_div(z[0], zs)), ss);
    let b = f_div(f_add(g, f_div(s[0], ss)), zs);
    let cinv = f_recip(f_add(f_add(f_div(s[0], ss), f_div(z[0], zs)), f_mul(f_lit(2.0), g)));
    let rt = f_sqrt(f_mul(ss, zs));
    Seq::new(s.len(), |i: int| if i == 0 { f_mul(g, rt) } else { f_mul(f_mul(f_add(f_mul(a, s[i]), f_mul(b, z[i])), cinv), rt) })
}
// sparse expansion  W'W = eta^2 (D + u u' - v v'),  D = diag(d, 1, .., 1):
//   wsq = w0^2 + |w1|^2,  d = 1 / (2 wsq),  u = (sqrt(wsq - d), (2 w0 / u0) w1),  v = (0, sqrt(2 (2 + 1/wsq) / (2 wsq - 1/wsq)) w1)
pub open spec fn us_wsq(s: Seq<F>, z: Seq<F>) -> F { f_add(f_mul(us_w(s, z)[0], us_w(s, z)[0]), us_w1sq(s, z)) }
pub open spec fn us_d(s: Seq<F>, z: Seq<F>) -> F { f_mul(f_lit(0.5), f_recip(us_wsq(s, z))) }
pub open spec fn us_u0(s: Seq<F>, z: Seq<F>) -> F { f_sqrt(f_sub(us_wsq(s, z), us_d(s, z))) }
pub open spec fn us_u1(s: Seq<F>, z: Seq<F>) -> F { f_div(f_mul(f_lit(2.0), us_w(s, z)[0]), us_u0(s, z)) }
pub open spec fn us_v1(s: Seq<F>, z: Seq<F>) -> F {
    let wsq = us_wsq(s, z); let wsqinv = f_recip(wsq);
    f_sqrt(f_div(f_mul(f_lit(2.0), f_add(f_lit(2.0), wsqinv)), f_sub(f_mul(f_lit(2.0), wsq), wsqinv)))
}
// the tails are written by axpby(c, w1, 0): c w_i + 0 * (old entry)
#[verifier::opaque] pub open spec fn us_u(s: Seq<F>, z: Seq<F>, u_old: Seq<F>) -> Seq<F> {
    Seq::new(s.len(), |i: int| if i == 0 { us_u0(s, z) } else { f_add(f_mul(us_u1(s, z), us_w(s, z)[i]), f_mul(f_zero(), u_old[i])) })
}
#[verifier::opaque] pub open spec fn us_v(s: Seq<F>, z: Seq<F>, v_old: Seq<F>) -> Seq<F> {
    Seq::new(s.len(), |i: int| if i == 0 { f_zero() } else { f_add(f_mul(us_v1(s, z), us_w(s, z)[i]), f_mul(f_zero(), v_old[i])) })
}
// s or z not strictly inside the cone (as far as the rounded residual can tell)
pub open spec fn us_not_interior(s: Seq<F>, z: Seq<F>) -> bool { f_eq(sqrt_resid(z), f_zero()) || f_eq(sqrt_resid(s), f_zero()) }
impl SecondOrderCone<F> {
//@fn file=src/solver/core/cones/socone.rs in="Cone<T> for SecondOrderCone<T>" name=update_scaling rules=R1,R2,R15:self.lambda|sparse_data.u|sparse_data.v|w ret=r attrs="#[verifier::spinoff_prover]"
//@contract
    requires soc_wf(*old(self)), s@.len() == old(self).w@.len(), z@.len() == old(self).w@.len(),
    ensures
        soc_wf(*final(self)), final(self).dim == old(self).dim, final(self).w@.len() == old(self).w@.len(),
        final(self).sparse_data is Some == old(self).sparse_data is Some,
        // fails exactly when s, z or the unnormalised w is not an interior point; nothing is touched in the first case
        r == !(us_not_interior(s@, z@) || f_eq(us_ws(s@, z@), f_zero())),
        us_not_interior(s@, z@) ==> *final(self) == *old(self),
        !r ==> final(self).lambda@ == old(self).lambda@ && final(self).sparse_data == old(self).sparse_data,
        r ==> final(self).eta == us_eta(s@, z@) && final(self).w@ == us_w(s@, z@) && final(self).lambda@ == us_lambda(s@, z@),
        r ==> (final(self).sparse_data matches Some(sd) ==> sd.d == us_d(s@, z@)
                && sd.u@ == us_u(s@, z@, old(self).sparse_data->Some_0.u@) && sd.v@ == us_v(s@, z@, old(self).sparse_data->Some_0.v@)),
//@pre
        let ghost c0 = *self;
//@before "let wscale ="
        proof { reveal(us_wa); assert(w@ =~= us_wa(s@, z@)); }
//@before "let w1sq ="
        proof { reveal(us_wb); assert(w@ =~= us_wb(s@, z@)); }
//@before "let gamma ="
        proof { reveal(us_wb); reveal(us_w); assert(w@.len() == s@.len()); assert(tail(w@) =~= tail(us_wb(s@, z@))); assert(w@ =~= us_w(s@, z@)); }
//@before "if let Some(sparse_data) ="
        proof { reveal(us_lambda); assert(self.lambda@ =~= us_lambda(s@, z@)); }
//@after "sparse_data.v.as_mut_slice()[1..]"
            proof {
                reveal(us_u); reveal(us_v);
                assert(sparse_data.u@ =~= us_u(s@, z@, c0.sparse_data->Some_0.u@));
                assert(sparse_data.v@ =~= us_v(s@, z@, c0.sparse_data->Some_0.v@));
            }
//@end
}

// ====================================================================================================================
// Level 2: F-real readings (exact reals) of the contracts above
// ====================================================================================================================
// ASSUMED "real square root" (ADMITTED, used only by the lemmas below, never by a function contract): for x >= 0, sqrt(x) is the
// nonnegative root; the constant SQRT_2 is the positive root of 2; the literal 0.5 is one half
pub mod sqrt_ax {
    use super::*;
    pub broadcast proof fn ax_sqrt_nonneg(a: F) requires a.v() >= 0real ensures (#[trigger] f_sqrt(a)).v() >= 0real { admit(); }
    pub broadcast proof fn ax_sqrt_sq(a: F) requires a.v() >= 0real ensures (#[trigger] f_sqrt(a)).v() * f_sqrt(a).v() == a.v() { admit(); }
    pub broadcast proof fn ax_sqrt2() ensures (#[trigger] f_sqrt2()).v() > 0real, f_sqrt2().v() * f_sqrt2().v() == 2real { admit(); }
    pub broadcast proof fn ax_lit_half() ensures (#[trigger] f_lit(0.5f64)).v() * 2real == 1real { admit(); }
    pub broadcast group real_sqrt { ax_sqrt_nonneg, ax_sqrt_sq, ax_sqrt2, ax_lit_half }
}
pub use sqrt_ax::*;
// vacuity guard: MUST FAIL
pub proof fn canary_sqrt() ensures false { broadcast use real_arith, real_sqrt; }

pub open spec fn rdot(a: Seq<F>, b: Seq<F>, k: int) -> real decreases k { if k <= 0 { 0real } else { rdot(a, b, k - 1) + a[k - 1].v() * b[k - 1].v() } }
// z0^2 - |z1|^2
pub open spec fn resid_r(z: Seq<F>) -> real { z[0].v() * z[0].v() - rdot(tail(z), tail(z), z.len() - 1) }
pub proof fn lemma_fold_dot_real(a: Seq<F>, b: Seq<F>, k: int)
    requires 0 <= k,
    ensures fold_dot(a, b, k).v() == rdot(a, b, k),
    decreases k,
{
    broadcast use real_arith;
    if k > 0 { lemma_fold_dot_real(a, b, k - 1); }
}
pub proof fn lemma_vm_dot_real(a: Seq<F>, b: Seq<F>)
    requires a.len() == b.len(),
    ensures vm_dot(a, b).v() == rdot(a, b, a.len() as int),
{
    reveal(vm_dot);
    lemma_fold_dot_real(a, b, a.len() as int);
}
pub proof fn lemma_rdot_sq_nonneg(a: Seq<F>, k: int)
    requires 0 <= k,
    ensures rdot(a, a, k) >= 0real,
    decreases k,
{
    if k > 0 { lemma_rdot_sq_nonneg(a, k - 1); let p = a[k - 1].v(); assert(p * p >= 0real) by(nonlinear_arith); }
}
pub proof fn lemma_resid_real(z: Seq<F>)
    requires z.len() >= 1,
    ensures soc_resid(z).v() == resid_r(z),
{
    broadcast use real_arith, real_sqrt;
    reveal(vm_norm);
    let t = tail(z); let n = z.len() - 1;
    assert(t.len() == n);
    lemma_fold_dot_real(t, t, n); lemma_rdot_sq_nonneg(t, n);
    let nv = vm_norm(t).v(); let z0 = z[0].v(); let ss = rdot(t, t, n);
    assert(nv * nv == ss);
    assert((z0 - nv) * (z0 + nv) == z0 * z0 - ss) by(nonlinear_arith) requires nv * nv == ss;
}
// the first term of a dot product split off
pub proof fn lemma_rdot_split(a: Seq<F>, b: Seq<F>, k: int)
    requires 1 <= k <= a.len(), k <= b.len(),
    ensures rdot(a, b, k) == a[0].v() * b[0].v() + rdot(tail(a), tail(b), k - 1),
    decreases k,
{
    if k > 1 {
        lemma_rdot_split(a, b, k - 1);
        assert(tail(a)[k - 2] == a[k - 1] && tail(b)[k - 2] == b[k - 1]);
    } else {
        assert(rdot(a, b, 0) == 0real && rdot(tail(a), tail(b), 0) == 0real);
    }
}
// small algebra steps, each its own nonlinear query (larger identities made the nonlinear solver run away under some seeds)
pub proof fn lemma_dist(k: real, a: real, b: real) ensures k * (a + b) == k * a + k * b { assert(k * (a + b) == k * a + k * b) by(nonlinear_arith); }
pub proof fn lemma_mul_swap(a: real, c: real, p: real) ensures a * (c * p) == c * (a * p)
{
    let cp = c * p; let ap = a * p;
    assert(a * cp == c * ap) by(nonlinear_arith) requires cp == c * p, ap == a * p;
}
// <a, c1 p + c2 q> = c1 <a, p> + c2 <a, q>
pub proof fn lemma_rdot_lin(a: Seq<F>, x: Seq<F>, p: Seq<F>, q: Seq<F>, c1: real, c2: real, k: int)
    requires 0 <= k, forall|i: int| 0 <= i < k ==> #[trigger] x[i].v() == c1 * p[i].v() + c2 * q[i].v(),
    ensures rdot(a, x, k) == c1 * rdot(a, p, k) + c2 * rdot(a, q, k),
    decreases k,
{
    if k > 0 {
        lemma_rdot_lin(a, x, p, q, c1, c2, k - 1);
        let av = a[k - 1].v(); let pv = p[k - 1].v(); let qv = q[k - 1].v(); let xv = x[k - 1].v();
        let P = rdot(a, p, k - 1); let Q = rdot(a, q, k - 1);
        assert(xv == c1 * pv + c2 * qv);
        lemma_dist(av, c1 * pv, c2 * qv);
        lemma_mul_swap(av, c1, pv); lemma_mul_swap(av, c2, qv);
        lemma_dist(c1, P, av * pv); lemma_dist(c2, Q, av * qv);
    } else {
        assert(c1 * 0real == 0real && c2 * 0real == 0real) by(nonlinear_arith);
    }
}
pub proof fn lemma_rdot_sym(a: Seq<F>, b: Seq<F>, k: int)
    requires 0 <= k,
    ensures rdot(a, b, k) == rdot(b, a, k),
    decreases k,
{
    if k > 0 { lemma_rdot_sym(a, b, k - 1); let x = a[k - 1].v(); let y = b[k - 1].v(); assert(x * y == y * x) by(nonlinear_arith); }
}

// ---- (i) y o (y \ z) = z  whenever y0 != 0 and y0^2 != |y1|^2   (circ_op applied to what inv_circ_op returns)
pub proof fn lemma_inv_circ_entries(y: Seq<F>, z: Seq<F>)
    requires y.len() >= 1, z.len() == y.len(), y[0].v() != 0real, resid_r(y) != 0real,
    ensures ({
        let x = inv_circ_seq(y, z); let v = rdot(tail(y), tail(z), y.len() - 1); let ip = 1real / resid_r(y); let iy = 1real / y[0].v();
        &&& x.len() == y.len()
        &&& x[0].v() == (y[0].v() * z[0].v() - v) * ip
        &&& forall|i: int| 1 <= i < y.len() ==> #[trigger] x[i].v() == (ip * (v * iy - z[0].v())) * y[i].v() + iy * z[i].v()
    }),
{
    broadcast use real_arith;
    lemma_resid_real(y);
    assert(tail(y).len() == tail(z).len());
    lemma_vm_dot_real(tail(y), tail(z));
    let y0 = y[0].v(); let v = rdot(tail(y), tail(z), y.len() - 1);
    assert(v / y0 == v * (1real / y0)) by(nonlinear_arith) requires y0 != 0real;
}
// the scalar algebra of (i), kept apart from the sequences and the float axioms (pure reals, one small nonlinear step at a time)
pub proof fn lemma_circ_inv_alg(y0: real, z0: real, v: real, p: real, nn: real, ip: real, iy: real, x0: real, c1: real)
    requires ip * p == 1real, iy * y0 == 1real, nn == y0 * y0 - p, x0 == (y0 * z0 - v) * ip, c1 == ip * (v * iy - z0),
    ensures y0 * c1 == -x0, y0 * x0 + (c1 * nn + iy * v) == z0,
{
    let t = v * iy - z0; let m = y0 * z0 - v;
    // y0 t = v - y0 z0 = -m
    lemma_mul_swap(y0, v, iy);
    assert(v * (y0 * iy) == v) by(nonlinear_arith) requires iy * y0 == 1real;
    let viy = v * iy;
    assert(y0 * t == y0 * viy - y0 * z0) by(nonlinear_arith) requires t == viy - z0;
    assert(y0 * t == -m);
    // y0 c1 = ip (y0 t) = -(m ip) = -x0
    lemma_mul_swap(y0, ip, t);
    let y0t = y0 * t;
    assert(ip * y0t == -(m * ip)) by(nonlinear_arith) requires y0t == -m;
    assert(y0 * c1 == -x0);
    // c1 nn = (c1 y0) y0 - c1 p = -(x0 y0) - t
    let yy = y0 * y0;
    lemma_dist(c1, yy, -p);
    assert(c1 * (-p) == -(c1 * p)) by(nonlinear_arith);
    assert(c1 * p == t) by(nonlinear_arith) requires c1 == ip * t, ip * p == 1real;
    let c1y = c1 * y0;
    assert(c1 * yy == c1y * y0) by(nonlinear_arith) requires yy == y0 * y0, c1y == c1 * y0;
    assert(c1y == -x0) by(nonlinear_arith) requires y0 * c1 == -x0, c1y == c1 * y0;
    assert(c1y * y0 == -(y0 * x0)) by(nonlinear_arith) requires c1y == -x0;
    assert(c1 * nn == -(y0 * x0) - t);
    assert(iy * v == viy) by(nonlinear_arith) requires viy == v * iy;
}
pub proof fn lemma_circ_inv_alg_tail(y0: real, x0: real, c1: real, iy: real, yi: real, zi: real)
    requires y0 * c1 == -x0, iy * y0 == 1real,
    ensures y0 * (c1 * yi + iy * zi) + x0 * yi == zi,
{
    lemma_dist(y0, c1 * yi, iy * zi);
    lemma_mul_swap(y0, c1, yi); lemma_mul_swap(y0, iy, zi);
    let yc = y0 * c1; let yiy = y0 * iy;
    // y0 (c1 yi) = c1 (y0 yi) = (y0 c1) yi
    assert(c1 * (y0 * yi) == yc * yi) by(nonlinear_arith) requires yc == y0 * c1;
    assert(iy * (y0 * zi) == yiy * zi) by(nonlinear_arith) requires yiy == y0 * iy;
    assert(yiy == 1real) by(nonlinear_arith) requires iy * y0 == 1real, yiy == y0 * iy;
    assert(yc * yi == -(x0 * yi)) by(nonlinear_arith) requires yc == -x0;
}
pub proof fn lemma_circ_entries(y: Seq<F>, x: Seq<F>)
    requires y.len() >= 1, x.len() == y.len(),
    ensures circ_seq(y, x)[0].v() == rdot(y, x, y.len() as int),
        forall|i: int| 1 <= i < y.len() ==> #[trigger] circ_seq(y, x)[i].v() == y[0].v() * x[i].v() + x[0].v() * y[i].v(),
{
    broadcast use real_arith;
    lemma_vm_dot_real(y, x);
}
pub proof fn lemma_circ_inv_circ(y: Seq<F>, z: Seq<F>, i: int)
    requires y.len() >= 1, z.len() == y.len(), y[0].v() != 0real, resid_r(y) != 0real, 0 <= i < y.len(),
    ensures circ_seq(y, inv_circ_seq(y, z))[i].v() == z[i].v(),
{
    let n = y.len() as int;
    let x = inv_circ_seq(y, z);
    lemma_inv_circ_entries(y, z);
    lemma_circ_entries(y, x);
    let y0 = y[0].v(); let z0 = z[0].v(); let p = resid_r(y);
    let v = rdot(tail(y), tail(z), n - 1); let ip = 1real / p; let iy = 1real / y0;
    assert(ip * p == 1real) by(nonlinear_arith) requires ip == 1real / p, p != 0real;
    assert(iy * y0 == 1real) by(nonlinear_arith) requires iy == 1real / y0, y0 != 0real;
    let c1 = ip * (v * iy - z0); let x0 = x[0].v();
    let nn = rdot(tail(y), tail(y), n - 1);
    lemma_circ_inv_alg(y0, z0, v, p, nn, ip, iy, x0, c1);
    if i == 0 {
        lemma_rdot_split(y, x, n);
        assert forall|k: int| 0 <= k < n - 1 implies #[trigger] tail(x)[k].v() == c1 * tail(y)[k].v() + iy * tail(z)[k].v() by {
            assert(tail(x)[k] == x[k + 1] && tail(y)[k] == y[k + 1] && tail(z)[k] == z[k + 1]);
        }
        lemma_rdot_lin(tail(y), tail(x), tail(y), tail(z), c1, iy, n - 1);
    } else {
        lemma_circ_inv_alg_tail(y0, x0, c1, iy, y[i].v(), z[i].v());
    }
}

// ---- (ii) W^{-1} (W x) = x  for a normalised w (w0 > 0, w0^2 - |w1|^2 = 1: what update_scaling establishes) and eta != 0
pub open spec fn w_normalised(w: Seq<F>) -> bool { w.len() >= 1 && w[0].v() > 0real && resid_r(w) == 1real }
pub proof fn lemma_mulW_entries(y0: Seq<F>, x: Seq<F>, alpha: F, beta: F, w: Seq<F>, eta: F)
    requires y0.len() >= 1, x.len() == y0.len(), w.len() == y0.len(), 1real + w[0].v() != 0real,
    ensures ({
        let u = mulW_seq(y0, x, alpha, beta, w, eta); let zeta = rdot(tail(w), tail(x), y0.len() - 1);
        let ae = alpha.v() * eta.v(); let c = x[0].v() + zeta / (1real + w[0].v());
        &&& u.len() == y0.len()
        &&& u[0].v() == ae * (w[0].v() * x[0].v() + zeta) + beta.v() * y0[0].v()
        &&& forall|i: int| 1 <= i < y0.len() ==> #[trigger] u[i].v() == ae * x[i].v() + ((ae * c) * w[i].v() + beta.v() * y0[i].v())
    }),
{
    broadcast use real_arith;
    assert(tail(w).len() == tail(x).len());
    lemma_vm_dot_real(tail(w), tail(x));
}
pub proof fn lemma_mulWinv_entries(y0: Seq<F>, x: Seq<F>, alpha: F, beta: F, w: Seq<F>, eta: F)
    requires y0.len() >= 1, x.len() == y0.len(), w.len() == y0.len(), 1real + w[0].v() != 0real, eta.v() != 0real,
    ensures ({
        let u = mulWinv_seq(y0, x, alpha, beta, w, eta); let zeta = rdot(tail(w), tail(x), y0.len() - 1);
        let ae = alpha.v() / eta.v(); let c = -x[0].v() + zeta / (1real + w[0].v());
        &&& u.len() == y0.len()
        &&& u[0].v() == ae * (w[0].v() * x[0].v() - zeta) + beta.v() * y0[0].v()
        &&& forall|i: int| 1 <= i < y0.len() ==> #[trigger] u[i].v() == ae * x[i].v() + ((ae * c) * w[i].v() + beta.v() * y0[i].v())
    }),
{
    broadcast use real_arith;
    assert(tail(w).len() == tail(x).len());
    lemma_vm_dot_real(tail(w), tail(x));
}
pub proof fn lemma_W_Winv(x: Seq<F>, w: Seq<F>, eta: F, ya: Seq<F>, yb: Seq<F>, i: int)
    requires x.len() >= 1, w.len() == x.len(), ya.len() == x.len(), yb.len() == x.len(), w_normalised(w), eta.v() != 0real, 0 <= i < x.len(),
    ensures mulWinv_seq(yb, mulW_seq(ya, x, f_one(), f_zero(), w, eta), f_one(), f_zero(), w, eta)[i].v() == x[i].v(),
{
    broadcast use real_arith;
    let n = x.len() as int; let m = n - 1;
    let u = mulW_seq(ya, x, f_one(), f_zero(), w, eta);
    let t = mulWinv_seq(yb, u, f_one(), f_zero(), w, eta);
    let w0 = w[0].v(); let x0 = x[0].v(); let e = eta.v();
    lemma_mulW_entries(ya, x, f_one(), f_zero(), w, eta);
    lemma_mulWinv_entries(yb, u, f_one(), f_zero(), w, eta);
    let zeta = rdot(tail(w), tail(x), m);
    let d = 1real / (1real + w0);
    assert(d * (1real + w0) == 1real) by(nonlinear_arith) requires d == 1real / (1real + w0), w0 > 0real;
    let c = x0 + zeta * d;
    assert(zeta / (1real + w0) == zeta * d) by(nonlinear_arith) requires d == 1real / (1real + w0), w0 > 0real;
    let ec = e * c;
    let u0 = u[0].v();
    assert(u0 == e * (w0 * x0 + zeta));
    assert forall|k: int| 0 <= k < m implies #[trigger] tail(u)[k].v() == e * tail(x)[k].v() + ec * tail(w)[k].v() by {
        assert(tail(u)[k] == u[k + 1] && tail(x)[k] == x[k + 1] && tail(w)[k] == w[k + 1]);
    }
    let N = rdot(tail(w), tail(w), m);
    assert(N == w0 * w0 - 1real);
    lemma_rdot_lin(tail(w), tail(u), tail(x), tail(w), e, ec, m);
    let zeta2 = rdot(tail(w), tail(u), m);
    assert(zeta2 == e * zeta + ec * N);
    let ie = 1real / e;
    assert(ie * e == 1real) by(nonlinear_arith) requires ie == 1real / e, e != 0real;
    // N d = w0 - 1,   c N = x0 N + zeta (w0 - 1)
    assert(N * d == w0 - 1real) by(nonlinear_arith) requires N == w0 * w0 - 1real, d * (1real + w0) == 1real;
    let cN = c * N;
    assert(cN == x0 * N + zeta * (w0 - 1real)) by(nonlinear_arith) requires cN == c * N, c == x0 + zeta * d, N * d == w0 - 1real;
    assert(ec * N == e * cN) by(nonlinear_arith) requires ec == e * c, cN == c * N;
    if i == 0 {
        // w0 u0 - zeta2 = e (w0 w0 x0 + w0 zeta - zeta - cN) = e x0 (w0 w0 - N) = e x0
        let inner = w0 * (w0 * x0 + zeta) - zeta - cN;
        assert(w0 * u0 - zeta2 == e * inner) by(nonlinear_arith)
            requires u0 == e * (w0 * x0 + zeta), zeta2 == e * zeta + e * cN, inner == w0 * (w0 * x0 + zeta) - zeta - cN;
        assert(inner == x0) by(nonlinear_arith)
            requires inner == w0 * (w0 * x0 + zeta) - zeta - cN, cN == x0 * N + zeta * (w0 - 1real), N == w0 * w0 - 1real;
        assert(t[0].v() == (1real / e) * (w0 * u0 - zeta2) + 0real * yb[0].v());
        assert(ie * (e * x0) == x0) by(nonlinear_arith) requires ie * e == 1real;
    } else {
        let c2 = -u0 + zeta2 / (1real + w0);
        assert(zeta2 / (1real + w0) == zeta2 * d) by(nonlinear_arith) requires d == 1real / (1real + w0), w0 > 0real;
        let xi = x[i].v(); let wi = w[i].v(); let ui = u[i].v();
        assert(ui == e * xi + ec * wi);
        assert(t[i].v() == ie * ui + ((ie * c2) * wi + 0real * yb[i].v()));
        // ie c2 = -c
        let q = -(w0 * x0 + zeta) + (zeta + cN) * d;
        assert(c2 == e * q) by(nonlinear_arith)
            requires c2 == -u0 + zeta2 * d, u0 == e * (w0 * x0 + zeta), zeta2 == e * zeta + e * cN, q == -(w0 * x0 + zeta) + (zeta + cN) * d;
        let cNd = cN * d;
        assert(cNd == c * (w0 - 1real)) by(nonlinear_arith) requires cNd == cN * d, cN == c * N, N * d == w0 - 1real;
        assert((zeta + cN) * d == zeta * d + cNd) by(nonlinear_arith) requires cNd == cN * d;
        let zd = zeta * d;
        assert(zd * (1real + w0) == zeta) by(nonlinear_arith) requires zd == zeta * d, d * (1real + w0) == 1real;
        assert(q == -c) by(nonlinear_arith)
            requires q == -(w0 * x0 + zeta) + (zd + cNd), cNd == c * (w0 - 1real), c == x0 + zd, zd * (1real + w0) == zeta;
        assert(ie * c2 == -c) by(nonlinear_arith) requires c2 == e * q, q == -c, ie * e == 1real;
        assert(ie * (e * xi + ec * wi) == xi + c * wi) by(nonlinear_arith) requires ie * e == 1real, ec == e * c;
        assert((-c) * wi == -(c * wi)) by(nonlinear_arith);
    }
}

// ---- (iii) C11: the dense block get_Hs writes, read as the symmetric matrix it packs, applied to x, is what mul_Hs computes
pub open spec fn imin(a: int, b: int) -> int { if a <= b { a } else { b } }
pub open spec fn imax(a: int, b: int) -> int { if a >= b { a } else { b } }
// get_Hs's dense postcondition as a predicate on the packed array
pub open spec fn is_dense_Hs(h: Seq<F>, w: Seq<F>, eta: F) -> bool {
    forall|row: int, col: int| 0 <= row <= col < w.len() ==> h[#[trigger] pk(row, col)] == hs_dense(w, eta, row, col)
}
// sum over j < k of H(i, j) x_j, H(i, j) = the packed entry (min(i, j), max(i, j))
pub open spec fn packed_row_dot(h: Seq<F>, x: Seq<F>, i: int, k: int) -> real decreases k {
    if k <= 0 { 0real } else { packed_row_dot(h, x, i, k - 1) + h[pk(imin(i, k - 1), imax(i, k - 1))].v() * x[k - 1].v() }
}
pub open spec fn jsign(i: int) -> real { if i == 0 { -1real } else { 1real } }
pub proof fn lemma_hs_entry_real(w: Seq<F>, eta: F, row: int, col: int)
    requires 0 <= row <= col < w.len(),
    ensures hs_dense(w, eta, row, col).v() == (2real * (w[row].v() * w[col].v()) + (if row == col { jsign(row) } else { 0real })) * (eta.v() * eta.v()),
{
    broadcast use real_arith, real_sqrt;
    let a = w[row].v(); let b = w[col].v(); let r2 = f_sqrt2().v(); let w0 = w[0].v();
    assert((2real * a) * b == 2real * (a * b)) by(nonlinear_arith);
    if col == 0 {
        let t = r2 * w0;
        assert(t * t == 2real * (w0 * w0)) by(nonlinear_arith) requires t == r2 * w0, r2 * r2 == 2real;
        assert((t - 1real) * (t + 1real) == t * t - 1real) by(nonlinear_arith);
    }
}
pub proof fn lemma_packed_row(h: Seq<F>, x: Seq<F>, w: Seq<F>, eta: F, i: int, k: int)
    requires is_dense_Hs(h, w, eta), x.len() == w.len(), 0 <= i < w.len(), 0 <= k <= w.len(),
    ensures packed_row_dot(h, x, i, k) == (eta.v() * eta.v()) * (2real * (w[i].v() * rdot(w, x, k)) + (if i < k { jsign(i) * x[i].v() } else { 0real })),
    decreases k,
{
    let ee = eta.v() * eta.v(); let wi = w[i].v();
    if k > 0 {
        lemma_packed_row(h, x, w, eta, i, k - 1);
        let j = k - 1; let r = imin(i, j); let c = imax(i, j);
        assert(h[pk(r, c)] == hs_dense(w, eta, r, c));
        lemma_hs_entry_real(w, eta, r, c);
        let wj = w[j].v(); let xj = x[j].v(); let D = rdot(w, x, j);
        assert(w[r].v() * w[c].v() == wi * wj) by(nonlinear_arith) requires (w[r].v() == wi && w[c].v() == wj) || (w[r].v() == wj && w[c].v() == wi);
        let dl = if i == j { jsign(i) } else { 0real };
        let hij = (2real * (wi * wj) + dl) * ee;
        assert(h[pk(r, c)].v() == hij);
        let prev = if i < j { jsign(i) * x[i].v() } else { 0real };
        assert(hij * xj == ee * (2real * (wi * (wj * xj)) + dl * xj)) by(nonlinear_arith) requires hij == (2real * (wi * wj) + dl) * ee;
        assert(ee * (2real * (wi * D) + prev) + ee * (2real * (wi * (wj * xj)) + dl * xj) == ee * (2real * (wi * (D + wj * xj)) + (prev + dl * xj))) by(nonlinear_arith);
    } else {
        assert(ee * (2real * (wi * 0real) + 0real) == 0real) by(nonlinear_arith);
    }
}
pub proof fn lemma_Hs_is_mulHs(h: Seq<F>, x: Seq<F>, w: Seq<F>, eta: F, i: int)
    requires is_dense_Hs(h, w, eta), x.len() == w.len(), 0 <= i < w.len(),
    ensures packed_row_dot(h, x, i, w.len() as int) == mulHs_seq(x, w, eta)[i].v(),
{
    broadcast use real_arith;
    lemma_packed_row(h, x, w, eta, i, w.len() as int);
    lemma_vm_dot_real(w, x);
    let ee = eta.v() * eta.v(); let wi = w[i].v(); let D = rdot(w, x, w.len() as int); let xi = x[i].v();
    let sx = if i == 0 { -x[0].v() } else { x[i].v() };
    assert(mulHs_seq(x, w, eta)[i].v() == ((D * 2real) * wi + 1real * sx) * ee);
    assert(jsign(i) * xi == sx) by(nonlinear_arith) requires (i == 0 && jsign(i) == -1real && sx == -xi) || (i != 0 && jsign(i) == 1real && sx == xi);
    assert(((D * 2real) * wi + 1real * sx) * ee == ee * (2real * (wi * D) + sx)) by(nonlinear_arith);
}

// ---- (iv) C13: Nesterov-Todd identities  W z = W^{-1} s = lambda  for the w, eta, lambda that update_scaling writes
pub open spec fn interior(z: Seq<F>) -> bool { z.len() >= 1 && z[0].v() > 0real && resid_r(z) > 0real }
pub proof fn lemma_sq_inj(a: real, b: real) requires a >= 0real, b >= 0real, a * a == b * b ensures a == b
{
    assert((a - b) * (a + b) == a * a - b * b) by(nonlinear_arith);
    if a + b == 0real { } else {
        assert(a - b == 0real) by(nonlinear_arith) requires (a - b) * (a + b) == 0real, a + b != 0real;
    }
}
pub proof fn lemma_sq_pos(a: real, b: real) requires a >= 0real, a * a == b, b > 0real ensures a > 0real
{
    if a == 0real { assert(a * a == 0real) by(nonlinear_arith) requires a == 0real; }
}
// sqrt_resid of an interior point: the positive root of the residual
pub proof fn lemma_nt_scale(z: Seq<F>)
    requires z.len() >= 1, resid_r(z) > 0real,
    ensures sqrt_resid(z).v() > 0real, sqrt_resid(z).v() * sqrt_resid(z).v() == resid_r(z), !f_eq(sqrt_resid(z), f_zero()),
{
    broadcast use real_arith, real_sqrt;
    lemma_resid_real(z);
    lemma_sq_pos(f_sqrt(soc_resid(z)).v(), resid_r(z));
}
// update_scaling returned true  ==>  the unnormalised w is interior as well
pub proof fn lemma_nt_success(s: Seq<F>, z: Seq<F>)
    requires s.len() >= 1, !f_eq(us_ws(s, z), f_zero()),
    ensures resid_r(us_wa(s, z)) > 0real,
{
    broadcast use real_arith;
    reveal(us_wa);
    lemma_resid_real(us_wa(s, z));
}
pub proof fn lemma_nt_wa_entries(s: Seq<F>, z: Seq<F>)
    requires s.len() >= 1, z.len() == s.len(), resid_r(s) > 0real, resid_r(z) > 0real,
    ensures ({
        let wa = us_wa(s, z); let is = 1real / sqrt_resid(s).v(); let iz = 1real / sqrt_resid(z).v();
        &&& wa.len() == s.len()
        &&& wa[0].v() == is * s[0].v() + iz * z[0].v()
        &&& forall|i: int| 1 <= i < s.len() ==> #[trigger] wa[i].v() == is * s[i].v() + (-iz) * z[i].v()
    }),
{
    broadcast use real_arith;
    reveal(us_wa);
    lemma_nt_scale(s); lemma_nt_scale(z);
    let ss = sqrt_resid(s).v(); let zs = sqrt_resid(z).v(); let is = 1real / ss; let iz = 1real / zs;
    let z0 = z[0].v();
    assert(z0 / zs == iz * z0) by(nonlinear_arith) requires iz == 1real / zs, zs > 0real;
    let wa = us_wa(s, z);
    assert(wa[0].v() == s[0].v() * is + z0 / zs);
    assert(s[0].v() * is == is * s[0].v()) by(nonlinear_arith);
    assert forall|i: int| 1 <= i < s.len() implies #[trigger] wa[i].v() == is * s[i].v() + (-iz) * z[i].v() by {
        let si = s[i].v();
        assert(wa[i].v() == (-iz) * z[i].v() + 1real * (si * is));
        assert(si * is == is * si) by(nonlinear_arith);
    }
}
// a = c1 p + c2 q entry-wise:  <a, p> = c1 <p,p> + c2 <p,q>,  <a, q> = c1 <p,q> + c2 <q,q>,  <a, a> = c1 <a,p> + c2 <a,q>
pub proof fn lemma_rdot_lincomb(a: Seq<F>, p: Seq<F>, q: Seq<F>, c1: real, c2: real, k: int)
    requires 0 <= k, forall|i: int| 0 <= i < k ==> #[trigger] a[i].v() == c1 * p[i].v() + c2 * q[i].v(),
    ensures
        rdot(a, p, k) == c1 * rdot(p, p, k) + c2 * rdot(p, q, k),
        rdot(a, q, k) == c1 * rdot(p, q, k) + c2 * rdot(q, q, k),
        rdot(a, a, k) == c1 * rdot(a, p, k) + c2 * rdot(a, q, k),
{
    lemma_rdot_lin(p, a, p, q, c1, c2, k); lemma_rdot_sym(a, p, k);
    lemma_rdot_lin(q, a, p, q, c1, c2, k); lemma_rdot_sym(a, q, k); lemma_rdot_sym(q, p, k);
    lemma_rdot_lin(a, a, p, q, c1, c2, k);
}
pub proof fn lemma_vm_sumsq_real(a: Seq<F>) ensures vm_sumsq(a).v() == rdot(a, a, a.len() as int)
{
    reveal(vm_sumsq);
    lemma_fold_dot_real(a, a, a.len() as int);
}

pub proof fn lemma_sq_sum(p: real, u: real) ensures (p + u) * (p + u) == p * p + 2real * (p * u) + u * u { assert((p + u) * (p + u) == p * p + 2real * (p * u) + u * u) by(nonlinear_arith); }
pub proof fn lemma_mul4(a: real, b: real, c: real, d: real) ensures (a * b) * (c * d) == (a * c) * (b * d)
{
    let ab = a * b; let cd = c * d; let ac = a * c; let bd = b * d;
    assert(ab * cd == ac * bd) by(nonlinear_arith) requires ab == a * b, cd == c * d, ac == a * c, bd == b * d;
}
pub proof fn lemma_pos_mul(a: real, b: real) requires a > 0real, b > 0real ensures a * b > 0real { assert(a * b > 0real) by(nonlinear_arith) requires a > 0real, b > 0real; }
pub proof fn lemma_inv_pos(a: real) requires a > 0real ensures 1real / a > 0real, (1real / a) * a == 1real
{ assert(1real / a > 0real && (1real / a) * a == 1real) by(nonlinear_arith) requires a > 0real; }
// |s/ss + J z/zs|_J^2 = 2 + 2 <s, z> / (ss zs)   for ss^2 = resid s, zs^2 = resid z
pub proof fn lemma_nt_resid_wa_alg(s0: real, z0: real, S: real, Z: real, C: real, ss: real, zs: real, is: real, iz: real)
    requires is * ss == 1real, iz * zs == 1real, ss * ss == s0 * s0 - S, zs * zs == z0 * z0 - Z,
    ensures ({
        let wa0 = is * s0 + iz * z0; let n2 = is * (is * S + (-iz) * C) + (-iz) * (is * C + (-iz) * Z);
        wa0 * wa0 - n2 == 2real + 2real * ((is * iz) * (s0 * z0 + C))
    }),
{
    let i2 = is * is; let j2 = iz * iz; let ij = is * iz;
    let u = is * s0; let t = iz * z0;
    lemma_sq_sum(u, t);
    lemma_mul4(is, s0, is, s0); lemma_mul4(iz, z0, iz, z0); lemma_mul4(is, s0, iz, z0);
    lemma_dist(is, is * S, (-iz) * C); lemma_dist(-iz, is * C, (-iz) * Z);
    assert(is * (is * S) == i2 * S) by(nonlinear_arith) requires i2 == is * is;
    assert(is * ((-iz) * C) == -(ij * C)) by(nonlinear_arith) requires ij == is * iz;
    assert((-iz) * (is * C) == -(ij * C)) by(nonlinear_arith) requires ij == is * iz;
    assert((-iz) * ((-iz) * Z) == j2 * Z) by(nonlinear_arith) requires j2 == iz * iz;
    lemma_mul4(is, ss, is, ss); lemma_mul4(iz, zs, iz, zs);
    lemma_dist(i2, s0 * s0, -S); lemma_dist(j2, z0 * z0, -Z);
    assert(i2 * (-S) == -(i2 * S)) by(nonlinear_arith); assert(j2 * (-Z) == -(j2 * Z)) by(nonlinear_arith);
    lemma_dist(ij, s0 * z0, C);
    assert(i2 * (ss * ss) == 1real);
    assert(j2 * (zs * zs) == 1real);
}
// the normalised w:  w = wa / ws entry for entry (the recomputed w0 = sqrt(1 + |w1|^2) is wa0 / ws again), w0 > 0, w0^2 - |w1|^2 = 1
pub proof fn lemma_nt_w(s: Seq<F>, z: Seq<F>)
    requires z.len() == s.len(), interior(s), interior(z), resid_r(us_wa(s, z)) > 0real,
    ensures ({
        let wa = us_wa(s, z); let w = us_w(s, z); let ws = us_ws(s, z).v(); let iw = 1real / ws;
        &&& ws > 0real && ws * ws == resid_r(wa) && w.len() == s.len() && wa.len() == s.len()
        &&& forall|i: int| 0 <= i < s.len() ==> #[trigger] w[i].v() == iw * wa[i].v()
        &&& w_normalised(w)
    }),
{
    broadcast use real_arith, real_sqrt;
    reveal(us_wb); reveal(us_w);
    let n = s.len() as int; let m = n - 1;
    let wa = us_wa(s, z); let wb = us_wb(s, z); let w = us_w(s, z);
    lemma_nt_wa_entries(s, z);
    lemma_nt_scale(s); lemma_nt_scale(z); lemma_nt_scale(wa);
    let ws = us_ws(s, z).v(); let iw = 1real / ws;
    lemma_inv_pos(ws); lemma_inv_pos(sqrt_resid(s).v()); lemma_inv_pos(sqrt_resid(z).v());
    let is = 1real / sqrt_resid(s).v(); let iz = 1real / sqrt_resid(z).v();
    assert forall|i: int| 0 <= i < n implies #[trigger] wb[i].v() == iw * wa[i].v() by {
        let a = wa[i].v();
        assert(wb[i].v() == a * iw);
        assert(a * iw == iw * a) by(nonlinear_arith);
    }
    let A = rdot(tail(wa), tail(wa), m);
    assert forall|k: int| 0 <= k < m implies #[trigger] tail(wb)[k].v() == iw * tail(wa)[k].v() + 0real * tail(wa)[k].v() by {
        assert(tail(wb)[k] == wb[k + 1] && tail(wa)[k] == wa[k + 1]);
    }
    lemma_rdot_lincomb(tail(wb), tail(wa), tail(wa), iw, 0real, m);
    let B = rdot(tail(wb), tail(wb), m);
    assert(B == iw * (iw * A)) by {
        assert(rdot(tail(wb), tail(wa), m) == iw * A + 0real * A);
        assert(B == iw * rdot(tail(wb), tail(wa), m) + 0real * rdot(tail(wb), tail(wa), m));
    }
    assert(tail(wb).len() == m);
    lemma_vm_sumsq_real(tail(wb));
    assert(us_w1sq(s, z).v() == B);
    let wa0 = wa[0].v(); let wb0 = wb[0].v();
    lemma_pos_mul(is, s[0].v()); lemma_pos_mul(iz, z[0].v());
    assert(wa0 > 0real);
    lemma_pos_mul(iw, wa0);
    assert(wb0 > 0real);
    // wb0^2 - B = iw^2 (wa0^2 - A) = iw^2 ws^2 = 1
    lemma_mul4(iw, wa0, iw, wa0);
    let i2 = iw * iw;
    assert(iw * (iw * A) == i2 * A) by(nonlinear_arith) requires i2 == iw * iw;
    lemma_dist(i2, wa0 * wa0, -A);
    assert(i2 * (-A) == -(i2 * A)) by(nonlinear_arith);
    lemma_mul4(iw, ws, iw, ws);
    assert(wa0 * wa0 - A == ws * ws);
    assert(wb0 * wb0 - B == 1real);
    let w0 = w[0].v();
    assert(w[0] == f_sqrt(f_add(f_one(), us_w1sq(s, z))));
    assert(f_add(f_one(), us_w1sq(s, z)).v() == wb0 * wb0);
    assert(wb0 * wb0 >= 0real) by(nonlinear_arith);
    assert(w0 >= 0real && w0 * w0 == wb0 * wb0);
    lemma_sq_inj(w0, wb0);
    assert(tail(w) =~= tail(wb));
    assert(resid_r(w) == 1real);
}

// eta = sqrt(ss / zs), rt = sqrt(ss zs):  eta zs = rt = ss / eta
pub proof fn lemma_nt_eta(s: Seq<F>, z: Seq<F>)
    requires s.len() >= 1, z.len() >= 1, resid_r(s) > 0real, resid_r(z) > 0real,
    ensures ({
        let ss = sqrt_resid(s).v(); let zs = sqrt_resid(z).v(); let eta = us_eta(s, z).v(); let rt = f_sqrt(f_mul(sqrt_resid(s), sqrt_resid(z))).v();
        eta > 0real && rt > 0real && eta * zs == rt && (1real / eta) * ss == rt && eta == rt * (1real / zs) && 1real / eta == rt * (1real / ss)
    }),
{
    broadcast use real_arith, real_sqrt;
    lemma_nt_scale(s); lemma_nt_scale(z);
    let ss = sqrt_resid(s).v(); let zs = sqrt_resid(z).v(); let eta = us_eta(s, z).v(); let rt = f_sqrt(f_mul(sqrt_resid(s), sqrt_resid(z))).v();
    let q = ss / zs; let pr = ss * zs;
    assert(q > 0real && q * zs == ss) by(nonlinear_arith) requires q == ss / zs, ss > 0real, zs > 0real;
    lemma_pos_mul(ss, zs);
    assert(eta >= 0real && eta * eta == q);
    assert(rt >= 0real && rt * rt == pr);
    lemma_sq_pos(eta, q); lemma_sq_pos(rt, pr);
    // (eta zs)^2 = q zs zs = ss zs
    let ez = eta * zs;
    lemma_mul4(eta, zs, eta, zs);
    assert(q * (zs * zs) == pr) by(nonlinear_arith) requires q * zs == ss, pr == ss * zs;
    lemma_pos_mul(eta, zs);
    lemma_sq_inj(ez, rt);
    // eta rt = eta eta zs = q zs = ss
    assert(eta * rt == ss) by(nonlinear_arith) requires rt == eta * zs, eta * eta == q, q * zs == ss;
    lemma_inv_pos(eta); lemma_inv_pos(zs); lemma_inv_pos(ss);
    let ie = 1real / eta; let iz = 1real / zs; let is = 1real / ss;
    assert(ie * ss == rt) by(nonlinear_arith) requires eta * rt == ss, ie * eta == 1real;
    assert(eta == rt * iz) by(nonlinear_arith) requires eta * zs == rt, iz * zs == 1real;
    assert(ie == rt * is) by(nonlinear_arith) requires ie * ss == rt, is * ss == 1real;
}
// lambda as written by update_scaling, with g = ws / 2, Gz = g + z0 / zs, Gs = g + s0 / ss, D = Gz + Gs
pub proof fn lemma_nt_lambda_entries(s: Seq<F>, z: Seq<F>)
    requires z.len() == s.len(), interior(s), interior(z), resid_r(us_wa(s, z)) > 0real,
    ensures ({
        let lam = us_lambda(s, z); let is = 1real / sqrt_resid(s).v(); let iz = 1real / sqrt_resid(z).v();
        let g = us_gamma(s, z).v(); let rt = f_sqrt(f_mul(sqrt_resid(s), sqrt_resid(z))).v();
        let gz = g + iz * z[0].v(); let gs = g + is * s[0].v(); let cinv = 1real / (gz + gs);
        &&& lam.len() == s.len() && 2real * g == us_ws(s, z).v() && gz > 0real && gs > 0real
        &&& lam[0].v() == g * rt
        &&& forall|i: int| 1 <= i < s.len() ==> #[trigger] lam[i].v() == (((gz * is) * s[i].v() + (gs * iz) * z[i].v()) * cinv) * rt
    }),
{
    broadcast use real_arith, real_sqrt;
    reveal(us_lambda);
    lemma_nt_scale(s); lemma_nt_scale(z); lemma_nt_w(s, z);
    let ss = sqrt_resid(s).v(); let zs = sqrt_resid(z).v(); let is = 1real / ss; let iz = 1real / zs;
    lemma_inv_pos(ss); lemma_inv_pos(zs);
    let g = us_gamma(s, z).v(); let ws = us_ws(s, z).v(); let h = f_lit(0.5f64).v();
    assert(g == h * ws);
    assert(2real * g == ws) by(nonlinear_arith) requires g == h * ws, h * 2real == 1real;
    let s0 = s[0].v(); let z0 = z[0].v();
    assert(z0 / zs == iz * z0) by(nonlinear_arith) requires iz == 1real / zs, zs > 0real;
    assert(s0 / ss == is * s0) by(nonlinear_arith) requires is == 1real / ss, ss > 0real;
    lemma_pos_mul(iz, z0); lemma_pos_mul(is, s0);
    let gz = g + iz * z0; let gs = g + is * s0;
    assert((g + z0 / zs) / ss == gz * is) by(nonlinear_arith) requires gz == g + z0 / zs, is == 1real / ss, ss > 0real;
    assert((g + s0 / ss) / zs == gs * iz) by(nonlinear_arith) requires gs == g + s0 / ss, iz == 1real / zs, zs > 0real;
    assert((is * s0 + iz * z0) + 2real * g == gz + gs);
}

// head of W z resp. W^{-1} s, generic in (a, b) = (z, s) resp. (s, z):  iw ((ia a0 + ib b0) a0) + (iw ib) <a1,b1> - (iw ia) |a1|^2 = sa g
pub proof fn lemma_nt_head_alg(a0: real, b0: real, aa: real, cc: real, sa: real, ia: real, ib: real, iw: real, ws: real, g: real)
    requires ia * sa == 1real, sa * sa == a0 * a0 - aa, iw * ws == 1real, 2real * g == ws,
        ws * ws == 2real + 2real * ((ia * ib) * (a0 * b0 + cc)),
    ensures iw * ((ia * a0 + ib * b0) * a0) + ((iw * ib) * cc - (iw * ia) * aa) == sa * g,
{
    let A = a0 * b0 + cc; let kap = (ia * ib) * A; let k1 = kap + 1real;
    // (ia a0 + ib b0) a0 = ia (a0 a0) + ib (a0 b0)
    let p1 = ia * (a0 * a0); let p2 = ib * (a0 * b0); let p3 = ib * cc; let p4 = ia * aa;
    assert((ia * a0 + ib * b0) * a0 == p1 + p2) by(nonlinear_arith) requires p1 == ia * (a0 * a0), p2 == ib * (a0 * b0);
    assert((iw * ib) * cc == iw * p3) by(nonlinear_arith) requires p3 == ib * cc;
    assert((iw * ia) * aa == iw * p4) by(nonlinear_arith) requires p4 == ia * aa;
    lemma_dist(iw, p1 + p2, p3 - p4);
    assert(iw * (p3 - p4) == iw * p3 - iw * p4) by(nonlinear_arith);
    // p1 - p4 = ia (sa sa) = sa;   p2 + p3 = ib A = sa kap
    lemma_dist(ia, a0 * a0, -aa);
    assert(ia * (-aa) == -p4) by(nonlinear_arith) requires p4 == ia * aa;
    assert(ia * (sa * sa) == sa) by(nonlinear_arith) requires ia * sa == 1real;
    lemma_dist(ib, a0 * b0, cc);
    let ibA = ib * A;
    assert(sa * kap == ibA) by(nonlinear_arith) requires kap == (ia * ib) * A, ia * sa == 1real, ibA == ib * A;
    assert((p1 + p2) + (p3 - p4) == sa * k1) by(nonlinear_arith) requires p1 - p4 == sa, p2 + p3 == sa * kap, k1 == kap + 1real;
    // iw k1 = g
    assert(2real * k1 == ws * ws);
    assert(iw * (ws * ws) == ws) by(nonlinear_arith) requires iw * ws == 1real;
    let ik = iw * k1;
    assert(2real * ik == ws) by(nonlinear_arith) requires ik == iw * k1, 2real * k1 == ws * ws, iw * (ws * ws) == ws;
    assert(ik == g);
    lemma_mul_swap(iw, sa, k1);
}
// the coefficient E = ia c iw of (is s_i - iz z_i) in the tail, where c (1 + w0) = a0 + sa g:  E D = g + ia a0
pub proof fn lemma_nt_E_alg(a0: real, sa: real, ia: real, c: real, w0: real, iw: real, dd: real, g: real)
    requires ia * sa == 1real, c * (1real + w0) == a0 + sa * g, iw * dd == 1real + w0,
    ensures ((ia * c) * iw) * dd == g + ia * a0,
{
    let iac = ia * c; let w1 = 1real + w0;
    assert((iac * iw) * dd == iac * w1) by(nonlinear_arith) requires iw * dd == w1;
    assert(iac * w1 == ia * (c * w1)) by(nonlinear_arith) requires iac == ia * c;
    lemma_dist(ia, a0, sa * g);
    assert(ia * (sa * g) == g) by(nonlinear_arith) requires ia * sa == 1real;
}
// rt Y + (rt E)(X - Y) = ((Gz X + Gs Y) cinv) rt   when E D = Gz, D = Gz + Gs, cinv D = 1
pub proof fn lemma_nt_tail_alg(rt: real, e: real, cinv: real, gz: real, gs: real, dd: real, x: real, y: real)
    requires e * dd == gz, dd == gz + gs, cinv * dd == 1real,
    ensures rt * y + (rt * e) * (x - y) == ((gz * x + gs * y) * cinv) * rt,
{
    assert(e == gz * cinv) by(nonlinear_arith) requires e * dd == gz, cinv * dd == 1real;
    let f = gs * cinv;
    assert(e + f == 1real) by(nonlinear_arith) requires e == gz * cinv, f == gs * cinv, dd == gz + gs, cinv * dd == 1real;
    let ex = e * x; let fy = f * y;
    assert(y + e * (x - y) == ex + fy) by(nonlinear_arith) requires e + f == 1real, ex == e * x, fy == f * y;
    assert((gz * x + gs * y) * cinv == ex + fy) by(nonlinear_arith) requires e == gz * cinv, f == gs * cinv, ex == e * x, fy == f * y;
    let inner = y + e * (x - y);
    lemma_dist(rt, y, e * (x - y));
    lemma_mul_swap(rt, e, x - y);
    assert((rt * e) * (x - y) == e * (rt * (x - y))) by(nonlinear_arith);
    assert(inner * rt == rt * inner) by(nonlinear_arith);
}

// the facts shared by the two identities, collected once
pub open spec fn nt_S(s: Seq<F>) -> real { rdot(tail(s), tail(s), s.len() - 1) }
pub open spec fn nt_C(s: Seq<F>, z: Seq<F>) -> real { rdot(tail(s), tail(z), s.len() - 1) }
pub proof fn lemma_nt_common(s: Seq<F>, z: Seq<F>)
    requires z.len() == s.len(), interior(s), interior(z), resid_r(us_wa(s, z)) > 0real,
    ensures ({
        let w = us_w(s, z); let ss = sqrt_resid(s).v(); let zs = sqrt_resid(z).v(); let ws = us_ws(s, z).v();
        let is = 1real / ss; let iz = 1real / zs; let iw = 1real / ws; let m = s.len() - 1;
        let S = nt_S(s); let Z = nt_S(z); let C = nt_C(s, z);
        &&& ss > 0real && zs > 0real && ws > 0real && is * ss == 1real && iz * zs == 1real && iw * ws == 1real && is > 0real && iz > 0real && iw > 0real
        &&& ss * ss == s[0].v() * s[0].v() - S && zs * zs == z[0].v() * z[0].v() - Z
        &&& ws * ws == 2real + 2real * ((is * iz) * (s[0].v() * z[0].v() + C))
        &&& w.len() == s.len() && w_normalised(w) && w[0].v() == iw * (is * s[0].v() + iz * z[0].v())
        &&& forall|i: int| 1 <= i < s.len() ==> #[trigger] w[i].v() == iw * (is * s[i].v() - iz * z[i].v())
        &&& rdot(tail(w), tail(s), m) == (iw * is) * S + (iw * (-iz)) * C
        &&& rdot(tail(w), tail(z), m) == (iw * is) * C + (iw * (-iz)) * Z
    }),
{
    let n = s.len() as int; let m = n - 1;
    let w = us_w(s, z); let wa = us_wa(s, z);
    lemma_nt_w(s, z); lemma_nt_wa_entries(s, z); lemma_nt_scale(s); lemma_nt_scale(z);
    let ss = sqrt_resid(s).v(); let zs = sqrt_resid(z).v(); let ws = us_ws(s, z).v();
    lemma_inv_pos(ss); lemma_inv_pos(zs); lemma_inv_pos(ws);
    let is = 1real / ss; let iz = 1real / zs; let iw = 1real / ws;
    let S = nt_S(s); let Z = nt_S(z); let C = nt_C(s, z);
    let ts = tail(s); let tz = tail(z); let twa = tail(wa); let tw = tail(w);
    assert(ts.len() == m && tz.len() == m && twa.len() == m && tw.len() == m);
    assert forall|k: int| 0 <= k < m implies #[trigger] twa[k].v() == is * ts[k].v() + (-iz) * tz[k].v() by {
        assert(twa[k] == wa[k + 1] && ts[k] == s[k + 1] && tz[k] == z[k + 1]);
    }
    lemma_rdot_lincomb(twa, ts, tz, is, -iz, m);
    lemma_nt_resid_wa_alg(s[0].v(), z[0].v(), S, Z, C, ss, zs, is, iz);
    let c1 = iw * is; let c2 = iw * (-iz);
    assert forall|i: int| 1 <= i < n implies #[trigger] w[i].v() == iw * (is * s[i].v() - iz * z[i].v()) by {
        let zi = z[i].v();
        assert((-iz) * zi == -(iz * zi)) by(nonlinear_arith);
    }
    assert forall|k: int| 0 <= k < m implies #[trigger] tw[k].v() == c1 * ts[k].v() + c2 * tz[k].v() by {
        assert(tw[k] == w[k + 1] && ts[k] == s[k + 1] && tz[k] == z[k + 1] && twa[k] == wa[k + 1]);
        let sk = ts[k].v(); let zk = tz[k].v();
        lemma_dist(iw, is * sk, (-iz) * zk);
        assert(iw * (is * sk) == c1 * sk) by(nonlinear_arith) requires c1 == iw * is;
        assert(iw * ((-iz) * zk) == c2 * zk) by(nonlinear_arith) requires c2 == iw * (-iz);
    }
    lemma_rdot_lincomb(tw, ts, tz, c1, c2, m);
}
// W z = lambda
pub proof fn lemma_nt_Wz(s: Seq<F>, z: Seq<F>, ya: Seq<F>, i: int)
    requires z.len() == s.len(), interior(s), interior(z), resid_r(us_wa(s, z)) > 0real, ya.len() == s.len(), 0 <= i < s.len(),
    ensures mulW_seq(ya, z, f_one(), f_zero(), us_w(s, z), us_eta(s, z))[i].v() == us_lambda(s, z)[i].v(),
{
    let n = s.len() as int; let m = n - 1;
    let w = us_w(s, z); let eta = us_eta(s, z);
    lemma_nt_common(s, z); lemma_nt_eta(s, z); lemma_nt_lambda_entries(s, z);
    let ss = sqrt_resid(s).v(); let zs = sqrt_resid(z).v(); let ws = us_ws(s, z).v();
    let is = 1real / ss; let iz = 1real / zs; let iw = 1real / ws;
    let S = nt_S(s); let Z = nt_S(z); let C = nt_C(s, z);
    let s0 = s[0].v(); let z0 = z[0].v(); let w0 = w[0].v(); let e = eta.v();
    let g = us_gamma(s, z).v(); let rt = f_sqrt(f_mul(sqrt_resid(s), sqrt_resid(z))).v();
    let gz = g + iz * z0; let gs = g + is * s0; let dd = gz + gs; let cinv = 1real / dd;
    lemma_mulW_entries(ya, z, f_one(), f_zero(), w, eta);
    let u = mulW_seq(ya, z, f_one(), f_zero(), w, eta);
    let zeta = rdot(tail(w), tail(z), m);
    broadcast use real_arith;
    // head:  w0 z0 + zeta = zs g
    assert((iz * is) * (z0 * s0 + C) == (is * iz) * (s0 * z0 + C)) by(nonlinear_arith);
    lemma_nt_head_alg(z0, s0, Z, C, zs, iz, is, iw, ws, g);
    let wa0 = iz * z0 + is * s0;
    assert(w0 * z0 == iw * (wa0 * z0)) by(nonlinear_arith) requires w0 == iw * wa0;
    assert((iw * (-iz)) * Z == -((iw * iz) * Z)) by(nonlinear_arith);
    let hd = w0 * z0 + zeta;
    assert(hd == zs * g);
    if i == 0 {
        assert(u[0].v() == (1real * e) * hd + 0real * ya[0].v());
        assert(e * (zs * g) == (e * zs) * g) by(nonlinear_arith);
        assert(g * rt == rt * g) by(nonlinear_arith);
    } else {
        let w1 = 1real + w0;
        lemma_inv_pos(w1);
        let d1 = 1real / w1;
        let c = z0 + zeta / w1;
        assert(zeta / w1 == zeta * d1) by(nonlinear_arith) requires d1 == 1real / w1, w1 > 0real;
        assert(c * w1 == z0 + zs * g) by(nonlinear_arith) requires c == z0 + zeta * d1, d1 * w1 == 1real, w1 == 1real + w0, w0 * z0 + zeta == zs * g;
        // iw D = 1 + w0
        assert(iw * dd == w1) by(nonlinear_arith) requires dd == (is * s0 + iz * z0) + 2real * g, 2real * g == ws, iw * ws == 1real, w0 == iw * (is * s0 + iz * z0), w1 == 1real + w0;
        lemma_nt_E_alg(z0, zs, iz, c, w0, iw, dd, g);
        let ee = (iz * c) * iw;
        lemma_pos_mul(1real, dd);
        lemma_inv_pos(dd);
        let x = is * s[i].v(); let y = iz * z[i].v();
        lemma_nt_tail_alg(rt, ee, cinv, gz, gs, dd, x, y);
        let zi = z[i].v(); let si = s[i].v(); let wi = w[i].v();
        assert(wi == iw * (x - y));
        assert(u[i].v() == (1real * e) * zi + (((1real * e) * c) * wi + 0real * ya[i].v()));
        assert(e * zi == rt * y) by(nonlinear_arith) requires e == rt * iz, y == iz * zi;
        assert((e * c) * wi == (rt * ee) * (x - y)) by(nonlinear_arith) requires e == rt * iz, ee == (iz * c) * iw, wi == iw * (x - y);
        assert((gz * is) * si == gz * x) by(nonlinear_arith) requires x == is * si;
        assert((gs * iz) * zi == gs * y) by(nonlinear_arith) requires y == iz * zi;
    }
}

// W^{-1} s = lambda
pub proof fn lemma_nt_Winvs(s: Seq<F>, z: Seq<F>, yb: Seq<F>, i: int)
    requires z.len() == s.len(), interior(s), interior(z), resid_r(us_wa(s, z)) > 0real, yb.len() == s.len(), 0 <= i < s.len(),
    ensures mulWinv_seq(yb, s, f_one(), f_zero(), us_w(s, z), us_eta(s, z))[i].v() == us_lambda(s, z)[i].v(),
{
    let n = s.len() as int; let m = n - 1;
    let w = us_w(s, z); let eta = us_eta(s, z);
    lemma_nt_common(s, z); lemma_nt_eta(s, z); lemma_nt_lambda_entries(s, z);
    let ss = sqrt_resid(s).v(); let zs = sqrt_resid(z).v(); let ws = us_ws(s, z).v();
    let is = 1real / ss; let iz = 1real / zs; let iw = 1real / ws;
    let S = nt_S(s); let Z = nt_S(z); let C = nt_C(s, z);
    let s0 = s[0].v(); let z0 = z[0].v(); let w0 = w[0].v(); let e = eta.v(); let ie = 1real / e;
    let g = us_gamma(s, z).v(); let rt = f_sqrt(f_mul(sqrt_resid(s), sqrt_resid(z))).v();
    let gz = g + iz * z0; let gs = g + is * s0; let dd = gz + gs; let cinv = 1real / dd;
    lemma_mulWinv_entries(yb, s, f_one(), f_zero(), w, eta);
    let t = mulWinv_seq(yb, s, f_one(), f_zero(), w, eta);
    let zeta = rdot(tail(w), tail(s), m);
    broadcast use real_arith;
    assert(1real / e == ie);
    // head:  w0 s0 - zeta = ss g
    lemma_nt_head_alg(s0, z0, S, C, ss, is, iz, iw, ws, g);
    let wa0 = is * s0 + iz * z0;
    assert(w0 * s0 == iw * (wa0 * s0)) by(nonlinear_arith) requires w0 == iw * wa0;
    assert((iw * (-iz)) * C == -((iw * iz) * C)) by(nonlinear_arith);
    let hd = w0 * s0 - zeta;
    assert(hd == ss * g);
    if i == 0 {
        assert(t[0].v() == ie * hd + 0real * yb[0].v());
        assert(ie * (ss * g) == (ie * ss) * g) by(nonlinear_arith);
        assert(g * rt == rt * g) by(nonlinear_arith);
    } else {
        let w1 = 1real + w0;
        lemma_inv_pos(w1);
        let d1 = 1real / w1;
        let c = -s0 + zeta / w1;
        assert(zeta / w1 == zeta * d1) by(nonlinear_arith) requires d1 == 1real / w1, w1 > 0real;
        let cc = -c;
        assert(cc * w1 == s0 + ss * g) by(nonlinear_arith) requires cc == s0 - zeta * d1, d1 * w1 == 1real, w1 == 1real + w0, w0 * s0 - zeta == ss * g;
        assert(iw * dd == w1) by(nonlinear_arith) requires dd == (is * s0 + iz * z0) + 2real * g, 2real * g == ws, iw * ws == 1real, w0 == iw * (is * s0 + iz * z0), w1 == 1real + w0;
        lemma_nt_E_alg(s0, ss, is, cc, w0, iw, dd, g);
        let e1 = (is * c) * iw;
        assert(e1 == -((is * cc) * iw)) by(nonlinear_arith) requires cc == -c, e1 == (is * c) * iw;
        let f1 = (is * cc) * iw;
        assert(e1 * dd == -gs) by(nonlinear_arith) requires e1 == -f1, f1 * dd == gs;
        let e2 = 1real + e1;
        assert(e2 * dd == gz) by(nonlinear_arith) requires e2 == 1real + e1, e1 * dd == -gs, dd == gz + gs;
        lemma_pos_mul(1real, dd);
        lemma_inv_pos(dd);
        let x = is * s[i].v(); let y = iz * z[i].v();
        lemma_nt_tail_alg(rt, e2, cinv, gz, gs, dd, x, y);
        let zi = z[i].v(); let si = s[i].v(); let wi = w[i].v();
        assert(wi == iw * (x - y));
        assert(t[i].v() == ie * si + ((ie * c) * wi + 0real * yb[i].v()));
        assert(ie * si == rt * x) by(nonlinear_arith) requires ie == rt * is, x == is * si;
        assert((ie * c) * wi == (rt * e1) * (x - y)) by(nonlinear_arith) requires ie == rt * is, e1 == (is * c) * iw, wi == iw * (x - y);
        // rt x + (rt e1)(x - y) = rt y + (rt e2)(x - y)
        let xy = x - y;
        lemma_dist(rt, 1real, e1);
        assert((rt * 1real + rt * e1) * xy == rt * xy + (rt * e1) * xy) by(nonlinear_arith);
        assert(rt * xy == rt * x - rt * y) by(nonlinear_arith) requires xy == x - y;
        assert((gz * is) * si == gz * x) by(nonlinear_arith) requires x == is * si;
        assert((gs * iz) * zi == gs * y) by(nonlinear_arith) requires y == iz * zi;
    }
}
// C13 for the second-order cone, stated over the postcondition of update_scaling: if it returns true for interior s, z, then the
// (w, eta, lambda) it wrote satisfy  w0 > 0, w0^2 - |w1|^2 = 1, eta > 0,  mul_W(z) = mul_Winv(s) = lambda  (alpha = 1, beta = 0)
pub proof fn lemma_nt_identities(s: Seq<F>, z: Seq<F>, ya: Seq<F>, yb: Seq<F>, i: int)
    requires z.len() == s.len(), interior(s), interior(z), ya.len() == s.len(), yb.len() == s.len(), 0 <= i < s.len(),
        !(us_not_interior(s, z) || f_eq(us_ws(s, z), f_zero())),        // update_scaling returned true
    ensures
        w_normalised(us_w(s, z)), us_eta(s, z).v() > 0real,
        mulW_seq(ya, z, f_one(), f_zero(), us_w(s, z), us_eta(s, z))[i].v() == us_lambda(s, z)[i].v(),
        mulWinv_seq(yb, s, f_one(), f_zero(), us_w(s, z), us_eta(s, z))[i].v() == us_lambda(s, z)[i].v(),
{
    lemma_nt_success(s, z);
    lemma_nt_common(s, z); lemma_nt_eta(s, z);
    lemma_nt_Wz(s, z, ya, i); lemma_nt_Winvs(s, z, yb, i);
}

// ---- (v) C11, sparse form: the expansion constants d, u, v that update_scaling writes satisfy  D + u u' - v v' = 2 w w' - J,
//      D = diag(d, 1, .., 1)  (so that eta^2 (D + u u' - v v'), the block assembled from get_Hs's diagonal and the u / v columns,
//      is the operator of the dense form and of mul_Hs)
pub proof fn lemma_sparse_alg(w0: real, q: real, d: real, iq: real, u0: real, u1: real, v1: real)
    requires q == 2real * (w0 * w0) - 1real, q >= 1real, iq * q == 1real, 2real * d == iq, u0 * u0 == q - d, u1 * u0 == 2real * w0,
        (v1 * v1) * (2real * q - iq) == 2real * (2real + iq),
    ensures d + u0 * u0 == q, u1 * u1 - v1 * v1 == 2real,
{
    let qq = q * q; let r = 2real * qq - 1real;
    assert(qq >= 1real) by(nonlinear_arith) requires q >= 1real, qq == q * q;
    let a = u1 * u1; let b = v1 * v1; let ww = w0 * w0;
    // (q - d) 2 q = r
    let dq = d * q;
    assert(2real * dq == 1real) by(nonlinear_arith) requires 2real * d == iq, iq * q == 1real, dq == d * q;
    let t = q - d;
    assert(t * (2real * q) == r) by(nonlinear_arith) requires t == q - d, dq == d * q, 2real * dq == 1real, r == 2real * qq - 1real, qq == q * q;
    // a t = 4 w0 w0 = 2 (q + 1)
    lemma_mul4(u1, u0, u1, u0);
    assert((u1 * u0) * (u1 * u0) == 4real * ww) by(nonlinear_arith) requires u1 * u0 == 2real * w0, ww == w0 * w0;
    assert(a * t == 2real * (q + 1real));
    // a r = a t 2 q = 4 q (q + 1)
    let at = a * t;
    assert(a * r == at * (2real * q)) by(nonlinear_arith) requires at == a * t, t * (2real * q) == r;
    assert(at * (2real * q) == 4real * qq + 4real * q) by(nonlinear_arith) requires at == 2real * (q + 1real), qq == q * q;
    // b r = b (2 q - iq) q = (4 + 2 iq) q = 4 q + 2
    let den = 2real * q - iq;
    assert(den * q == r) by(nonlinear_arith) requires den == 2real * q - iq, iq * q == 1real, r == 2real * qq - 1real, qq == q * q;
    let bd = b * den;
    assert(b * r == bd * q) by(nonlinear_arith) requires bd == b * den, den * q == r;
    assert(bd * q == 4real * q + 2real) by(nonlinear_arith) requires bd == 2real * (2real + iq), iq * q == 1real;
    // (a - b) r = 2 r
    let ab = a - b;
    assert(ab * r == 2real * r) by(nonlinear_arith) requires ab == a - b, a * r == 4real * qq + 4real * q, b * r == 4real * q + 2real, r == 2real * qq - 1real;
    assert(ab == 2real) by(nonlinear_arith) requires ab * r == 2real * r, r >= 1real;
}
pub proof fn lemma_sparse_expansion(s: Seq<F>, z: Seq<F>, u_old: Seq<F>, v_old: Seq<F>, i: int, j: int)
    requires s.len() >= 1, w_normalised(us_w(s, z)), us_w(s, z).len() == s.len(), u_old.len() == s.len(), v_old.len() == s.len(), 0 <= i <= j < s.len(),
    ensures ({
        let w = us_w(s, z); let u = us_u(s, z, u_old); let v = us_v(s, z, v_old);
        (if i == j { if i == 0 { us_d(s, z).v() } else { 1real } } else { 0real }) + u[i].v() * u[j].v() - v[i].v() * v[j].v()
            == 2real * (w[i].v() * w[j].v()) + (if i == j { jsign(i) } else { 0real })
    }),
{
    broadcast use real_arith, real_sqrt;
    reveal(us_wb); reveal(us_w); reveal(us_u); reveal(us_v);
    let n = s.len() as int; let m = n - 1;
    let w = us_w(s, z); let u = us_u(s, z, u_old); let v = us_v(s, z, v_old);
    let w0 = w[0].v(); let ww = w0 * w0;
    // w1sq = |w1|^2 = w0^2 - 1
    assert(tail(w) =~= tail(us_wb(s, z)));
    assert(tail(w).len() == m);
    lemma_vm_sumsq_real(tail(us_wb(s, z)));
    lemma_rdot_sq_nonneg(tail(w), m);
    let n1 = us_w1sq(s, z).v();
    assert(n1 == ww - 1real && n1 >= 0real);
    let q = us_wsq(s, z).v();
    assert(q == ww + n1);
    assert(q == 2real * ww - 1real && q >= 1real);
    lemma_inv_pos(q);
    let iq = 1real / q;
    let h = f_lit(0.5f64).v();
    let d = us_d(s, z).v();
    assert(d == h * iq);
    assert(2real * d == iq) by(nonlinear_arith) requires d == h * iq, h * 2real == 1real;
    assert(iq <= 1real) by(nonlinear_arith) requires iq * q == 1real, q >= 1real, iq > 0real;
    let u0 = us_u0(s, z).v();
    assert(q - d > 0real);
    assert(u0 >= 0real && u0 * u0 == q - d);
    lemma_sq_pos(u0, q - d);
    let u1 = us_u1(s, z).v();
    assert(u1 == (2real * w0) / u0);
    assert(u1 * u0 == 2real * w0) by(nonlinear_arith) requires u1 == (2real * w0) / u0, u0 > 0real;
    let num = 2real * (2real + iq); let den = 2real * q - iq;
    assert(den > 0real && num > 0real);
    let v1 = us_v1(s, z).v();
    let fr = num / den;
    assert(fr >= 0real && fr * den == num) by(nonlinear_arith) requires fr == num / den, den > 0real, num > 0real;
    assert(v1 * v1 == fr);
    assert((v1 * v1) * den == num);
    lemma_sparse_alg(w0, q, d, iq, u0, u1, v1);
    let wi = w[i].v(); let wj = w[j].v();
    if j == 0 {
        assert(v[0].v() == 0real);
        assert(0real * 0real == 0real) by(nonlinear_arith);
    } else if i == 0 {
        assert(u[j].v() == u1 * wj + 0real * u_old[j].v());
        assert(v[0].v() == 0real);
        assert(u0 * (u1 * wj) == 2real * (w0 * wj)) by(nonlinear_arith) requires u1 * u0 == 2real * w0;
        assert(0real * v[j].v() == 0real) by(nonlinear_arith);
    } else {
        assert(u[i].v() == u1 * wi + 0real * u_old[i].v() && u[j].v() == u1 * wj + 0real * u_old[j].v());
        assert(v[i].v() == v1 * wi + 0real * v_old[i].v() && v[j].v() == v1 * wj + 0real * v_old[j].v());
        lemma_mul4(u1, wi, u1, wj); lemma_mul4(v1, wi, v1, wj);
        let a = u1 * u1; let b = v1 * v1; let pw = wi * wj;
        assert(a * pw - b * pw == 2real * pw) by(nonlinear_arith) requires a - b == 2real;
    }
}

} // verus!
fn main() {}
